#!/usr/bin/env python3
"""Mutation self-test of the checker (not a registered check).

For every mutant in selftest/mutants.json: take a scratch git worktree of /repo (outside /repo
and /verif), apply one small edit, make sure the tree still compiles, run the property's check
against the scratch tree and require a VIOLATION that names the expected rule (and function).
The scratch worktree is removed at the end. Results go to SELFTEST.md when --write is given.

usage: tools/selftest.py [--only ID[,ID]] [--write] [--keep]
"""
import json, os, subprocess, sys, shutil, time

ROOT = os.path.dirname(os.path.dirname(os.path.abspath(__file__)))
REPO = os.environ.get("VERIF_REPO", "/repo")
SCR = "/tmp/bverif-selftest"
OUT = "/tmp/bverif-selftest-out"
ENV = dict(os.environ, GOFLAGS="-mod=mod", GOPROXY="off", GOSUMDB="off", GOTOOLCHAIN="local", GOWORK="off")

def sh(cmd, cwd=None, check=True):
    p = subprocess.run(cmd, shell=True, cwd=cwd, env=ENV, stdout=subprocess.PIPE, stderr=subprocess.STDOUT, text=True)
    if check and p.returncode != 0:
        raise SystemExit("command failed: %s\n%s" % (cmd, p.stdout))
    return p.returncode, p.stdout

def main():
    global REPO, SCR, OUT
    only = None
    prop = None
    write = "--write" in sys.argv
    keep = "--keep" in sys.argv
    if "--only" in sys.argv:
        only = set(sys.argv[sys.argv.index("--only") + 1].split(","))
    if "--property" in sys.argv:
        prop = sys.argv[sys.argv.index("--property") + 1]
    if "--repo" in sys.argv:
        REPO = sys.argv[sys.argv.index("--repo") + 1]
    if "--tag" in sys.argv:
        tag = sys.argv[sys.argv.index("--tag") + 1]
        SCR, OUT = SCR + "-" + tag, OUT + "-" + tag
    benign = "--benign" in sys.argv
    muts = json.load(open(os.path.join(ROOT, "selftest", "benign.json" if benign else "mutants.json")))
    sh("./check C19 quick >/dev/null 2>&1 || true", cwd=ROOT, check=False)  # make sure the binary is built
    sh("git -C %s worktree remove --force %s 2>/dev/null; rm -rf %s %s" % (REPO, SCR, SCR, OUT), check=False)
    sh("git -C %s worktree add -q --detach %s HEAD" % (REPO, SCR))
    sh("git -C %s diff HEAD > %s/.wt.diff; cd %s && (test -s .wt.diff && git apply .wt.diff && git add -A && git -c user.email=x -c user.name=x commit -qm wt || true); rm -f .wt.diff" % (REPO, SCR, SCR), check=False)
    os.makedirs(OUT, exist_ok=True)
    shutil.copy(os.path.join(ROOT, "known_findings.txt"), OUT) if os.path.exists(os.path.join(ROOT, "known_findings.txt")) else None
    rows = []
    bad = 0
    try:
        for m in muts:
            if only and m["id"] not in only:
                continue
            if prop and m["property"] != prop:
                continue
            sh("git checkout -q -- . && git clean -fdq", cwd=SCR)
            if "patch" in m:
                rc, out = sh("git apply %s" % os.path.join(ROOT, m["patch"]), cwd=SCR, check=False)
                if rc != 0:
                    rows.append((m, "STALE", "patch does not apply"))
                    bad += 1
                    print("%-8s STALE (patch does not apply)" % m["id"])
                    continue
                m = dict(m, old="", new="")
            path = os.path.join(SCR, m.get("file", "go.mod"))
            src = open(path).read()
            if "patch" in m:
                pass
            elif src.count(m["old"]) != 1:
                rows.append((m, "STALE", "anchor text occurs %d times" % src.count(m["old"])))
                bad += 1
                print("%-8s STALE (old text occurs %d times)" % (m["id"], src.count(m["old"])))
                continue
            if "patch" not in m:
                src = src.replace(m["old"], m["new"])
            if "old2" in m:
                if src.count(m["old2"]) != 1:
                    rows.append((m, "STALE", "second anchor text occurs %d times" % src.count(m["old2"])))
                    bad += 1
                    print("%-8s STALE (old2 occurs %d times)" % (m["id"], src.count(m["old2"])))
                    continue
                src = src.replace(m["old2"], m["new2"])
            open(path, "w").write(src)
            rc, out = sh("go build ./... 2>&1 | head -5", cwd=SCR, check=False)
            rc = 0
            rc2, out2 = rc, out
            if out.strip():
                rc2 = 1
            if rc2 != 0:
                rows.append((m, "NOCOMPILE", out.strip()[:200]))
                bad += 1
                print("%-8s NOCOMPILE %s" % (m["id"], out.strip()[:200]))
                continue
            t0 = time.time()
            if benign:
                rc, out = sh("%s/bin/bverif check -property all -tier quick -repo %s -root %s" % (ROOT, SCR, OUT), check=False)
                alarms = [l for l in out.splitlines() if l.startswith("# ") or l.startswith("BROKEN")]
                if rc == 0:
                    rows.append((dict(m, property="all", rule="-"), "SILENT", ""))
                    print("%-8s SILENT (%.1fs)" % (m["id"], time.time() - t0))
                else:
                    rows.append((dict(m, property="all", rule="-"), "FALSE-ALARM rc=%d" % rc, " | ".join(alarms)[:300]))
                    bad += 1
                    print("%-8s FALSE ALARM rc=%d %s" % (m["id"], rc, " | ".join(alarms)[:300]))
                continue
            rc, out = sh("%s/bin/bverif check -property %s -tier quick -repo %s -root %s" % (ROOT, m["property"], SCR, OUT), check=False)
            hit = [l for l in out.splitlines() if l.startswith("# " + m["rule"] + " ")]
            want_fn = m.get("expect", "")
            named = [l for l in hit if want_fn in l]
            if rc == 1 and named:
                rows.append((m, "DETECTED", named[0][:220]))
                print("%-8s DETECTED %s (%.1fs)" % (m["id"], m["rule"], time.time() - t0))
            elif rc == 1:
                other = [l for l in out.splitlines() if l.startswith("# ")]
                rows.append((m, "OTHER-RULE", (other[0] if other else "")[:220]))
                bad += 1
                print("%-8s detected, but not by %s/%s: %s" % (m["id"], m["rule"], want_fn, (other[0] if other else "")[:160]))
            else:
                tail = [l for l in out.splitlines() if "BROKEN" in l]
                rows.append((m, "MISSED" if rc == 0 else "BROKEN(rc=%d)" % rc, (tail[0] if tail else "")[:220]))
                bad += 1
                print("%-8s %s %s" % (m["id"], "MISSED" if rc == 0 else "BROKEN rc=%d" % rc, (tail[0] if tail else "")[:200]))
    finally:
        if not keep:
            sh("git -C %s worktree remove --force %s; rm -rf %s %s" % (REPO, SCR, SCR, OUT), check=False)
    if write:
        with open(os.path.join(ROOT, "SELFTEST-benign.md" if benign else "SELFTEST.md"), "w") as f:
            f.write(("# Benign-edit self-test of the checker\n\nSemantics-preserving edits; every quick check must stay silent (rows: SILENT).\n\n" if benign else "") + "# Mutation self-test of the checker\n\nOne small edit per row, applied to a scratch worktree of /repo; the tree still compiles; "
                    "the property's quick check must report a VIOLATION of the named rule in the named function.\n"
                    "Produced by `tools/selftest.py --write` (not a registered check).\n\n")
            f.write("| id | property | rule | edit | result | report |\n|---|---|---|---|---|---|\n")
            for m, res, info in rows:
                f.write("| %s | %s | %s | %s | %s | %s |\n" % (m["id"], m["property"], m["rule"], m["desc"].replace("|", "\\|"), res, info.replace("|", "\\|")))
            f.write("\n%d mutants, %d not detected as expected.\n" % (len(rows), bad))
    print("%d mutants, %d not detected as expected" % (len(rows), bad))
    return 1 if bad else 0

if __name__ == "__main__":
    sys.exit(main())
