#!/usr/bin/env python3
"""Regenerates MANIFEST.json from the set of properties the checker registers (`bin/bverif list`)."""
import json, os, subprocess
ROOT = os.path.dirname(os.path.dirname(os.path.abspath(__file__)))
os.chdir(ROOT)
summary = {
 "C01":"read-ts wait/Begin pairing, visibility comparison, source precedence, watermark never passes a live reader",
 "C02":"conflict check + ts allocation in one critical section, comparison polarity, read/write fingerprint recording on every path",
 "C03":"writeChLock region, ts allocation under lock, Begin/Done pairing, serial writer, transaction framing, ack-after-apply ordering, write gate",
 "C04":"pending writes consulted first in Get; pending iterator first in merge order; later call wins",
 "C05":"seek-key encoding per direction, SinceTs / internal-key / table-filter comparison polarity",
 "C06":"one threshold predicate at vlog write, LSM write, stream writer; pointer-bit set/clear pairing; read path branches on the same bit",
 "C07":"close ordering (flush, stop, close files, release locks); no file-mutating primitive reachable in read-only mode",
 "C08":"crash-ordering rules: MANIFEST before delete, table durable before MANIFEST, WAL delete after flush, vlog before WAL, GC delete after write-back, replay in transaction units",
 "C09":"CRC check dominates record return; truncation errors stop (not fail) replay; valid-end offset only at txn boundaries; truncate-to-valid-end on open",
 "C10":"sync-before-ack on every success path; create, dir-sync, publish for every file kind",
 "C11":"Open ordering of nextTxnTs, coverage of MaxVersion, maxVersion maintenance agreement, Load/StreamWriter raise rules",
 "C12":"tombstone-drop guard covers every non-input table that may hold older versions (interpreted per level pair), install order, precedence in compaction inputs",
 "C13":"every version-drop site is guarded by version <= discardTs and not-merge; discardTs provenance is the watermark and only ever lowered",
 "C14":"overlap registration on every picker success path, table breaks only at key change, split boundaries at ts=0, sorted levels, validate on open/flush",
 "C15":"GC clamp pairing, delete-after-write-back, value-log pin for every API that hands out value pointers",
 "C16":"header encode/decode agreement, IV derivation agreement, CRC coverage agreement, txn-unit delivery shape",
 "C17":"framing agreement, checksum-before-apply, append+apply under one lock, fsync on success, TableManifest field coverage",
 "C18":"writer/reader layout agreement of block trailer, table footer and entries (affine offsets), mirror order of compression/encryption and checksum coverage, metadata provenance (max version, key count, smallest/biggest), comparison polarity of block, table and concat seeks",
 "C19":"bit-position arithmetic of builder and prober is the same expression; hash-domain agreement at every DoesNotHave call site",
 "C20":"complement constant / suffix width agreement, field-sequence agreement of the codecs, header size bound",
 "C21":"equal-key tie-break keeps the left (earlier) input; balanced construction preserves input order",
 "C22":"publication order of the lock-free insert (own forward pointer stored before the linking CAS, bottom-up), CAS-only writes to reachable nodes, single-word value published after its bytes, arena offsets from the reserving Add, equal-key test after every search, findNear modes",
 "C23":"IV provenance (fresh or offset-derived, never stored), encrypt/decrypt guard agreement, key-mismatch check before any write, data keys never removed",
 "C24":"SinceTs wiring, txn bits cleared in backup, Load raises nextTxnTs, single-snapshot rule",
 "C25":"one read timestamp per run, single Send caller, half-open range comparison",
 "C26":"table break only at key change, sorted-order guard, MANIFEST before publish, flush ordering",
 "C27":"later-call-wins application order, retry-after-commit on ErrTxnTooBig, Flush waits for callbacks",
 "C28":"validation dominates every state mutation in modify; end-marker size reservation covers the marker; ban check on all read/write paths",
 "C29":"block/resume pairing on all paths, drop ordering (memtables, MANIFEST, vlog), write gate checked before enqueue",
 "C30":"no lease-state mutation before commit outcome; hand-out guarded by next < leased; fields only under seq.lock",
 "C31":"merge bit exempts from every drop site; write-back uses latest version + discard bit, no merge bit",
 "C32":"publish called by the single writer, after apply and before ack, in request order",
 "C33":"every user-facing read path consults the one expiry predicate; compaction/GC treat expired as deleted only below discardTs",
 "C34":"Begin under the allocation lock, wait-before-return, Done-after-apply, watermark state confined to one goroutine, no check-then-sleep",
 "C35":"lock acquisition dominates every file access in Open; LOCK_EX/LOCK_SH mapping; release pairing on error and Close",
 "C36":"managed branch uses caller's ts verbatim, explicit versions kept, discardTs read under lock",
 "C37":"every file-touching primitive is unreachable (guarded) when InMemory",
 "C38":"lock-order graph acyclic, no recursive read-lock, no blocking channel op under DB.lock, stop/start pairing",
}
subprocess.run("./check C19 quick >/dev/null 2>&1 || true", shell=True)
reg = subprocess.run(["bin/bverif", "list"], stdout=subprocess.PIPE, text=True).stdout.split()
props = [json.loads(l) for l in open("properties.jsonl")]
checks, na = [], []
NA = {
}
for p in props:
    i = p["id"]
    if i in reg and i not in NA:
        checks.append({
         "property_id": i,
         "quick_cmd": "./check %s quick" % i,
         "thorough_cmd": "./check %s thorough" % i,
         "evidence_file": "evidence/%s.json" % i,
         "replay_cmd_template": "bin/bverif explain {path}",
         "engine": "bverif",
         "level_claimed": {"category": "other",
            "text": "Static analysis of /repo's current source on every run: structural necessary conditions of the property (" + summary[i] + ") are decided on every path of the type-checked program. Breaking one of them breaks the behaviour for some input/schedule/crash point; their conjunction is not a proof of the behavioural statement and no execution is explored. The clauses not decided are listed in the evidence file's coverage.explanation and in DESIGN.md.",
            "design_ref": "DESIGN.md section 4, " + i},
         "level_note": "Trusted: Go type checker, go/cfg (go/ssa + VTA in the thorough tier), the rule table with its per-rule necessity argument. Path-insensitive except for error-return and option-guard idioms (listed as excused branches in the rules). Standard library, ristretto/z and OS semantics (fsync, flock, RWMutex) as documented.",
         "technique": "static analysis: typed-AST/CFG dominance and must-follow queries, lock-set dataflow, control-dependence guards, comparison normalisation, sibling-agreement checks, call-graph reachability (go/packages + go/types + go/cfg; go/ssa + callgraph/vta in thorough tier)"
        })
    elif i in NA:
        na.append({"property_id": i, "reason": NA[i]})
    else:
        na.append({"property_id": i, "reason": "not claimed in this revision: the check for it is not built yet (planned rules are in DESIGN.md section 4)"})
m = {"version": 1,
 "setup_cmd": "mkdir -p bin && cd checker && GOFLAGS=-mod=mod GOPROXY=off GOSUMDB=off GOTOOLCHAIN=local GOWORK=off go build -o ../bin/bverif .",
 "hooks": {"guard": "verif", "enable": "none needed: the checks read source and never build or run /repo; no hook commits exist",
   "baseline_off_cmd": "cd /repo && go test -mod=mod -json -vet=off -count=1 -timeout 25m ./...", "source_commits": [], "add_only": True},
 "engines": [{"name": "bverif", "path": "checker/", "serves_properties": [c["property_id"] for c in checks],
   "kind_free_text": "repository-specific static analyser (Go): go/packages loader, go/cfg path queries, lock-set dataflow, guard/control-dependence, comparison normalisation, small concrete interpreter for the compaction overlap guard, call graph (VTA in thorough tier)"}],
 "checks": checks, "not_applicable": na,
 "notes": "Every check loads /repo's working tree afresh. Exit 0 = all obligations discharged (KNOWN-FINDING lines for listed findings), 1 = VIOLATION lines, 2 = BROKEN-CHECK (type errors, unresolved anchors, vacuous rule): no verdict. fix: commits in /repo are recorded in known_findings.txt. tools/selftest.py is the checker's own mutation test (not a registered check)."}
json.dump(m, open("MANIFEST.json", "w"), indent=1)
print("claimed:", len(checks), "not_applicable:", len(na))
