#!/usr/bin/env python3
"""tools/keepseed.py <srcdir> <seed-id> <property> <needs> <detected_by> [<history>]
Copies a confirmed seeded change (patch.diff, demo_test.go, optional demo.sh, confirm.json) to seeded/<seed-id>/ and writes meta.json."""
import json, os, shutil, sys
src, sid, prop, needs, det = sys.argv[1:6]
hist = sys.argv[6] if len(sys.argv) > 6 else ""
root = os.path.dirname(os.path.dirname(os.path.abspath(__file__)))
dst = os.path.join(root, "seeded", sid)
os.makedirs(dst, exist_ok=True)
for f in ("patch.diff", "demo_test.go", "demo.sh", "notes.md"):
    if os.path.exists(os.path.join(src, f)):
        shutil.copy(os.path.join(src, f), os.path.join(dst, f))
conf = json.load(open(os.path.join(src, "confirm.json")))
assert conf.get("confirmed"), "seed not confirmed"
meta = {"id": sid, "property": prop, "origin": "fresh sub-agent given only the property text and a scratch worktree",
        "needs_to_manifest": needs,
        "confirmed_by_me": {"repo_head": conf["repo_head"], "demo_passes_without_change": conf["demo_without_change"] == "pass",
                            "demo_fails_with_change_runs_of_3": conf["demo_with_change_fail_runs_of_3"],
                            "baseline_tests_passing_with_change": conf.get("suite_baseline_passed"),
                            "command": "tools/confirmseed.py <dir> <tag>  (scratch worktree; go test -run <demo>; go test -json ./... vs BASELINE.json)"},
        "detected_by": det, "detection_history": hist,
        "how_to_run": "tools/tryseed.sh seeded/%s/patch.diff %s" % (sid, prop)}
json.dump(meta, open(os.path.join(dst, "meta.json"), "w"), indent=1)
print("kept", dst)
