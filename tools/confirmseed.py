#!/usr/bin/env python3
"""Confirms a seeded change: usage tools/confirmseed.py <dir with patch.diff and demo_test.go> <tag> [--nosuite]
 1. demo passes on the unmodified tree, 2. patch applies and builds, 3. demo fails with the patch,
 4. the pinned test suite (without the demo) still passes with the patch (427 baseline tests).
Works in a scratch worktree /tmp/bconfirm-<tag>, removed at the end. Writes <dir>/confirm.json."""
import json, os, subprocess, sys, re
d = os.path.abspath(sys.argv[1]); tag = sys.argv[2]; nosuite = "--nosuite" in sys.argv
rev = sys.argv[sys.argv.index("--rev") + 1] if "--rev" in sys.argv else "HEAD"  # seeds made before a later fix: commit are confirmed at the commit they were made against
scr = "/tmp/bconfirm-" + tag
env = dict(os.environ, GOFLAGS="-mod=mod", GOPROXY="off", GOSUMDB="off", GOTOOLCHAIN="local", GOWORK="off")
def sh(cmd, cwd=None):
    p = subprocess.run(cmd, shell=True, cwd=cwd, env=env, stdout=subprocess.PIPE, stderr=subprocess.STDOUT, text=True)
    return p.returncode, p.stdout
sh("git -C /repo worktree remove --force %s; rm -rf %s" % (scr, scr))
rc, out = sh("git -C /repo worktree add -q --detach %s %s" % (scr, rev))
res = {"dir": d, "repo_head": sh("git -C /repo rev-parse --short %s" % rev)[1].strip()}
try:
    demo = open(os.path.join(d, "demo_test.go")).read()
    pkg = re.search(r"^package (\w+)", demo, re.M).group(1)
    tests = re.findall(r"^func (Test\w+)\(", demo, re.M)
    sub = {"badger": ".", "y": "y", "table": "table", "skl": "skl"}.get(pkg, ".")
    res["demo_tests"] = tests; res["demo_pkg_dir"] = sub
    dst = os.path.join(scr, sub, "zz_seed_demo_test.go")
    open(dst, "w").write(demo)
    runexp = "^(" + "|".join(tests) + ")$"
    rc, out = sh("go test -vet=off -count=1 -timeout 10m -run '%s' ./%s" % (runexp, sub), cwd=scr)
    res["demo_without_change"] = "pass" if rc == 0 else "FAIL"
    res["demo_without_tail"] = out[-400:]
    rc, out = sh("git apply %s && go build ./..." % os.path.join(d, "patch.diff"), cwd=scr)
    res["patch_applies_and_builds"] = rc == 0
    if rc != 0: res["apply_out"] = out[-400:]
    fails = 0
    for i in range(3):
        rc, out = sh("go test -vet=off -count=1 -timeout 10m -run '%s' ./%s" % (runexp, sub), cwd=scr)
        fails += rc != 0
    res["demo_with_change_fail_runs_of_3"] = fails
    res["demo_with_tail"] = out[-600:]
    os.remove(dst)
    if not nosuite:
        rc, out = sh("go test -mod=mod -json -vet=off -count=1 -timeout 25m ./... > /tmp/bconfirm-%s.json 2>/dev/null" % tag, cwd=scr)
        base = set(json.load(open("/root/.vp/BASELINE.json"))["stable_pass"])
        ok, bad = set(), set()
        for l in open("/tmp/bconfirm-%s.json" % tag):
            try: e = json.loads(l)
            except Exception: continue
            if e.get("Test") and e.get("Action") == "pass": ok.add(e["Package"] + "::" + e["Test"])
            if e.get("Test") and e.get("Action") == "fail": bad.add(e["Package"] + "::" + e["Test"])
        res["suite_baseline_passed"] = len(base & ok); res["suite_baseline_missing"] = sorted(base - ok)[:20]
        os.remove("/tmp/bconfirm-%s.json" % tag)
    res["confirmed"] = (res["demo_without_change"] == "pass" and res["patch_applies_and_builds"] and fails >= 2
                        and (nosuite or not res["suite_baseline_missing"]))
finally:
    sh("git -C /repo worktree remove --force %s; rm -rf %s" % (scr, scr))
json.dump(res, open(os.path.join(d, "confirm.json"), "w"), indent=1)
print(json.dumps({k: v for k, v in res.items() if not k.endswith("_tail")}, indent=1))
