#!/bin/sh
# usage: tools/tryseed.sh <patch.diff> [property-ids|all]
# Applies a seeded change to a scratch worktree of /repo (never to /repo itself), runs the
# registered quick checks against it and prints which properties raise a VIOLATION.
set -e
ROOT=$(cd "$(dirname "$0")/.." && pwd)
PATCH=$(realpath "$1"); PROPS=${2:-all}
SCR=/tmp/bverif-seed; OUT=/tmp/bverif-seed-out
export GOFLAGS=-mod=mod GOPROXY=off GOSUMDB=off GOTOOLCHAIN=local GOWORK=off
git -C /repo worktree remove --force $SCR 2>/dev/null || true; rm -rf $SCR $OUT; mkdir -p $OUT
git -C /repo worktree add -q --detach $SCR ${REV:-HEAD}
cp $ROOT/known_findings.txt $OUT/ 2>/dev/null || true
(cd $SCR && git apply "$PATCH" && go build ./... ) || { echo "patch does not apply/compile"; git -C /repo worktree remove --force $SCR; exit 2; }
[ -x $ROOT/bin/bverif ] || (cd $ROOT && ./check C19 quick >/dev/null 2>&1 || true)
$ROOT/bin/bverif check -property $PROPS -tier ${TIER:-quick} -repo $SCR -root $OUT > $OUT/log 2>&1 || true
grep -E "^(# R|VIOLATION|BROKEN)" $OUT/log | cut -c1-260 || true
echo "--- properties raising an alarm: $(grep -o 'VIOLATION property=C[0-9]*' $OUT/log | sort -u | sed 's/VIOLATION property=//' | tr '\n' ' ')"
git -C /repo worktree remove --force $SCR; rm -rf $OUT
