#!/usr/bin/env python3
"""Rewrites the seeded-changes table of DESIGN.md (section 10) from seeded/*/meta.json."""
import json, os, glob, re
ROOT = os.path.dirname(os.path.dirname(os.path.abspath(__file__)))
rows = []
for mp in sorted(glob.glob(os.path.join(ROOT, "seeded", "*", "meta.json"))):
    m = json.load(open(mp))
    rows.append("| %s | %s | %s | %s |" % (m["id"], m["property"], m["detected_by"].replace("|", "\\|"), (m.get("detection_history") or "first version").replace("|", "\\|")))
table = "| seed (seeded/<id>/) | breaks | caught by | history |\n|------|--------|-----------|---------|\n" + "\n".join(rows) + "\n\n"
p = os.path.join(ROOT, "DESIGN.md")
s = open(p).read()
i = s.index("| seed")
j = s.index("Pattern of the misses")
s = s[:i] + table + s[j:]
open(p, "w").write(s)
print(len(rows), "seeds")
