package main

// A tiny concrete interpreter for the code that computes the "has overlap"
// guard of a compaction (R12.1). For concrete values of
// (thisLevel.level, nextLevel.level, number of levels) it executes the defining
// expression of the guard — following calls into repository functions — with
// every data-dependent condition assumed false (no overlap found, the worst
// case for coverage), and records which levels were scanned with
// overlappingTables and whether the guard is unconditionally true.
//
// It understands the subset of Go the repository uses there: integer
// arithmetic and comparisons over level numbers, && || !, if, 3-clause for,
// range over the levels slice, continue/break/return, short variable
// declarations. Anything else makes the interpretation "unsupported", which
// fails the run as a broken check rather than as a violation.

import (
	"fmt"
	"go/ast"
	"go/token"
	"go/types"
)

type tri int

const (
	triFalse tri = iota
	triTrue
	triData // depends on table contents
)

type ovInterp struct {
	w           *World
	this, next  int
	max         int
	scanned     map[int]bool
	unsupported []string
	levelsFld   *types.Var // levelsController.levels
	levelFld    *types.Var // levelHandler.level
	thisFld     *types.Var // compactDef.thisLevel
	nextFld     *types.Var // compactDef.nextLevel
	scanFn      types.Object
	depth       int
}

type ovFrame struct {
	ints map[types.Object]int64
	lvls map[types.Object]int
	data map[types.Object]bool
}

func newFrame() *ovFrame {
	return &ovFrame{ints: map[types.Object]int64{}, lvls: map[types.Object]int{}, data: map[types.Object]bool{}}
}

func (in *ovInterp) bad(n ast.Node, what string) {
	in.unsupported = append(in.unsupported, fmt.Sprintf("%s: %s (%s)", in.w.Position(n.Pos()), what, short(in.w, n)))
}

// level-handler valued expression -> level index
func (in *ovInterp) evalLevel(fr *ovFrame, e ast.Expr) (int, bool) {
	e = unparen(e)
	switch x := e.(type) {
	case *ast.Ident:
		if o := in.w.Use(x); o != nil {
			if l, ok := fr.lvls[o]; ok {
				return l, true
			}
		}
	case *ast.SelectorExpr:
		switch in.w.fieldOf(x) {
		case in.thisFld:
			return in.this, true
		case in.nextFld:
			return in.next, true
		}
	case *ast.IndexExpr:
		if in.w.fieldOf(x.X) == in.levelsFld {
			if v, ok := in.evalInt(fr, x.Index); ok {
				return int(v), true
			}
		}
	case *ast.CallExpr:
		// s.lastLevel()
		if fn, ok := in.w.Callee(x).(*types.Func); ok && fn.Name() == "lastLevel" {
			return in.max - 1, true
		}
	}
	return 0, false
}

func (in *ovInterp) evalInt(fr *ovFrame, e ast.Expr) (int64, bool) {
	e = unparen(e)
	if v, ok := in.w.constInt(e); ok {
		return v, true
	}
	switch x := e.(type) {
	case *ast.Ident:
		if o := in.w.Use(x); o != nil {
			if v, ok := fr.ints[o]; ok {
				return v, true
			}
		}
	case *ast.SelectorExpr:
		if in.w.fieldOf(x) == in.levelFld {
			if l, ok := in.evalLevel(fr, x.X); ok {
				return int64(l), true
			}
		}
	case *ast.BinaryExpr:
		a, ok1 := in.evalInt(fr, x.X)
		b, ok2 := in.evalInt(fr, x.Y)
		if ok1 && ok2 {
			switch x.Op {
			case token.ADD:
				return a + b, true
			case token.SUB:
				return a - b, true
			case token.MUL:
				return a * b, true
			}
		}
	case *ast.CallExpr:
		if id, ok := unparen(x.Fun).(*ast.Ident); ok && id.Name == "len" && len(x.Args) == 1 {
			if in.w.fieldOf(x.Args[0]) == in.levelsFld {
				return int64(in.max), true
			}
		}
		if tv, ok := in.w.Info.Types[x.Fun]; ok && tv.IsType() && len(x.Args) == 1 {
			return in.evalInt(fr, x.Args[0])
		}
	}
	return 0, false
}

func (in *ovInterp) evalBool(fr *ovFrame, e ast.Expr) tri {
	e = unparen(e)
	if tv, ok := in.w.Info.Types[e]; ok && tv.Value != nil {
		if tv.Value.String() == "true" {
			return triTrue
		}
		if tv.Value.String() == "false" {
			return triFalse
		}
	}
	switch x := e.(type) {
	case *ast.Ident:
		if o := in.w.Use(x); o != nil && fr.data[o] {
			return triData
		}
	case *ast.UnaryExpr:
		if x.Op == token.NOT {
			switch in.evalBool(fr, x.X) {
			case triTrue:
				return triFalse
			case triFalse:
				return triTrue
			}
			return triData
		}
	case *ast.BinaryExpr:
		switch x.Op {
		case token.LOR:
			a := in.evalBool(fr, x.X)
			if a == triTrue {
				return triTrue
			}
			b := in.evalBool(fr, x.Y)
			if b == triTrue {
				return triTrue
			}
			if a == triData || b == triData {
				return triData
			}
			return triFalse
		case token.LAND:
			a := in.evalBool(fr, x.X)
			if a == triFalse {
				return triFalse
			}
			b := in.evalBool(fr, x.Y)
			if b == triFalse {
				return triFalse
			}
			if a == triData || b == triData {
				return triData
			}
			return triTrue
		case token.EQL, token.NEQ, token.LSS, token.LEQ, token.GTR, token.GEQ:
			a, ok1 := in.evalInt(fr, x.X)
			b, ok2 := in.evalInt(fr, x.Y)
			if ok1 && ok2 {
				var r bool
				switch x.Op {
				case token.EQL:
					r = a == b
				case token.NEQ:
					r = a != b
				case token.LSS:
					r = a < b
				case token.LEQ:
					r = a <= b
				case token.GTR:
					r = a > b
				case token.GEQ:
					r = a >= b
				}
				if r {
					return triTrue
				}
				return triFalse
			}
			// comparison of level handlers (cd.nextLevel != cd.thisLevel)
			if la, ok := in.evalLevel(fr, x.X); ok {
				if lb, ok := in.evalLevel(fr, x.Y); ok && (x.Op == token.EQL || x.Op == token.NEQ) {
					if (la == lb) == (x.Op == token.EQL) {
						return triTrue
					}
					return triFalse
				}
			}
			// anything mentioning data values (right-left > 0, len(tables)…)
			return triData
		}
	case *ast.CallExpr:
		if t := in.w.calleeFn(nil, x); t != nil && t.Decl != nil {
			if res, ok := t.Decl.Type.Results, true; ok && res != nil && len(res.List) == 1 {
				if b, isBasic := in.w.TypeOf(res.List[0].Type).(*types.Basic); isBasic && b.Kind() == types.Bool {
					return in.call(fr, t, x)
				}
			}
		}
		return triData
	}
	return triData
}

// call interprets a bool-returning repository function.
func (in *ovInterp) call(fr *ovFrame, t *Fn, call *ast.CallExpr) tri {
	if in.depth > 4 {
		in.bad(call, "call depth")
		return triData
	}
	nf := newFrame()
	sig := t.Obj.Type().(*types.Signature)
	for i := 0; i < sig.Params().Len() && i < len(call.Args); i++ {
		p := sig.Params().At(i)
		if v, ok := in.evalInt(fr, call.Args[i]); ok {
			nf.ints[p] = v
		} else if l, ok := in.evalLevel(fr, call.Args[i]); ok {
			nf.lvls[p] = l
		} else {
			nf.data[p] = true
		}
	}
	in.depth++
	ret, val := in.block(nf, t, t.Body.List)
	in.depth--
	if !ret {
		in.bad(call, "callee falls off its end")
		return triData
	}
	return val
}

type ctl int

const (
	ctlNone ctl = iota
	ctlBreak
	ctlContinue
	ctlReturn
)

func (in *ovInterp) block(fr *ovFrame, f *Fn, list []ast.Stmt) (bool, tri) {
	c, v := in.stmts(fr, f, list)
	return c == ctlReturn, v
}

func (in *ovInterp) stmts(fr *ovFrame, f *Fn, list []ast.Stmt) (ctl, tri) {
	for _, s := range list {
		c, v := in.stmt(fr, f, s)
		if c != ctlNone {
			return c, v
		}
	}
	return ctlNone, triFalse
}

func (in *ovInterp) markScan(fr *ovFrame, call *ast.CallExpr) bool {
	if in.w.Callee(call) != in.scanFn {
		return false
	}
	if l, ok := in.evalLevel(fr, recvOf(call)); ok {
		in.scanned[l] = true
	} else {
		in.bad(call, "overlappingTables on a level that cannot be identified")
	}
	return true
}

func (in *ovInterp) assign(fr *ovFrame, lhs []ast.Expr, rhs []ast.Expr, n ast.Node) {
	if len(rhs) == 1 && len(lhs) >= 1 {
		if call, ok := unparen(rhs[0]).(*ast.CallExpr); ok {
			in.markScan(fr, call)
		}
	}
	for i, l := range lhs {
		id, ok := l.(*ast.Ident)
		if !ok {
			continue // stores to fields etc.: no effect on the guard
		}
		o := in.w.Use(id)
		if o == nil {
			continue
		}
		delete(fr.ints, o)
		delete(fr.lvls, o)
		delete(fr.data, o)
		if len(rhs) == len(lhs) {
			if v, ok := in.evalInt(fr, rhs[i]); ok {
				fr.ints[o] = v
				continue
			}
			if lv, ok := in.evalLevel(fr, rhs[i]); ok {
				fr.lvls[o] = lv
				continue
			}
			if b, isB := in.w.TypeOf(rhs[i]).(*types.Basic); isB && b.Kind() == types.Bool {
				switch in.evalBool(fr, rhs[i]) {
				case triTrue:
					fr.ints[o] = 1
					continue
				}
			}
		}
		fr.data[o] = true
	}
}

func (in *ovInterp) stmt(fr *ovFrame, f *Fn, s ast.Stmt) (ctl, tri) {
	switch x := s.(type) {
	case *ast.ReturnStmt:
		if len(x.Results) != 1 {
			in.bad(x, "return shape")
			return ctlReturn, triData
		}
		return ctlReturn, in.evalBool(fr, x.Results[0])
	case *ast.BranchStmt:
		switch x.Tok {
		case token.CONTINUE:
			return ctlContinue, triFalse
		case token.BREAK:
			return ctlBreak, triFalse
		}
		in.bad(x, "branch")
	case *ast.ExprStmt:
		if call, ok := x.X.(*ast.CallExpr); ok {
			in.markScan(fr, call)
		}
	case *ast.DeferStmt, *ast.EmptyStmt:
	case *ast.AssignStmt:
		in.assign(fr, x.Lhs, x.Rhs, x)
	case *ast.DeclStmt:
		if gd, ok := x.Decl.(*ast.GenDecl); ok {
			for _, sp := range gd.Specs {
				if vs, ok := sp.(*ast.ValueSpec); ok && len(vs.Values) > 0 {
					var lhs []ast.Expr
					for _, n := range vs.Names {
						lhs = append(lhs, n)
					}
					in.assign(fr, lhs, vs.Values, x)
				}
			}
		}
	case *ast.IncDecStmt:
		if id, ok := x.X.(*ast.Ident); ok {
			if o := in.w.Use(id); o != nil {
				if v, ok := fr.ints[o]; ok {
					if x.Tok == token.INC {
						fr.ints[o] = v + 1
					} else {
						fr.ints[o] = v - 1
					}
				}
			}
		}
	case *ast.BlockStmt:
		return in.stmts(fr, f, x.List)
	case *ast.IfStmt:
		if x.Init != nil {
			if c, v := in.stmt(fr, f, x.Init); c != ctlNone {
				return c, v
			}
		}
		switch in.evalBool(fr, x.Cond) {
		case triTrue:
			return in.stmts(fr, f, x.Body.List)
		case triFalse:
			if x.Else != nil {
				return in.stmt(fr, f, x.Else)
			}
		case triData:
			// data dependent: assume "no overlap found" — i.e. the branch that reports overlap is not taken.
			// Supported shape: the then-branch ends in `return true` (or break after setting a flag).
			if !in.w.terminates(x.Body.List) {
				in.bad(x, "data-dependent branch that does not terminate")
			}
			if x.Else != nil {
				return in.stmt(fr, f, x.Else)
			}
		}
	case *ast.ForStmt:
		if x.Init != nil {
			in.stmt(fr, f, x.Init)
		}
		for iter := 0; iter < 256; iter++ {
			if x.Cond != nil {
				c := in.evalBool(fr, x.Cond)
				if c == triFalse {
					break
				}
				if c == triData {
					in.bad(x, "loop condition depends on data")
					break
				}
			}
			c, v := in.stmts(fr, f, x.Body.List)
			if c == ctlReturn {
				return c, v
			}
			if c == ctlBreak {
				break
			}
			if x.Post != nil {
				in.stmt(fr, f, x.Post)
			}
		}
	case *ast.RangeStmt:
		if in.w.fieldOf(x.X) != in.levelsFld {
			in.bad(x, "range over something other than the levels slice")
			return ctlNone, triFalse
		}
		for i := 0; i < in.max; i++ {
			if id, ok := x.Key.(*ast.Ident); ok && id.Name != "_" {
				fr.ints[in.w.Use(id)] = int64(i)
			}
			if id, ok := x.Value.(*ast.Ident); ok && id.Name != "_" {
				fr.lvls[in.w.Use(id)] = i
			}
			c, v := in.stmts(fr, f, x.Body.List)
			if c == ctlReturn {
				return c, v
			}
			if c == ctlBreak {
				break
			}
		}
	default:
		in.bad(s, "statement kind")
	}
	return ctlNone, triFalse
}
