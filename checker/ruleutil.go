package main

// Helpers shared by the rule files.

import (
	"fmt"
	"go/ast"
	"go/constant"
	"go/token"
	"go/types"
	"strings"
)

func recvOf(call *ast.CallExpr) ast.Expr {
	if s, ok := unparen(call.Fun).(*ast.SelectorExpr); ok {
		return s.X
	}
	return nil
}

// selCallOn: call of method whose receiver expression denotes the given field
// (e.g. o.txnMark.WaitForMark(...)).
func selCallOn(method types.Object, recvField *types.Var) Sel {
	return Sel{Key: "callon:" + recvField.Name() + "." + method.Name(), Match: func(w *World, f *Fn, n ast.Node) bool {
		c, ok := n.(*ast.CallExpr)
		if !ok || w.Callee(c) != method {
			return false
		}
		r := recvOf(c)
		return r != nil && w.fieldOf(r) == recvField
	}}
}

// selCallNamed: call of any method/function with this name declared in the repo on
// the given receiver type name (used for interface methods such as y.Iterator.Next).
func short(w *World, n ast.Node) string {
	s := w.exprStr(n)
	s = strings.Join(strings.Fields(s), " ")
	if len(s) > 60 {
		s = s[:60] + "…"
	}
	return s
}

// occKey gives a construct key for the i-th occurrence: the expression text of
// the site without positions; duplicates get an ordinal.
type keyer struct{ seen map[string]int }

func (k *keyer) key(prefix string, w *World, n ast.Node) string {
	if k.seen == nil {
		k.seen = map[string]int{}
	}
	s := prefix + " " + short(w, n)
	k.seen[s]++
	if k.seen[s] > 1 {
		s = fmt.Sprintf("%s #%d", s, k.seen[s])
	}
	return s
}

// DomAll: every occurrence of b in f is dominated by an occurrence of a.
func (r *RuleInfo) DomAll(f *Fn, what string, b Sel, bDepth int, a Sel, aDepth int, ex ...Excuse) int {
	as := f.Occs(a, aDepth)
	var k keyer
	n := 0
	for _, bo := range f.Occs(b, bDepth) {
		n++
		res := f.Dominated(bo, as, ex...)
		if !res.OK && bo.Depth > 0 {
			// both sites sit in the same callee (a helper that was extracted): decide the order inside it
			for _, ao := range as {
				if ao.Node == bo.Node && ao.Depth > 0 {
					if call, isCall := bo.Node.(*ast.CallExpr); isCall {
						if cal := f.W.calleeFn(f, call); cal != nil && cal != f {
							inner := true
							innerAs := cal.Occs(a, aDepth-1)
							for _, ib := range cal.Occs(b, bDepth-1) {
								if !cal.Dominated(ib, innerAs, ex...).OK {
									inner = false
								}
							}
							if inner {
								res = OrderResult{OK: true}
							}
						}
					}
				}
			}
		}
		r.Order(res, f, k.key(what, f.W, bo.Node), bo.Node, what+" not preceded on every path by "+a.Key)
	}
	return n
}

// FollowAll: every occurrence of a in f is followed, on every path to an exit
// of the given kind, by an occurrence of x.
func (r *RuleInfo) FollowAll(f *Fn, what string, a Sel, aDepth int, x Sel, xDepth int, kind exitKind, ex ...Excuse) int {
	xs := f.Occs(x, xDepth)
	var k keyer
	n := 0
	for _, ao := range f.Occs(a, aDepth) {
		if ao.Async || ao.Deferred {
			continue
		}
		n++
		res := f.Followed(ao, xs, kind, ex...)
		r.Order(res, f, k.key(what, f.W, ao.Node), ao.Node, what+" not followed on every path by "+x.Key)
	}
	return n
}

// ExitsNeed: every exit of the given kind is dominated by an occurrence of x
// (a deferred x registered on every path to the exit also counts).
func (r *RuleInfo) ExitsNeed(f *Fn, what string, x Sel, xDepth int, kind exitKind, ex ...Excuse) int {
	xs := f.Occs(x, xDepth)
	exits := f.allExits()
	if kind == exitSuccess {
		exits = f.successExits()
	}
	var sync, regs []Occ
	for _, o := range xs {
		if o.Async {
			continue
		}
		if o.Deferred {
			regs = append(regs, Occ{V: o.V, Node: o.Node})
		} else {
			sync = append(sync, o)
		}
	}
	var k keyer
	for _, e := range exits {
		res := f.Dominated(e, append(append([]Occ{}, sync...), regs...), ex...)
		r.Order(res, f, k.key(what+" before", f.W, e.Node), e.Node, "exit reachable without "+x.Key)
	}
	return len(exits)
}

// NeverAfterAll: from no occurrence of a is an occurrence of b reachable.
func (r *RuleInfo) NeverAfterAll(f *Fn, what string, a Sel, aDepth int, b Sel, bDepth int) int {
	bs := f.Occs(b, bDepth)
	var k keyer
	n := 0
	for _, ao := range f.Occs(a, aDepth) {
		n++
		res := f.NeverReaches(ao, bs)
		r.Order(res, f, k.key(what, f.W, ao.Node), ao.Node, b.Key+" reachable after "+a.Key)
	}
	return n
}

// releasesBetween: is there a release of lock on some path from a to b?
func (f *Fn) releasedBetween(a, b ast.Node, lock types.Object) (bool, ast.Node) {
	g := f.G()
	lf := f.lockFlow()
	va, vb := g.VertexOf(a), g.VertexOf(b)
	if va < 0 || vb < 0 {
		return true, nil
	}
	for v, ops := range lf.ops {
		for _, op := range ops {
			if op.Acquire || op.Lock != lock {
				continue
			}
			// a ->* v ->* b ?
			reachAV := v == va && op.Call.Pos() > a.End() || g.pathAvoiding([]int{va}, func(x int) bool { return x == v }, nil, false) != nil
			if v == va && op.Call.Pos() < a.Pos() {
				// release before a in the same vertex: only via a loop
				reachAV = g.pathAvoiding([]int{va}, func(x int) bool { return x == v }, nil, false) != nil
			}
			if !reachAV {
				continue
			}
			reachVB := v == vb && op.Call.End() <= b.Pos() || g.pathAvoiding([]int{v}, func(x int) bool { return x == vb }, nil, false) != nil
			if reachVB {
				return true, op.Call
			}
		}
	}
	return false, nil
}

// SameCS records: a and b are in one critical section of lock (held at both, no release between).
func (r *RuleInfo) SameCS(f *Fn, construct string, a, b ast.Node, lock types.Object, mode int) {
	w := f.W
	if f.HeldAt(a)[lock] < mode {
		r.Check(false, f, construct, a, w.lockName(lock)+" not held at "+short(w, a))
		return
	}
	if f.HeldAt(b)[lock] < mode {
		r.Check(false, f, construct, b, w.lockName(lock)+" not held at "+short(w, b))
		return
	}
	if rel, at := f.releasedBetween(a, b, lock); rel {
		n := b
		if at != nil {
			n = at
		}
		r.Check(false, f, construct, n, w.lockName(lock)+" is released between "+short(w, a)+" and "+short(w, b))
		return
	}
	r.Check(true, f, construct, a, "")
}

// constInt evaluates a constant integer expression.
func (w *World) constInt(e ast.Expr) (int64, bool) {
	tv, ok := w.Info.Types[e]
	if !ok || tv.Value == nil {
		return 0, false
	}
	if tv.Value.Kind() != constant.Int {
		return 0, false
	}
	v, exact := constant.Int64Val(tv.Value)
	return v, exact
}

// isNilIdent / isIdentNamed
func isNil(e ast.Expr) bool {
	id, ok := unparen(e).(*ast.Ident)
	return ok && id.Name == "nil"
}

// enclosingStmtList returns the statement list containing n directly, and n's index in it.
func (w *World) stmtListOf(n ast.Node) ([]ast.Stmt, int) {
	p := w.parentOf(n)
	var list []ast.Stmt
	switch x := p.(type) {
	case *ast.BlockStmt:
		list = x.List
	case *ast.CaseClause:
		list = x.Body
	case *ast.CommClause:
		list = x.Body
	}
	for i, s := range list {
		if ast.Node(s) == n {
			return list, i
		}
	}
	return nil, -1
}

// enclosingStmt: the nearest statement that is a direct element of a statement list.
func (w *World) enclosingStmt(n ast.Node) ast.Stmt {
	for x := n; x != nil; x = w.parentOf(x) {
		if s, ok := x.(ast.Stmt); ok {
			if l, _ := w.stmtListOf(s); l != nil {
				return s
			}
		}
	}
	return nil
}

// binaryOperands flattens a chain of the same binary operator.
func flatten(e ast.Expr, op token.Token) []ast.Expr {
	e = unparen(e)
	if b, ok := e.(*ast.BinaryExpr); ok && b.Op == op {
		return append(flatten(b.X, op), flatten(b.Y, op)...)
	}
	return []ast.Expr{e}
}

// maskTest: expression of the form `x & bit` compared with 0 (x&bit > 0, != 0, == 0).
// Returns the bit object and whether the test asserts the bit is SET when the expression is true.
func (w *World) maskTest(e ast.Expr) (types.Object, bool, bool) {
	b, ok := unparen(e).(*ast.BinaryExpr)
	if !ok {
		return nil, false, false
	}
	var set bool
	switch b.Op {
	case token.GTR, token.NEQ:
		set = true
	case token.EQL:
		set = false
	default:
		return nil, false, false
	}
	and, ok := unparen(b.X).(*ast.BinaryExpr)
	if !ok || and.Op != token.AND {
		return nil, false, false
	}
	if v, ok := w.constInt(b.Y); !ok || v != 0 {
		return nil, false, false
	}
	for _, side := range []ast.Expr{and.Y, and.X} {
		if id := lastIdent(side); id != nil {
			switch c := w.Use(id).(type) {
			case *types.Const:
				return c, set, true
			case *types.Var:
				// a flag declared as a package-level variable (table.REVERSED)
				if c.Pkg() != nil && c.Parent() == c.Pkg().Scope() {
					return c, set, true
				}
			}
		}
	}
	return nil, false, false
}

// bitGuard: among guards, is bit known set (1), known clear (0) or unknown (-1)?
func (w *World) bitGuard(gs []Guard, bit types.Object) int {
	for _, g := range gs {
		if o, set, ok := w.maskTest(g.Cond); ok && o == bit {
			if set == g.Val {
				return 1
			}
			return 0
		}
	}
	return -1
}

// calleeIs: call resolves to one of the objects.
func (w *World) calleeIs(c *ast.CallExpr, objs ...types.Object) bool {
	o := w.Callee(c)
	for _, x := range objs {
		if o == x {
			return true
		}
	}
	return false
}

// excuseField: the branch on which a boolean field (e.g. Options.ReadOnly) has the given value.
func excuseField(w *World, fld *types.Var, val bool) Excuse {
	return Excuse{Cond: func(e ast.Expr) bool { return w.fieldOf(e) == fld }, Val: val}
}

// excuseExpr: the branch on which a condition satisfying pred has the given value.
func excuseExpr(pred func(e ast.Expr) bool, val bool) Excuse {
	return Excuse{Cond: pred, Val: val}
}

// isLenPositive: `len(x) > 0` / `len(x) != 0`
func isLenPositive(w *World, e ast.Expr) bool {
	b, ok := unparen(e).(*ast.BinaryExpr)
	if !ok || (b.Op != token.GTR && b.Op != token.NEQ) {
		return false
	}
	c, ok := unparen(b.X).(*ast.CallExpr)
	if !ok {
		return false
	}
	id, ok := unparen(c.Fun).(*ast.Ident)
	if !ok || id.Name != "len" {
		return false
	}
	v, ok := w.constInt(b.Y)
	return ok && v == 0
}

// excuseErrNonNil: the branch on which an error-typed expression is known non-nil.
func excuseErrNonNil(w *World) Excuse {
	return Excuse{Cond: func(e ast.Expr) bool { return w.errNonNil(e, true) }, Val: true}
}

// someDefMentions: e (or, if e is a local, one of the expressions assigned to it) mentions obj.
func (w *World) someDefMentions(f *Fn, e ast.Expr, obj types.Object) bool {
	e = unparen(e)
	if w.mentions(e, obj) {
		return true
	}
	if id, ok := e.(*ast.Ident); ok {
		if v, ok := w.Use(id).(*types.Var); ok && !v.IsField() {
			for _, d := range w.DefsOf(f, v) {
				if w.mentions(d, obj) {
					return true
				}
			}
		}
	}
	return false
}

// excuseErrIsNilFalse: the false branch of an `err == nil` test (error known non-nil).
func excuseErrIsNilFalse(w *World) Excuse {
	return Excuse{Cond: func(e ast.Expr) bool { return w.errNonNil(e, false) }, Val: false}
}

// errIsFatal: every non-nil error returned by call stops the enclosing function from
// succeeding. Accepted idioms: the call is the argument of y.Check / y.Check2; the call is a
// return operand; or its result is bound to a variable that is tested by exactly `v != nil`
// (no further conjunct that could excuse some errors) in an if whose body terminates
// (return, panic, y.Check(v)).
func (w *World) errIsFatal(f *Fn, call *ast.CallExpr) bool {
	isCheck := func(c *ast.CallExpr) bool {
		fn, ok := w.Callee(c).(*types.Func)
		return ok && fn.Pkg() != nil && fn.Pkg().Path() == modPath+"/y" && (fn.Name() == "Check" || fn.Name() == "Check2")
	}
	switch p := w.parentOf(call).(type) {
	case *ast.CallExpr:
		return isCheck(p)
	case *ast.ReturnStmt:
		return true
	case *ast.AssignStmt:
		var errVar *types.Var
		for _, l := range p.Lhs {
			if id, ok := l.(*ast.Ident); ok {
				if v, ok := w.Use(id).(*types.Var); ok && isErrorType(v.Type()) {
					errVar = v
				}
			}
		}
		if errVar == nil {
			return false // result discarded (e.g. `_ =`)
		}
		// the if statement: either p is its Init, or it follows p
		var is *ast.IfStmt
		if x, ok := w.parentOf(p).(*ast.IfStmt); ok && x.Init == ast.Stmt(p) {
			is = x
		} else if list, i := w.stmtListOf(p); i >= 0 && i+1 < len(list) {
			is, _ = list[i+1].(*ast.IfStmt)
		}
		if is == nil {
			return false
		}
		be, ok := unparen(is.Cond).(*ast.BinaryExpr)
		if !ok || be.Op != token.NEQ || !isNil(be.Y) {
			return false
		}
		id, ok := unparen(be.X).(*ast.Ident)
		if !ok || w.Use(id) != types.Object(errVar) {
			return false
		}
		if w.terminates(is.Body.List) {
			// leaving the loop iteration (continue/break) is not failing the function
			if b, isBranch := is.Body.List[len(is.Body.List)-1].(*ast.BranchStmt); !isBranch || b.Tok == token.GOTO {
				return true
			}
			return false
		}
		// body ends in y.Check(err)
		if n := len(is.Body.List); n > 0 {
			if es, ok := is.Body.List[n-1].(*ast.ExprStmt); ok {
				if c, ok := es.X.(*ast.CallExpr); ok && isCheck(c) {
					return true
				}
			}
		}
	}
	return false
}

// ObjIn resolves a package-level object by full import path (for packages whose short name is ambiguous).
func (w *World) ObjIn(pkgPath, name string) types.Object {
	for _, p := range w.All {
		if p.PkgPath == pkgPath && p.Types != nil {
			if o := p.Types.Scope().Lookup(name); o != nil {
				return o
			}
		}
	}
	panic(anchorError{"object " + pkgPath + "." + name})
}

// errCheckOf returns the condition of the `if err != nil` that tests the error result of call:
// either the if statement whose Init holds the call, or the statement right after the assignment.
func (w *World) errCheckOf(call *ast.CallExpr) ast.Expr {
	as, ok := w.parentOf(call).(*ast.AssignStmt)
	if !ok {
		return nil
	}
	if is, ok := w.parentOf(as).(*ast.IfStmt); ok && is.Init == ast.Stmt(as) {
		if w.errNonNil(is.Cond, true) {
			return unparen(is.Cond)
		}
		return nil
	}
	if list, i := w.stmtListOf(as); i >= 0 && i+1 < len(list) {
		if is, ok := list[i+1].(*ast.IfStmt); ok && w.errNonNil(is.Cond, true) {
			return unparen(is.Cond)
		}
	}
	return nil
}

// excuseErrOf: only the error branch of the check that tests call's own error is excused.
func excuseErrOf(w *World, call *ast.CallExpr) Excuse {
	cond := w.errCheckOf(call)
	return Excuse{Cond: func(e ast.Expr) bool { return cond != nil && e == cond }, Val: true}
}

func isBoolLocal(w *World, id *ast.Ident) bool {
	v, ok := w.Use(id).(*types.Var)
	return ok && !v.IsField() && types.Identical(v.Type(), types.Typ[types.Bool])
}

// litRoles identifies local closures by what they do, so that renaming the local variable a
// closure is bound to does not break an anchor.
var litRoles = map[string]func(w *World) Sel{
	"badger.Txn.commitAndSend$ret":                           func(w *World) Sel { return selCallName(w, "badger.request.Wait") },
	"badger.Txn.commitAndSend$processEntry":                  func(w *World) Sel { return selCallName(w, "y.KeyWithTs") },
	"badger.Txn.commitAndSend$setVersion":                    func(w *World) Sel { return selStore(w.Field("badger.Entry.version")) },
	"badger.DB.writeRequests$done":                           func(w *World) Sel { return selStore(w.Field("badger.request.Err")) },
	"badger.DB.doWrites$writeRequests":                       func(w *World) Sel { return selCallName(w, "badger.DB.writeRequests") },
	"badger.DB.dropAll$resume":                               func(w *World) Sel { return selCallName(w, "badger.DB.startCompactions") },
	"badger.levelsController.subcompact$addKeys":             func(w *World) Sel { return selCallName(w, "table.Builder.Add") },
	"badger.levelsController.compactBuildTables$newIterator": func(w *World) Sel { return selCallName(w, "table.NewConcatIterator") },
	"y.WaterMark.process$processOne":                         func(w *World) Sel { return selCall(w.Func("heap.Pop")) },
	"badger.Stream.produceKVs$iterate":                       func(w *World) Sel { return selCallName(w, "badger.Txn.NewIterator") },
	"badger.valueLog.rewrite$fe":                             func(w *World) Sel { return selCallName(w, "badger.discardEntry") },
	"badger.storeDataKey$xor":                                func(w *World) Sel { return selCallName(w, "y.XORBlockAllocate") },
	"badger.DB.MaxVersion$update": func(w *World) Sel {
		return selPred("any", func(w *World, f *Fn, n ast.Node) bool { _, ok := n.(*ast.IfStmt); return ok })
	},
}

func isBuiltin(w *World, c *ast.CallExpr, name string) bool {
	id, ok := unparen(c.Fun).(*ast.Ident)
	if !ok {
		return false
	}
	b, ok := w.Use(id).(*types.Builtin)
	return ok && b.Name() == name
}
