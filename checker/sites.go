package main

// Site selection: which syntax nodes of a function a rule talks about, and
// where they "occur" in the function's own control flow (directly, inside a
// local closure that is called/deferred there, or inside a callee reached
// within a bounded call depth).

import (
	"go/ast"
	"go/token"
	"go/types"
)

// Sel is a site selector. Match is applied to every node of a function body
// (nested literals excluded — they are functions of their own).
type Sel struct {
	Key   string
	Match func(w *World, f *Fn, n ast.Node) bool
}

// Occ is an occurrence of a selected site in the control flow of a function.
type Occ struct {
	V        int      // vertex in the function's graph (-1: not in the graph, e.g. dead code)
	Node     ast.Node // node in this function at which it occurs (the site, or the call/defer/go leading to it)
	Site     ast.Node // the selected site itself (may be in a closure or callee)
	SiteFn   *Fn      // function containing Site
	Deferred bool     // runs at function exit (registered at V)
	Async    bool     // runs in another goroutine (spawned at V)
	Depth    int      // 0 direct, n = through n calls
}

// walk visits the nodes of f's body without entering nested literals.
func (f *Fn) walk(visit func(n ast.Node) bool) {
	ast.Inspect(f.Body, func(n ast.Node) bool {
		if n == nil {
			return true
		}
		if _, ok := n.(*ast.FuncLit); ok {
			return false
		}
		return visit(n)
	})
}

// walkDeep visits f's body and the bodies of all literals nested in it, passing the owning function.
func (f *Fn) walkDeep(visit func(g *Fn, n ast.Node) bool) {
	f.walk(func(n ast.Node) bool { return visit(f, n) })
	for _, l := range f.Lits {
		l.walkDeep(visit)
	}
}

// Sites returns the direct matches of sel in f, in source order.
func (f *Fn) Sites(sel Sel) []ast.Node {
	var out []ast.Node
	f.walk(func(n ast.Node) bool {
		if sel.Match(f.W, f, n) {
			out = append(out, n)
		}
		return true
	})
	return out
}

// SitesDeep returns matches in f and all literals nested in it.
func (f *Fn) SitesDeep(sel Sel) []Occ {
	var out []Occ
	var rec func(g *Fn)
	rec = func(g *Fn) {
		for _, n := range g.Sites(sel) {
			out = append(out, Occ{V: -1, Node: n, Site: n, SiteFn: g})
		}
		for _, l := range g.Lits {
			rec(l)
		}
	}
	rec(f)
	return out
}

// calleeFn resolves a call to a function body we have: a declared function, a
// local closure bound to a variable, or a literal called in place.
func (w *World) calleeFn(f *Fn, call *ast.CallExpr) *Fn {
	switch fun := unparen(call.Fun).(type) {
	case *ast.FuncLit:
		return w.ByLit[fun]
	case *ast.Ident:
		if v, ok := w.Use(fun).(*types.Var); ok {
			for g := f; g != nil; g = g.Parent {
				for _, l := range g.Lits {
					if l.Bound == v {
						return l
					}
				}
			}
			return nil
		}
	}
	if fn, ok := w.Callee(call).(*types.Func); ok {
		if t := w.ByObj[fn]; t != nil {
			return t
		}
		if o := fn.Origin(); o != fn {
			return w.ByObj[o]
		}
	}
	return nil
}

type containsKey struct {
	f     *Fn
	key   string
	depth int
}

var containsMemo = map[containsKey]ast.Node{}
var containsNil = map[containsKey]bool{}

// containsSite: does executing f (synchronously, through at most depth further
// calls) run a site matching sel? Returns the site. Goroutine bodies do not count.
func (f *Fn) containsSite(sel Sel, depth int, seen map[*Fn]bool) (ast.Node, *Fn) {
	if seen[f] {
		return nil, nil
	}
	seen[f] = true
	defer delete(seen, f)
	var hit ast.Node
	var hitFn *Fn
	f.walk(func(n ast.Node) bool {
		if hit != nil {
			return false
		}
		if _, ok := n.(*ast.GoStmt); ok {
			return false
		}
		if sel.Match(f.W, f, n) {
			hit, hitFn = n, f
			return false
		}
		if depth > 0 {
			if call, ok := n.(*ast.CallExpr); ok {
				if cal := f.W.calleeFn(f, call); cal != nil {
					if s, sf := cal.containsSite(sel, depth-1, seen); s != nil {
						hit, hitFn = s, sf
						return false
					}
				}
			}
		}
		return true
	})
	return hit, hitFn
}

// Occs lists the occurrences of sel in f's control flow: direct sites, and —
// when depth > 0 — call sites (including calls, defers and go statements of
// local closures) whose callee runs a matching site within depth-1 more calls.
func (f *Fn) Occs(sel Sel, depth int) []Occ {
	g := f.G()
	var out []Occ
	hostKind := func(n ast.Node) (deferred, async bool) {
		for p := f.W.parentOf(n); p != nil; p = f.W.parentOf(p) {
			switch p.(type) {
			case *ast.DeferStmt:
				return true, false
			case *ast.GoStmt:
				return false, true
			case *ast.BlockStmt, *ast.FuncLit, *ast.FuncDecl:
				return false, false
			}
		}
		return false, false
	}
	f.walk(func(n ast.Node) bool {
		if sel.Match(f.W, f, n) {
			d, a := hostKind(n)
			// a call that is itself the deferred/spawned call
			out = append(out, Occ{V: g.VertexOf(n), Node: n, Site: n, SiteFn: f, Deferred: d && isHostCall(f.W, n), Async: a && isHostCall(f.W, n)})
			return true
		}
		if depth > 0 {
			if call, ok := n.(*ast.CallExpr); ok {
				if cal := f.W.calleeFn(f, call); cal != nil {
					if s, sf := cal.containsSite(sel, depth-1, map[*Fn]bool{f: true}); s != nil {
						d, a := hostKind(call)
						out = append(out, Occ{V: g.VertexOf(call), Node: call, Site: s, SiteFn: sf,
							Deferred: d && isHostCall(f.W, call), Async: a && isHostCall(f.W, call), Depth: 1})
					}
				}
			}
		}
		return true
	})
	return out
}

// isHostCall: n is the call expression of a defer/go statement (not one of its arguments).
func isHostCall(w *World, n ast.Node) bool {
	switch p := w.parentOf(n).(type) {
	case *ast.DeferStmt:
		return p.Call == n
	case *ast.GoStmt:
		return p.Call == n
	}
	return false
}

// ---- selector constructors ----

func selCall(objs ...types.Object) Sel {
	key := "call"
	set := map[types.Object]bool{}
	for _, o := range objs {
		if o == nil {
			panic(anchorError{"nil callee in selector"})
		}
		set[o] = true
		key += ":" + o.Name()
	}
	return Sel{Key: key, Match: func(w *World, f *Fn, n ast.Node) bool {
		c, ok := n.(*ast.CallExpr)
		if !ok {
			return false
		}
		o := w.Callee(c)
		if o == nil {
			return false
		}
		if set[o] {
			return true
		}
		if fn, ok := o.(*types.Func); ok && fn.Origin() != fn && set[fn.Origin()] {
			return true
		}
		return false
	}}
}

// selCallFn: call that resolves to the given function body (closure or declared).
func selCallFn(target *Fn) Sel {
	return Sel{Key: "callfn:" + target.Name, Match: func(w *World, f *Fn, n ast.Node) bool {
		c, ok := n.(*ast.CallExpr)
		return ok && w.calleeFn(f, c) == target
	}}
}

// lhsRoots: the expressions assigned by a statement.
func assignedExprs(n ast.Node) []ast.Expr {
	switch s := n.(type) {
	case *ast.AssignStmt:
		return s.Lhs
	case *ast.IncDecStmt:
		return []ast.Expr{s.X}
	}
	return nil
}

// selStore: a statement that assigns the field (x.f = …, x.f++, x.f[i] = …, x.f op= …).
func selStore(fields ...*types.Var) Sel {
	key := "store"
	set := map[*types.Var]bool{}
	for _, f := range fields {
		set[f] = true
		key += ":" + f.Name()
	}
	return Sel{Key: key, Match: func(w *World, f *Fn, n ast.Node) bool {
		for _, l := range assignedExprs(n) {
			if v := w.fieldOf(l); v != nil && set[v] {
				return true
			}
		}
		return false
	}}
}

// selUse: any mention of the field (load or store).
func selUse(fields ...*types.Var) Sel {
	key := "use"
	set := map[*types.Var]bool{}
	for _, f := range fields {
		set[f] = true
		key += ":" + f.Name()
	}
	return Sel{Key: key, Match: func(w *World, f *Fn, n ast.Node) bool {
		s, ok := n.(*ast.SelectorExpr)
		if !ok {
			return false
		}
		if sel := w.Info.Selections[s]; sel != nil && sel.Kind() == types.FieldVal {
			if v, ok := sel.Obj().(*types.Var); ok && set[v] {
				return true
			}
		}
		return false
	}}
}

// selStoreVar: assignment to a local or package variable.
func selStoreVar(v types.Object) Sel {
	return Sel{Key: "storevar:" + v.Name(), Match: func(w *World, f *Fn, n ast.Node) bool {
		for _, l := range assignedExprs(n) {
			if id, ok := unparen(l).(*ast.Ident); ok && w.Use(id) == v {
				return true
			}
		}
		return false
	}}
}

// selSend / selRecv / selClose on a channel held in a field or variable.
func chanObj(w *World, e ast.Expr) types.Object {
	e = unparen(e)
	if v := w.fieldOf(e); v != nil {
		return v
	}
	if id, ok := e.(*ast.Ident); ok {
		return w.Use(id)
	}
	return nil
}

func selSend(ch types.Object) Sel {
	return Sel{Key: "send:" + ch.Name(), Match: func(w *World, f *Fn, n ast.Node) bool {
		s, ok := n.(*ast.SendStmt)
		return ok && chanObj(w, s.Chan) == ch
	}}
}

func selRecv(ch types.Object) Sel {
	return Sel{Key: "recv:" + ch.Name(), Match: func(w *World, f *Fn, n ast.Node) bool {
		u, ok := n.(*ast.UnaryExpr)
		return ok && u.Op == token.ARROW && chanObj(w, u.X) == ch
	}}
}

func selClose(ch types.Object) Sel {
	return Sel{Key: "close:" + ch.Name(), Match: func(w *World, f *Fn, n ast.Node) bool {
		c, ok := n.(*ast.CallExpr)
		if !ok || len(c.Args) != 1 {
			return false
		}
		id, ok := unparen(c.Fun).(*ast.Ident)
		if !ok {
			return false
		}
		if b, ok := w.Use(id).(*types.Builtin); !ok || b.Name() != "close" {
			return false
		}
		return chanObj(w, c.Args[0]) == ch
	}}
}

func selReturn() Sel {
	return Sel{Key: "return", Match: func(w *World, f *Fn, n ast.Node) bool {
		_, ok := n.(*ast.ReturnStmt)
		return ok
	}}
}

func selNode(nodes ...ast.Node) Sel {
	set := map[ast.Node]bool{}
	for _, n := range nodes {
		set[n] = true
	}
	return Sel{Key: "nodes", Match: func(w *World, f *Fn, n ast.Node) bool { return set[n] }}
}

func selOr(sels ...Sel) Sel {
	key := "or"
	for _, s := range sels {
		key += "(" + s.Key + ")"
	}
	return Sel{Key: key, Match: func(w *World, f *Fn, n ast.Node) bool {
		for _, s := range sels {
			if s.Match(w, f, n) {
				return true
			}
		}
		return false
	}}
}

// selPred wraps an arbitrary predicate.
func selPred(key string, p func(w *World, f *Fn, n ast.Node) bool) Sel {
	return Sel{Key: key, Match: p}
}

// ---- order queries over occurrences ----

type OrderResult struct {
	OK   bool
	Path []string // witness path when !OK
	Why  string
}

func vertices(occs []Occ, pred func(Occ) bool) []int {
	var out []int
	for _, o := range occs {
		if o.V >= 0 && (pred == nil || pred(o)) {
			out = append(out, o.V)
		}
	}
	return out
}

func syncOcc(o Occ) bool { return !o.Deferred && !o.Async }

// Dominated: every path from the function entry to b passes one of the
// (synchronous) occurrences in as first.
func (f *Fn) Dominated(b Occ, as []Occ, ex ...Excuse) OrderResult {
	g := f.G()
	if b.V < 0 {
		return OrderResult{OK: false, Why: "site not in control-flow graph"}
	}
	avoid := map[int]bool{}
	for _, a := range as {
		if !syncOcc(a) || a.V < 0 {
			continue
		}
		if a.V == b.V {
			if evalBefore(a.Node, b.Node) {
				return OrderResult{OK: true}
			}
			continue
		}
		avoid[a.V] = true
	}
	if avoid[g.Entry] {
		return OrderResult{OK: true}
	}
	p := g.pathAvoidingE([]int{g.Entry}, func(v int) bool { return v == b.V }, avoid, true, g.excusedEdges(ex))
	if p == nil {
		return OrderResult{OK: true}
	}
	return OrderResult{OK: false, Path: g.describePath(p), Why: "reachable from entry without passing the required site"}
}

type exitKind int

const (
	exitAll exitKind = iota
	exitSuccess
)

// Followed: every path from a to an exit of the selected kind passes one of xs
// (a deferred x counts if its defer statement was executed before the exit).
func (f *Fn) Followed(a Occ, xs []Occ, kind exitKind, ex ...Excuse) OrderResult {
	g := f.G()
	if a.V < 0 {
		return OrderResult{OK: false, Why: "site not in control-flow graph"}
	}
	avoid := map[int]bool{}
	for _, x := range xs {
		if x.Async || x.V < 0 {
			continue
		}
		if x.Deferred {
			// registered before a on every path => runs at every exit
			if r := f.Dominated(a, []Occ{{V: x.V, Node: x.Node}}); r.OK {
				return OrderResult{OK: true}
			}
			avoid[x.V] = true
			continue
		}
		if x.V == a.V {
			if evalBefore(a.Node, x.Node) {
				return OrderResult{OK: true}
			}
			continue
		}
		avoid[x.V] = true
	}
	goal := func(v int) bool {
		if _, ok := g.V[v].N.(*ast.ReturnStmt); !ok {
			return false
		}
		if kind == exitSuccess && g.ErrExit[v] {
			return false
		}
		return true
	}
	var p []int
	if goal(a.V) && !avoid[a.V] {
		// a is itself in the return statement (e.g. `return f(a())`): nothing can follow
		p = []int{a.V}
	} else {
		p = g.pathAvoidingE([]int{a.V}, goal, avoid, false, g.excusedEdges(ex))
	}
	if p == nil {
		return OrderResult{OK: true}
	}
	return OrderResult{OK: false, Path: g.describePath(append([]int{a.V}, p...)), Why: "an exit is reachable without passing the required site"}
}

// NeverReaches: no path from a to any synchronous occurrence in bs.
func (f *Fn) NeverReaches(a Occ, bs []Occ) OrderResult {
	g := f.G()
	if a.V < 0 {
		return OrderResult{OK: true}
	}
	goalSet := map[int]bool{}
	for _, b := range bs {
		if b.V < 0 || b.Async {
			continue
		}
		if b.V == a.V {
			if evalBefore(a.Node, b.Node) {
				return OrderResult{OK: false, Why: "same statement"}
			}
			continue
		}
		goalSet[b.V] = true
	}
	p := g.pathAvoiding([]int{a.V}, func(v int) bool { return goalSet[v] }, nil, false)
	if p == nil {
		return OrderResult{OK: true}
	}
	return OrderResult{OK: false, Path: g.describePath(append([]int{a.V}, p...)), Why: "forbidden site reachable"}
}

// Between: every path from a to b passes one of xs.
func (f *Fn) Between(a, b Occ, xs []Occ, ex ...Excuse) OrderResult {
	g := f.G()
	avoid := map[int]bool{}
	for _, x := range xs {
		if syncOcc(x) && x.V >= 0 {
			avoid[x.V] = true
		}
	}
	p := g.pathAvoidingE([]int{a.V}, func(v int) bool { return v == b.V }, avoid, false, g.excusedEdges(ex))
	if p == nil {
		return OrderResult{OK: true}
	}
	return OrderResult{OK: false, Path: g.describePath(append([]int{a.V}, p...)), Why: "path bypasses the required site"}
}

// successExits returns occurrences for the (possible) success returns of f.
func (f *Fn) successExits() []Occ {
	g := f.G()
	var out []Occ
	for _, id := range g.Exits {
		if !g.ErrExit[id] {
			out = append(out, Occ{V: id, Node: g.V[id].N, Site: g.V[id].N, SiteFn: f})
		}
	}
	return out
}

func (f *Fn) allExits() []Occ {
	g := f.G()
	var out []Occ
	for _, id := range g.Exits {
		out = append(out, Occ{V: id, Node: g.V[id].N, Site: g.V[id].N, SiteFn: f})
	}
	return out
}
