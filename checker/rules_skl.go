package main

// C22 (memtable skiplist): structural clauses of the lock-free insertion protocol.

import (
	"go/ast"
	"go/token"
	"go/types"
)

func init() {
	register("C22", "Decides the structural clauses of the lock-free skiplist that concurrent readers rely on: (R22.1) a new node's forward pointer at a level is stored before the compare-and-swap that links the node at that level, the stored successor is the one the CAS validates, and levels are linked bottom-up; (R22.2) forward pointers of nodes already reachable are changed only by compare-and-swap, the list height only by CAS; (R22.3) a value is one 64-bit word (offset and size together), written by a single atomic store after the value bytes were copied into the arena and read by a single load; (R22.4) arena offsets are derived from the result of the one atomic add that reserved them; (R22.5) Put looks for an equal key at every level before creating a node and again after every failed CAS, replacing the value instead of inserting a duplicate; findSpliceForLevel reports equality exactly for cmp == 0 and stops at the first larger key; (R22.6) Get/Seek/SeekForPrev/Next/Prev use the findNear modes their contracts need. Does NOT decide sorted-map equivalence for arbitrary put sequences, findNear's descent itself, nor linearizability as a property of histories.", propC22)
}

// atomicOp: n is a call x.<fld>[…].<Method>(…) on a field of an atomic type.
func atomicOp(w *World, n ast.Node) (fld *types.Var, method string, recv ast.Expr, call *ast.CallExpr) {
	c, ok := n.(*ast.CallExpr)
	if !ok {
		return nil, "", nil, nil
	}
	se, ok := unparen(c.Fun).(*ast.SelectorExpr)
	if !ok {
		return nil, "", nil, nil
	}
	switch se.Sel.Name {
	case "Store", "Load", "Add", "CompareAndSwap", "Swap":
	default:
		return nil, "", nil, nil
	}
	f := w.fieldOf(se.X)
	if f == nil {
		return nil, "", nil, nil
	}
	return f, se.Sel.Name, se.X, c
}

func selAtomic(fld *types.Var, methods ...string) Sel {
	key := "atomic:" + fld.Name()
	for _, m := range methods {
		key += ":" + m
	}
	return selPred(key, func(w *World, f *Fn, n ast.Node) bool {
		g, m, _, _ := atomicOp(w, n)
		if g != fld {
			return false
		}
		for _, x := range methods {
			if x == m {
				return true
			}
		}
		return false
	})
}

// baseIdent: the identifier an access path starts at (x in x.tower[i]).
func baseIdent(e ast.Expr) *ast.Ident {
	for {
		switch x := unparen(e).(type) {
		case *ast.Ident:
			return x
		case *ast.SelectorExpr:
			e = x.X
		case *ast.IndexExpr:
			e = x.X
		case *ast.StarExpr:
			e = x.X
		default:
			return nil
		}
	}
}

func indexOf(e ast.Expr) ast.Expr {
	if ix, ok := unparen(e).(*ast.IndexExpr); ok {
		return ix.Index
	}
	return nil
}

func ruleR22_1(c *Check) {
	w := c.W
	r := c.Rule("R22.1", "E1+E4", 5, "Skiplist.Put: the compare-and-swap that links the new node at level i is preceded on every path by the store of the new node's own forward pointer at level i; the stored successor is the value the CAS expects to replace; the CAS installs the new node's offset; the linking loop runs from level 0 upwards",
		"a node linked before its forward pointer is set truncates the list for a concurrent reader; linking an upper level first makes a node findable that the base level does not contain yet")
	put := w.F("skl.Skiplist.Put")
	tower := w.Field("skl.node.tower")
	newNode := w.Func("skl.newNode")
	casFn := w.Func("skl.node.casNextOffset")
	// the new node: local defined from newNode(...)
	var x *types.Var
	put.walk(func(n ast.Node) bool {
		if as, ok := n.(*ast.AssignStmt); ok && len(as.Lhs) == 1 && len(as.Rhs) == 1 {
			if call, ok := unparen(as.Rhs[0]).(*ast.CallExpr); ok && w.Callee(call) == types.Object(newNode) {
				if id, ok := as.Lhs[0].(*ast.Ident); ok {
					x, _ = w.Use(id).(*types.Var)
				}
			}
		}
		return true
	})
	if x == nil {
		panic(anchorError{"new node variable in Skiplist.Put"})
	}
	// publication sites: CAS on a tower (direct or via casNextOffset)
	isCAS := selPred("tower CAS", func(w *World, f *Fn, n ast.Node) bool {
		if call, ok := n.(*ast.CallExpr); ok && w.Callee(call) == types.Object(casFn) {
			return true
		}
		g, m, _, _ := atomicOp(w, n)
		return g == tower && m == "CompareAndSwap"
	})
	ownStore := selPred("x.tower[i].Store", func(w *World, f *Fn, n ast.Node) bool {
		g, m, recv, _ := atomicOp(w, n)
		if g != tower || m != "Store" {
			return false
		}
		id := baseIdent(recv)
		return id != nil && w.Use(id) == types.Object(x)
	})
	cas := put.Sites(isCAS)
	r.Exists(len(cas) >= 1, put, "publication CAS present", nil, "no compare-and-swap on a forward pointer in Put")
	r.DomAll(put, "own forward pointer stored before the node is linked", isCAS, 0, ownStore, 0)
	stores := put.Sites(ownStore)
	for _, cs := range cas {
		call := cs.(*ast.CallExpr)
		var level, old, nw ast.Expr
		if w.Callee(call) == types.Object(casFn) && len(call.Args) == 3 {
			level, old, nw = call.Args[0], call.Args[1], call.Args[2]
		} else if len(call.Args) == 2 {
			_, _, recv, _ := atomicOp(w, call)
			level, old, nw = indexOf(recv), call.Args[0], call.Args[1]
		}
		if level == nil {
			r.Check(false, put, "publication CAS has level, expected and new value", cs, "unrecognised form of the CAS")
			continue
		}
		okStore := false
		for _, s := range stores {
			_, _, recv, sc := atomicOp(w, s)
			if len(sc.Args) == 1 && w.norm(sc.Args[0], nil) == w.norm(old, nil) && indexOf(recv) != nil && w.norm(indexOf(recv), nil) == w.norm(level, nil) {
				okStore = true
			}
		}
		r.Check(okStore, put, "the successor stored in the new node is the one the CAS validates, at the same level", cs, "no x.tower[level].Store(<expected old value of the CAS>) matches this CAS")
		// new value: offset of x
		r.Check(w.mentions(w.from(nw), x), put, "the CAS installs the new node", cs, "the value installed by the CAS is not derived from the new node")
		// bottom-up: the enclosing for statement whose variable is the level starts at 0 and increments
		okLoop := false
		for p := w.parentOf(cs); p != nil; p = w.parentOf(p) {
			fs, ok := p.(*ast.ForStmt)
			if !ok || fs.Init == nil || fs.Post == nil {
				continue
			}
			as, ok1 := fs.Init.(*ast.AssignStmt)
			inc, ok2 := fs.Post.(*ast.IncDecStmt)
			if !ok1 || !ok2 || len(as.Lhs) != 1 || len(as.Rhs) != 1 {
				continue
			}
			lv, _ := as.Lhs[0].(*ast.Ident)
			if lv == nil || !w.mentions(level, w.Use(lv)) {
				continue
			}
			start, isC := w.constInt(as.Rhs[0])
			okLoop = isC && start == 0 && inc.Tok == token.INC
			break
		}
		r.Check(okLoop, put, "levels are linked from the base level upwards", cs, "the loop that links the node does not run i = 0, 1, 2, …")
	}
}

func ruleR22_2(c *Check) {
	w := c.W
	r := c.Rule("R22.2", "E3", 4, "in package skl a forward pointer (node.tower) is written by a plain Store only on the node Put has just created and not yet linked; every other write is a CompareAndSwap; Skiplist.height is changed only by CompareAndSwap after construction",
		"a plain store to a reachable node's forward pointer can overwrite a concurrent insertion (lost node) or expose a half-built chain")
	tower := w.Field("skl.node.tower")
	height := w.Field("skl.Skiplist.height")
	newNode := w.Func("skl.newNode")
	var k keyer
	n := 0
	for _, f := range w.Fns {
		if shortPkg(f.Pkg) != "skl" {
			continue
		}
		f := f
		f.walk(func(nd ast.Node) bool {
			g, m, recv, _ := atomicOp(w, nd)
			switch {
			case g == tower && (m == "Store" || m == "Swap" || m == "Add"):
				n++
				id := baseIdent(recv)
				fresh := false
				if id != nil {
					if v, ok := w.Use(id).(*types.Var); ok && !v.IsField() {
						defs := w.DefsOf(f, v)
						fresh = len(defs) == 1 && w.isCallTo(defs[0], newNode)
					}
				}
				r.Check(fresh && f.Root().Name == "skl.Skiplist.Put", f, k.key("plain store to a forward pointer only on the unlinked new node", w, nd), nd, "tower."+m+" on a node that may already be reachable")
			case g == tower && m == "CompareAndSwap":
				n++
				r.Check(true, f, k.key("forward pointer CAS", w, nd), nd, "")
			case g == height && m != "Load":
				n++
				ok := m == "CompareAndSwap" || f.Root().Name == "skl.NewSkiplist"
				r.Check(ok, f, k.key("list height changed by CAS only", w, nd), nd, "Skiplist.height."+m+" outside construction")
			}
			// a direct assignment to a tower slot or to height is never right
			for _, l := range assignedExprs(nd) {
				if v := w.fieldOf(l); v == tower || v == height {
					n++
					r.Check(false, f, k.key("non-atomic write", w, nd), nd, "non-atomic assignment to "+v.Name())
				}
			}
			return true
		})
	}
	r.Exists(n >= 3, w.F("skl.Skiplist.Put"), "tower/height write sites found", nil, "expected the Store, the CAS and the height CAS")
}

func ruleR22_3(c *Check) {
	w := c.W
	r := c.Rule("R22.3", "E1", 5, "node.value is one word holding offset and size: every Store of it stores encodeValue(offset, size) where the offset comes from Arena.putVal called earlier in the same function (the bytes are in the arena before the word is published); every reader takes a single Load per use and decodes both parts from it",
		"publishing the word before the bytes are copied, or reading offset and size with two loads, lets a reader see a torn value")
	value := w.Field("skl.node.value")
	putVal := w.Func("skl.Arena.putVal")
	enc := w.Func("skl.encodeValue")
	var k keyer
	stores, loads := 0, 0
	for _, f := range w.Fns {
		if shortPkg(f.Pkg) != "skl" {
			continue
		}
		f := f
		nLoads := 0
		f.walk(func(nd ast.Node) bool {
			g, m, _, call := atomicOp(w, nd)
			if g != value {
				for _, l := range assignedExprs(nd) {
					if w.fieldOf(l) == value {
						r.Check(false, f, k.key("non-atomic write of the value word", w, nd), nd, "non-atomic assignment to node.value")
					}
				}
				return true
			}
			switch m {
			case "Load":
				nLoads++
				loads++
			case "Store":
				stores++
				arg := w.Origin(f, call.Args[0])
				ec, isEnc := unparen(arg).(*ast.CallExpr)
				okEnc := isEnc && w.Callee(ec) == types.Object(enc) && len(ec.Args) == 2
				r.Check(okEnc, f, k.key("value word built by encodeValue", w, nd), nd, "node.value.Store argument is not encodeValue(offset, size)")
				if okEnc {
					off := w.Origin(f, ec.Args[0])
					r.Check(w.isCallTo(off, putVal), f, k.key("offset comes from Arena.putVal", w, nd), nd, "the offset stored is not the result of Arena.putVal")
				}
				// the copy into the arena precedes the publication of the word
				r.DomAll(f, "value bytes copied before the word is published", selNode(nd), 0, selCall(putVal), 0)
			default:
				r.Check(false, f, k.key("value word written by Store only", w, nd), nd, "node.value."+m)
			}
			return true
		})
		if nLoads > 0 {
			r.Check(nLoads == 1, f, "one load of the value word per use", nil, "node.value is loaded "+itoa(int64(nLoads))+" times in "+f.Name+": offset and size may come from different values")
		}
	}
	r.Exists(stores >= 2 && loads >= 1, w.F("skl.node.setValue"), "value word stores and loads found", nil, "expected stores in newNode and setValue and a load in getValueOffset")
	// decodeValue/encodeValue agree: offset in the low 32 bits, size in the high 32 bits
	ef, df := w.F("skl.encodeValue"), w.F("skl.decodeValue")
	shl, shr := int64(-1), int64(-1)
	ef.walk(func(n ast.Node) bool {
		if be, ok := n.(*ast.BinaryExpr); ok && be.Op == token.SHL {
			if v, ok := w.constInt(be.Y); ok {
				shl = v
			}
		}
		return true
	})
	df.walk(func(n ast.Node) bool {
		if be, ok := n.(*ast.BinaryExpr); ok && be.Op == token.SHR {
			if v, ok := w.constInt(be.Y); ok {
				shr = v
			}
		}
		return true
	})
	r.Check(shl == 32 && shr == 32, ef, "encodeValue and decodeValue split the word at the same bit", nil, "encodeValue shifts by "+itoa(shl)+", decodeValue by "+itoa(shr))
}

func ruleR22_4(c *Check) {
	w := c.W
	r := c.Rule("R22.4", "E4", 4, "Arena.putNode/putVal/putKey reserve space with exactly one atomic Add on Arena.n and compute the returned offset from that Add's result minus the reserved length (never from a separate Load); Arena.n is stored only at construction",
		"two concurrent puts that derive their offsets from a Load before the Add get overlapping regions: keys or values of one put are overwritten by the other")
	nFld := w.Field("skl.Arena.n")
	var k keyer
	for _, name := range []string{"skl.Arena.putNode", "skl.Arena.putVal", "skl.Arena.putKey"} {
		f := w.F(name)
		adds := f.Sites(selAtomic(nFld, "Add"))
		r.Check(len(adds) == 1, f, "one atomic reservation", nil, "expected exactly one Arena.n.Add in "+name)
		r.Check(len(f.Sites(selAtomic(nFld, "Load", "Store", "Swap", "CompareAndSwap"))) == 0, f, "no other access to Arena.n while allocating", nil, name+" reads or writes Arena.n besides the Add")
		if len(adds) != 1 {
			continue
		}
		add := adds[0].(*ast.CallExpr)
		// the variable holding the Add's result
		var res *types.Var
		if as, ok := w.parentOf(add).(*ast.AssignStmt); ok && len(as.Lhs) == 1 {
			if id, ok := as.Lhs[0].(*ast.Ident); ok {
				res, _ = w.Use(id).(*types.Var)
			}
		}
		r.Check(res != nil, f, "result of the reservation kept", add, "the result of Arena.n.Add is discarded")
		if res == nil {
			continue
		}
		lenArg := add.Args[0]
		for _, s := range f.Sites(selReturn()) {
			rs := s.(*ast.ReturnStmt)
			if len(rs.Results) != 1 {
				continue
			}
			e := w.Origin(f, rs.Results[0])
			// offset = res - len  (putNode additionally rounds up to the alignment: (res - len + a) &^ a)
			okOff := false
			ast.Inspect(e, func(n ast.Node) bool {
				if be, ok := n.(*ast.BinaryExpr); ok && be.Op == token.SUB {
					if id, ok := unparen(be.X).(*ast.Ident); ok && w.Use(id) == types.Object(res) && w.norm(be.Y, nil) == w.norm(lenArg, nil) {
						okOff = true
					}
				}
				return true
			})
			r.Check(okOff, f, k.key("offset is the Add result minus the reserved length", w, rs), rs, "returned offset is not derived as <result of Add> - <length reserved>")
		}
	}
	for _, o := range allSites(w, "skl", selAtomic(nFld, "Store", "Swap", "CompareAndSwap")) {
		root := o.SiteFn.Root().Name
		r.Check(root == "skl.newArena", o.SiteFn, k.key("Arena.n set only at construction", w, o.Node), o.Node, "Arena.n is overwritten in "+root)
	}
}

func ruleR22_5(c *Check) {
	w := c.W
	r := c.Rule("R22.5", "E1+E5", 5, "Skiplist.Put: every findSpliceForLevel whose result it keeps is followed, before anything is linked, by the test for an equal key (prev == next): at the base level that test replaces the value and returns, above it only an assertion may stand; the node is created only after the top-down search found no equal key. findSpliceForLevel returns (next, next) exactly when CompareKeys(key, next.key) == 0, (before, next) when the key is smaller, and moves right otherwise",
		"inserting a second node for an existing key makes the older value visible again to some readers (duplicate key); a search that stops early or late breaks the order of the list")
	put := w.F("skl.Skiplist.Put")
	fsl := w.Func("skl.Skiplist.findSpliceForLevel")
	setValue := w.Func("skl.node.setValue")
	newNode := w.Func("skl.newNode")
	casFn := w.Func("skl.node.casNextOffset")
	tower := w.Field("skl.node.tower")
	// the equality test: prev[i] == next[i] (if) or AssertTrue(prev[i] != next[i])
	isEqTest := selPred("prev==next test", func(w *World, f *Fn, n ast.Node) bool {
		be, ok := n.(*ast.BinaryExpr)
		if !ok || (be.Op != token.EQL && be.Op != token.NEQ) {
			return false
		}
		_, okx := unparen(be.X).(*ast.IndexExpr)
		_, oky := unparen(be.Y).(*ast.IndexExpr)
		if !okx || !oky {
			return false
		}
		tx, ty := w.TypeOf(be.X), w.TypeOf(be.Y)
		return tx != nil && ty != nil && namedOf(tx) != nil && namedOf(tx) == namedOf(ty) && namedOf(tx).Name() == "node"
	})
	isCAS := selPred("tower CAS", func(w *World, f *Fn, n ast.Node) bool {
		if call, ok := n.(*ast.CallExpr); ok && w.Callee(call) == types.Object(casFn) {
			return true
		}
		g, m, _, _ := atomicOp(w, n)
		return g == tower && m == "CompareAndSwap"
	})
	splices := put.Sites(selCall(fsl))
	r.Exists(len(splices) >= 3, put, "top-down search, sparse-level search and retry search", nil, "expected three findSpliceForLevel calls in Put")
	r.FollowAll(put, "search result tested for an equal key", selCall(fsl), 0, isEqTest, 0, exitAll)
	// between a search and the next CAS there is an equality test
	r.NoPathAvoiding(put, "no linking on an untested search result", selCall(fsl), isCAS, isEqTest)
	// each `if prev == next` body replaces the value and returns
	put.walk(func(n ast.Node) bool {
		is, ok := n.(*ast.IfStmt)
		if !ok || !isEqTest.Match(w, put, unparen(is.Cond)) || unparen(is.Cond).(*ast.BinaryExpr).Op != token.EQL {
			return true
		}
		// setValue itself, or a helper of the package that calls it unconditionally
		replaces := selPred("replaces the value", func(w *World, fn *Fn, n ast.Node) bool {
			call, ok := n.(*ast.CallExpr)
			if !ok {
				return false
			}
			if w.Callee(call) == types.Object(setValue) {
				return true
			}
			g := w.calleeFn(fn, call)
			if g == nil || g.Decl == nil || g.Body == nil {
				return false
			}
			for _, s := range g.Sites(selCall(setValue)) {
				if len(w.guardsLocal(g, s)) == 0 {
					return true
				}
			}
			return false
		})
		hasSet := containsSel(w, put, is.Body, replaces)
		_, rets := is.Body.List[len(is.Body.List)-1].(*ast.ReturnStmt)
		r.Check(hasSet && rets, put, "equal key: value replaced and Put returns", is.Cond, "the equal-key branch does not call setValue and return")
		// … on every path: no return inside the branch before the value was replaced (an "already
		// there, nothing to do" shortcut compares only part of the value struct and drops the rest)
		ast.Inspect(is.Body, func(m ast.Node) bool {
			rs, ok := m.(*ast.ReturnStmt)
			if !ok {
				return true
			}
			pre := false
			explicit := func(n ast.Node) int {
				k := 0
				for _, g := range w.Guards(put, n) {
					if !g.Implicit {
						k++
					}
				}
				return k
			}
			for _, s := range put.Sites(replaces) {
				if s.Pos() >= is.Body.Pos() && s.End() <= rs.Pos() && explicit(s) <= explicit(is.Body.List[0]) {
					pre = true
				}
			}
			r.Check(pre, put, "equal key: every return of the branch follows the replacement", rs, "Put returns from the equal-key branch without having called setValue")
			return true
		})
		return true
	})
	// node creation after the top-down search
	// (the search loop runs at least once because the list height is >= 1: a runtime fact this rule does not decide;
	// what it decides is that the loop is there, goes down to level 0 and stands before the creation of the node)
	okSearch := false
	put.walk(func(n ast.Node) bool {
		fs, ok := n.(*ast.ForStmt)
		if !ok || fs.Cond == nil || fs.Post == nil {
			return true
		}
		dec, isDec := fs.Post.(*ast.IncDecStmt)
		if !isDec || dec.Tok != token.DEC {
			return true
		}
		lv, _ := dec.X.(*ast.Ident)
		if lv == nil {
			return true
		}
		isLv := func(e ast.Expr) bool { id, ok := unparen(e).(*ast.Ident); return ok && w.Use(id) == w.Use(lv) }
		op, okc := w.cmpRoles(fs.Cond, true, isLv, w.isConst(0))
		if !okc || op != token.GEQ || !containsSel(w, put, fs.Body, selCall(fsl)) || !containsSel(w, put, fs.Body, isEqTest) {
			return true
		}
		okSearch = true
		r.DomAll(put, "node created only after the top-down search for an equal key", selCall(newNode), 0, selNode(fs.Cond), 0)
		return true
	})
	r.Check(okSearch, put, "top-down search down to level 0 before a node is created", nil, "no loop `for i … ; i >= 0; i--` with findSpliceForLevel and the equal-key test")
	// findSpliceForLevel's three outcomes
	f := w.F("skl.Skiplist.findSpliceForLevel")
	ck := w.Func("y.CompareKeys")
	var keyParam types.Object
	if f.Decl.Type.Params != nil && len(f.Decl.Type.Params.List) > 0 && len(f.Decl.Type.Params.List[0].Names) > 0 {
		keyParam = w.Info.Defs[f.Decl.Type.Params.List[0].Names[0]]
	}
	isKey := func(e ast.Expr) bool { id, ok := unparen(e).(*ast.Ident); return ok && w.Use(id) == keyParam }
	eqRet, ltRet := false, false
	for _, s := range f.Sites(selReturn()) {
		rs := s.(*ast.ReturnStmt)
		if len(rs.Results) != 2 {
			continue
		}
		same := w.norm(rs.Results[0], nil) == w.norm(rs.Results[1], nil)
		var op token.Token = token.ILLEGAL
		for _, g := range w.Guards(f, rs) {
			if o, _, ok := w.threeWay(g.Cond, g.Val, isKey, ck); ok && !g.Implicit {
				op = o
			}
		}
		if op == token.ILLEGAL {
			// implicit guards (earlier `if cmp == 0 {return}`) may be the only ones
			for _, g := range w.Guards(f, rs) {
				if o, _, ok := w.threeWay(g.Cond, g.Val, isKey, ck); ok && o != token.NEQ {
					op = o
				}
			}
		}
		if same && op != token.ILLEGAL {
			r.Check(op == token.EQL, f, "(next, next) returned exactly for an equal key", rs, "equality result returned under `key "+op.String()+" next.key`")
			eqRet = eqRet || op == token.EQL
		}
		if !same && op != token.ILLEGAL {
			r.Check(op == token.LSS || op == token.LEQ, f, "(before, next) returned when the key is smaller than next.key", rs, "splice returned under `key "+op.String()+" next.key`")
			ltRet = ltRet || op == token.LSS
		}
	}
	r.Check(eqRet, f, "equal key reported", nil, "findSpliceForLevel has no return for cmp == 0")
	r.Check(ltRet, f, "stop at the first larger key", nil, "findSpliceForLevel has no return for cmp < 0")
}

func ruleR22_6(c *Check) {
	w := c.W
	r := c.Rule("R22.6", "E7", 6, "findNear modes: Skiplist.Get and Iterator.Seek use (less=false, allowEqual=true); Iterator.SeekForPrev (less=true, allowEqual=true); Iterator.Prev (less=true, allowEqual=false); Iterator.Next follows the level-0 pointer; Get compares the found key with SameKey before returning its value",
		"a wrong mode makes Seek land one entry off, or Get return the value of a neighbouring key")
	fn := w.Func("skl.Skiplist.findNear")
	want := map[string][2]bool{
		"skl.Skiplist.Get":        {false, true},
		"skl.Iterator.Seek":       {false, true},
		"skl.Iterator.SeekForPrev": {true, true},
		"skl.Iterator.Prev":       {true, false},
	}
	for name, flags := range want {
		f := w.F(name)
		calls := f.Sites(selCall(fn))
		r.Check(len(calls) == 1, f, "one findNear call", nil, "expected one findNear call in "+name)
		for _, s := range calls {
			call := s.(*ast.CallExpr)
			if len(call.Args) != 3 {
				continue
			}
			b := func(e ast.Expr) (bool, bool) {
				tv := w.Info.Types[e]
				if tv.Value == nil {
					return false, false
				}
				return tv.Value.String() == "true", true
			}
			l, ok1 := b(call.Args[1])
			a, ok2 := b(call.Args[2])
			r.Check(ok1 && ok2 && l == flags[0] && a == flags[1], f, "findNear mode", call, "findNear called with less="+types.ExprString(call.Args[1])+", allowEqual="+types.ExprString(call.Args[2]))
		}
	}
	// Next: level 0
	nx := w.F("skl.Iterator.Next")
	gn := w.Func("skl.Skiplist.getNext")
	for _, s := range nx.Sites(selCall(gn)) {
		call := s.(*ast.CallExpr)
		v, isC := w.constInt(call.Args[1])
		r.Check(isC && v == 0, nx, "Next follows the base level", call, "Iterator.Next does not follow level 0")
	}
	r.Exists(len(nx.Sites(selCall(gn))) >= 1, nx, "Next uses getNext", nil, "expected one getNext call")
	// Get: SameKey guard before the value is read
	get := w.F("skl.Skiplist.Get")
	sk := w.Func("y.SameKey")
	gv := w.Func("skl.node.getValueOffset")
	r.DomAll(get, "key compared before its value is returned", selCall(gv), 0, selCall(sk), 0)
	for _, s := range get.Sites(selCall(gv)) {
		ok := false
		for _, g := range w.Guards(get, s) {
			if w.mentions(g.Cond, sk) && ((g.Val && !isNot(g.Cond)) || (!g.Val && isNot(g.Cond))) {
				ok = true
			}
		}
		r.Check(ok, get, "value read only for the same user key", s, "getValueOffset is not control-dependent on SameKey being true")
	}
}

func ruleR22_7(c *Check) {
	w := c.W
	r := c.Rule("R22.7", "E4", 4, "one load per step: in findNear and findSpliceForLevel the successor of the cursor is loaded exactly once per loop iteration (getNext(cursor, level) at one site, bound to the local whose key is then compared); every node returned or moved to afterwards is that compared local (or a successor of it), never a second load of the cursor's successor",
		"between two loads of the same forward pointer a concurrent Put can link a node in: a node that was never compared is returned, so Seek lands before its target and Get misses a present key")
	gn := w.Func("skl.Skiplist.getNext")
	ck := w.Func("y.CompareKeys")
	for _, name := range []string{"skl.Skiplist.findNear", "skl.Skiplist.findSpliceForLevel"} {
		f := w.F(name)
		// the compared local: the node whose key(…) feeds CompareKeys
		var cmpNode types.Object
		f.walk(func(n ast.Node) bool {
			call, ok := n.(*ast.CallExpr)
			if !ok || w.Callee(call) != types.Object(ck) {
				return true
			}
			for _, a := range call.Args {
				o := w.Origin(f, a)
				if kc, ok := unparen(o).(*ast.CallExpr); ok && isCallNamed(w, kc, "key") {
					if id, ok := unparen(recvOf(kc)).(*ast.Ident); ok {
						cmpNode = w.Use(id)
					}
				}
			}
			return true
		})
		r.Check(cmpNode != nil, f, "compared node identified", nil, "no CompareKeys(key, <node>.key(…)) in "+name)
		if cmpNode == nil {
			continue
		}
		// its definition: getNext(cursor, level)
		var cursor types.Object
		loads := 0
		var k keyer
		for _, s := range f.Sites(selCall(gn)) {
			call := s.(*ast.CallExpr)
			id, _ := unparen(call.Args[0]).(*ast.Ident)
			if id == nil {
				continue
			}
			bound := false
			if as, ok := w.parentOf(call).(*ast.AssignStmt); ok && len(as.Lhs) == 1 {
				if lid, ok := as.Lhs[0].(*ast.Ident); ok && w.Use(lid) == cmpNode {
					bound = true
				}
			}
			if bound {
				loads++
				cursor = w.Use(id)
			}
		}
		r.Check(loads == 1 && cursor != nil, f, "the cursor's successor is loaded at one site and compared", nil, "expected exactly one `next := getNext(cursor, level)` feeding the comparison in "+name)
		if cursor == nil {
			continue
		}
		for _, s := range f.Sites(selCall(gn)) {
			call := s.(*ast.CallExpr)
			id, _ := unparen(call.Args[0]).(*ast.Ident)
			if id == nil {
				r.Check(false, f, k.key("getNext applied to a named node", w, s), s, "getNext applied to "+short(w, call.Args[0]))
				continue
			}
			if as, ok := w.parentOf(call).(*ast.AssignStmt); ok && len(as.Lhs) == 1 {
				if lid, ok := as.Lhs[0].(*ast.Ident); ok && w.Use(lid) == cmpNode {
					continue // the one load
				}
			}
			r.Check(w.Use(id) != cursor, f, k.key("no second load of the cursor's successor", w, s), s, "the successor of the cursor is loaded again after the comparison: a node linked in between is used without having been compared")
		}
	}
}

func isNot(e ast.Expr) bool {
	u, ok := unparen(e).(*ast.UnaryExpr)
	return ok && u.Op == token.NOT
}

func propC22(c *Check) {
	ruleR22_1(c)
	ruleR22_2(c)
	ruleR22_3(c)
	ruleR22_4(c)
	ruleR22_5(c)
	ruleR22_6(c)
	ruleR22_7(c)
}
