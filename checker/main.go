package main

import (
	"flag"
	"fmt"
	"os"
	"path/filepath"
	"runtime/debug"
	"sort"
	"strconv"
	"time"
)

type propDef struct {
	Run  func(c *Check)
	Expl string
}

var props = map[string]*propDef{}

func register(id, expl string, run func(c *Check)) { props[id] = &propDef{Run: run, Expl: expl} }

func usage() int {
	fmt.Fprintln(os.Stderr, "usage: bverif check -property Cnn [-tier quick|thorough] [-repo /repo] [-root /verif]\n       bverif explain <violation.json>\n       bverif list")
	return 2
}

func main() { os.Exit(run()) }

func run() int {
	if len(os.Args) < 2 {
		return usage()
	}
	switch os.Args[1] {
	case "explain":
		if len(os.Args) < 3 {
			return usage()
		}
		return explain(os.Args[2])
	case "list":
		var ids []string
		for id := range props {
			ids = append(ids, id)
		}
		sort.Strings(ids)
		for _, id := range ids {
			fmt.Println(id)
		}
		return 0
	case "check":
	default:
		return usage()
	}
	fs := flag.NewFlagSet("check", flag.ExitOnError)
	prop := fs.String("property", "", "property id(s), comma separated, or all")
	tier := fs.String("tier", os.Getenv("VERIF_TIER"), "quick|thorough")
	repo := fs.String("repo", "/repo", "repository working tree")
	root := fs.String("root", "", "verif root (default: cwd)")
	fs.Parse(os.Args[2:])
	if *tier == "" {
		*tier = "quick"
	}
	if *root == "" {
		*root, _ = os.Getwd()
	}
	seed, _ := strconv.Atoi(os.Getenv("VERIF_SEED"))
	var ids []string
	if *prop == "all" {
		for id := range props {
			ids = append(ids, id)
		}
		sort.Strings(ids)
	} else {
		for _, p := range splitComma(*prop) {
			if props[p] == nil {
				fmt.Fprintln(os.Stderr, "unknown property", p)
				return 2
			}
			ids = append(ids, p)
		}
	}
	if len(ids) == 0 {
		return usage()
	}
	start := time.Now()
	abs, _ := filepath.Abs(*repo)
	w, err := loadWorld(abs, *tier, "", *tier == "thorough")
	if err != nil {
		fmt.Println("BROKEN-CHECK: load failed:", err)
		return 2
	}
	if *tier == "thorough" {
		if err := w.buildVTA(); err != nil {
			fmt.Println("BROKEN-CHECK: SSA/VTA construction failed:", err)
			return 2
		}
	}
	fmt.Printf("loaded %s: %d packages (%d in module), %d files, %d function bodies, tier=%s, %.1fs\n",
		abs, len(w.All), len(w.Repo), w.Files, len(w.Fns), *tier, time.Since(start).Seconds())
	worst := 0
	for _, id := range ids {
		code := runOne(w, id, *tier, *root, seed, start)
		if code > worst {
			worst = code
		}
		start = time.Now()
	}
	return worst
}

func runOne(w *World, id, tier, root string, seed int, start time.Time) (code int) {
	c := &Check{W: w, Prop: id, Tier: tier, Root: root, seen: map[string]*Ob{}, start: start, Expl: props[id].Expl}
	defer func() {
		if r := recover(); r != nil {
			if ae, ok := r.(anchorError); ok {
				// The construct a rule is anchored on is gone (removed, renamed or rewritten beyond what the
				// rule recognises): the clause it stands for is not established on this tree. That is an
				// undischarged obligation, reported like any other (exit 1 with a VIOLATION line and an
				// evidence file), with the diagnosis that it is the anchor that is missing.
				fmt.Printf("ANCHOR-MISSING: property=%s %s\n", id, ae.Error())
				rr := c.Rule("ANCHOR", "anchors", 0, "every function, field, closure and variable the rules of this property are anchored on exists in the tree in a form the analysis can identify",
					"a rule whose subject is gone decides nothing: the structural clauses that depend on it are not established on this tree")
				rr.Check(false, nil, "anchor present: "+ae.what, nil, ae.Error()+": the mechanism this check examines was removed, renamed or rewritten beyond recognition; the rules that follow it were not evaluated")
				code = c.Finish(seed)
				return
			}
			// A rule met a construct it cannot interpret (its own bug or a rewrite beyond what it models).
			// Like a missing anchor this leaves the rule's clause undecided on this tree: reported as an
			// undischarged obligation (exit 1), with the stack so that the analyser can be repaired.
			last := ""
			if n := len(c.Rules); n > 0 {
				last = c.Rules[n-1].ID
			}
			stack := string(debug.Stack())
			fmt.Printf("ANALYSER-ERROR: property=%s while evaluating %s: %v\n%s\n", id, last, r, stack)
			func() {
				defer func() {
					if r2 := recover(); r2 != nil {
						fmt.Printf("BROKEN-CHECK: property=%s analyser panic: %v (and while reporting it: %v)\n", id, r, r2)
						code = 2
					}
				}()
				rr := c.Rule("UNDECIDED", "analyser", 0, "every rule of this property could be evaluated on this tree",
					"a rule that cannot interpret the code it is anchored on decides nothing: its clause is not established on this tree")
				rr.Check(false, nil, "rule "+last+" evaluated", nil, fmt.Sprintf("the analysis of %s failed on this tree (%v): the code it examines was rewritten into a form the rule does not model; its clause and the rules after it are undecided", last, r))
				code = c.Finish(seed)
			}()
		}
	}()
	props[id].Run(c)
	if os.Getenv("BVERIF_SELFTEST_PANIC") == id {
		var np *Check
		_ = np.Prop // exercises the ANALYSER-ERROR path (tools/selftest and DESIGN §13)
	}
	if tier == "thorough" {
		c.thoroughExtras()
		// second pass on the GOARCH=386 build of the tree (other build-tagged files, 32-bit sizes)
		if w2, err := loadWorld(w.RepoDir, "thorough-386", "386", false); err != nil {
			c.Notes = append(c.Notes, "thorough: GOARCH=386 variant not analysed: "+err.Error())
		} else {
			c2 := &Check{W: w2, Prop: id, Tier: tier, Root: root, seen: map[string]*Ob{}, start: start, Expl: props[id].Expl}
			props[id].Run(c2)
			bad := 0
			for _, o := range c2.Obs {
				if !o.OK {
					if prev, dup := c.seen[o.Key()]; dup && !prev.OK {
						continue // same finding as in the amd64 pass
					}
					bad++
					o.Fn = "[GOARCH=386] " + o.Fn
					if _, dup := c.seen[o.Key()]; !dup {
						c.seen[o.Key()] = o
						c.Obs = append(c.Obs, o)
						for _, r := range c.Rules {
							if r.ID == o.Rule {
								r.Sites++
								r.Violations++
							}
						}
					}
				}
			}
			c.Notes = append(c.Notes, fmt.Sprintf("thorough: GOARCH=386 variant analysed: %d files, %d obligations, %d failing", w2.Files, len(c2.Obs), bad))
		}
	}
	return c.Finish(seed)
}

func splitComma(s string) []string {
	var out []string
	cur := ""
	for _, r := range s {
		if r == ',' {
			if cur != "" {
				out = append(out, cur)
			}
			cur = ""
		} else {
			cur += string(r)
		}
	}
	if cur != "" {
		out = append(out, cur)
	}
	return out
}
