package main

// C21: MergeIterator — order logic of fix(), step/reposition protocol, node bookkeeping.

import (
	"go/ast"
	"go/token"
	"go/types"
)

// fixRelation: what the guards of a node in MergeIterator.fix say about
// CompareKeys(small.key, bigger().key): token.EQL / LSS / GTR (also via switch arms and
// if/else chains), ILLEGAL if nothing is known; and about mi.reverse: 1 set, 0 clear, -1 unknown.
func fixRelation(w *World, f *Fn, n ast.Node) (token.Token, int) {
	ck := w.Func("y.CompareKeys")
	small := w.Field("table.MergeIterator.small")
	revF := w.Field("table.MergeIterator.reverse")
	isSmallKey := func(e ast.Expr) bool {
		// mi.small.key: a selector of node.key whose base goes through MergeIterator.small
		if w.fieldOf(e) != w.Field("table.node.key") {
			return false
		}
		se, ok := unparen(e).(*ast.SelectorExpr)
		return ok && w.fieldOf(se.X) == small
	}
	rel := token.ILLEGAL
	rev := -1
	var neq []token.Token
	for _, g := range w.Guards(f, n) {
		if op, _, ok := w.threeWay(g.Cond, g.Val, isSmallKey, ck); ok {
			switch op {
			case token.EQL, token.LSS, token.GTR:
				rel = op
			case token.NEQ, token.GEQ, token.LEQ:
				neq = append(neq, op)
			}
		}
		if w.fieldOf(g.Cond) == revF {
			if g.Val {
				rev = 1
			} else {
				rev = 0
			}
		}
	}
	if rel == token.ILLEGAL && len(neq) >= 2 {
		// default arm / final else: two of the three outcomes excluded
		has := map[token.Token]bool{}
		for _, o := range neq {
			has[o] = true
		}
		switch {
		case has[token.NEQ] && has[token.GEQ]:
			rel = token.GTR
		case has[token.NEQ] && has[token.LEQ]:
			rel = token.LSS
		case has[token.GEQ] && has[token.LEQ]:
			rel = token.EQL
		}
	}
	return rel, rev
}

// ruleR21_1: the tie rule, read off the guards (switch arm, if/else chain or early returns alike).
func ruleR21_1(c *Check) {
	w := c.W
	r := c.Rule("R21.1", "E6", 3, "MergeIterator.fix, equal keys: the node advanced is mi.right (never mi.left) and afterwards `small` does not point at the advanced node — the left (earlier) input wins an exact tie; Next skips entries whose key equals the current key",
		"C01/C04/C12/C31 rely on the earlier source (pending writes, newer memtable, newer level) shadowing an equal internal key of a later source")
	f := w.F("table.MergeIterator.fix")
	right, left := w.Field("table.MergeIterator.right"), w.Field("table.MergeIterator.left")
	small := w.Field("table.MergeIterator.small")
	next := w.Func("table.node.next")
	swap := w.Func("table.MergeIterator.swapSmall")
	advRight, advLeft := 0, 0
	var tie ast.Node
	for _, s := range f.Sites(selCall(next)) {
		if rel, _ := fixRelation(w, f, s); rel != token.EQL {
			continue
		}
		tie = s
		switch w.fieldOf(recvOf(s.(*ast.CallExpr))) {
		case right:
			advRight++
		case left:
			advLeft++
		}
	}
	r.Check(advRight == 1 && advLeft == 0, f, "equal keys advance the right input only", tie, "the tie arm advances the left input (or not exactly the right one)")
	guarded, unguarded := 0, 0
	for _, s := range f.Sites(selCall(swap)) {
		if rel, _ := fixRelation(w, f, s); rel != token.EQL {
			continue
		}
		onRight := HasGuard(w.Guards(f, s), true, func(e ast.Expr) bool {
			be, ok := unparen(e).(*ast.BinaryExpr)
			return ok && be.Op == token.EQL && w.mentions(be, right) && w.mentions(be, small)
		})
		if onRight != nil {
			guarded++
		} else {
			unguarded++
		}
	}
	r.Check(guarded >= 1, f, "small moved off the advanced (right) node", tie, "after advancing right, `small` may still point at it")
	r.Check(unguarded == 0, f, "no unconditional swap on a tie", tie, "swapSmall is called on a tie without `small` pointing at the right node")
	nx := w.F("table.MergeIterator.Next")
	okv := false
	nx.walk(func(n ast.Node) bool {
		if call, ok := n.(*ast.CallExpr); ok && w.Callee(call) == types.Object(w.Func("bytes.Equal")) && w.mentions(call, w.Field("table.MergeIterator.curKey")) {
			okv = true
		}
		return true
	})
	r.Check(okv, nx, "Next skips duplicates of the current key", nil, "Next no longer compares small.key with curKey")
}

func ruleR21_3(c *Check) {
	w := c.W
	r := c.Rule("R21.3", "E5+E6", 8, "MergeIterator.fix: with both sides valid, `small` is switched to the other node exactly when (small.key < other.key and reverse) or (small.key > other.key and not reverse); on equal keys the right node is advanced (never the left) and `small` is switched only if it pointed at the right node; an invalid other side leaves `small` alone; an invalid `small` switches; bigger() is the node `small` does not point at and swapSmall exchanges the two",
		"the node `small` points at supplies Key and Value: a wrong switch returns keys out of order, a tie resolved to the right input lets an older source shadow a newer one")
	f := w.F("table.MergeIterator.fix")
	swap := w.Func("table.MergeIterator.swapSmall")
	next := w.Func("table.node.next")
	right, left := w.Field("table.MergeIterator.right"), w.Field("table.MergeIterator.left")
	small := w.Field("table.MergeIterator.small")
	valid := w.Field("table.node.valid")
	seen := map[string]bool{}
	var k keyer
	for _, s := range f.Sites(selCall(swap)) {
		rel, rev := fixRelation(w, f, s)
		gs := w.Guards(f, s)
		smallInvalid := HasGuard(gs, false, func(e ast.Expr) bool {
			se, ok := unparen(e).(*ast.SelectorExpr)
			return ok && w.fieldOf(e) == valid && w.fieldOf(se.X) == small
		})
		onRight := HasGuard(gs, true, func(e ast.Expr) bool {
			be, ok := unparen(e).(*ast.BinaryExpr)
			return ok && be.Op == token.EQL && w.mentions(be, right) && w.mentions(be, small)
		})
		switch {
		case rel == token.ILLEGAL && smallInvalid != nil:
			seen["invalid"] = true
			r.Check(true, f, k.key("switch away from an exhausted side", w, s), s, "")
		case rel == token.EQL:
			seen["tie"] = true
			r.Check(onRight != nil, f, k.key("on a tie `small` leaves only the (advanced) right node", w, s), s, "on equal keys `small` is switched although it may point at the left node: the right (later) input wins the tie")
		case rel == token.LSS:
			seen["lt"] = true
			r.Check(rev == 1, f, k.key("small < other: switch only in reverse", w, s), s, "`small` is switched although its key is already the smaller one (forward iteration)")
		case rel == token.GTR:
			seen["gt"] = true
			r.Check(rev == 0, f, k.key("small > other: switch only going forward", w, s), s, "`small` is switched although its key is the larger one in reverse iteration")
		default:
			r.Check(false, f, k.key("switch of `small` under a known order relation", w, s), s, "swapSmall is called where neither the order of the two keys nor the validity of `small` is known")
		}
	}
	for _, c := range []string{"invalid", "tie", "lt", "gt"} {
		r.Check(seen[c], f, "case handled: "+c, nil, "MergeIterator.fix has no switch of `small` for the case: "+c)
	}
	// advancing inside fix: only the right node, only on a tie
	for _, s := range f.Sites(selCall(next)) {
		rel, _ := fixRelation(w, f, s)
		side := w.fieldOf(recvOf(s.(*ast.CallExpr)))
		r.Check(rel == token.EQL && side == right, f, k.key("only the right input is advanced, and only on a tie", w, s), s, "fix advances "+map[bool]string{true: "the left input", false: "an input"}[side == left]+" outside the equal-keys case or on the wrong side")
	}
	r.Exists(len(f.Sites(selCall(next))) == 1, f, "tie advances one input", nil, "expected exactly one node.next() in fix")
	// early return when the other side is exhausted, before anything is compared or switched
	okEarly := false
	for _, s := range f.Sites(selReturn()) {
		for _, g := range w.Guards(f, s) {
			if call, ok := unparenSel(g.Cond); ok && !g.Val && !g.Implicit {
				if c2, ok := unparen(w.Origin(f, call.X)).(*ast.CallExpr); ok && w.Callee(c2) == types.Object(w.Func("table.MergeIterator.bigger")) && w.fieldOf(g.Cond) == valid {
					okEarly = len(w.Guards(f, s)) == 1
				}
			}
		}
	}
	r.Check(okEarly, f, "an exhausted other side leaves `small` where it is", nil, "fix does not return at once when bigger() is invalid")
	// bigger(): the node small does not point at
	bf := w.F("table.MergeIterator.bigger")
	okB := 0
	for _, s := range bf.Sites(selReturn()) {
		rs := s.(*ast.ReturnStmt)
		if len(rs.Results) != 1 {
			continue
		}
		ret := w.fieldOf(rs.Results[0])
		isLeft := -1
		for _, g := range w.Guards(bf, rs) {
			if be, ok := unparen(g.Cond).(*ast.BinaryExpr); ok && be.Op == token.EQL && w.mentions(be, small) {
				switch {
				case w.mentions(be, left):
					isLeft = map[bool]int{true: 1, false: 0}[g.Val]
				case w.mentions(be, right):
					isLeft = map[bool]int{true: 0, false: 1}[g.Val]
				}
			}
		}
		if (isLeft == 1 && ret == right) || (isLeft == 0 && ret == left) {
			okB++
		}
	}
	r.Check(okB == 2, bf, "bigger() is the other node", nil, "bigger() does not return right when small is left and left otherwise")
	sf := w.F("table.MergeIterator.swapSmall")
	okS := 0
	for _, s := range sf.Sites(selStore(small)) {
		as := s.(*ast.AssignStmt)
		to := w.fieldOf(as.Rhs[0])
		for _, g := range w.Guards(sf, s) {
			if be, ok := unparen(g.Cond).(*ast.BinaryExpr); ok && be.Op == token.EQL && g.Val && w.mentions(be, small) && !g.Implicit {
				if (w.mentions(be, left) && to == right) || (w.mentions(be, right) && to == left) {
					okS++
				}
			}
		}
	}
	r.Check(okS == 2, sf, "swapSmall exchanges left and right", nil, "swapSmall does not move small from left to right and from right to left")
}

func unparenSel(e ast.Expr) (*ast.SelectorExpr, bool) {
	se, ok := unparen(e).(*ast.SelectorExpr)
	return se, ok
}

func ruleR21_4(c *Check) {
	w := c.W
	r := c.Rule("R21.4", "E1", 10, "step and reposition protocol: MergeIterator.Next advances `small` only while its key equals the current key and re-establishes the order (fix) after every advance, then records the new current key; Rewind and Seek reposition both children (Seek with the same target), then fix, then record the current key; node.next/rewind/seek refresh the node's cached validity and key (setKey) after moving the child; setKey takes validity from the child and the key only when valid, for each of the three child kinds; Key and Value are those of `small`",
		"a child moved without refreshing the cached key, or an order not re-established after an advance, returns stale or out-of-order keys")
	nx := w.F("table.MergeIterator.Next")
	fix := selCallName(w, "table.MergeIterator.fix")
	setCur := selCallName(w, "table.MergeIterator.setCurrent")
	adv := selCallName(w, "table.node.next")
	small := w.Field("table.MergeIterator.small")
	cur := w.Field("table.MergeIterator.curKey")
	r.Exists(len(nx.Sites(adv)) == 1 && len(nx.Sites(fix)) == 1 && len(nx.Sites(setCur)) == 1, nx, "Next: advance, fix, setCurrent", nil, "expected one advance of small, one fix and one setCurrent in Next")
	r.FollowAll(nx, "order re-established after every advance", adv, 0, fix, 0, exitAll)
	r.ExitsNeed(nx, "current key recorded", setCur, 0, exitAll)
	for _, s := range nx.Sites(adv) {
		r.Check(w.fieldOf(recvOf(s.(*ast.CallExpr))) == small, nx, "Next advances the node `small` points at", s, "Next advances a node other than small")
		// the advance happens while small.key == curKey: an early exit of the loop on inequality precedes it
		okEq := false
		for _, g := range w.Guards(nx, s) {
			if call, ok := unparen(g.Cond).(*ast.CallExpr); ok {
				if fn, _ := w.Callee(call).(*types.Func); fn != nil && fn.Name() == "Equal" && w.mentions(call, cur) && g.Val {
					okEq = true
				}
			}
			if op, _, ok := w.threeWay(g.Cond, g.Val, func(e ast.Expr) bool { return w.fieldOf(e) == cur }, w.Func("bytes.Compare"), w.Func("y.CompareKeys")); ok && op == token.EQL {
				okEq = true
			}
		}
		r.Check(okEq, nx, "only entries equal to the current key are skipped", s, "small is advanced without its key being equal to curKey")
	}
	for _, name := range []string{"table.MergeIterator.Rewind", "table.MergeIterator.Seek"} {
		f := w.F(name)
		move := selOr(selCallName(w, "table.node.rewind"), selCallName(w, "table.node.seek"))
		sites := f.Sites(move)
		sides := map[*types.Var]bool{}
		for _, s := range sites {
			sides[w.fieldOf(recvOf(s.(*ast.CallExpr)))] = true
		}
		r.Check(len(sites) == 2 && sides[w.Field("table.MergeIterator.left")] && sides[w.Field("table.MergeIterator.right")], f, "both children repositioned", nil, "left and right are not both repositioned")
		r.DomAll(f, "fix after both children moved", fix, 0, move, 0)
		for _, s := range sites {
			r.FollowAll(f, "order established after repositioning", selNode(s), 0, fix, 0, exitAll)
		}
		r.DomAll(f, "current key recorded after fix", setCur, 0, fix, 0)
		r.ExitsNeed(f, "current key recorded", setCur, 0, exitAll)
		if name == "table.MergeIterator.Seek" {
			var p types.Object
			if ps := f.Decl.Type.Params; ps != nil && len(ps.List) == 1 && len(ps.List[0].Names) == 1 {
				p = w.Info.Defs[ps.List[0].Names[0]]
			}
			for _, s := range sites {
				call := s.(*ast.CallExpr)
				id, ok := unparen(call.Args[0]).(*ast.Ident)
				r.Check(len(call.Args) == 1 && ok && w.Use(id) == p, f, "both children seek the caller's target", s, "a child is positioned at something other than Seek's argument")
			}
		}
	}
	// node.next / rewind / seek: setKey after the move, on every path
	setKey := selCallName(w, "table.node.setKey")
	for _, name := range []string{"table.node.next", "table.node.rewind", "table.node.seek"} {
		f := w.F(name)
		r.ExitsNeed(f, "cached key refreshed", setKey, 0, exitAll)
		moves := f.Sites(selPred("child move", func(w *World, fn *Fn, n ast.Node) bool {
			call, ok := n.(*ast.CallExpr)
			return ok && (isCallNamed(w, call, "Next") || isCallNamed(w, call, "Rewind") || isCallNamed(w, call, "Seek"))
		}))
		r.Exists(len(moves) >= 1, f, "child moved", nil, "no Next/Rewind/Seek of the child in "+name)
		for _, m := range moves {
			r.FollowAll(f, "setKey after the child moved", selNode(m), 0, setKey, 0, exitAll)
		}
	}
	// setKey: valid := child.Valid (or child's small.valid); key only under valid
	sk := w.F("table.node.setKey")
	validF, keyF := w.Field("table.node.valid"), w.Field("table.node.key")
	vs, ks := sk.Sites(selStore(validF)), sk.Sites(selStore(keyF))
	r.Check(len(vs) == len(ks) && len(vs) >= 1, sk, "validity and key refreshed together for every child kind", nil, "setKey has "+itoa(int64(len(vs)))+" validity stores and "+itoa(int64(len(ks)))+" key stores")
	for _, s := range ks {
		g := HasGuard(w.Guards(sk, s), true, func(e ast.Expr) bool { return w.fieldOf(e) == validF })
		r.Check(g != nil, sk, "key cached only for a valid child", s, "node.key is refreshed without the child being valid")
	}
	for _, s := range vs {
		as, ok := s.(*ast.AssignStmt)
		okSrc := false
		if ok && len(as.Rhs) == 1 {
			rhs := unparen(as.Rhs[0])
			okSrc = isCallNamed(w, rhs, "Valid") || w.fieldOf(rhs) == validF
		}
		r.Check(okSrc, sk, "validity taken from the child", s, "node.valid is not the child's Valid()")
	}
	// Key/Value from small
	for _, name := range []string{"table.MergeIterator.Key", "table.MergeIterator.Value", "table.MergeIterator.Valid"} {
		f := w.F(name)
		ok := false
		for _, s := range f.Sites(selReturn()) {
			if w.mentions(s, small) {
				ok = true
			}
		}
		r.Check(ok, f, "answers come from the node `small` points at", nil, name+" does not read mi.small")
	}
}
