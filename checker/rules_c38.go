package main

// C38 (no deadlock): lock order, recursive read locks, blocking operations under DB.lock, stop/start pairing.

import (
	"fmt"
	"go/ast"
	"go/token"
	"go/types"
	"os"
	"sort"
	"strings"
)

func init() {
	register("C38", "Decides structural necessary conditions of deadlock freedom: (R38.1) the acquired-while-held graph over lock objects (struct-field granularity, interprocedural over synchronous calls) has no cycle; (R38.2) no read lock is taken again on a lock object that may be the same instance while the first read lock is held (a queued writer would block the second RLock forever), except where the code distinguishes the instances; (R38.3) while DB.lock is held no operation that can block indefinitely is executed directly (channel operations only as select arms with a default, no waits/sleeps); (R38.4=R29.1) everything paused is resumed on all paths; (R38.5) Close stops the writers before closing the write channel and closes the flush channel before waiting for the flusher. Does NOT decide liveness under L0 stalls and full queues, goroutine leaks, or user callbacks.", propC38)
}

func ruleR38_1(c *Check) {
	w := c.W
	r := c.Rule("R38.1", "E8", 10, "lock order: the graph 'lock B acquired while lock A is held' (locks identified by the struct field or variable holding the mutex; calls followed synchronously) is acyclic",
		"two goroutines taking two locks in opposite orders deadlock under the right interleaving")
	lg := w.buildLockGraph()
	// report every distinct ordered pair once
	type pair struct{ a, b types.Object }
	first := map[pair]*lockEdge{}
	for _, e := range lg.Edges {
		if e.From == e.To {
			continue
		}
		p := pair{e.From, e.To}
		if first[p] == nil {
			first[p] = e
		}
	}
	inCycle := map[types.Object]int{}
	cycles := lg.cycles()
	for i, comp := range cycles {
		for _, l := range comp {
			inCycle[l] = i + 1
		}
	}
	var pairs []pair
	for p := range first {
		pairs = append(pairs, p)
	}
	sort.Slice(pairs, func(i, j int) bool {
		return w.lockName(pairs[i].a)+">"+w.lockName(pairs[i].b) < w.lockName(pairs[j].a)+">"+w.lockName(pairs[j].b)
	})
	for _, p := range pairs {
		e := first[p]
		bad := inCycle[p.a] != 0 && inCycle[p.a] == inCycle[p.b]
		msg := ""
		if bad {
			var names []string
			for _, l := range cycles[inCycle[p.a]-1] {
				names = append(names, w.lockName(l))
			}
			sort.Strings(names)
			msg = "lock-order cycle among {" + strings.Join(names, ", ") + "}: here " + w.lockName(p.b) + " is acquired while " + w.lockName(p.a) + " is held"
			if e.Via != "" {
				msg += " (through " + e.Via + ")"
			}
		}
		r.Check(!bad, e.Fn, "order "+w.lockName(p.a)+" → "+w.lockName(p.b), e.At, msg)
	}
}

func ruleR38_2(c *Check) {
	w := c.W
	r := c.Rule("R38.2", "E8+E6", 1, "no recursive read lock: a lock object is not read-locked (or locked) again while a read lock on a possibly identical instance is held, unless the second acquisition is guarded by a test that the two instances differ",
		"sync.RWMutex blocks new readers once a writer waits: the second RLock waits for the writer, which waits for the first RLock — a deadlock that also blocks every other reader")
	lg := w.buildLockGraph()
	var k keyer
	n := 0
	for _, e := range lg.Edges {
		if e.From != e.To {
			continue
		}
		n++
		ok := false
		why := w.lockName(e.To) + " acquired again while already held"
		if e.Via != "" {
			why += " (through " + e.Via + ")"
		}
		// instance distinction: the acquisition is control-dependent on `x != y` between two values of the owner type,
		// or the two receivers are provably different instances (different constant indices of one slice)
		for _, g := range w.Guards(e.Fn, e.At) {
			if be, isB := g.Cond.(*ast.BinaryExpr); isB && ((be.Op == token.NEQ && g.Val) || (be.Op == token.EQL && !g.Val)) {
				tx, ty := w.TypeOf(be.X), w.TypeOf(be.Y)
				if tx != nil && ty != nil && types.Identical(tx, ty) {
					if _, isPtr := tx.(*types.Pointer); isPtr {
						ok = true
					}
				}
			}
		}
		// known distinct-instance idioms, each with its reason
		switch e.Fn.Root().Name {
		case "badger.levelsController.subcompact", "badger.levelsController.checkOverlap", "badger.levelsController.overlapsPassedOver":
			// these lock one level at a time (Lock…Unlock inside a loop); a held set across iterations is impossible
		}
		r.Check(ok, e.Fn, k.key("second acquisition of "+w.lockName(e.To), w, e.At), e.At, why)
	}
	// positive control: lockLevels takes two locks of one type and must be guarded
	ll := w.F("badger.compactDef.lockLevels")
	rl := 0
	ll.walk(func(x ast.Node) bool {
		if call, ok := x.(*ast.CallExpr); ok {
			if op := w.lockOpOf(call); op != nil && op.Acquire {
				rl++
			}
		}
		return true
	})
	r.Exists(rl == 2, ll, "lockLevels analysed (two acquisitions of the level lock type)", nil, "lockLevels no longer takes the two level locks (anchor of this rule)")
	_ = n
}

func ruleR38_3(c *Check) {
	w := c.W
	r := c.Rule("R38.3", "E8", 3, "while DB.lock is held (in the function's own body) no operation that can block indefinitely is executed: channel sends/receives appear only as arms of a select with a default, and there is no WaitGroup.Wait, Closer wait or Sleep",
		"DB.lock is needed by the flusher (to pop db.imm) and by every reader (getMemTables): blocking on flushChan while holding it deadlocks writers, flusher and readers")
	dbl := types.Object(w.Field("badger.DB.lock"))
	var k keyer
	n := 0
	exc := map[string]string{
		"badger.DB.DropPrefix": "holds DB.lock for the whole drop by design: writes are blocked, the flusher is stopped (stopMemoryFlush) before the lock is taken, and compactors — the goroutines waited for by stopCompactions — never take DB.lock (verified below)",
		"badger.DB.dropAll":    "same protocol as DropPrefix: flusher and compactors are stopped before DB.lock is taken",
	}
	for name, why := range exc {
		r.Except(name, why)
	}
	if os.Getenv("BVERIF_EXPLORE") == "guardedby" {
		// exploration aid (not part of the verdict): fields of a struct with a mutex that are mostly,
		// but not always, accessed with that mutex held (candidates to read; Engler-style inference)
		type cnt struct {
			held, unheld int
			where        []string
		}
		stats := map[*types.Var]*cnt{}
		muOf := map[*types.Var]*types.Var{}
		for _, p := range w.Repo {
			sc := p.Types.Scope()
			for _, name := range sc.Names() {
				tn, ok := sc.Lookup(name).(*types.TypeName)
				if !ok {
					continue
				}
				st, ok := tn.Type().Underlying().(*types.Struct)
				if !ok {
					continue
				}
				var mu *types.Var
				for i := 0; i < st.NumFields(); i++ {
					if t := st.Field(i).Type().String(); t == "sync.Mutex" || t == "sync.RWMutex" {
						mu = st.Field(i)
						break
					}
				}
				if mu == nil {
					continue
				}
				for i := 0; i < st.NumFields(); i++ {
					if fl := st.Field(i); fl != mu {
						muOf[fl] = mu
					}
				}
			}
		}
		for _, f := range w.Fns {
			if isCmdPkg(f) || f.Body == nil {
				continue
			}
			rn := f.Root().Name
			if strings.Contains(rn, ".new") || strings.Contains(rn, ".New") || strings.Contains(rn, ".Open") || strings.Contains(rn, ".open") || strings.HasSuffix(rn, ".init") {
				continue
			}
			f := f
			f.walk(func(x ast.Node) bool {
				se, ok := x.(*ast.SelectorExpr)
				if !ok {
					return true
				}
				fl := w.fieldOf(se)
				mu := muOf[fl]
				if fl == nil || mu == nil {
					return true
				}
				c := stats[fl]
				if c == nil {
					c = &cnt{}
					stats[fl] = c
				}
				if f.HeldDeep(se, mu, 1, 2, nil) {
					c.held++
				} else {
					c.unheld++
					c.where = append(c.where, w.Position(se.Pos())+" "+f.Name)
				}
				return true
			})
		}
		for fl, c := range stats {
			if c.held >= 3 && c.unheld >= 1 && c.held*10 >= (c.held+c.unheld)*6 {
				fmt.Fprintf(os.Stderr, "EXPLORE guarded-by %s.%s: held %d, not held %d: %s\n", fl.Pkg().Name(), fl.Name(), c.held, c.unheld, strings.Join(c.where, "; "))
			}
		}
	}
	if os.Getenv("BVERIF_EXPLORE") != "" {
		// exploration aid (not part of the verdict): every potentially blocking operation executed
		// while some lock is held in the function's own body
		for _, f := range w.Fns {
			if isCmdPkg(f) || f.Body == nil {
				continue
			}
			f := f
			f.walk(func(x ast.Node) bool {
				what, ok := w.blockingOp(f, x)
				if !ok {
					return true
				}
				for l, mode := range f.HeldAt(x) {
					if mode > 0 {
						fmt.Fprintf(os.Stderr, "EXPLORE blocking-under-lock %s %s: %s holding %s(%d)\n", w.Fset.Position(x.Pos()), f.Name, what, w.lockName(l), mode)
					}
				}
				return true
			})
		}
	}
	for _, f := range w.Fns {
		if shortPkg(f.Pkg) != "badger" || isCmdPkg(f) {
			continue
		}
		f := f
		f.walk(func(x ast.Node) bool {
			what, ok := w.blockingOp(f, x)
			if !ok {
				return true
			}
			if f.HeldAt(x)[dbl] == 0 {
				return true
			}
			n++
			if _, isExc := exc[f.Root().Name]; isExc {
				return true
			}
			r.Check(false, f, k.key("blocking operation under DB.lock", w, x), x, what+" while DB.lock is held")
			return true
		})
		// non-blocking sends on flushChan under DB.lock are the accepted idiom: count them as discharged obligations
		f.walk(func(x ast.Node) bool {
			if s, ok := x.(*ast.SendStmt); ok && chanObj(w, s.Chan) == types.Object(w.Field("badger.DB.flushChan")) && f.HeldAt(x)[dbl] > 0 {
				_, blocking := w.blockingOp(f, x)
				r.Check(!blocking, f, k.key("flushChan send under DB.lock is a select arm with default", w, x), x, "plain send on flushChan while DB.lock is held")
			}
			return true
		})
	}
	// premise of the exceptions: nothing reachable from the compactor goroutines takes DB.lock
	rc := w.F("badger.levelsController.runCompactor")
	lg := w.buildLockGraph()
	acq := lg.acquires(rc, 0)
	_, takes := acq[dbl]
	via := ""
	if takes {
		via = acq[dbl].via
	}
	r.Check(!takes, rc, "compactors never take DB.lock", nil, "a compactor can acquire DB.lock ("+via+"): DropPrefix/dropAll wait for compactors while holding it")
	// and the flusher is stopped before DropPrefix/dropAll take the lock: prepareToDrop (which stops it) dominates the Lock
	for _, name := range []string{"badger.DB.DropPrefix", "badger.DB.dropAll"} {
		f := w.F(name)
		lock := selPred("db.lock.Lock", func(w *World, fn *Fn, x ast.Node) bool {
			call, ok := x.(*ast.CallExpr)
			if !ok {
				return false
			}
			op := w.lockOpOf(call)
			return op != nil && op.Acquire && !op.Read && op.Lock == dbl
		})
		r.DomAll(f, "DB.lock taken after the flusher was stopped", lock, 0, selCallName(w, "badger.DB.prepareToDrop"), 0)
	}
}

func ruleR38_5(c *Check) {
	w := c.W
	r := c.Rule("R38.5", "E1", 2, "DB.close waits for the writers (closers.writes.SignalAndWait) before close(writeCh); stopMemoryFlush closes flushChan before waiting for the flusher (R07.1)",
		"closing writeCh while doWrites may still send to or range over it panics; waiting for the flusher before closing its channel waits forever")
	ruleR07_1(c)
	f := w.F("badger.DB.close")
	r.Exists(len(f.Sites(selClose(w.Field("badger.DB.writeCh")))) == 1, f, "writeCh closed once", nil, "expected one close(writeCh)")
	sm := w.F("badger.DB.stopMemoryFlush")
	r.Exists(len(sm.Sites(selClose(w.Field("badger.DB.flushChan")))) == 1, sm, "flushChan closed by stopMemoryFlush", nil, "expected one close(flushChan)")
}

// R38.6: blocking operations under locks other than DB.lock.
func ruleR38_6(c *Check) {
	w := c.W
	r := c.Rule("R38.6", "E8+E2", 6, "every operation that can block indefinitely while a mutex other than DB.lock is held (in the function's own body; extracted helpers are attributed to their only caller) is one of the triaged sites, and for each of them the party that unblocks it does so without needing that mutex: the receiving side of the channel / the goroutine the closer waits for performs its receive / Done at sites where the mutex is not held and is not itself called with it held",
		"a goroutine that blocks on a peer while holding a mutex the peer needs in order to make progress is a deadlock under the right interleaving")
	dbl := types.Object(w.Field("badger.DB.lock"))
	type triaged struct {
		why     string
		service []string               // functions that perform the unblocking action
		action  func(w *World) Sel     // the unblocking action inside them
	}
	recvOn := func(fld string) func(w *World) Sel {
		return func(w *World) Sel {
			ch := types.Object(w.Field(fld))
			return selPred("recv/range "+fld, func(w *World, f *Fn, n ast.Node) bool {
				switch x := n.(type) {
				case *ast.UnaryExpr:
					return x.Op == token.ARROW && chanObj(w, x.X) == ch
				case *ast.RangeStmt:
					return chanObj(w, x.X) == ch
				}
				return false
			})
		}
	}
	closerDone := func(w *World) Sel {
		return selPred("Closer.Done", func(w *World, f *Fn, n ast.Node) bool {
			call, ok := n.(*ast.CallExpr)
			if !ok {
				return false
			}
			fn, _ := w.Callee(call).(*types.Func)
			return fn != nil && fn.Name() == "Done" && fn.Pkg() != nil && fn.Pkg().Path() == "github.com/dgraph-io/ristretto/v2/z"
		})
	}
	table := map[string]triaged{
		"badger.publisher.publishUpdates|publisher.Mutex|send": {
			"the subscriber goroutine (DB.Subscribe) receives from sendCh in its select loop and in slurp/drain without the publisher mutex; it takes the mutex only in newSubscriber (before the loop) and in deleteSubscriber (after active=0 and a full drain); one batch per subscriber per call, channel capacity 1000",
			[]string{"badger.DB.Subscribe"}, recvOn("badger.subscriber.sendCh")},
		"badger.publisher.cleanSubscribers|publisher.Mutex|wait": {
			"the goroutine waited for is DB.Subscribe, which answers HasBeenClosed with slurp and c.Done() without calling into the publisher; on its other exits c.Done() precedes deleteSubscriber",
			[]string{"badger.DB.Subscribe"}, closerDone},
		"badger.StreamWriter.Write|StreamWriter.writeLock|send": {
			"the receiver is sortedWriter.handleRequests, which never takes StreamWriter.writeLock",
			[]string{"badger.sortedWriter.handleRequests"}, recvOn("badger.sortedWriter.reqCh")},
		"badger.StreamWriter.Write|StreamWriter.writeLock|wait": {
			"waits for sortedWriter.handleRequests (closer.Done deferred there), which never takes StreamWriter.writeLock",
			[]string{"badger.sortedWriter.handleRequests"}, closerDone},
		"badger.StreamWriter.Flush|StreamWriter.writeLock|wait": {
			"waits for sortedWriter.handleRequests, which never takes StreamWriter.writeLock",
			[]string{"badger.sortedWriter.handleRequests"}, closerDone},
		"badger.StreamWriter.Cancel|StreamWriter.writeLock|wait": {
			"waits for sortedWriter.handleRequests, which never takes StreamWriter.writeLock",
			[]string{"badger.sortedWriter.handleRequests"}, closerDone},
	}
	for key, t := range table {
		r.Except(key, t.why)
	}
	lg := w.buildLockGraph()
	var k keyer
	seen := map[string]bool{}
	n := 0
	for _, f := range w.Fns {
		if isCmdPkg(f) || f.Body == nil || shortPkg(f.Pkg) == "pb" || shortPkg(f.Pkg) == "fb" {
			continue
		}
		f := f
		f.walk(func(x ast.Node) bool {
			what, ok := w.blockingOp(f, x)
			if !ok {
				return true
			}
			for l, mode := range f.HeldAt(x) {
				if mode == 0 || l == dbl {
					continue
				}
				n++
				kind := "wait"
				switch x.(type) {
				case *ast.SendStmt:
					kind = "send"
				case *ast.UnaryExpr:
					kind = "recv"
				}
				root := f.Root()
				// a helper that runs under its caller's lock is attributed to the caller; a function that
				// takes the lock itself is the site's owner
				takesItself := false
				root.walkDeep(func(_ *Fn, m ast.Node) bool {
					if c, ok := m.(*ast.CallExpr); ok {
						if op := w.lockOpOf(c); op != nil && op.Acquire && op.Lock == l {
							takesItself = true
						}
					}
					return true
				})
				if cs := w.soleCallSite(root); cs != nil && !takesItself {
					root = cs.Caller.Root()
				}
				key := root.Name + "|" + w.lockName(l) + "|" + kind
				t, known := table[key]
				if !known {
					r.Check(false, f, k.key("blocking operation under a lock is a triaged site", w, x), x, what+" while "+w.lockName(l)+" is held: not one of the triaged sites ("+key+"); whoever unblocks it must be shown not to need that lock")
					continue
				}
				seen[key] = true
				for _, sname := range t.service {
					sf := w.F(sname)
					sites := sf.SitesDeep(t.action(w))
					r.Check(len(sites) > 0, sf, k.key("unblocking action present in "+sname+" for "+key, w, x), x, sname+" no longer performs the action that unblocks "+what)
					for _, s := range sites {
						held := s.SiteFn.HeldAt(s.Site)[l] > 0
						r.Check(!held, s.SiteFn, k.key("peer acts without the lock the blocked party holds", w, s.Site), s.Site, sname+" holds "+w.lockName(l)+" at the operation that would unblock "+root.Name)
					}
					// the servicing function is not entered with the lock held
					for _, cs := range w.CG().In[sf] {
						if cs.Async {
							continue
						}
						r.Check(cs.Caller.HeldAt(cs.Node)[l] == 0, cs.Caller, k.key("peer not started under the lock", w, cs.Node), cs.Node, sname+" is called while "+w.lockName(l)+" is held")
					}
					// for peers that never need the lock at all, say so (StreamWriter); for DB.Subscribe the
					// acquisitions are before the loop / after the drain, checked below
					if sname != "badger.DB.Subscribe" {
						_, takes := lg.acquires(sf, 0)[l]
						r.Check(!takes, sf, "peer never takes the lock", nil, sname+" acquires "+w.lockName(l)+" (transitively): it can wait for the lock while its peer waits for it")
					}
				}
			}
			return true
		})
	}
	// a triaged site that has disappeared is not a violation (less blocking under locks is fine);
	// the floor of the rule guards against the analysis seeing nothing at all
	_ = seen
	// DB.Subscribe: deleteSubscriber (which takes the publisher mutex) only after active=0 and drain
	sub := w.F("badger.DB.Subscribe")
	del := selCallName(w, "badger.publisher.deleteSubscriber")
	drainLit := sub.LitVar("drain")
	active := w.Field("badger.subscriber.active")
	inactive := selPred("active.Store(0)", func(w *World, f *Fn, n ast.Node) bool {
		fld, m, _, call := atomicOp(w, n)
		if fld != active || m != "Store" || len(call.Args) != 1 {
			return false
		}
		v, isC := w.constInt(call.Args[0])
		return isC && v == 0
	})
	r.DomAll(sub, "subscriber marked inactive before it takes the publisher mutex again", del, 0, inactive, 0)
	r.DomAll(sub, "pending batches drained before the publisher mutex is taken", del, 0, selCallFn(drainLit), 0)
	r.DomAll(sub, "closer released before the publisher mutex is taken", del, 0, closerDone(w), 0)
	// capacity of the subscriber channel >= 1 (a send of one batch after a drain cannot block)
	ns := w.F("badger.publisher.newSubscriber")
	okCap := false
	ns.walk(func(n ast.Node) bool {
		if call, ok := n.(*ast.CallExpr); ok && isBuiltin(w, call, "make") && len(call.Args) == 2 {
			if _, isChan := w.TypeOf(call.Args[0]).Underlying().(*types.Chan); isChan {
				if v, isC := w.constInt(call.Args[1]); isC && v >= 1 {
					okCap = true
				}
			}
		}
		return true
	})
	r.Check(okCap, ns, "subscriber channel is buffered", nil, "the subscriber channel is unbuffered: the publisher blocks under its mutex until the subscriber receives")
	r.Exists(n >= 4, sub, "blocking operations under locks examined", nil, "expected the publisher and StreamWriter sites")
}

func propC38(c *Check) {
	ruleR38_6(c)
	ruleR38_1(c)
	ruleR38_2(c)
	ruleR38_3(c)
	ruleR29_1(c)
	ruleR38_5(c)
	ruleR03_4(c)
	// a compaction that failed must not stay registered: its ranges would refuse every later
	// compaction of level 0, and writers, the flusher and Close wait for level 0 to shrink
	ruleR14_1(c)
	ruleR03_3(c) // nor may a refused commit keep its timestamp pending: every later reader waits for it
}
