package main

// Loading /repo's current working tree and resolving anchors.
//
// Everything here works on the type-checked program: functions, fields and
// constants are resolved to types.Object once, and rules only ever compare
// objects, never names or positions.

import (
	"fmt"
	"go/ast"
	"go/token"
	"go/types"
	"os"
	"sort"
	"strings"

	"golang.org/x/tools/go/packages"
	"golang.org/x/tools/go/types/typeutil"
)

const modPath = "github.com/dgraph-io/badger/v4"

// anchorError is raised (by panic) when a rule needs a symbol that does not
// resolve in the loaded program. The run then exits 2: broken check, no verdict.
type anchorError struct{ what string }

func (e anchorError) Error() string { return "anchor unresolved: " + e.what }

type World struct {
	Fset    *token.FileSet
	All     []*packages.Package          // every package loaded (deps included in thorough tier)
	Repo    []*packages.Package          // packages of the badger module, sorted by path
	ByShort map[string]*packages.Package // "badger", "y", "table", "skl", "trie", "pb", "fb", "options", "z", ...
	Info    *types.Info                  // merged info of all packages that have syntax
	Fns     []*Fn                        // every function declaration and literal with a body
	ByObj   map[*types.Func]*Fn
	ByLit   map[*ast.FuncLit]*Fn
	byName  map[string]*Fn
	Files   int
	RepoDir string
	Tier    string
	parents map[ast.Node]ast.Node // lazily built per file
	declIndex map[*ast.FuncDecl]*Fn
	cg      *CallGraph
	vta     *vtaInfo
	// named types of the repo (for CHA resolution of interface calls)
	named []*types.Named
}

// Fn is a function body under analysis: a declaration or a function literal.
type Fn struct {
	W      *World
	Name   string // badger.oracle.readTs, badger.Open, y.KeyWithTs, badger.DB.doWrites$writeRequests, ...$lit1
	Obj    *types.Func
	Decl   *ast.FuncDecl
	Lit    *ast.FuncLit
	Body   *ast.BlockStmt
	Type   *ast.FuncType
	Parent *Fn
	Lits   []*Fn      // directly nested literals, source order
	Bound  *types.Var // local variable the literal is bound to, if any
	Host   ast.Node   // for literals: the statement of the parent that hosts it (defer/go/assign/call)
	Pkg    *packages.Package
	graph  *Graph
	locks  *lockFlow
}

func (f *Fn) Pos() token.Pos {
	if f.Decl != nil {
		return f.Decl.Pos()
	}
	return f.Lit.Pos()
}

func (f *Fn) String() string { return f.Name }

// Root returns the enclosing declared function.
func (f *Fn) Root() *Fn {
	for f.Parent != nil {
		f = f.Parent
	}
	return f
}

func loadWorld(dir, tier string, goarch string, allSyntax bool) (*World, error) {
	mode := packages.NeedName | packages.NeedFiles | packages.NeedCompiledGoFiles | packages.NeedImports |
		packages.NeedDeps | packages.NeedTypes | packages.NeedSyntax | packages.NeedTypesInfo | packages.NeedTypesSizes | packages.NeedModule
	env := append(os.Environ(), "GOFLAGS=-mod=mod", "GOPROXY=off", "GOSUMDB=off", "GOTOOLCHAIN=local", "GOWORK=off", "GOOS=linux", "CGO_ENABLED=0")
	if goarch == "" {
		goarch = "amd64"
	}
	env = append(env, "GOARCH="+goarch)
	fset := token.NewFileSet()
	cfg := &packages.Config{Mode: mode, Dir: dir, Env: env, Fset: fset, Tests: false}
	if !allSyntax {
		// LoadSyntax: syntax only for the root packages; dependencies from export data.
		cfg.Mode = packages.NeedName | packages.NeedFiles | packages.NeedCompiledGoFiles | packages.NeedImports |
			packages.NeedTypes | packages.NeedSyntax | packages.NeedTypesInfo | packages.NeedTypesSizes | packages.NeedModule
	}
	roots, err := packages.Load(cfg, "./...")
	if err != nil {
		return nil, err
	}
	if len(roots) == 0 {
		return nil, fmt.Errorf("no packages loaded from %s", dir)
	}
	w := &World{Fset: fset, ByShort: map[string]*packages.Package{}, ByObj: map[*types.Func]*Fn{},
		ByLit: map[*ast.FuncLit]*Fn{}, byName: map[string]*Fn{}, RepoDir: dir, Tier: tier}
	w.Info = &types.Info{
		Types: map[ast.Expr]types.TypeAndValue{}, Defs: map[*ast.Ident]types.Object{}, Uses: map[*ast.Ident]types.Object{},
		Selections: map[*ast.SelectorExpr]*types.Selection{}, Implicits: map[ast.Node]types.Object{},
		Instances: map[*ast.Ident]types.Instance{}, Scopes: map[ast.Node]*types.Scope{},
	}
	var terrs []string
	seen := map[string]bool{}
	packages.Visit(roots, nil, func(p *packages.Package) {
		if seen[p.PkgPath] {
			return
		}
		seen[p.PkgPath] = true
		w.All = append(w.All, p)
		inRepo := p.PkgPath == modPath || strings.HasPrefix(p.PkgPath, modPath+"/")
		if inRepo {
			for _, e := range p.Errors {
				terrs = append(terrs, e.Error())
			}
			if p.IllTyped {
				terrs = append(terrs, p.PkgPath+": ill-typed")
			}
		}
	})
	if len(terrs) > 0 {
		sort.Strings(terrs)
		return nil, fmt.Errorf("type errors in %s (no verdict): %s", dir, strings.Join(terrs, "; "))
	}
	for _, p := range w.All {
		inRepo := p.PkgPath == modPath || strings.HasPrefix(p.PkgPath, modPath+"/")
		short := p.Name
		if p.PkgPath == modPath {
			short = "badger"
		}
		if inRepo {
			// skip the command, integration programs and contrib: rules are about the library
			rel := strings.TrimPrefix(p.PkgPath, modPath)
			if strings.HasPrefix(rel, "/integration") || strings.HasPrefix(rel, "/contrib") {
				continue
			}
			if strings.HasPrefix(rel, "/badger") {
				short = "cmd:" + p.Name + ":" + rel
			}
			w.Repo = append(w.Repo, p)
			w.ByShort[short] = p
		} else if _, dup := w.ByShort[short]; !dup || p.PkgPath == "github.com/dgraph-io/ristretto/v2/z" {
			w.ByShort[short] = p
		}
		if len(p.Syntax) > 0 && p.TypesInfo != nil && (inRepo || p.PkgPath == "github.com/dgraph-io/ristretto/v2/z") {
			mergeInfo(w.Info, p.TypesInfo)
		}
	}
	sort.Slice(w.Repo, func(i, j int) bool { return w.Repo[i].PkgPath < w.Repo[j].PkgPath })
	if len(w.Repo) == 0 {
		return nil, fmt.Errorf("no badger packages among %d loaded", len(w.All))
	}
	for _, p := range w.Repo {
		w.Files += len(p.Syntax)
		w.indexPackage(p)
	}
	if z := w.ByShort["z"]; z != nil && len(z.Syntax) > 0 {
		w.indexPackage(z)
	}
	return w, nil
}

func mergeInfo(dst, src *types.Info) {
	for k, v := range src.Types {
		dst.Types[k] = v
	}
	for k, v := range src.Defs {
		dst.Defs[k] = v
	}
	for k, v := range src.Uses {
		dst.Uses[k] = v
	}
	for k, v := range src.Selections {
		dst.Selections[k] = v
	}
	for k, v := range src.Implicits {
		dst.Implicits[k] = v
	}
	for k, v := range src.Instances {
		dst.Instances[k] = v
	}
	for k, v := range src.Scopes {
		dst.Scopes[k] = v
	}
}

func shortPkg(p *packages.Package) string {
	if p.PkgPath == modPath {
		return "badger"
	}
	return p.Name
}

func recvName(t types.Type) string {
	if p, ok := t.(*types.Pointer); ok {
		t = p.Elem()
	}
	if n, ok := t.(*types.Named); ok {
		return n.Obj().Name()
	}
	return t.String()
}

func (w *World) indexPackage(p *packages.Package) {
	sp := shortPkg(p)
	for _, name := range p.Types.Scope().Names() {
		if tn, ok := p.Types.Scope().Lookup(name).(*types.TypeName); ok {
			if n, ok := tn.Type().(*types.Named); ok {
				w.named = append(w.named, n)
			}
		}
	}
	for _, file := range p.Syntax {
		for _, d := range file.Decls {
			fd, ok := d.(*ast.FuncDecl)
			if !ok || fd.Body == nil {
				continue
			}
			obj, _ := p.TypesInfo.Defs[fd.Name].(*types.Func)
			if obj == nil {
				continue
			}
			name := sp + "." + fd.Name.Name
			if fd.Recv != nil {
				sig := obj.Type().(*types.Signature)
				name = sp + "." + recvName(sig.Recv().Type()) + "." + fd.Name.Name
			}
			fn := &Fn{W: w, Name: name, Obj: obj, Decl: fd, Body: fd.Body, Type: fd.Type, Pkg: p}
			w.Fns = append(w.Fns, fn)
			w.ByObj[obj] = fn
			if _, dup := w.byName[name]; !dup { // init() may repeat
				w.byName[name] = fn
			}
			w.indexLits(fn)
		}
	}
}

// indexLits creates Fn nodes for the function literals nested directly in fn
// and records how each one is hosted (bound to a local, deferred, spawned,
// called in place, or passed as an argument).
func (w *World) indexLits(fn *Fn) {
	n := 0
	var stack []ast.Node
	ast.Inspect(fn.Body, func(x ast.Node) bool {
		if x == nil {
			stack = stack[:len(stack)-1]
			return true
		}
		if lit, ok := x.(*ast.FuncLit); ok {
			n++
			child := &Fn{W: w, Lit: lit, Body: lit.Body, Type: lit.Type, Parent: fn, Pkg: fn.Pkg}
			// host statement: nearest enclosing statement in the parent
			for i := len(stack) - 1; i >= 0; i-- {
				if _, ok := stack[i].(ast.Stmt); ok {
					child.Host = stack[i]
					break
				}
				if _, ok := stack[i].(*ast.ValueSpec); ok {
					child.Host = stack[i]
					break
				}
			}
			// bound variable: `v := func…`, `v = func…`, `var v = func…`
			if len(stack) > 0 {
				switch h := stack[len(stack)-1].(type) {
				case *ast.AssignStmt:
					for i, r := range h.Rhs {
						if r == lit && i < len(h.Lhs) {
							if id, ok := h.Lhs[i].(*ast.Ident); ok {
								if v, ok := w.objOf(fn.Pkg, id).(*types.Var); ok {
									child.Bound = v
								}
							}
						}
					}
				case *ast.ValueSpec:
					for i, r := range h.Values {
						if r == lit && i < len(h.Names) {
							if v, ok := w.objOf(fn.Pkg, h.Names[i]).(*types.Var); ok {
								child.Bound = v
							}
						}
					}
				}
			}
			if child.Bound != nil {
				child.Name = fn.Name + "$" + child.Bound.Name()
			} else {
				child.Name = fmt.Sprintf("%s$lit%d", fn.Name, n)
			}
			if _, dup := w.byName[child.Name]; dup {
				child.Name = fmt.Sprintf("%s#%d", child.Name, n)
			}
			fn.Lits = append(fn.Lits, child)
			w.Fns = append(w.Fns, child)
			w.ByLit[lit] = child
			w.byName[child.Name] = child
			w.indexLits(child)
			return false // do not descend: nested literals belong to child
		}
		stack = append(stack, x)
		return true
	})
}

func (w *World) objOf(p *packages.Package, id *ast.Ident) types.Object {
	if o := p.TypesInfo.Defs[id]; o != nil {
		return o
	}
	return p.TypesInfo.Uses[id]
}

// ---- anchors ----

// F resolves "pkg.Func", "pkg.Type.Method", and literal names "…$var".
func (w *World) F(name string) *Fn {
	if f := w.byName[name]; f != nil {
		return f
	}
	panic(anchorError{"function " + name})
}

func (w *World) HasF(name string) bool { return w.byName[name] != nil }

// Obj resolves a package-level object "pkg.Name".
func (w *World) Obj(name string) types.Object {
	i := strings.Index(name, ".")
	if i < 0 {
		panic(anchorError{"object " + name})
	}
	p := w.ByShort[name[:i]]
	if p == nil || p.Types == nil {
		panic(anchorError{"package of " + name})
	}
	o := p.Types.Scope().Lookup(name[i+1:])
	if o == nil {
		panic(anchorError{"object " + name})
	}
	return o
}

// Func resolves "pkg.Func" or "pkg.Type.Method" to its *types.Func, also for
// packages loaded without syntax (standard library, ristretto).
func (w *World) Func(name string) *types.Func {
	parts := strings.Split(name, ".")
	switch len(parts) {
	case 2:
		if f, ok := w.Obj(name).(*types.Func); ok {
			return f
		}
	case 3:
		tn, ok := w.Obj(parts[0] + "." + parts[1]).(*types.TypeName)
		if ok {
			o, _, _ := types.LookupFieldOrMethod(tn.Type(), true, tn.Pkg(), parts[2])
			if f, ok := o.(*types.Func); ok {
				return f
			}
		}
	}
	panic(anchorError{"func " + name})
}

// Field resolves "pkg.Type.field".
func (w *World) Field(name string) *types.Var {
	parts := strings.Split(name, ".")
	if len(parts) != 3 {
		panic(anchorError{"field " + name})
	}
	tn, ok := w.Obj(parts[0] + "." + parts[1]).(*types.TypeName)
	if !ok {
		panic(anchorError{"type of field " + name})
	}
	st, ok := tn.Type().Underlying().(*types.Struct)
	if !ok {
		panic(anchorError{"struct of field " + name})
	}
	for i := 0; i < st.NumFields(); i++ {
		if st.Field(i).Name() == parts[2] {
			return st.Field(i)
		}
	}
	panic(anchorError{"field " + name})
}

func (w *World) Named(name string) *types.Named {
	tn, ok := w.Obj(name).(*types.TypeName)
	if !ok {
		panic(anchorError{"type " + name})
	}
	n, ok := tn.Type().(*types.Named)
	if !ok {
		panic(anchorError{"named type " + name})
	}
	return n
}

// Lit returns the literal of fn bound to the local variable called v.
func (f *Fn) LitVar(v string) *Fn {
	for _, l := range f.Lits {
		if l.Bound != nil && l.Bound.Name() == v {
			return l
		}
	}
	// the local was renamed: identify the closure by what it does (ruleutil.go, litRoles)
	if role, ok := litRoles[f.Name+"$"+v]; ok {
		sel := role(f.W)
		var hit []*Fn
		for _, l := range f.Lits {
			if len(l.Sites(sel)) > 0 {
				hit = append(hit, l)
			}
		}
		if len(hit) == 1 {
			return hit[0]
		}
	}
	panic(anchorError{"closure " + v + " in " + f.Name})
}

// ---- small typed-AST helpers ----

func (w *World) Callee(call *ast.CallExpr) types.Object {
	return typeutil.Callee(w.Info, call)
}

func (w *World) TypeOf(e ast.Expr) types.Type { return w.Info.TypeOf(e) }

func (w *World) Use(id *ast.Ident) types.Object {
	if o := w.Info.Uses[id]; o != nil {
		return o
	}
	return w.Info.Defs[id]
}

func (w *World) Position(p token.Pos) string {
	pos := w.Fset.Position(p)
	f := strings.TrimPrefix(pos.Filename, w.RepoDir+"/")
	return fmt.Sprintf("%s:%d:%d", f, pos.Line, pos.Column)
}

func unparen(e ast.Expr) ast.Expr {
	for {
		p, ok := e.(*ast.ParenExpr)
		if !ok {
			return e
		}
		e = p.X
	}
}

// fieldOf returns the struct field an expression denotes (x.f, x.y.f, or a
// promoted field), or nil.
func (w *World) fieldOf(e ast.Expr) *types.Var {
	e = unparen(e)
	switch x := e.(type) {
	case *ast.SelectorExpr:
		if sel := w.Info.Selections[x]; sel != nil && sel.Kind() == types.FieldVal {
			if v, ok := sel.Obj().(*types.Var); ok {
				return v
			}
		}
		if v, ok := w.Info.Uses[x.Sel].(*types.Var); ok && v.IsField() {
			return v
		}
	case *ast.StarExpr:
		return w.fieldOf(x.X)
	case *ast.IndexExpr:
		return w.fieldOf(x.X)
	case *ast.SliceExpr:
		return w.fieldOf(x.X)
	case *ast.UnaryExpr:
		if x.Op == token.AND {
			return w.fieldOf(x.X)
		}
	}
	return nil
}

// exprStr renders an expression compactly (for messages and construct keys).
func (w *World) exprStr(e ast.Node) string {
	if e == nil {
		return ""
	}
	if x, ok := e.(ast.Expr); ok {
		return types.ExprString(x)
	}
	var sb strings.Builder
	pos := w.Fset.Position(e.Pos())
	end := w.Fset.Position(e.End())
	src, err := os.ReadFile(pos.Filename)
	if err == nil && end.Offset <= len(src) && pos.Offset < end.Offset {
		s := string(src[pos.Offset:end.Offset])
		if i := strings.IndexByte(s, '\n'); i >= 0 {
			s = s[:i] + " …"
		}
		sb.WriteString(s)
	}
	return sb.String()
}
