package main

// E3 "reach": a call graph over function bodies (declarations and literals).
// Quick tier: callees resolved from the typed syntax (static calls, local
// closures, literals created in a function, references to functions taken as
// values, interface calls resolved by class hierarchy over the repo's types).
// Thorough tier: edges for dynamic calls through function values are added
// from the VTA-refined SSA call graph (vta.go).

import (
	"go/ast"
	"go/types"
	"sort"
)

type CallSite struct {
	Caller   *Fn
	Callee   *Fn
	Node     ast.Node // the call expression, or the literal / function reference
	Kind     string   // static | closure | iface | created | ref | vta
	Async    bool     // go statement
	Deferred bool
}

type CallGraph struct {
	Out   map[*Fn][]*CallSite
	In    map[*Fn][]*CallSite
	Edges int
	Dyn   int // dynamic calls through function values left unresolved (quick tier)
}

func (w *World) CG() *CallGraph {
	if w.cg != nil {
		return w.cg
	}
	cg := &CallGraph{Out: map[*Fn][]*CallSite{}, In: map[*Fn][]*CallSite{}}
	w.cg = cg
	add := func(cs *CallSite) {
		cg.Out[cs.Caller] = append(cg.Out[cs.Caller], cs)
		cg.In[cs.Callee] = append(cg.In[cs.Callee], cs)
		cg.Edges++
	}
	for _, f := range w.Fns {
		f := f
		called := map[*Fn]bool{}
		callFun := map[ast.Expr]bool{}
		f.walk(func(n ast.Node) bool {
			call, ok := n.(*ast.CallExpr)
			if !ok {
				return true
			}
			callFun[unparen(call.Fun)] = true
			async, deferred := false, false
			switch p := w.parentOf(call).(type) {
			case *ast.GoStmt:
				async = p.Call == call
			case *ast.DeferStmt:
				deferred = p.Call == call
			}
			if t := w.calleeFn(f, call); t != nil {
				kind := "static"
				if t.Lit != nil {
					kind = "closure"
					called[t] = true
				}
				add(&CallSite{Caller: f, Callee: t, Node: call, Kind: kind, Async: async, Deferred: deferred})
				return true
			}
			// interface method call: CHA over the repo's named types
			if fn, ok := w.Callee(call).(*types.Func); ok {
				if sig, ok := fn.Type().(*types.Signature); ok && sig.Recv() != nil {
					if iface, ok := sig.Recv().Type().Underlying().(*types.Interface); ok {
						for _, t := range w.implementers(iface, fn.Name()) {
							add(&CallSite{Caller: f, Callee: t, Node: call, Kind: "iface", Async: async, Deferred: deferred})
						}
						return true
					}
				}
				return true
			}
			// dynamic call through a function value
			if tv, ok := w.Info.Types[call.Fun]; ok && !tv.IsType() {
				if _, isSig := tv.Type.Underlying().(*types.Signature); isSig {
					if id, ok := unparen(call.Fun).(*ast.Ident); ok {
						if _, isBuiltin := w.Use(id).(*types.Builtin); isBuiltin {
							return true
						}
					}
					cg.Dyn++
				}
			}
			return true
		})
		// literals created here and not called by name in this function: may be
		// called by whoever receives them
		for _, l := range f.Lits {
			if called[l] && l.Bound != nil {
				continue
			}
			if called[l] {
				continue
			}
			async := false
			if g, ok := l.Host.(*ast.GoStmt); ok {
				_ = g
				async = true
			}
			// a bound literal never called directly in f may be called from a sibling literal
			add(&CallSite{Caller: f, Callee: l, Node: l.Lit, Kind: "created", Async: async})
		}
		// references to declared functions used as values
		f.walk(func(n ast.Node) bool {
			var id *ast.Ident
			switch x := n.(type) {
			case *ast.Ident:
				id = x
			case *ast.SelectorExpr:
				if callFun[x] {
					return true // receiver chain may still hold references
				}
				id = x.Sel
				if fn, ok := w.Use(id).(*types.Func); ok {
					if t := w.ByObj[fn]; t != nil {
						add(&CallSite{Caller: f, Callee: t, Node: x, Kind: "ref"})
					}
				}
				return true
			}
			if id != nil && !callFun[ast.Expr(id)] {
				if fn, ok := w.Use(id).(*types.Func); ok {
					if t := w.ByObj[fn]; t != nil {
						if _, isSel := w.parentOf(id).(*ast.SelectorExpr); !isSel {
							add(&CallSite{Caller: f, Callee: t, Node: id, Kind: "ref"})
						}
					}
				}
			}
			return true
		})
	}
	if w.vta != nil {
		w.addVTAEdges(cg, add)
	}
	return cg
}

var implMemo = map[string][]*Fn{}

func (w *World) implementers(iface *types.Interface, method string) []*Fn {
	key := iface.String() + "#" + method
	if r, ok := implMemo[key]; ok {
		return r
	}
	var out []*Fn
	for _, n := range w.named {
		if _, isIface := n.Underlying().(*types.Interface); isIface {
			continue
		}
		for _, t := range []types.Type{n, types.NewPointer(n)} {
			if types.Implements(t, iface) {
				o, _, _ := types.LookupFieldOrMethod(t, false, n.Obj().Pkg(), method)
				if fn, ok := o.(*types.Func); ok {
					if tfn := w.ByObj[fn]; tfn != nil {
						out = append(out, tfn)
					}
				}
				break
			}
		}
	}
	implMemo[key] = out
	return out
}

// CallSitesOf: where f may be invoked from.
func (cg *CallGraph) CallSitesOf(f *Fn) []*CallSite {
	return cg.In[f]
}

type reachOpt struct {
	SkipAsync bool
	Stop      func(cs *CallSite) bool // do not traverse this edge
}

// Reach computes the functions reachable from roots; the map gives, for each,
// the edge through which it was first reached (nil for roots).
func (cg *CallGraph) Reach(roots []*Fn, opt reachOpt) map[*Fn]*CallSite {
	seen := map[*Fn]*CallSite{}
	var q []*Fn
	for _, r := range roots {
		if _, ok := seen[r]; !ok {
			seen[r] = nil
			q = append(q, r)
		}
	}
	for len(q) > 0 {
		f := q[0]
		q = q[1:]
		for _, cs := range cg.Out[f] {
			if opt.SkipAsync && cs.Async {
				continue
			}
			if opt.Stop != nil && opt.Stop(cs) {
				continue
			}
			if _, ok := seen[cs.Callee]; ok {
				continue
			}
			seen[cs.Callee] = cs
			q = append(q, cs.Callee)
		}
	}
	return seen
}

// chain renders the call path from a root to f found by Reach.
func chain(seen map[*Fn]*CallSite, f *Fn) []string {
	var out []string
	for {
		cs := seen[f]
		if cs == nil {
			out = append(out, f.Name)
			break
		}
		out = append(out, f.Name+" (called at "+f.W.Position(cs.Node.Pos())+")")
		f = cs.Caller
	}
	for i, j := 0, len(out)-1; i < j; i, j = i+1, j-1 {
		out[i], out[j] = out[j], out[i]
	}
	return out
}

// Callers: names of functions with an edge to f (deduplicated, sorted).
func (cg *CallGraph) Callers(f *Fn) []*Fn {
	set := map[*Fn]bool{}
	for _, cs := range cg.In[f] {
		set[cs.Caller] = true
	}
	var out []*Fn
	for k := range set {
		out = append(out, k)
	}
	sort.Slice(out, func(i, j int) bool { return out[i].Name < out[j].Name })
	return out
}
