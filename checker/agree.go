package main

// E4 "agree": normalised expressions and codec step lists for comparing
// sibling implementations (encoder/decoder, builder/prober).

import (
	"fmt"
	"go/ast"
	"go/token"
	"go/types"
	"sort"
	"strings"
)

// norm renders an expression with locals replaced by role names, constants
// folded, parentheses and integer conversions dropped and the operands of
// commutative operators sorted.
func (w *World) norm(e ast.Expr, roles map[types.Object]string) string {
	e = unparen(e)
	if tv, ok := w.Info.Types[e]; ok && tv.Value != nil {
		return tv.Value.ExactString()
	}
	switch x := e.(type) {
	case *ast.Ident:
		if o := w.Use(x); o != nil {
			if r, ok := roles[o]; ok {
				return r
			}
			return "?" + x.Name
		}
		return x.Name
	case *ast.BinaryExpr:
		a, b := w.norm(x.X, roles), w.norm(x.Y, roles)
		switch x.Op {
		case token.ADD, token.MUL, token.OR, token.AND, token.XOR, token.LAND, token.LOR, token.EQL, token.NEQ:
			if b < a {
				a, b = b, a
			}
		}
		return "(" + a + x.Op.String() + b + ")"
	case *ast.UnaryExpr:
		return x.Op.String() + w.norm(x.X, roles)
	case *ast.CallExpr:
		if tv, ok := w.Info.Types[x.Fun]; ok && tv.IsType() && len(x.Args) == 1 {
			if b, ok := tv.Type.Underlying().(*types.Basic); ok && b.Info()&types.IsInteger != 0 {
				return w.norm(x.Args[0], roles)
			}
		}
		var args []string
		for _, a := range x.Args {
			args = append(args, w.norm(a, roles))
		}
		name := types.ExprString(x.Fun)
		if o := w.Callee(x); o != nil {
			name = objName(o)
		}
		return name + "(" + strings.Join(args, ",") + ")"
	case *ast.IndexExpr:
		return w.norm(x.X, roles) + "[" + w.norm(x.Index, roles) + "]"
	case *ast.SelectorExpr:
		if v := w.fieldOf(x); v != nil {
			if r, ok := roles[v]; ok {
				return r
			}
			return "." + v.Name()
		}
		return types.ExprString(x)
	case *ast.SliceExpr:
		lo, hi := "", ""
		if x.Low != nil {
			lo = w.norm(x.Low, roles)
		}
		if x.High != nil {
			hi = w.norm(x.High, roles)
		}
		return w.norm(x.X, roles) + "[" + lo + ":" + hi + "]"
	}
	return types.ExprString(e)
}

// linear evaluates e as a*sym + b where sym(e) recognises the symbol.
func (w *World) linear(f *Fn, e ast.Expr, sym func(ast.Expr) bool, depth int) (a, b int64, ok bool) {
	e = unparen(e)
	if sym(e) {
		return 1, 0, true
	}
	if v, isC := w.constInt(e); isC {
		return 0, v, true
	}
	if depth > 6 {
		return 0, 0, false
	}
	switch x := e.(type) {
	case *ast.BinaryExpr:
		a1, b1, ok1 := w.linear(f, x.X, sym, depth+1)
		a2, b2, ok2 := w.linear(f, x.Y, sym, depth+1)
		if !ok1 || !ok2 {
			return 0, 0, false
		}
		switch x.Op {
		case token.ADD:
			return a1 + a2, b1 + b2, true
		case token.SUB:
			return a1 - a2, b1 - b2, true
		case token.MUL:
			if a1 == 0 {
				return b1 * a2, b1 * b2, true
			}
			if a2 == 0 {
				return a1 * b2, b1 * b2, true
			}
		}
	case *ast.CallExpr:
		if tv, ok := w.Info.Types[x.Fun]; ok && tv.IsType() && len(x.Args) == 1 {
			return w.linear(f, x.Args[0], sym, depth+1)
		}
	case *ast.Ident:
		if v, ok := w.Use(x).(*types.Var); ok && !v.IsField() {
			// the last definition in source order (straight-line arithmetic such as nBits = nBytes*8)
			defs := w.DefsOf(f, v)
			if len(defs) > 0 {
				sort.Slice(defs, func(i, j int) bool { return defs[i].Pos() < defs[j].Pos() })
				return w.linear(f, defs[len(defs)-1], sym, depth+1)
			}
		}
	}
	return 0, 0, false
}

// codecSteps lists, in source order, how a codec function touches the fields of
// the struct it encodes/decodes: "field:byte", "field:uvarint", "field:bytes".
// Size computations (len(field)) are ignored.
func (w *World) codecSteps(f *Fn, st *types.Struct) []string {
	isField := map[*types.Var]bool{}
	for i := 0; i < st.NumFields(); i++ {
		isField[st.Field(i)] = true
	}
	uvarint := func(e ast.Expr) bool {
		c, ok := unparen(w.Origin(f, e)).(*ast.CallExpr)
		if !ok {
			return false
		}
		fn, ok := w.Callee(c).(*types.Func)
		return ok && fn.Pkg() != nil && fn.Pkg().Path() == "encoding/binary" && (fn.Name() == "Uvarint" || fn.Name() == "ReadUvarint")
	}
	type ev struct {
		pos  token.Pos
		step string
	}
	var evs []ev
	f.walk(func(n ast.Node) bool {
		sel, ok := n.(*ast.SelectorExpr)
		if !ok {
			return true
		}
		fld := w.fieldOf(sel)
		if fld == nil || !isField[fld] {
			return true
		}
		// context
		kind := ""
		var child ast.Node = sel
		for p := w.parentOf(sel); p != nil && kind == ""; child, p = p, w.parentOf(p) {
			switch x := p.(type) {
			case *ast.CallExpr:
				name := ""
				if fn, ok := w.Callee(x).(*types.Func); ok {
					name = fn.Name()
				} else if id, ok := unparen(x.Fun).(*ast.Ident); ok {
					name = id.Name
				}
				switch name {
				case "PutUvarint", "sizeVarint":
					kind = "uvarint"
				case "WriteByte":
					kind = "byte"
				case "Write", "copy", "append":
					kind = "bytes"
				case "len", "cap":
					kind = "skip"
				}
				if tv, ok := w.Info.Types[x.Fun]; ok && tv.IsType() {
					continue // conversion: keep climbing
				}
				if kind == "" {
					kind = "skip"
				}
			case *ast.AssignStmt:
				idx := -1
				onLHS := false
				for i, l := range x.Lhs {
					if l == child || ast.Node(unparen(l)) == child {
						idx, onLHS = i, true
					}
				}
				for i, r := range x.Rhs {
					if r == child || ast.Node(unparen(r)) == child {
						idx = i
					}
				}
				if idx < 0 {
					kind = "skip"
					break
				}
				if onLHS {
					var rhs ast.Expr
					if len(x.Rhs) == len(x.Lhs) {
						rhs = x.Rhs[idx]
					} else {
						rhs = x.Rhs[0]
					}
					o := unparen(w.Origin(f, rhs))
					switch {
					case uvarint(rhs):
						kind = "uvarint"
					case isIndex(o):
						kind = "byte"
					case isSlice(o):
						kind = "bytes"
					default:
						if c, ok := o.(*ast.CallExpr); ok {
							if fn, ok := w.Callee(c).(*types.Func); ok && fn.Name() == "ReadByte" {
								kind = "byte"
							}
						}
						if kind == "" {
							kind = "other"
						}
					}
				} else {
					var lhs ast.Expr
					if len(x.Rhs) == len(x.Lhs) {
						lhs = x.Lhs[idx]
					}
					if lhs != nil && isIndex(unparen(lhs)) {
						kind = "byte"
					} else {
						kind = "skip"
					}
				}
			case ast.Stmt:
				kind = "skip"
			}
		}
		if kind != "" && kind != "skip" {
			evs = append(evs, ev{sel.Pos(), fld.Name() + ":" + kind})
		}
		return true
	})
	sort.Slice(evs, func(i, j int) bool { return evs[i].pos < evs[j].pos })
	var out []string
	for _, e := range evs {
		if len(out) > 0 && out[len(out)-1] == e.step {
			continue
		}
		out = append(out, e.step)
	}
	return out
}

func isIndex(e ast.Expr) bool { _, ok := e.(*ast.IndexExpr); return ok }
func isSlice(e ast.Expr) bool { _, ok := e.(*ast.SliceExpr); return ok }

func lowerFirst(s string) string {
	if s == "" {
		return s
	}
	return strings.ToLower(s[:1]) + s[1:]
}

func fmtSteps(s []string) string { return fmt.Sprint(s) }
