package main

// Rules, obligations, evidence files, known findings.

import (
	"encoding/json"
	"fmt"
	"go/ast"
	"os"
	"path/filepath"
	"sort"
	"strings"
	"time"
)

type RuleInfo struct {
	ID         string   `json:"id"`
	Engine     string   `json:"engine"`
	Text       string   `json:"rule"`
	Why        string   `json:"necessary_because"`
	Floor      int      `json:"floor"`
	Sites      int      `json:"sites"`
	Violations int      `json:"violations"`
	Exceptions []string `json:"exceptions,omitempty"`
	c          *Check
}

type Ob struct {
	Rule       string   `json:"rule"`
	Fn         string   `json:"function"`
	Construct  string   `json:"construct"`
	OK         bool     `json:"ok"`
	Pos        string   `json:"pos,omitempty"`
	Msg        string   `json:"detail,omitempty"`
	Path       []string `json:"path,omitempty"`
	Nontrivial bool     `json:"nontrivial"`
	Known      string   `json:"known_finding,omitempty"`
}

func (o *Ob) Key() string { return o.Rule + "|" + o.Fn + "|" + o.Construct }

type Check struct {
	W      *World
	Prop   string
	Tier   string
	Root   string // /verif
	Rules  []*RuleInfo
	Obs    []*Ob
	seen   map[string]*Ob
	Notes  []string
	start  time.Time
	Expl   string
	Assume []string
}

func (c *Check) Rule(id, engine string, floor int, text, why string) *RuleInfo {
	for _, r := range c.Rules {
		if r.ID == id {
			return r
		}
	}
	r := &RuleInfo{ID: id, Engine: engine, Floor: floor, Text: text, Why: why, c: c}
	c.Rules = append(c.Rules, r)
	return r
}

func (r *RuleInfo) record(ok bool, fn string, construct string, pos string, msg string, path []string, nontrivial bool) *Ob {
	o := &Ob{Rule: r.ID, Fn: fn, Construct: construct, OK: ok, Pos: pos, Msg: msg, Path: path, Nontrivial: nontrivial}
	if prev, dup := r.c.seen[o.Key()]; dup {
		// same obligation reached twice (e.g. two identical call expressions): keep the worse verdict
		if prev.OK && !ok {
			*prev = *o
			r.Violations++
		}
		return prev
	}
	r.c.seen[o.Key()] = o
	r.c.Obs = append(r.c.Obs, o)
	r.Sites++
	if !ok {
		r.Violations++
	}
	return o
}

func fnName(f *Fn) string {
	if f == nil {
		return "-"
	}
	return f.Name
}

// Check records an obligation decided by the caller.
func (r *RuleInfo) Check(ok bool, f *Fn, construct string, at ast.Node, msg string) *Ob {
	pos := ""
	if at != nil && f != nil {
		pos = f.W.Position(at.Pos())
	}
	if ok {
		msg = ""
	}
	return r.record(ok, fnName(f), construct, pos, msg, nil, true)
}

// Exists records a mere-existence obligation (counted as trivial).
func (r *RuleInfo) Exists(ok bool, f *Fn, construct string, at ast.Node, msg string) *Ob {
	pos := ""
	if at != nil && f != nil {
		pos = f.W.Position(at.Pos())
	}
	if ok {
		msg = ""
	}
	return r.record(ok, fnName(f), construct, pos, msg, nil, false)
}

// Order records an obligation decided by a path query.
func (r *RuleInfo) Order(res OrderResult, f *Fn, construct string, at ast.Node, msg string) *Ob {
	pos := ""
	if at != nil {
		pos = f.W.Position(at.Pos())
	}
	if res.OK {
		return r.record(true, fnName(f), construct, pos, "", nil, true)
	}
	return r.record(false, fnName(f), construct, pos, msg+": "+res.Why, res.Path, true)
}

func (r *RuleInfo) Except(sym, reason string) {
	r.Exceptions = append(r.Exceptions, sym+": "+reason)
}

// ---- known findings ----

type knownEntry struct {
	Prop, Rule, Site, Text string
}

func loadKnown(root string) ([]knownEntry, []string) {
	b, err := os.ReadFile(filepath.Join(root, "known_findings.txt"))
	if err != nil {
		return nil, nil
	}
	var known []knownEntry
	var fixed []string
	for _, line := range strings.Split(string(b), "\n") {
		line = strings.TrimSpace(line)
		if strings.HasPrefix(line, "fixed:") {
			fixed = append(fixed, line)
			continue
		}
		if !strings.HasPrefix(line, "known:") {
			continue
		}
		e := knownEntry{}
		rest := strings.TrimSpace(strings.TrimPrefix(line, "known:"))
		if i := strings.Index(rest, " — "); i >= 0 {
			e.Text = rest[i+len(" — "):]
			rest = rest[:i]
		}
		// fields: property=.. rule=.. site=<rest of line up to the dash>
		if i := strings.Index(rest, "site="); i >= 0 {
			e.Site = strings.TrimSpace(rest[i+5:])
			rest = rest[:i]
		}
		for _, f := range strings.Fields(rest) {
			if strings.HasPrefix(f, "property=") {
				e.Prop = f[9:]
			}
			if strings.HasPrefix(f, "rule=") {
				e.Rule = f[5:]
			}
		}
		known = append(known, e)
	}
	return known, fixed
}

// ---- evidence ----

type evidence struct {
	PropertyID  string                 `json:"property_id"`
	Tier        string                 `json:"tier"`
	Seed        int                    `json:"seed"`
	Level       string                 `json:"level"`
	Coverage    map[string]interface{} `json:"coverage"`
	Assumptions []string               `json:"assumptions"`
	WallS       float64                `json:"wall_s"`
	Violations  int                    `json:"violations"`
}

// Finish writes evidence and violation files, prints the verdict lines and
// returns the process exit code.
func (c *Check) Finish(seed int) int {
	known, _ := loadKnown(c.Root)
	vdir := filepath.Join(c.Root, "evidence", "violations")
	os.MkdirAll(vdir, 0o755)
	// remove stale violation files of this property
	if old, _ := filepath.Glob(filepath.Join(vdir, c.Prop+"-*.json")); old != nil {
		for _, f := range old {
			os.Remove(f)
		}
	}
	broken := []string{}
	for _, r := range c.Rules {
		// a rule that reported a violation is not vacuous: its early exit explains the low count
		if r.Sites < r.Floor && r.Violations == 0 {
			// fewer sites than confirmed by hand: part of the mechanism is gone. An undischarged obligation
			// (the rule decided less than it stands for), reported as a violation of this rule.
			r.Check(false, nil, fmt.Sprintf("the rule applies to at least %d sites", r.Floor), nil,
				fmt.Sprintf("rule %s matched %d site(s), the floor confirmed on the reference tree is %d: sites of the mechanism were removed or are no longer recognised, so the clause is not established for them", r.ID, r.Sites, r.Floor))
		}
	}
	nviol, nknown := 0, 0
	var lines []string
	perRule := map[string]int{}
	for _, o := range c.Obs {
		if o.OK {
			continue
		}
		matched := false
		for _, k := range known {
			if k.Prop == c.Prop && k.Rule == o.Rule && k.Site == o.Fn+"|"+o.Construct {
				o.Known = k.Text
				matched = true
				break
			}
		}
		if matched {
			nknown++
			lines = append(lines, fmt.Sprintf("KNOWN-FINDING: property=%s rule=%s site=%s|%s %s — %s", c.Prop, o.Rule, o.Fn, o.Construct, o.Pos, o.Known))
			continue
		}
		nviol++
		perRule[o.Rule]++
		path := filepath.Join(vdir, fmt.Sprintf("%s-%s-%d.json", c.Prop, o.Rule, perRule[o.Rule]))
		var ri *RuleInfo
		for _, r := range c.Rules {
			if r.ID == o.Rule {
				ri = r
			}
		}
		v := map[string]interface{}{"property": c.Prop, "rule": ri, "obligation": o, "key": o.Key(),
			"explain": "bin/bverif explain " + path}
		b, _ := json.MarshalIndent(v, "", " ")
		os.WriteFile(path, b, 0o644)
		lines = append(lines, fmt.Sprintf("# %s %s %s [%s]: %s", o.Rule, o.Pos, o.Fn, o.Construct, o.Msg))
		lines = append(lines, fmt.Sprintf("VIOLATION property=%s replay=%s", c.Prop, path))
	}
	// evidence
	total, okc, nontriv := 0, 0, 0
	samples := []interface{}{}
	distinct := map[string]bool{}
	for _, o := range c.Obs {
		total++
		if o.OK {
			okc++
		}
		if o.Nontrivial && !distinct[o.Key()] {
			distinct[o.Key()] = true
			nontriv++
		}
	}
	// samples: first obligation of up to 8 different rules, plus all failing ones (capped)
	seenRule := map[string]bool{}
	for _, o := range c.Obs {
		if !o.OK && len(samples) < 12 {
			samples = append(samples, o)
		}
	}
	for _, o := range c.Obs {
		if o.OK && !seenRule[o.Rule] && len(samples) < 16 {
			seenRule[o.Rule] = true
			samples = append(samples, o)
		}
	}
	cg := c.W.cg
	cov := map[string]interface{}{
		"explanation":         c.Expl,
		"obligations":         total,
		"discharged":          okc,
		"evaluations":         total,
		"distinct_nontrivial": nontriv,
		"rule": "obligations are enumerated from the type-checked program: one per (rule, enclosing function, construct) site matched by the rule's selector; " +
			"non-trivial = decided by a path, lock-set, guard, agreement or comparison argument rather than mere existence of a symbol; distinct = distinct keys",
		"samples":       samples,
		"rules":         c.Rules,
		"packages":      len(c.W.Repo),
		"files":         c.W.Files,
		"functions":     len(c.W.Fns),
		"known_matched": nknown,
		"notes":         c.Notes,
		"exhaustive":    false,
		"tool":          "bverif (go/packages, go/types, go/cfg" + map[bool]string{true: ", go/ssa, callgraph/vta", false: ""}[c.W.vta != nil] + "; x/tools v0.29.0)",
	}
	if cg != nil {
		cov["callgraph_edges"] = cg.Edges
		cov["callgraph_unresolved_dynamic_calls"] = cg.Dyn
	}
	if c.W.vta != nil {
		cov["ssa_functions"] = c.W.vta.nfuncs
		cov["vta_edges_added"] = c.W.vta.added
	}
	ev := evidence{PropertyID: c.Prop, Tier: c.Tier, Seed: seed, Level: "other", Coverage: cov,
		Assumptions: append([]string{
			"the Go type checker and go/cfg are correct; the standard library, ristretto/z and the OS behave as documented",
			"rules decide structural necessary conditions of the property, not the behaviour itself (see coverage.explanation)",
		}, c.Assume...),
		WallS: time.Since(c.start).Seconds(), Violations: nviol}
	b, _ := json.MarshalIndent(ev, "", " ")
	os.MkdirAll(filepath.Join(c.Root, "evidence"), 0o755)
	if err := os.WriteFile(filepath.Join(c.Root, "evidence", c.Prop+".json"), b, 0o644); err != nil {
		broken = append(broken, "cannot write evidence: "+err.Error())
	}
	fmt.Printf("%s tier=%s packages=%d files=%d functions=%d rules=%d obligations=%d discharged=%d nontrivial=%d known=%d violations=%d wall=%.1fs\n",
		c.Prop, c.Tier, len(c.W.Repo), c.W.Files, len(c.W.Fns), len(c.Rules), total, okc, nontriv, nknown, nviol, time.Since(c.start).Seconds())
	sort.SliceStable(c.Rules, func(i, j int) bool { return c.Rules[i].ID < c.Rules[j].ID })
	for _, r := range c.Rules {
		fmt.Printf("  %-7s %-10s sites=%-3d floor=%-3d violations=%d  %s\n", r.ID, r.Engine, r.Sites, r.Floor, r.Violations, firstSentence(r.Text))
	}
	for _, l := range lines {
		fmt.Println(l)
	}
	if len(broken) > 0 {
		for _, b := range broken {
			fmt.Println("BROKEN-CHECK:", b)
		}
		return 2
	}
	if nviol > 0 {
		return 1
	}
	return 0
}

func firstSentence(s string) string {
	if len(s) > 110 {
		return s[:110] + "…"
	}
	return s
}

func explain(path string) int {
	b, err := os.ReadFile(path)
	if err != nil {
		fmt.Println(err)
		return 2
	}
	var v struct {
		Property   string
		Rule       RuleInfo
		Obligation Ob
	}
	if err := json.Unmarshal(b, &v); err != nil {
		fmt.Println(err)
		return 2
	}
	fmt.Printf("property   %s\nrule       %s (%s)\n           %s\nnecessary  %s\nsite       %s\nfunction   %s\nconstruct  %s\nfinding    %s\n",
		v.Property, v.Rule.ID, v.Rule.Engine, v.Rule.Text, v.Rule.Why, v.Obligation.Pos, v.Obligation.Fn, v.Obligation.Construct, v.Obligation.Msg)
	if len(v.Obligation.Path) > 0 {
		fmt.Println("path:")
		for _, p := range v.Obligation.Path {
			fmt.Println("   ", p)
		}
	}
	return 0
}
