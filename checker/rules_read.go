package main

// C05 (iterator options), C33 (expiry), C28 (validation and size accounting).

import (
	"go/ast"
	"go/token"
	"go/types"
)

func init() {
	register("C05", "Decides only the comparison and encoding clauses of iteration that are visible in the code: (R05.1) Seek encodes its target with the read timestamp going forward and with version 0 going backward; (R05.2) parseItem skips internal keys unless InternalAccess and hides versions <= SinceTs only when SinceTs > 0; (R05.3) tables are skipped only when their max version is below SinceTs or their key range lies outside the prefix, and the bloom filter is used only when the prefix is a whole key. The bulk of the property (exactly-once, order, prefix boundaries for arbitrary byte strings) is NOT decided.", propC05)
	register("C33", "Decides that one expiry predicate is consulted on every user-facing read path: (R33.1) Txn.Get (pending and stored value), Iterator.parseItem, Stream.ToList, Stream.Backup's list function and the merge operator all use isDeletedOrExpired / Item.IsDeletedOrExpired; (R33.2) the predicate is: delete bit ⇒ gone; no expiry ⇒ live; otherwise gone iff expiresAt <= now; (R33.3=R13.1/R13.2) compaction treats expired like deleted only at or below the discard watermark and keeps a marker while older versions may exist; value-log GC skips expired entries. Does NOT decide time-dependent behaviour.", propC33)
	register("C28", "Decides (R28.1) that in Txn.modify every store to the transaction's state is dominated by all validation tests, the ban check and a successful size check, and checkSize commits its counters only on success; (R28.2) the size reservation arithmetic: the per-entry reserve covers the key's growth at commit and the initial reserve covers the worst-case end-of-transaction entry, with both sides using the same count/size comparison; (R28.3) the ban check is consulted by writes, Get and iteration. Later rules (see the rule list): R28.4 the closed list of rejections with their relations and constants, R28.5 the ban test on the user key with its exact length bound, R29.5 key kinds, R06.1 the pinned threshold in the size estimate. Does NOT decide the round trip of accepted keys.", propC28)
}

func ruleR05_1(c *Check) {
	w := c.W
	r := c.Rule("R05.1", "E5+E6", 2, "Iterator.Seek encodes a non-empty target as KeyWithTs(key, txn.readTs) when iterating forward and KeyWithTs(key, 0) when iterating in reverse",
		"internal keys sort newest version first: seeking forward with version 0 lands after all versions of the key (skipping it), seeking backward with readTs lands before them")
	f := w.F("badger.Iterator.Seek")
	rev := w.Field("badger.IteratorOptions.Reverse")
	fwd, bwd := false, false
	for _, s := range f.Sites(selCallName(w, "y.KeyWithTs")) {
		call := s.(*ast.CallExpr)
		isRev := -1
		for _, g := range w.Guards(f, call) {
			if w.fieldOf(g.Cond) == rev {
				if g.Val {
					isRev = 1
				} else {
					isRev = 0
				}
			}
		}
		ts := call.Args[1]
		switch isRev {
		case 0:
			ok := w.fieldOf(ts) == w.Field("badger.Txn.readTs") || w.fieldOf(ts) == w.Field("badger.Iterator.readTs")
			r.Check(ok, f, "forward seek at the read timestamp", s, "forward seek version is "+short(w, ts))
			fwd = fwd || ok
		case 1:
			v, isC := w.constInt(ts)
			r.Check(isC && v == 0, f, "reverse seek at version 0", s, "reverse seek version is "+short(w, ts))
			bwd = bwd || (isC && v == 0)
		default:
			r.Check(false, f, "seek key direction", s, "KeyWithTs in Seek is not under the Reverse test")
		}
	}
	r.Exists(fwd && bwd, f, "both directions encoded", nil, "Seek no longer encodes the target for both directions")
}

func ruleR05_2(c *Check) {
	w := c.W
	r := c.Rule("R05.2", "E5+E6", 3, "Iterator.parseItem: every item fill is preceded by the internal-key skip (!InternalAccess && isInternalKey) and by the SinceTs filter, which hides version <= SinceTs and only when SinceTs > 0",
		"leaking !badger! keys exposes transaction markers and banned-namespace records to users; a SinceTs filter active at 0 hides everything")
	f := w.F("badger.Iterator.parseItem")
	role := versionRoles(w, f)
	ia := w.Field("badger.IteratorOptions.InternalAccess")
	n := 0
	for _, s := range f.Sites(selCallName(w, "badger.Iterator.fill")) {
		n++
		gs := w.Guards(f, s)
		rels := RelsOf(gs)
		// since filter: the early exit `SinceTs > 0 && version <= SinceTs` is false at the fill: i.e. a disjunction we
		// cannot split; look at the early-exit statement itself
		okSince := false
		okZero := false
		f.walk(func(x ast.Node) bool {
			is, ok := x.(*ast.IfStmt)
			if !ok || !w.terminates(is.Body.List) || is.End() > s.Pos() {
				return true
			}
			for _, d := range flatten(is.Cond, token.LOR) {
				parts := flatten(d, token.LAND)
				var hasPos, hasLeq bool
				is := func(name string) func(ast.Expr) bool { return func(e ast.Expr) bool { return role(e) == name } }
				for _, p := range parts {
					if op, ok := w.cmpRoles(p, true, is("sinceTs"), is("zero")); ok && (op == token.GTR || op == token.NEQ) {
						hasPos = true
					}
					if op, ok := w.cmpRoles(p, true, is("version"), is("sinceTs")); ok && op == token.LEQ {
						hasLeq = true
					}
				}
				if hasLeq {
					okSince = true
					okZero = hasPos
				}
			}
			return true
		})
		_ = rels
		r.Check(okSince, f, "versions <= SinceTs are skipped before a fill", s, "no early exit on version <= SinceTs before this fill")
		r.Check(okZero, f, "SinceTs filter only when SinceTs > 0", s, "the SinceTs filter is not conjoined with SinceTs > 0")
		// internal keys
		okInt := false
		f.walk(func(x ast.Node) bool {
			is, ok := x.(*ast.IfStmt)
			if !ok || !w.terminates(is.Body.List) || is.End() > s.Pos() {
				return true
			}
			parts := flatten(is.Cond, token.LAND)
			if len(parts) == 2 {
				if u, ok := unparen(parts[0]).(*ast.UnaryExpr); ok && u.Op == token.NOT && w.fieldOf(u.X) == ia {
					okInt = true
				}
			}
			return true
		})
		r.Check(okInt, f, "internal keys skipped unless InternalAccess", s, "no `!InternalAccess && isInternalKey` early exit before this fill")
		break
	}
	r.Exists(n >= 1, f, "fill sites", nil, "parseItem no longer fills items")
	// isInternalKey is the badger prefix test
	okPref := false
	f.walk(func(x ast.Node) bool {
		if call, ok := x.(*ast.CallExpr); ok && w.Callee(call) == types.Object(w.Func("bytes.HasPrefix")) && w.mentions(call.Args[1], w.Obj("badger.badgerPrefix")) {
			okPref = true
		}
		return true
	})
	r.Check(okPref, f, "internal keys are those with the !badger! prefix", nil, "parseItem no longer tests bytes.HasPrefix(key, badgerPrefix)")
}

func ruleR05_3(c *Check) {
	w := c.W
	r := c.Rule("R05.3", "E5", 5, "IteratorOptions.pickTable/pickTables drop a table only if MaxVersion() < SinceTs, or compareToPrefix(Smallest) > 0, or compareToPrefix(Biggest) < 0, or (only when prefixIsKey) its bloom filter excludes the prefix",
		"a table dropped by a wrong comparison makes the iterator miss every key in it")
	pt := w.F("badger.IteratorOptions.pickTable")
	since := w.Field("badger.IteratorOptions.SinceTs")
	ctp := w.Func("badger.IteratorOptions.compareToPrefix")
	var k keyer
	pt.walk(func(n ast.Node) bool {
		is, ok := n.(*ast.IfStmt)
		if !ok || len(is.Body.List) != 1 {
			return true
		}
		rs, ok := is.Body.List[0].(*ast.ReturnStmt)
		if !ok || len(rs.Results) != 1 {
			return true
		}
		if tv := w.Info.Types[rs.Results[0]]; tv.Value == nil || tv.Value.String() != "false" {
			return true
		}
		okv := false
		cond := unparen(is.Cond)
		if be, ok := cond.(*ast.BinaryExpr); ok {
			named := func(n string) func(ast.Expr) bool { return func(e ast.Expr) bool { return isCallNamed(w, e, n) } }
			ctpOf := func(n string) func(ast.Expr) bool {
				return func(e ast.Expr) bool {
					c, ok := unparen(e).(*ast.CallExpr)
					return ok && w.Callee(c) == types.Object(ctp) && len(c.Args) == 1 && isCallNamed(w, w.from(c.Args[0]), n)
				}
			}
			switch {
			case be.Op != token.LAND && be.Op != token.LOR:
				if op, ok := w.cmpRoles(be, true, named("MaxVersion"), w.isField(since)); ok {
					okv = op == token.LSS || op == token.LEQ
				} else if op, ok := w.cmpRoles(be, true, ctpOf("Smallest"), w.isConst(0)); ok {
					okv = op == token.GTR
				} else if op, ok := w.cmpRoles(be, true, ctpOf("Biggest"), w.isConst(0)); ok {
					okv = op == token.LSS
				}
			case be.Op == token.LAND:
				// prefixIsKey && DoesNotHave(...)
				okv = w.fieldOf(be.X) == w.Field("badger.IteratorOptions.prefixIsKey") && isCallNamed(w, be.Y, "DoesNotHave")
			}
		}
		r.Check(okv, pt, k.key("table rejected for a sound reason", w, is.Cond), is.Cond, "pickTable rejects a table on "+short(w, is.Cond))
		return true
	})
	pts := w.F("badger.IteratorOptions.pickTables")
	pts.walkDeep(func(own *Fn, n ast.Node) bool {
		b, ok := n.(*ast.BranchStmt)
		if !ok || b.Tok != token.CONTINUE {
			return true
		}
		okv := false
		for _, g := range w.Guards(own, b) {
			if g.Implicit || !g.Val {
				continue
			}
			if op, ok := w.cmpRoles(g.Cond, true, func(e ast.Expr) bool { return isCallNamed(w, e, "MaxVersion") }, w.isField(since)); ok && (op == token.LSS || op == token.LEQ) {
				okv = true
			}
			if isCallNamed(w, g.Cond, "DoesNotHave") {
				okv = true
			}
		}
		r.Check(okv, own, k.key("table skipped for a sound reason", w, b), b, "pickTables skips a table for another reason")
		return true
	})
	// compareToPrefix compares the user key part with the prefix
	cp := w.F("badger.IteratorOptions.compareToPrefix")
	r.Check(len(cp.Sites(selCallName(w, "y.ParseKey"))) == 1 && len(cp.Sites(selCall(w.Func("bytes.Compare")))) == 1, cp, "compareToPrefix compares the timestamp-less key", nil, "compareToPrefix no longer strips the version before comparing")
}

func isCallNamed(w *World, e ast.Expr, name string) bool {
	call, ok := unparen(e).(*ast.CallExpr)
	if !ok {
		return false
	}
	fn, ok := w.Callee(call).(*types.Func)
	return ok && fn.Name() == name
}

func propC05(c *Check) {
	ruleR05_1(c)
	ruleR05_2(c)
	ruleR05_3(c)
	ruleR05_4(c)
	ruleR05_5(c)
	ruleR12_6(c)
	ruleR01_2(c)
	ruleR29_5(c) // prefix, equality and order tests never mix internal keys with user keys/prefixes
	ruleR18_6(c) // Seek of the table and concat iterators below the merge: polarity of every comparison
}

// ---- C33 ----

func ruleR33_1(c *Check) {
	w := c.W
	r := c.Rule("R33.1", "E3", 6, "the shared expiry predicate is consulted on every user-facing read path: Txn.Get (pending entry and stored value), Iterator.parseItem (before a fill when not AllVersions), Stream.ToList, Stream.Backup's list function, MergeOperator.iterateAndMerge; Item.IsDeletedOrExpired delegates to isDeletedOrExpired",
		"a read path with its own (or no) expiry test returns entries that other paths hide")
	ide := w.Func("badger.isDeletedOrExpired")
	item := w.Func("badger.Item.IsDeletedOrExpired")
	count := func(f *Fn) int {
		return len(f.SitesDeep(selCall(ide))) + len(f.SitesDeep(selCall(item)))
	}
	need := map[string]int{"badger.Txn.Get": 2, "badger.Iterator.parseItem": 1, "badger.Stream.ToList": 1, "badger.Stream.Backup": 1, "badger.MergeOperator.iterateAndMerge": 1}
	for name, n := range need {
		f := w.F(name)
		r.Check(count(f) >= n, f, "consults the expiry predicate", nil, name+" no longer calls isDeletedOrExpired / Item.IsDeletedOrExpired (expected at least "+string(rune('0'+n))+" call(s))")
	}
	ii := w.F("badger.Item.IsDeletedOrExpired")
	ok := false
	for _, s := range ii.Sites(selCall(ide)) {
		call := s.(*ast.CallExpr)
		ok = w.fieldOf(call.Args[0]) == w.Field("badger.Item.meta") && w.fieldOf(call.Args[1]) == w.Field("badger.Item.expiresAt")
	}
	r.Check(ok, ii, "Item.IsDeletedOrExpired delegates with the item's meta and expiry", nil, "Item.IsDeletedOrExpired does not call isDeletedOrExpired(item.meta, item.expiresAt)")
	// Txn.Get: the stored-value test precedes the success return
	g := w.F("badger.Txn.Get")
	for _, s := range g.Sites(selCall(ide)) {
		call := s.(*ast.CallExpr)
		if w.fieldOf(call.Args[0]) == w.Field("y.ValueStruct.Meta") {
			r.Check(w.fieldOf(call.Args[1]) == w.Field("y.ValueStruct.ExpiresAt"), g, "stored value tested with its own expiry", s, "arguments are "+short(w, s))
			// it guards the final success return
			for _, e := range g.successExits() {
				rs := e.Node.(*ast.ReturnStmt)
				if rs.Pos() < s.Pos() {
					continue
				}
				res := g.Dominated(e, occsOf(g, []ast.Node{s}))
				r.Order(res, g, "stored value served only after the expiry test", rs, "a stored value can be returned without the expiry test")
			}
		}
	}
	// parseItem: the non-AllVersions fills are dominated by the test
	p := w.F("badger.Iterator.parseItem")
	av := w.Field("badger.IteratorOptions.AllVersions")
	for _, s := range p.Sites(selCallName(w, "badger.Iterator.fill")) {
		under := false
		for _, gd := range w.Guards(p, s) {
			if w.fieldOf(gd.Cond) == av && gd.Val && !gd.Implicit {
				under = true
			}
		}
		if under {
			continue
		}
		res := p.Dominated(Occ{V: p.G().VertexOf(s), Node: s}, p.Occs(selCall(ide), 0))
		r.Order(res, p, "iterator item filled only after the expiry test", s, "a version can be returned by the iterator without the expiry test")
	}
}

func ruleR33_2(c *Check) {
	w := c.W
	r := c.Rule("R33.2", "E5", 3, "isDeletedOrExpired: meta&bitDelete > 0 ⇒ true; expiresAt == 0 ⇒ false; otherwise expiresAt <= now (Unix seconds)",
		"`<` keeps an entry visible during its whole expiry second; a missing zero test expires every entry without TTL")
	f := w.F("badger.isDeletedOrExpired")
	sig := f.Obj.Type().(*types.Signature)
	exp := sig.Params().At(1)
	okDel, okZero, okCmp := false, false, false
	f.walk(func(n ast.Node) bool {
		switch x := n.(type) {
		case *ast.IfStmt:
			ret := ""
			if len(x.Body.List) == 1 {
				if rs, ok := x.Body.List[0].(*ast.ReturnStmt); ok && len(rs.Results) == 1 {
					if tv := w.Info.Types[rs.Results[0]]; tv.Value != nil {
						ret = tv.Value.String()
					}
				}
			}
			if o, set, ok := w.maskTest(x.Cond); ok && o == w.Obj("badger.bitDelete") && set && ret == "true" {
				okDel = true
			}
			if op, ok := w.cmpRoles(x.Cond, true, func(e ast.Expr) bool { id, ok := unparen(e).(*ast.Ident); return ok && w.Use(id) == types.Object(exp) }, w.isConst(0)); ok && op == token.EQL && ret == "false" {
				okZero = true
			}
		case *ast.ReturnStmt:
			if len(x.Results) == 1 {
				isExp := func(e ast.Expr) bool { id, ok := unparen(e).(*ast.Ident); return ok && w.Use(id) == types.Object(exp) }
				isNow := func(e ast.Expr) bool { return w.mentions(e, w.Func("time.Now")) }
				if op, ok := w.cmpRoles(x.Results[0], true, isExp, isNow); ok && op == token.LEQ {
					okCmp = true
				}
			}
		}
		return true
	})
	r.Check(okDel, f, "delete bit means gone", nil, "no `meta&bitDelete > 0 → true`")
	r.Check(okZero, f, "no expiry means live", nil, "no `expiresAt == 0 → false`")
	r.Check(okCmp, f, "gone iff expiresAt <= now", nil, "final comparison is not `expiresAt <= now`")
}

func propC33(c *Check) {
	ruleR33_1(c)
	ruleR33_2(c)
	ruleR13_1(c)
	ruleR13_2(c)
	ruleR12_1(c)
	// expiry survives a value-log GC rewrite (the moved entry keeps ExpiresAt); reverse iteration
	// lets an expired newest version hide the older ones (the look-ahead is unconditional)
	ruleR15_4(c)
	ruleR05_5(c)
	// an expired newest version keeps hiding the older ones: after crash recovery (replay puts it
	// back like any other entry) and in Stream.ToList (which stops at it)
	ruleR16_6(c)
	ruleR25_4(c)
}

// ---- C28 ----

func ruleR28_1(c *Check) {
	w := c.W
	r := c.Rule("R28.1", "E1", 5, "Txn.modify: every store to pendingWrites, duplicateWrites and conflictKeys is dominated by the validation switch, by the isBanned check and by a successful checkSize; checkSize stores count/size only on its success path",
		"a rejected write that already changed the transaction leaves it in a state that later commits (or double counts) the rejected entry")
	f := w.F("badger.Txn.modify")
	stores := selOr(selStore(w.Field("badger.Txn.pendingWrites")), selStore(w.Field("badger.Txn.duplicateWrites")), selStore(w.Field("badger.Txn.conflictKeys")))
	// (depth 1: a store may sit in a helper called from modify; the call site then stands for it)
	r.DomAll(f, "state changed only after isBanned", stores, 1, selCallName(w, "badger.DB.isBanned"), 0)
	r.Exists(len(f.SitesInl(stores)) >= 3, f, "state stores", nil, "expected stores to pendingWrites, duplicateWrites and conflictKeys")
	r.DomAll(f, "state changed only after checkSize", stores, 1, selCallName(w, "badger.Txn.checkSize"), 0)
	for _, s := range f.Sites(stores) {
		ok := w.errNilGuard(f, s, w.Func("badger.Txn.checkSize")) && w.errNilGuard(f, s, w.Func("badger.DB.isBanned"))
		r.Check(ok, f, "state changed only if the checks succeeded", s, "a store is reachable although checkSize or isBanned returned an error")
		break
	}
	// validation: the listed rejections are present (classified by condition, whatever the spelling)
	want := map[string]bool{"update": false, "discarded": false, "empty": false, "prefix": false, "keysize": false, "valuesize": false}
	for _, m := range modifyRejections(w) {
		if _, listed := want[m.class]; listed {
			want[m.class] = true
		}
	}
	for k, v := range want {
		r.Check(v, f, "validation case: "+k, nil, "Txn.modify no longer rejects on: "+k)
	}
	cs := w.F("badger.Txn.checkSize")
	for _, s := range cs.Sites(selOr(selStore(w.Field("badger.Txn.count")), selStore(w.Field("badger.Txn.size")))) {
		// after the limit test (early return ErrTxnTooBig)
		mbs := w.Field("badger.Options.maxBatchSize")
		op, g := w.guardRel(w.Guards(cs, s), func(e ast.Expr) bool { return w.fieldOf(e) != mbs }, w.isField(mbs), false)
		r.Check(g != nil && op == token.LSS, cs, "counters committed only when the entry fits", s, "count/size stored before the limit test (no `size < maxBatchSize` holds at the store)")
	}
}

func ruleR28_2(c *Check) {
	w := c.W
	r := c.Rule("R28.2", "E7", 4, "size reservation: with est(e) = len(Key)+len(Value)+2, Txn.checkSize reserves est(e)+R per entry where R >= 8 (the version suffix added to the key at commit); newTransaction reserves at least len(txnKey)+8+20+2 for the end-of-transaction entry (key with version, decimal uint64 value, two meta bytes); both checkSize and sendToWriteCh refuse with `>=` against the same limits; the count starts at 1 for that entry",
		"if the reservation is smaller than what commit adds, a transaction whose every Set was accepted is refused by Commit with ErrTxnTooBig")
	cs := w.F("badger.Txn.checkSize")
	// per-entry reserve: constant added to the estimate
	var perEntry int64 = -1
	cs.walk(func(n ast.Node) bool {
		if be, ok := n.(*ast.BinaryExpr); ok && be.Op == token.ADD && w.mentions(be.X, w.Func("badger.Entry.estimateSizeAndSetThreshold")) {
			if v, ok := w.constInt(be.Y); ok {
				perEntry = v
			}
		}
		return true
	})
	r.Check(perEntry >= 8, cs, "per-entry reserve covers the 8-byte version suffix", nil, "checkSize reserves only "+itoa(perEntry)+" extra bytes per entry")
	// every accepted entry is charged: what checkSize stores into Txn.count / Txn.size is the old
	// value plus one entry (plus its estimate), computed once and never reduced afterwards
	// (an entry replaced in pendingWrites may still be sent through duplicateWrites).
	for _, fld := range []*types.Var{w.Field("badger.Txn.count"), w.Field("badger.Txn.size")} {
		for _, s := range cs.Sites(selStore(fld)) {
			as, ok := s.(*ast.AssignStmt)
			if !ok {
				r.Check(false, cs, "accounting store is an assignment", s, "Txn."+fld.Name()+" is modified by something other than an assignment")
				continue
			}
			for i, l := range as.Lhs {
				if w.fieldOf(l) != fld || len(as.Rhs) != len(as.Lhs) {
					continue
				}
				okAcc := as.Tok == token.ASSIGN
				rhs := unparen(as.Rhs[i])
				if id, isId := rhs.(*ast.Ident); isId && okAcc {
					v, _ := w.Use(id).(*types.Var)
					defs := w.DefsOf(cs, v)
					okAcc = v != nil && len(defs) == 1
					cs.walk(func(n ast.Node) bool {
						if st, ok := n.(*ast.IncDecStmt); ok {
							if x, ok := st.X.(*ast.Ident); ok && w.Use(x) == types.Object(v) {
								okAcc = false
							}
						}
						return true
					})
					if okAcc {
						rhs = defs[0]
					}
				}
				if okAcc {
					a, b, okl := w.linear(cs, rhs, func(e ast.Expr) bool {
						if w.fieldOf(e) == fld {
							return true
						}
						c, isCall := e.(*ast.CallExpr)
						return isCall && fld.Name() == "size" && w.Callee(c) == types.Object(w.Func("badger.Entry.estimateSizeAndSetThreshold"))
					}, 0)
					// count: old + 1; size: old + est + R, i.e. coefficient 2 over the two symbols
					if fld.Name() == "count" {
						okAcc = okl && a == 1 && b >= 1
					} else {
						okAcc = okl && a == 2 && b >= 8
					}
				}
				r.Check(okAcc, cs, "every accepted entry is charged to Txn."+fld.Name(), as, "Txn."+fld.Name()+" is not `old + one entry`: entries that are still sent at commit (duplicateWrites) can go uncharged")
			}
		}
	}
	nt := w.F("badger.DB.newTransaction")
	txnKey := w.Obj("badger.txnKey")
	var initial int64 = -1
	nt.walk(func(n ast.Node) bool {
		kv, ok := n.(*ast.KeyValueExpr)
		if !ok {
			return true
		}
		if id, ok := kv.Key.(*ast.Ident); !ok || w.Use(id) != types.Object(w.Field("badger.Txn.size")) {
			return true
		}
		// expression: int64(len(txnKey) + c1 + c2 ...)
		a, b, ok2 := w.linear(nt, kv.Value, func(e ast.Expr) bool {
			call, ok := e.(*ast.CallExpr)
			if !ok || len(call.Args) != 1 {
				return false
			}
			id, ok := unparen(call.Fun).(*ast.Ident)
			return ok && id.Name == "len" && w.mentions(call.Args[0], txnKey)
		}, 0)
		if ok2 && a == 1 {
			initial = b
		}
		return true
	})
	// worst case marker beyond len(txnKey): 8 (version) + 20 (max decimal digits of uint64) + 2 (metas)
	r.Check(initial >= 8+20+2, nt, "initial reserve covers the worst-case end-of-transaction entry", nil, "newTransaction reserves len(txnKey)+"+itoa(initial)+" bytes; the end marker needs up to len(txnKey)+30")
	// count starts at 1
	okCnt := false
	nt.walk(func(n ast.Node) bool {
		if kv, ok := n.(*ast.KeyValueExpr); ok {
			if id, ok := kv.Key.(*ast.Ident); ok && w.Use(id) == types.Object(w.Field("badger.Txn.count")) {
				if v, ok := w.constInt(kv.Value); ok && v >= 1 {
					okCnt = true
				}
			}
		}
		return true
	})
	r.Check(okCnt, nt, "count reserves the end-of-transaction entry", nil, "Txn.count does not start at 1")
	// same comparison on both sides
	// what holds on the success path of each: count < maxBatchCount and size < maxBatchSize
	// (however the refusal is spelled: `a >= x || b >= y`, `!(a < x && b < y)`, two ifs, …)
	cmpOf := func(f *Fn) string {
		out := ""
		for _, lim := range []*types.Var{w.Field("badger.Options.maxBatchCount"), w.Field("badger.Options.maxBatchSize")} {
			lim := lim
			ops := map[string]bool{}
			for _, e := range f.successExits() {
				op, g := w.guardRel(w.Guards(f, e.Node), func(x ast.Expr) bool { return w.fieldOf(x) != lim }, w.isField(lim), false)
				if g == nil {
					ops["?"] = true
				} else {
					ops[op.String()] = true
				}
			}
			for o := range ops {
				out += o
			}
		}
		return out
	}
	a, b := cmpOf(cs), cmpOf(w.F("badger.DB.sendToWriteCh"))
	r.Check(a == b && a == "<<", cs, "accept test and commit test use the same comparison", nil, "on its success path checkSize knows count/size '"+a+"' the limits, sendToWriteCh '"+b+"'")
	// the estimate: k + v + 2 (inline) — read, so that a change of the estimate is noticed here
	es := w.F("badger.Entry.estimateSizeAndSetThreshold")
	two := 0
	es.walk(func(n ast.Node) bool {
		if rs, ok := n.(*ast.ReturnStmt); ok && len(rs.Results) == 1 {
			if be, ok := unparen(rs.Results[0]).(*ast.BinaryExpr); ok && be.Op == token.ADD {
				if v, ok := w.constInt(be.Y); ok && v == 2 {
					two++
				}
			}
		}
		return true
	})
	r.Check(two == 2, es, "entry estimate is key + value(or pointer) + 2", nil, "estimateSizeAndSetThreshold changed: re-derive the reservation bound")
}

func itoa(v int64) string {
	if v < 0 {
		return "?"
	}
	s := ""
	if v == 0 {
		return "0"
	}
	for v > 0 {
		s = string(rune('0'+v%10)) + s
		v /= 10
	}
	return s
}

func ruleR28_3(c *Check) {
	w := c.W
	r := c.Rule("R28.3", "E3", 3, "DB.isBanned is consulted by Txn.modify, Txn.Get and Iterator.parseItem (the latter for non-internal keys)",
		"a banned namespace that is still readable through one path is not banned")
	ib := w.Func("badger.DB.isBanned")
	for _, name := range []string{"badger.Txn.modify", "badger.Txn.Get", "badger.Iterator.parseItem"} {
		f := w.F(name)
		r.Check(len(f.Sites(selCall(ib))) >= 1, f, "consults isBanned", nil, name+" no longer calls isBanned")
	}
	g := w.F("badger.Txn.Get")
	r.DomAll(g, "ban check before the lookup", selCallName(w, "badger.DB.get"), 0, selCall(ib), 0)
	// … and before every way Get can hand out an item, the transaction's own pending write included
	r.ExitsNeed(g, "ban check", selCall(ib), 0, exitSuccess)
}

// lenOf: e is len(x) (possibly converted to another integer type) with pred(x).
func (w *World) lenOf(pred func(ast.Expr) bool) func(ast.Expr) bool {
	return func(e ast.Expr) bool {
		e = unparen(e)
		for {
			call, ok := e.(*ast.CallExpr)
			if !ok || len(call.Args) != 1 {
				return false
			}
			if isBuiltin(w, call, "len") {
				return pred(unparen(call.Args[0]))
			}
			if tv, ok := w.Info.Types[call.Fun]; ok && tv.IsType() {
				e = unparen(call.Args[0])
				continue
			}
			return false
		}
	}
}

// R28.4: the boundaries of the validation and the closed list of rejections.
// modRej: one error return of Txn.modify, classified by the condition it is taken under
// (whatever the spelling: switch, if/else chain, separate ifs). class "" = not a listed reason;
// why != "" = the listed reason with another relation or constant.
type modRej struct {
	rs    *ast.ReturnStmt
	class string
	why   string
}

func modifyRejections(w *World) []modRej {
	f := w.F("badger.Txn.modify")
	keyF, valF := w.Field("badger.Entry.Key"), w.Field("badger.Entry.Value")
	isKeyLen, isValLen := w.lenOf(w.isField(keyF)), w.lenOf(w.isField(valF))
	vlfs := w.Field("badger.Options.ValueLogFileSize")
	inMem := w.Field("badger.Options.InMemory")
	thr := w.Func("badger.DB.valueThreshold")
	var out []modRej
	for _, e := range f.allExits() {
		rs, ok := e.Node.(*ast.ReturnStmt)
		if !ok || len(rs.Results) != 1 {
			continue
		}
		if id, ok := unparen(rs.Results[0]).(*ast.Ident); ok && id.Name == "nil" {
			continue
		}
		gs := w.Guards(f, rs)
		class, why := "", ""
		// an error handed on from isBanned / checkSize
		if org := w.Origin(f, rs.Results[0]); org != nil {
			switch {
			case w.isCallTo(org, w.Func("badger.DB.isBanned")):
				class = "banned"
			case w.isCallTo(org, w.Func("badger.Txn.checkSize")):
				class = "size"
			}
		}
		if class == "" {
			for _, g := range gs {
				if g.Implicit {
					continue
				}
				switch {
				case w.fieldOf(g.Cond) == w.Field("badger.Txn.update") && !g.Val:
					class = "update"
				case w.fieldOf(g.Cond) == w.Field("badger.Txn.discarded") && g.Val:
					class = "discarded"
				}
				if call, ok := g.Cond.(*ast.CallExpr); ok && g.Val && w.Callee(call) == w.Obj("bytes.HasPrefix") && len(call.Args) == 2 {
					class = "prefix"
					if !(w.fieldOf(call.Args[0]) == keyF && w.mentions(call.Args[1], w.Obj("badger.badgerPrefix"))) {
						why = "the reserved-prefix test is not HasPrefix(e.Key, badgerPrefix)"
					}
				}
				if op, ok := w.cmpRoles(g.Cond, g.Val, isKeyLen, w.isConst(0)); ok && (op == token.EQL || op == token.LEQ) {
					class = "empty"
				}
				for _, alt := range []struct {
					c  int64
					op token.Token
				}{{65000, token.GTR}, {65001, token.GEQ}} {
					if op, ok := w.cmpRoles(g.Cond, g.Val, isKeyLen, w.isConst(alt.c)); ok && op == alt.op {
						class = "keysize"
					}
				}
				if class == "" {
					// a key-length bound with another constant or relation
					if be, ok := g.Cond.(*ast.BinaryExpr); ok {
						_, cx := w.constInt(w.from(be.X))
						_, cy := w.constInt(w.from(be.Y))
						if (isKeyLen(w.from(be.X)) && cy) || (isKeyLen(w.from(be.Y)) && cx) {
							if op, ok := w.cmpRoles(g.Cond, g.Val, isKeyLen, func(ast.Expr) bool { return true }); ok && (op == token.GTR || op == token.GEQ) {
								class, why = "keysize", "the key-size bound is not `len(Key) > 65000`"
							}
						}
					}
				}
				if op, ok := w.cmpRoles(g.Cond, g.Val, isValLen, w.isField(vlfs)); ok {
					class = "valuesize"
					if op != token.GTR {
						why = "the value-size bound is not `len(Value) > ValueLogFileSize`"
					}
				}
				if op, ok := w.cmpRoles(g.Cond, g.Val, isValLen, w.isCallOf(thr)); ok {
					class = "inmemory-valuesize"
					if op != token.GTR {
						why = "the in-memory value bound is not `len(Value) > valueThreshold()`"
					}
					if HasGuard(gs, true, func(e ast.Expr) bool { return w.fieldOf(e) == inMem }) == nil {
						why = "the threshold bound on values applies outside in-memory mode"
					}
				}
				if class != "" {
					break
				}
			}
		}
		out = append(out, modRej{rs, class, why})
	}
	return out
}

// R28.4: the boundaries of the validation and the closed list of rejections.
func ruleR28_4(c *Check) {
	w := c.W
	r := c.Rule("R28.4", "E5+E7", 9, "Txn.modify rejects exactly on: read-only transaction, discarded transaction, len(Key) == 0, HasPrefix(Key, badgerPrefix), len(Key) > 65000, len(Value) > ValueLogFileSize, InMemory && len(Value) > valueThreshold(), the error of isBanned, the error of checkSize — each with that relation and constant; every other error return of modify is a violation",
		"a weaker boundary accepts a key the table format cannot hold (the key length is a uint16 next to a version suffix); a stronger boundary or an additional rejection refuses a write the property says is accepted")
	f := w.F("badger.Txn.modify")
	seen := map[string]bool{}
	var k keyer
	for _, m := range modifyRejections(w) {
		if m.class == "" {
			r.Check(false, f, k.key("rejection is one the property lists", w, m.rs), m.rs, "Txn.modify returns an error for a reason other than the listed ones: a write the property says is accepted is refused")
			continue
		}
		seen[m.class] = true
		r.Check(m.why == "", f, k.key("rejection: "+m.class, w, m.rs), m.rs, m.why)
	}
	for _, cl := range []string{"update", "discarded", "empty", "prefix", "keysize", "valuesize", "inmemory-valuesize", "banned", "size"} {
		r.Check(seen[cl], f, "rejection present: "+cl, nil, "Txn.modify no longer rejects on: "+cl)
	}
}

// R28.5: the ban test looks at the namespace bytes of the user key, the same way on every path.
func ruleR28_5(c *Check) {
	w := c.W
	r := c.Rule("R28.5", "E5+E4", 5, "DB.isBanned reads the namespace as the 8 bytes key[NamespaceOffset:] and does so exactly when the key has them (len(key) >= NamespaceOffset+8); every caller passes a user key (a parameter of the public call, Entry.Key, or y.ParseKey of an internal key), never a key that still carries its version suffix",
		"an off-by-one lets the key made of exactly the namespace bytes of a banned namespace be written and read; passing the internal key makes iterators test version bytes as namespace bytes, so iterators and Get disagree on short keys")
	f := w.F("badger.DB.isBanned")
	off := w.Field("badger.Options.NamespaceOffset")
	var keyParam *types.Var
	if ps := f.Obj.Type().(*types.Signature).Params(); ps.Len() == 1 {
		keyParam = ps.At(0)
	}
	if keyParam == nil {
		panic(anchorError{"DB.isBanned(key []byte)"})
	}
	isKey := func(e ast.Expr) bool {
		id, ok := unparen(e).(*ast.Ident)
		return ok && w.Use(id) == types.Object(keyParam)
	}
	isKeyLen := w.lenOf(isKey)
	offPlus := func(want int64) func(ast.Expr) bool {
		return func(e ast.Expr) bool {
			a, b, ok := w.linear(f, e, w.isField(off), 0)
			return ok && a == 1 && b == want
		}
	}
	has := w.Func("badger.lockedKeys.has")
	n := 0
	for _, s := range f.Sites(selCall(has)) {
		n++
		call := s.(*ast.CallExpr)
		gs := w.Guards(f, s)
		ok := false
		if op, g := w.guardRel(gs, isKeyLen, offPlus(8), false); g != nil && op == token.GEQ {
			ok = true
		}
		if op, g := w.guardRel(gs, isKeyLen, offPlus(7), false); g != nil && op == token.GTR {
			ok = true
		}
		r.Check(ok, f, "namespace read exactly when the key holds 8 bytes at the offset", s, "the lookup is not guarded by len(key) >= NamespaceOffset+8 (keys of exactly that length escape the ban, or shorter keys are sliced out of range)")
		// argument: BytesToU64(key[off:])
		okArg := false
		if len(call.Args) == 1 {
			if conv, isCall := unparen(w.Origin(f, call.Args[0])).(*ast.CallExpr); isCall && w.Callee(conv) == w.Obj("y.BytesToU64") && len(conv.Args) == 1 {
				if se, isSl := unparen(w.Origin(f, conv.Args[0])).(*ast.SliceExpr); isSl && isKey(se.X) && se.Low != nil && w.fieldOf(w.Origin(f, se.Low)) == off {
					okArg = true
				}
			}
		}
		r.Check(okArg, f, "namespace = BytesToU64(key[NamespaceOffset:])", s, "the namespace is not read from key[NamespaceOffset:]")
	}
	r.Exists(n >= 1, f, "banned-namespace lookup", nil, "isBanned no longer consults bannedNamespaces")
	parseKey := w.Func("y.ParseKey")
	for _, o := range allSites(w, "badger", selCall(w.Func("badger.DB.isBanned"))) {
		call := o.Node.(*ast.CallExpr)
		if len(call.Args) != 1 {
			continue
		}
		arg := w.Origin(o.SiteFn, call.Args[0])
		ok, why := false, "the argument is "+short(w, arg)+": not known to be a key without version suffix"
		switch {
		case w.isCallTo(arg, parseKey):
			ok = true
		case w.fieldOf(arg) == w.Field("badger.Entry.Key"):
			ok = true
		default:
			if id, isId := unparen(arg).(*ast.Ident); isId {
				if v, isVar := w.Use(id).(*types.Var); isVar && o.SiteFn.Obj != nil && o.SiteFn.Obj.Exported() {
					ps := o.SiteFn.Obj.Type().(*types.Signature).Params()
					for i := 0; i < ps.Len(); i++ {
						if ps.At(i) == v {
							ok = true
						}
					}
				}
			}
		}
		r.Check(ok, o.SiteFn, "isBanned is given a user key", o.Node, why)
	}
}

func propC28(c *Check) {
	ruleR28_1(c)
	ruleR28_2(c)
	ruleR28_3(c)
	ruleR28_4(c)
	ruleR28_5(c)
	ruleR29_5(c)
	ruleR06_1(c) // the size estimate uses the threshold pinned on the entry: what checkSize accepted, sendToWriteCh accepts
}
