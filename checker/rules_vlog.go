package main

// C15 (value-log GC) and C06 (values and metadata wherever they are stored).

import (
	"go/ast"
	"go/token"
	"go/types"
	"sort"
)

func init() {
	register("C15", "Decides the structural protocol of value-log GC: (R15.1) the compaction clamp is published (gcDiscardTs then gcActive) before the rewrite's scan starts reading the LSM tree and is released on every exit; subcompact only lowers its discard threshold by it (R13.3); (R15.2=R08.6) the old file is removed only after scan and write-back succeeded, immediately only when no iterator is open (decided under filesLock as a plain conjunct) and otherwise deferred until the iterator count reaches zero; (R15.3) every API that hands out items carrying value pointers pins value-log files for the lifetime of those items; (R15.4) an entry is moved only if the LSM tree still points at exactly this file and offset, and the moved entry carries no pointer/transaction bits; (R15.5) at most one GC runs. Does NOT decide interleavings of the phases with commits beyond this protocol, nor discard statistics.", propC15)
	register("C06", "Decides where a value lives and that both sides agree: (R06.1) the inline-or-pointer decision at value-log write, memtable write and stream writer is the same set-once predicate on the same entry; (R06.2) the pointer branch stores the encoded pointer with bitValuePointer set and the inline branch stores the value with the bit cleared, and every reader decodes a pointer only under that bit; (R06.3) UserMeta, ExpiresAt and meta are copied on both branches and into Items on both read paths. Does NOT decide byte equality of values or the dynamic-threshold arithmetic.", propC06)
}

func atomicStoreOn(w *World, fld *types.Var) Sel {
	return selPred("atomic store "+fld.Name(), func(w *World, f *Fn, n ast.Node) bool {
		call, ok := n.(*ast.CallExpr)
		if !ok {
			return false
		}
		s, ok := unparen(call.Fun).(*ast.SelectorExpr)
		return ok && s.Sel.Name == "Store" && w.fieldOf(s.X) == fld
	})
}

func ruleR15_1(c *Check) {
	w := c.W
	r := c.Rule("R15.1", "E1", 5, "valueLog.rewrite: gcDiscardTs.Store(MaxVersion()) precedes gcActive.Store(true); both precede the scan of the old file (logFile.iterate, which reads the LSM tree); gcActive.Store(false) runs on every exit after activation",
		"a delete that commits after the scan looked at its key must keep its tombstone until the write-back is done; a clamp that starts after the scan (or is never released) either resurrects deleted keys or stops reclamation forever")
	f := w.F("badger.valueLog.rewrite")
	ts := w.Field("badger.DB.gcDiscardTs")
	act := w.Field("badger.DB.gcActive")
	storeTs := atomicStoreOn(w, ts)
	isTrue := func(e ast.Expr) bool { tv := w.Info.Types[e]; return tv.Value != nil && tv.Value.String() == "true" }
	storeOn := selPred("gcActive.Store(true)", func(w *World, fn *Fn, n ast.Node) bool {
		return atomicStoreOn(w, act).Match(w, fn, n) && isTrue(n.(*ast.CallExpr).Args[0])
	})
	storeOff := selPred("gcActive.Store(false)", func(w *World, fn *Fn, n ast.Node) bool {
		return atomicStoreOn(w, act).Match(w, fn, n) && !isTrue(n.(*ast.CallExpr).Args[0])
	})
	scan := selCallName(w, "badger.logFile.iterate")
	r.Exists(len(f.Sites(storeOn)) == 1 && len(f.Sites(storeTs)) == 1, f, "clamp published once", nil, "expected one gcDiscardTs.Store and one gcActive.Store(true)")
	r.DomAll(f, "gcActive.Store(true) after gcDiscardTs", storeOn, 0, storeTs, 0)
	r.DomAll(f, "scan after the clamp is active", scan, 0, storeOn, 0)
	r.DomAll(f, "write-back after the clamp is active", selCallName(w, "badger.DB.batchSet"), 1, storeOn, 0)
	r.FollowAll(f, "clamp released on every exit", storeOn, 0, storeOff, 0, exitAll)
	for _, s := range f.Sites(storeTs) {
		arg := s.(*ast.CallExpr).Args[0]
		r.Check(w.isCallTo(arg, w.Func("badger.DB.MaxVersion")), f, "clamp value is the DB's max committed version", s, "gcDiscardTs stores "+short(w, arg))
	}
	// the only writers of the clamp are here
	for _, fld := range []*types.Var{ts, act} {
		for _, o := range allSites(w, "badger", atomicStoreOn(w, fld)) {
			r.Check(o.SiteFn.Root() == f, o.SiteFn, "clamp written only by rewrite", o.Node, fld.Name()+" stored outside valueLog.rewrite")
		}
	}
	// subcompact consults it
	sc := w.F("badger.levelsController.subcompact")
	r.Exists(w.mentions(sc.Body, act) && w.mentions(sc.Body, ts), sc, "compaction consults the clamp", nil, "subcompact no longer reads gcActive/gcDiscardTs")
}

func ruleR15_2(c *Check) {
	w := c.W
	r := c.Rule("R15.2", "E1+E6", 5, "valueLog.rewrite removes the old file immediately only when iteratorCount() == 0 holds as a plain conjunct of the deciding condition, evaluated under filesLock; otherwise the fid is appended to filesToBeDeleted under the same lock; decrIteratorCount deletes the deferred files only when the count reached zero",
		"an open iterator may hold items whose value pointers point into the old file; deleting it makes their values unreadable (returned empty with a nil error)")
	f := w.F("badger.valueLog.rewrite")
	ic := w.Func("badger.valueLog.iteratorCount")
	fl := w.Field("badger.valueLog.filesLock")
	fm := w.Field("badger.valueLog.filesMap")
	tbd := w.Field("badger.valueLog.filesToBeDeleted")
	delMap := selPred("delete(filesMap)", func(w *World, fn *Fn, n ast.Node) bool {
		call, ok := n.(*ast.CallExpr)
		if !ok || len(call.Args) != 2 {
			return false
		}
		id, ok := unparen(call.Fun).(*ast.Ident)
		return ok && id.Name == "delete" && w.fieldOf(call.Args[0]) == fm
	})
	zeroIters := func(gs []Guard, val bool) bool {
		for _, g := range gs {
			be, ok := g.Cond.(*ast.BinaryExpr)
			if !ok || g.Implicit {
				continue
			}
			if v, ok := w.constInt(be.Y); !ok || v != 0 {
				continue
			}
			if !w.isCallTo(w.Origin(f, be.X), ic) {
				continue
			}
			if (be.Op == token.EQL && g.Val == val) || (be.Op == token.NEQ && g.Val != val) || (be.Op == token.GTR && g.Val != val) {
				return true
			}
		}
		return false
	}
	n := 0
	for _, s := range f.Sites(delMap) {
		n++
		r.Check(zeroIters(w.Guards(f, s), true), f, "immediate removal only with no open iterator", s, "delete(filesMap, fid) is not under `iteratorCount() == 0` as a conjunct")
		r.Check(f.HeldAt(s)[fl] == 2, f, "decision under filesLock", s, "filesLock not held")
	}
	for _, s := range f.Sites(selStore(tbd)) {
		n++
		r.Check(zeroIters(w.Guards(f, s), false), f, "deferred removal when an iterator is open", s, "append to filesToBeDeleted is not the alternative of `iteratorCount() == 0`")
		r.Check(f.HeldAt(s)[fl] == 2, f, "deferral under filesLock", s, "filesLock not held")
	}
	r.Exists(n == 2, f, "immediate and deferred removal sites", nil, "expected delete(filesMap) and append(filesToBeDeleted)")
	// deleteLogFile in rewrite only via the flag set in the zero-iterator branch
	for _, s := range f.Sites(selCallName(w, "badger.valueLog.deleteLogFile")) {
		okv := false
		for _, g := range w.Guards(f, s) {
			if id, ok := g.Cond.(*ast.Ident); ok && g.Val {
				if v, ok := w.Use(id).(*types.Var); ok {
					defs := w.DefsOf(f, v)
					good := len(defs) > 0
					for _, d := range defs {
						tv := w.Info.Types[d]
						if tv.Value == nil || tv.Value.String() != "true" {
							good = false
						}
					}
					// each `= true` must sit in the zero-iterator branch
					for _, st := range f.Sites(selStoreVar(v)) {
						if !zeroIters(w.Guards(f, st), true) {
							good = false
						}
					}
					okv = good
				}
			}
		}
		r.Check(okv, f, "file deleted now only if the zero-iterator branch said so", s, "deleteLogFile not guarded by the flag set under iteratorCount()==0")
	}
	d := w.F("badger.valueLog.decrIteratorCount")
	for _, s := range d.Sites(selUse(tbd)) {
		okv := false
		for _, g := range w.Guards(d, s) {
			if be, ok := g.Cond.(*ast.BinaryExpr); ok && be.Op == token.NEQ && !g.Val {
				if v, ok := w.constInt(be.Y); ok && v == 0 {
					okv = true
				}
			}
		}
		r.Check(okv, d, "deferred files deleted only at count zero", s, "filesToBeDeleted processed while iterators remain")
		break
	}
}

func ruleR15_3(c *Check) {
	w := c.W
	r := c.Rule("R15.3", "E3+E1", 4, "every store to Item.vptr is in an API whose items are pinned: Iterator.fill (iterators are created only by Txn.NewIterator, which increments the value log's iterator count before building the iterator, and Iterator.Close decrements it on every path that had an underlying iterator); Txn.Get hands out items without a pin",
		"an item's value is read lazily through its pointer; if GC may delete the file while the transaction is open, the value silently reads back empty")
	vptr := w.Field("badger.Item.vptr")
	inc := counterSel(w, w.Field("badger.valueLog.numActiveIterators"), +1)
	dec := counterSel(w, w.Field("badger.valueLog.numActiveIterators"), -1)
	var k keyer
	for _, o := range allStores(w, vptr) {
		switch o.SiteFn.Root().Name {
		case "badger.Iterator.fill":
			r.Check(true, o.SiteFn, k.key("items of iterators (pinned by NewIterator/Close)", w, o.Node), o.Node, "")
		case "badger.Txn.Get":
			// pinned iff Get (or the transaction it belongs to) takes a pin: look for a pin in Get or newTransaction
			pinned := len(w.F("badger.Txn.Get").Occs(inc, 2)) > 0 || len(w.F("badger.DB.newTransaction").Occs(inc, 2)) > 0
			r.Check(pinned, o.SiteFn, "item handed out by Txn.Get is pinned", o.Node, "Txn.Get stores a value pointer into the item but neither Get nor the transaction pins value-log files: RunValueLogGC can delete the file while the transaction is open, after which item.Value/ValueCopy return an empty value with a nil error")
		default:
			r.Check(false, o.SiteFn, k.key("value pointer handed out by an unknown API", w, o.Node), o.Node, "Item.vptr stored in "+o.SiteFn.Name+": no pinning rule for this API")
		}
	}
	ni := w.F("badger.Txn.NewIterator")
	r.ExitsNeed(ni, "incrIteratorCount", inc, 0, exitAll)
	r.DomAll(ni, "iterator built after the pin", selCallName(w, "badger.levelsController.appendIterators"), 0, inc, 0)
	// Iterator values are constructed only in NewIterator
	for _, f := range w.Fns {
		if shortPkg(f.Pkg) != "badger" || isCmdPkg(f) {
			continue
		}
		f := f
		f.walk(func(n ast.Node) bool {
			if cl, ok := n.(*ast.CompositeLit); ok && isNamedType(w.TypeOf(cl), "Iterator") {
				if tn, ok := w.TypeOf(cl).(*types.Named); ok && tn.Obj().Pkg().Path() == modPath {
					r.Check(f.Root() == ni, f, "Iterator constructed only by NewIterator", cl, "badger.Iterator literal in "+f.Name)
				}
			}
			return true
		})
	}
	cl := w.F("badger.Iterator.Close")
	iitr := w.Field("badger.Iterator.iitr")
	closed := w.Field("badger.Iterator.closed")
	r.Except("Iterator.Close when iitr == nil", "only a read-only DB without tables has no underlying iterator; GC cannot run on a read-only DB")
	r.ExitsNeed(cl, "decrIteratorCount", dec, 0, exitAll,
		Excuse{Cond: func(e ast.Expr) bool { return w.fieldOf(e) == closed }, Val: true},
		Excuse{Cond: func(e ast.Expr) bool {
			be, ok := e.(*ast.BinaryExpr)
			return ok && be.Op == token.EQL && w.fieldOf(be.X) == iitr && isNil(be.Y)
		}, Val: true})
}

func ruleR15_4(c *Check) {
	w := c.W
	r := c.Rule("R15.4", "E5", 4, "valueLog.rewrite re-inserts an entry only under vp.Fid == f.fid && vp.Offset == e.offset, after discardEntry (version equality, pointer bit) said it is live; the re-inserted entry's meta has bitValuePointer|bitTxn|bitFinTxn cleared and keeps key, value, UserMeta, ExpiresAt",
		"moving an entry the LSM tree no longer points at resurrects an overwritten or deleted value at its old version; leaving transaction bits makes replay drop or mis-frame it")
	f := w.F("badger.valueLog.rewrite")
	fe := f.LitVar("fe")
	fid := w.Field("badger.valuePointer.Fid")
	off := w.Field("badger.valuePointer.Offset")
	lfid := w.Field("badger.logFile.fid")
	eoff := w.Field("badger.Entry.offset")
	meta := w.Field("badger.Entry.meta")
	// the site that builds the moved entry: store to Entry.meta in fe
	n := 0
	for _, s := range fe.Sites(selStore(meta)) {
		n++
		as := s.(*ast.AssignStmt)
		okBits := w.mentions(as.Rhs[0], w.Obj("badger.bitValuePointer")) && w.mentions(as.Rhs[0], w.Obj("badger.bitTxn")) && w.mentions(as.Rhs[0], w.Obj("badger.bitFinTxn"))
		if be, ok := unparen(as.Rhs[0]).(*ast.BinaryExpr); !ok || be.Op != token.AND_NOT {
			okBits = false
		}
		r.Check(okBits, fe, "moved entry drops pointer and transaction bits", s, "meta of the moved entry is "+short(w, as.Rhs[0]))
		// field coverage: the moved entry carries the original's key, value, user meta and expiry,
		// assigned under the same conditions as its meta
		if base := baseIdent(as.Lhs[0]); base != nil {
			for _, fname := range []string{"Key", "Value", "UserMeta", "ExpiresAt"} {
				fld := w.Field("badger.Entry." + fname)
				okF := false
				for _, st := range fe.Sites(selStore(fld)) {
					a2, ok := st.(*ast.AssignStmt)
					if !ok || len(a2.Lhs) != 1 || len(a2.Rhs) != 1 {
						continue
					}
					b2 := baseIdent(a2.Lhs[0])
					if b2 == nil || w.Use(b2) != w.Use(base) || !w.mentions(a2.Rhs[0], fld) {
						continue
					}
					if len(w.Guards(fe, st)) == len(w.Guards(fe, s)) {
						okF = true
					}
				}
				r.Check(okF, fe, "moved entry keeps the original's "+fname, s, "the entry written back by the GC rewrite does not copy "+fname+" from the entry it moves")
			}
		}
		gs := w.Guards(fe, s)
		fidEq, offEq := false, false
		for _, g := range gs {
			be, ok := g.Cond.(*ast.BinaryExpr)
			if !ok || be.Op != token.EQL || !g.Val || g.Implicit {
				continue
			}
			if (w.fieldOf(be.X) == fid && w.fieldOf(be.Y) == lfid) || (w.fieldOf(be.Y) == fid && w.fieldOf(be.X) == lfid) {
				fidEq = true
			}
			if (w.fieldOf(be.X) == off && w.fieldOf(be.Y) == eoff) || (w.fieldOf(be.Y) == off && w.fieldOf(be.X) == eoff) {
				offEq = true
			}
		}
		r.Check(fidEq && offEq, fe, "entry moved only if the LSM tree points at this file and offset", s, "the move is not under vp.Fid == f.fid && vp.Offset == e.offset")
		// discardEntry returned false before
		de := w.Func("badger.discardEntry")
		okD := false
		for _, g := range gs {
			if call, ok := g.Cond.(*ast.CallExpr); ok && w.Callee(call) == de && !g.Val {
				okD = true
			}
		}
		r.Check(okD, fe, "liveness test (discardEntry) precedes the move", s, "discardEntry is not consulted before moving the entry")
	}
	r.Exists(n == 1, fe, "moved-entry construction site", nil, "expected one place that builds the moved entry")
	// discardEntry: version mismatch, no pointer bit, fin marker => discard
	d := w.F("badger.discardEntry")
	ver := w.Field("y.ValueStruct.Version")
	okVer, okPtr := false, false
	d.walk(func(n ast.Node) bool {
		is, ok := n.(*ast.IfStmt)
		if !ok {
			return true
		}
		retTrue := false
		for _, st := range is.Body.List {
			if rs, ok := st.(*ast.ReturnStmt); ok && len(rs.Results) == 1 {
				if tv := w.Info.Types[rs.Results[0]]; tv.Value != nil && tv.Value.String() == "true" {
					retTrue = true
				}
			}
		}
		if !retTrue {
			return true
		}
		if be, ok := unparen(is.Cond).(*ast.BinaryExpr); ok {
			if be.Op == token.NEQ && (w.fieldOf(be.X) == ver || w.fieldOf(be.Y) == ver) && w.mentions(be, w.Func("y.ParseTs")) {
				okVer = true
			}
			if o, set, ok := w.maskTest(be); ok && o == w.Obj("badger.bitValuePointer") && !set {
				okPtr = true
			}
		}
		return true
	})
	r.Check(okVer, d, "a different version in the LSM tree means discard", nil, "discardEntry no longer compares vs.Version with the entry's version")
	r.Check(okPtr, d, "an inline value in the LSM tree means discard", nil, "discardEntry no longer tests bitValuePointer")
	// the lookup uses the entry's own internal key
	for _, s := range fe.Sites(selCallName(w, "badger.DB.get")) {
		r.Check(w.fieldOf(s.(*ast.CallExpr).Args[0]) == w.Field("badger.Entry.Key"), fe, "LSM lookup at the entry's own key and version", s, "db.get argument is "+short(w, s.(*ast.CallExpr).Args[0]))
	}
}

func ruleR15_5(c *Check) {
	w := c.W
	r := c.Rule("R15.5", "E7", 3, "garbageCh has capacity 1; runGC proceeds only in the select arm that sent on it and releases it in a defer",
		"two concurrent rewrites share the per-DB clamp (gcActive/gcDiscardTs): the first to finish releases the protection the second still needs")
	gch := w.Field("badger.valueLog.garbageCh")
	capOK := false
	var at ast.Node
	for _, o := range allStores(w, gch) {
		as := o.Node.(*ast.AssignStmt)
		if mk, ok := unparen(as.Rhs[0]).(*ast.CallExpr); ok && len(mk.Args) == 2 {
			at = mk
			if v, ok := w.constInt(mk.Args[1]); ok && v == 1 {
				capOK = true
			}
		}
	}
	r.Check(capOK, w.F("badger.valueLog.init"), "garbageCh capacity is 1", at, "garbageCh is not make(chan struct{}, 1)")
	f := w.F("badger.valueLog.runGC")
	for _, s := range f.Sites(selCallName(w, "badger.valueLog.doRunGC")) {
		cc := ast.Node(nil)
		for p := w.parentOf(s); p != nil; p = w.parentOf(p) {
			if c2, ok := p.(*ast.CommClause); ok {
				cc = c2
				break
			}
		}
		okv := false
		if c2, ok := cc.(*ast.CommClause); ok {
			if snd, ok := c2.Comm.(*ast.SendStmt); ok && chanObj(w, snd.Chan) == types.Object(gch) {
				okv = true
			}
		}
		r.Check(okv, f, "GC runs only in the arm that acquired the token", s, "doRunGC is not inside the `case garbageCh <- …` arm")
	}
	// release in a defer inside that arm
	rel := false
	for _, l := range f.Lits {
		if _, ok := l.Host.(*ast.DeferStmt); ok && len(l.Sites(selRecv(gch))) == 1 {
			rel = true
		}
	}
	r.Check(rel, f, "token released by a defer", nil, "no deferred `<-garbageCh`")
	// nobody else calls rewrite/doRunGC
	for _, cs := range w.CG().CallSitesOf(w.F("badger.valueLog.rewrite")) {
		r.Check(cs.Caller.Name == "badger.valueLog.doRunGC", cs.Caller, "rewrite reached only through doRunGC", cs.Node, "valueLog.rewrite called from "+cs.Caller.Name)
	}
	for _, cs := range w.CG().CallSitesOf(w.F("badger.valueLog.doRunGC")) {
		r.Check(cs.Caller.Root().Name == "badger.valueLog.runGC", cs.Caller, "doRunGC reached only through runGC", cs.Node, "doRunGC called from "+cs.Caller.Name)
	}
}

func propC15(c *Check) {
	ruleR15_1(c)
	ruleR15_2(c)
	ruleR08_6(c)
	ruleR15_3(c)
	ruleR15_4(c)
	ruleR15_5(c)
	ruleR13_3(c)
	// a write-back keeps its original (old) version and lands in a newer memtable/level: reads (and
	// the rewrite's own liveness test) must take the newest version over ALL sources
	ruleR01_3(c)
}

// ---- C06 ----

func ruleR06_1(c *Check) {
	w := c.W
	r := c.Rule("R06.1", "E4", 4, "the inline-vs-pointer decision at valueLog.write, DB.writeToLSM and sortedWriter.handleRequests is Entry.skipVlogAndSetThreshold(db.valueThreshold()) on the entry itself; that method and estimateSizeAndSetThreshold assign valThreshold only when it is zero (set once per entry)",
		"if the value log and the memtable decide differently (the dynamic threshold can move between the two calls) the memtable stores a pointer to a value that was never written, or stores a value inline while the request's pointer slot is empty")
	skip := w.Func("badger.Entry.skipVlogAndSetThreshold")
	vt := w.Func("badger.DB.valueThreshold")
	var k keyer
	for _, name := range []string{"badger.valueLog.write", "badger.DB.writeToLSM", "badger.sortedWriter.handleRequests"} {
		f := w.F(name)
		sites := f.SitesDeep(selCall(skip))
		r.Exists(len(sites) == 1, f, "decides with skipVlogAndSetThreshold", nil, name+" does not call skipVlogAndSetThreshold exactly once")
		for _, o := range sites {
			s := o.Node
			r.Check(w.isCallTo(s.(*ast.CallExpr).Args[0], vt), f, k.key("threshold argument is db.valueThreshold()", w, s), s, "argument is "+short(w, s.(*ast.CallExpr).Args[0]))
		}
		// no private comparison of len(Value) against a threshold in these functions
		f.walkDeep(func(_ *Fn, n ast.Node) bool {
			be, ok := n.(*ast.BinaryExpr)
			if !ok || (be.Op != token.LSS && be.Op != token.GEQ && be.Op != token.GTR && be.Op != token.LEQ) {
				return true
			}
			if w.mentions(be, w.Field("badger.Entry.Value")) && (w.mentions(be, vt) || w.mentions(be, w.Field("badger.Options.ValueThreshold"))) {
				r.Check(false, f, k.key("private threshold comparison", w, be), be, "compares the value length with a threshold itself instead of using the entry's set-once predicate")
			}
			return true
		})
	}
	thr := w.Field("badger.Entry.valThreshold")
	for _, name := range []string{"badger.Entry.skipVlogAndSetThreshold", "badger.Entry.estimateSizeAndSetThreshold"} {
		f := w.F(name)
		for _, s := range f.Sites(selStore(thr)) {
			okv := false
			for _, g := range w.Guards(f, s) {
				if be, ok := g.Cond.(*ast.BinaryExpr); ok && be.Op == token.EQL && g.Val && w.fieldOf(be.X) == thr {
					if v, ok := w.constInt(be.Y); ok && v == 0 {
						okv = true
					}
				}
			}
			r.Check(okv, f, "valThreshold set only once", s, "valThreshold assigned unconditionally")
		}
		// … and the decision/estimate compares the value length with the entry's pinned threshold,
		// never with the parameter (the current, moving threshold)
		isValLen := w.lenOf(w.isField(w.Field("badger.Entry.Value")))
		cmp := 0
		f.walk(func(x ast.Node) bool {
			be, ok := x.(*ast.BinaryExpr)
			if !ok || negOp(be.Op) == token.ILLEGAL || be.Op == token.EQL || be.Op == token.NEQ {
				return true
			}
			var other ast.Expr
			switch {
			case isValLen(w.from(be.X)):
				other = be.Y
			case isValLen(w.from(be.Y)):
				other = be.X
			default:
				return true
			}
			cmp++
			r.Check(w.fieldOf(other) == thr, f, "value length compared with the entry's pinned threshold", be, "the value length is compared with "+short(w, other)+", not with e.valThreshold: the size estimate / inline decision follows the moving threshold after the entry was accepted")
			return true
		})
		r.Exists(cmp >= 1, f, "threshold comparison", nil, name+" no longer compares the value length with a threshold")
	}
	// every other store to valThreshold would break set-once
	for _, o := range allStores(w, thr) {
		n := o.SiteFn.Name
		ok := n == "badger.Entry.skipVlogAndSetThreshold" || n == "badger.Entry.estimateSizeAndSetThreshold"
		r.Check(ok, o.SiteFn, k.key("valThreshold owner", w, o.Node), o.Node, "valThreshold assigned in "+n)
	}
}

func ruleR06_2(c *Check) {
	w := c.W
	r := c.Rule("R06.2", "E6", 8, "writeToLSM and handleRequests: the pointer branch stores Ptrs[i].Encode() with bitValuePointer or-ed in, the inline branch stores entry.Value with the bit cleared; Item.yieldItemValue, EstimatedSize, ValueSize, buildL0Table and subcompact decode a value pointer only under meta&bitValuePointer",
		"a pointer stored without the bit is served as the value itself; a value stored with the bit is decoded as a pointer into the value log")
	bit := w.Obj("badger.bitValuePointer")
	skip := w.Func("badger.Entry.skipVlogAndSetThreshold")
	enc := w.Func("badger.valuePointer.Encode")
	var k keyer
	for _, name := range []string{"badger.DB.writeToLSM", "badger.sortedWriter.handleRequests"} {
		f := w.F(name)
		// the Value and Meta a branch stores: keys of a ValueStruct literal, or assignments to the
		// fields of a ValueStruct variable (`vs.Value = …; vs.Meta = …`), grouped by the branch of
		// the threshold decision they are under
		type stored struct {
			val, meta ast.Expr
			at        ast.Node
		}
		branches := map[int]*stored{}
		branchOf := func(own *Fn, n ast.Node) int {
			for _, g := range w.Guards(own, n) {
				if call, ok := g.Cond.(*ast.CallExpr); ok && w.Callee(call) == skip {
					if g.Val {
						return 1
					}
					return 0
				}
			}
			return -1
		}
		record := func(own *Fn, at ast.Node, val, meta ast.Expr) {
			if val == nil && meta == nil {
				return
			}
			b := branchOf(own, at)
			if b < 0 {
				r.Check(false, f, k.key("ValueStruct built outside the threshold decision", w, at), at, "the Value/Meta of a ValueStruct is set without being under skipVlogAndSetThreshold")
				return
			}
			st := branches[b]
			if st == nil {
				st = &stored{at: at}
				branches[b] = st
			}
			if val != nil {
				st.val = val
			}
			if meta != nil {
				st.meta = meta
			}
		}
		vsValue, vsMeta := w.Field("y.ValueStruct.Value"), w.Field("y.ValueStruct.Meta")
		f.walkDeep(func(own *Fn, n ast.Node) bool {
			switch x := n.(type) {
			case *ast.CompositeLit:
				if !isNamedType(w.TypeOf(x), "ValueStruct") {
					return true
				}
				var val, meta ast.Expr
				for _, el := range x.Elts {
					kv, ok := el.(*ast.KeyValueExpr)
					if !ok {
						continue
					}
					if id, ok := kv.Key.(*ast.Ident); ok {
						switch id.Name {
						case "Value":
							val = kv.Value
						case "Meta":
							meta = kv.Value
						}
					}
				}
				record(own, x, val, meta)
			case *ast.AssignStmt:
				if len(x.Lhs) != len(x.Rhs) {
					return true
				}
				for i, l := range x.Lhs {
					switch w.fieldOf(l) {
					case vsValue:
						record(own, x, x.Rhs[i], nil)
					case vsMeta:
						record(own, x, nil, x.Rhs[i])
					}
				}
			}
			return true
		})
		metaF := w.Field("badger.Entry.meta")
		isBit := func(e ast.Expr) bool {
			id, ok := unparen(e).(*ast.Ident)
			return ok && w.Use(id) == bit
		}
		for _, inline := range []int{1, 0} {
			st := branches[inline]
			if st == nil || st.val == nil || st.meta == nil {
				r.Check(false, f, "both branches of the threshold decision store Value and Meta", nil, "Value or Meta not set in the "+map[int]string{1: "inline", 0: "pointer"}[inline]+" branch")
				continue
			}
			val, meta := st.val, st.meta
			// every other bit of the entry's meta (delete, merge, discard-earlier, transaction bits) is
			// carried over: the expression is exactly entry.meta with the pointer bit set / cleared
			mb, _ := unparen(w.from(meta)).(*ast.BinaryExpr)
			if inline == 1 {
				okv := w.fieldOf(val) == w.Field("badger.Entry.Value") && mb != nil && mb.Op == token.AND_NOT && isBit(mb.Y) && w.fieldOf(mb.X) == metaF
				r.Check(okv, f, k.key("inline branch: value itself, pointer bit cleared", w, st.at), st.at, "inline branch stores "+short(w, val)+" with meta "+short(w, meta)+" (expected entry.meta &^ bitValuePointer: all other bits kept)")
			} else {
				okv := w.isCallTo(w.from(val), enc) && mb != nil && mb.Op == token.OR && ((isBit(mb.Y) && w.fieldOf(mb.X) == metaF) || (isBit(mb.X) && w.fieldOf(mb.Y) == metaF))
				r.Check(okv, f, k.key("pointer branch: encoded pointer, pointer bit set", w, st.at), st.at, "pointer branch stores "+short(w, val)+" with meta "+short(w, meta)+" (expected entry.meta | bitValuePointer: all other bits kept)")
			}
		}
	}
	// readers: every valuePointer.Decode of an item/value-struct payload is under the bit
	dec := w.Func("badger.valuePointer.Decode")
	readers := []string{"badger.Item.yieldItemValue", "badger.Item.EstimatedSize", "badger.Item.ValueSize", "badger.buildL0Table", "badger.levelsController.subcompact"}
	for _, name := range readers {
		f := w.F(name)
		cnt := 0
		for _, o := range f.SitesDeep(selCall(dec)) {
			cnt++
			gs := w.Guards(o.SiteFn, o.Node)
			r.Check(w.bitGuard(gs, bit) == 1, o.SiteFn, k.key("pointer decoded only under the pointer bit", w, o.Node), o.Node, "valuePointer.Decode not guarded by meta&bitValuePointer")
		}
		r.Exists(cnt >= 1, f, "decodes pointers", nil, name+" no longer decodes value pointers (anchor moved)")
	}
}

func ruleR06_3(c *Check) {
	w := c.W
	r := c.Rule("R06.3", "E4", 8, "field coverage: both branches of writeToLSM / handleRequests copy UserMeta and ExpiresAt of the entry; Txn.Get and Iterator.fill copy meta, userMeta, expiresAt, version and the value bytes into the Item",
		"metadata dropped on one branch is lost for values above (or below) the threshold only")
	for _, name := range []string{"badger.DB.writeToLSM", "badger.sortedWriter.handleRequests"} {
		f := w.F(name)
		var k keyer
		f.walkDeep(func(_ *Fn, n ast.Node) bool {
			cl, ok := n.(*ast.CompositeLit)
			if !ok || !isNamedType(w.TypeOf(cl), "ValueStruct") {
				return true
			}
			got := map[string]bool{}
			for _, el := range cl.Elts {
				kv := el.(*ast.KeyValueExpr)
				name := kv.Key.(*ast.Ident).Name
				switch name {
				case "UserMeta":
					got[name] = w.fieldOf(kv.Value) == w.Field("badger.Entry.UserMeta") || w.fieldOf(kv.Value) == w.Field("pb.KV.UserMeta") || w.mentions(kv.Value, w.Field("badger.Entry.UserMeta"))
				case "ExpiresAt":
					got[name] = w.fieldOf(kv.Value) == w.Field("badger.Entry.ExpiresAt")
				}
			}
			r.Check(got["UserMeta"] && got["ExpiresAt"], f, k.key("UserMeta and ExpiresAt copied", w, cl), cl, "a branch does not copy UserMeta/ExpiresAt from the entry")
			return true
		})
	}
	pairs := map[string]string{"meta": "Meta", "userMeta": "UserMeta", "expiresAt": "ExpiresAt"}
	for _, name := range []string{"badger.Txn.Get", "badger.Iterator.fill"} {
		f := w.F(name)
		for itemF, vsF := range pairs {
			ifld := w.Field("badger.Item." + itemF)
			vfld := w.Field("y.ValueStruct." + vsF)
			okv := false
			for _, s := range f.Sites(selStore(ifld)) {
				if as, ok := s.(*ast.AssignStmt); ok && w.fieldOf(rhsFor(w, as, ifld)) == vfld {
					okv = true
				}
			}
			r.Check(okv, f, "Item."+itemF+" from the stored value", nil, "Item."+itemF+" is not copied from ValueStruct."+vsF)
		}
		okV := false
		for _, s := range f.Sites(selStore(w.Field("badger.Item.vptr"))) {
			if w.mentions(s, w.Field("y.ValueStruct.Value")) {
				okV = true
			}
		}
		r.Check(okV, f, "Item value bytes from the stored value", nil, "Item.vptr is not filled from ValueStruct.Value")
	}
}

func ruleR06_4(c *Check) {
	w := c.W
	r := c.Rule("R06.4", "E6", 3, "iterator Items are recycled: every Item field that an Item method writes (the prefetch result: err, status, val) is either reset unconditionally by Iterator.fill, or the prefetch that writes it is started by fill under conditions that depend on the iterator's options only, so that it runs for every item of the iterator or for none",
		"a prefetch skipped for some items leaves the previous occupant's status/err/val in the recycled Item: Value and ValueCopy then return the stale or empty prefetch result instead of the stored value")
	fill := w.F("badger.Iterator.fill")
	itemT := w.Obj("badger.Item")
	optT := w.Obj("badger.IteratorOptions")
	// fields written by Item methods
	written := map[*types.Var]string{}
	for _, f := range w.Fns {
		if f.Decl == nil || f.Decl.Recv == nil || shortPkg(f.Pkg) != "badger" || isCmdPkg(f) {
			continue
		}
		if rt := w.TypeOf(f.Decl.Recv.List[0].Type); rt == nil || namedOf(rt) != itemT {
			continue
		}
		f := f
		f.walk(func(n ast.Node) bool {
			for _, l := range assignedExprs(n) {
				if _, isSel := unparen(l).(*ast.SelectorExpr); !isSel {
					continue
				}
				if v := w.fieldOf(l); v != nil && fieldOfType(v, itemT) {
					// lazy initialisation (`if item.f == nil { item.f = new(…) }`) carries nothing over from the previous occupant
					lazy := false
					for _, g := range w.Guards(f, n) {
						if be, ok := unparen(g.Cond).(*ast.BinaryExpr); ok && be.Op == token.EQL && g.Val && isNil(be.Y) && w.fieldOf(be.X) == v {
							lazy = true
						}
					}
					if !lazy {
						written[v] = f.Name
					}
				}
			}
			return true
		})
	}
	r.Exists(len(written) >= 2, fill, "fields written by Item methods found", nil, "expected prefetchValue to write err/status")
	// the calls in fill (including its go closures) that reach those writers
	optOnly := func(e ast.Expr) bool {
		ok := true
		var visit func(e ast.Expr)
		visit = func(e ast.Expr) {
			e = w.from(e)
			ast.Inspect(e, func(n ast.Node) bool {
				switch x := n.(type) {
				case *ast.SelectorExpr:
					if v := w.fieldOf(x); v != nil && fieldOfType(v, optT) {
						return false
					}
				case *ast.Ident:
					if v, isVar := w.Use(x).(*types.Var); isVar && !v.IsField() {
						if o := w.from(x); o != ast.Expr(x) {
							visit(o)
						} else {
							ok = false
						}
					}
				case *ast.CallExpr:
					ok = false
				}
				return true
			})
		}
		visit(e)
		return ok
	}
	var names []*types.Var
	for v := range written {
		names = append(names, v)
	}
	sort.Slice(names, func(i, j int) bool { return names[i].Name() < names[j].Name() })
	for _, fld := range names {
		reset := false
		for _, s := range fill.Sites(selStore(fld)) {
			if len(w.Guards(fill, s)) == 0 {
				reset = true
			}
		}
		if reset {
			r.Check(true, fill, "Item."+fld.Name()+" reset for every item", nil, "")
			continue
		}
		writer := w.F(written[fld])
		okAll, found := true, false
		var bad ast.Node
		fill.walkDeep(func(own *Fn, n ast.Node) bool {
			call, ok := n.(*ast.CallExpr)
			if !ok || w.Callee(call) != types.Object(writer.Obj) {
				return true
			}
			found = true
			// guards of the call inside its closure, and of the statement hosting the closure in fill
			var gs []Guard
			gs = append(gs, w.Guards(own, call)...)
			for o := own; o != fill && o != nil; o = o.Parent {
				if o.Host != nil {
					gs = append(gs, w.Guards(o.Parent, o.Host)...)
				}
			}
			for _, g := range gs {
				if !optOnly(g.Cond) {
					okAll, bad = false, g.Cond
				}
			}
			return true
		})
		r.Check(found && okAll, fill, "Item."+fld.Name()+" (written by "+written[fld]+") refreshed for every item or for none", bad, "Item."+fld.Name()+" is not reset by fill and the call that writes it depends on more than the iterator's options: a recycled Item can keep the previous item's "+fld.Name())
	}
}

func fieldOfType(v *types.Var, named types.Object) bool {
	tn, ok := named.(*types.TypeName)
	if !ok {
		return false
	}
	st, ok := tn.Type().Underlying().(*types.Struct)
	if !ok {
		return false
	}
	for i := 0; i < st.NumFields(); i++ {
		if st.Field(i) == v {
			return true
		}
	}
	return false
}

// R06.5: the accessors hand out the value's bytes, all of them and nothing else.
func ruleR06_5(c *Check) {
	w := c.W
	r := c.Rule("R06.5", "E4+E1", 8, "value accessors: Item.ValueCopy returns y.SafeCopy(dst, v) on every path and Item.Value calls fn(v), where v is item.val on the prefetched path and the slice returned by yieldItemValue otherwise; y.SafeCopy is append(a[:0], src...) (result length = len(src) whatever dst held); wherever a value is copied into a buffer obtained from Resize(n), n is the length of the copied slice (yieldItemValue's inline branch, prefetchValue)",
		"a copy into a reused buffer that keeps the buffer's old length returns the value followed by stale bytes; a Resize shorter or longer than the value truncates it or pads it with bytes of the previous item")
	valF := w.Field("badger.Item.val")
	yield := w.Func("badger.Item.yieldItemValue")
	safe := w.Func("y.SafeCopy")
	status := w.Field("badger.Item.status")
	// value expression allowed at node n of function f
	isValueAt := func(f *Fn, n ast.Node, e ast.Expr) (bool, string) {
		pref := HasGuard(w.Guards(f, n), true, func(c ast.Expr) bool {
			be, ok := c.(*ast.BinaryExpr)
			return ok && be.Op == token.EQL && (w.fieldOf(be.X) == status || w.fieldOf(be.Y) == status) && w.mentions(be, w.Obj("badger.prefetched"))
		}) != nil
		if w.fieldOf(e) == valF {
			if pref {
				return true, ""
			}
			return false, "item.val used outside the `status == prefetched` branch"
		}
		if id, ok := unparen(e).(*ast.Ident); ok {
			if v, ok := w.Use(id).(*types.Var); ok {
				for _, s := range f.Sites(selStoreVar(v)) {
					if as, ok := s.(*ast.AssignStmt); ok && len(as.Rhs) == 1 && len(as.Lhs) == 3 && w.isCallTo(as.Rhs[0], yield) {
						if lid, ok := as.Lhs[0].(*ast.Ident); ok && (w.Use(lid) == types.Object(v) || w.Info.Defs[lid] == types.Object(v)) {
							if pref {
								return false, "the prefetched branch re-reads the value"
							}
							return true, ""
						}
					}
				}
			}
		}
		return false, "the value handed out is " + short(w, e)
	}
	vc := w.F("badger.Item.ValueCopy")
	n := 0
	for _, e := range vc.allExits() {
		rs, ok := e.Node.(*ast.ReturnStmt)
		if !ok || len(rs.Results) != 2 {
			continue
		}
		n++
		org := w.Origin(vc, rs.Results[0])
		call, isCall := unparen(org).(*ast.CallExpr)
		if !isCall || !w.isCallTo(org, safe) || len(call.Args) != 2 {
			r.Check(false, vc, "ValueCopy returns SafeCopy(dst, value)", rs, "the returned slice is "+short(w, org)+", not y.SafeCopy(dst, value)")
			continue
		}
		ok, why := isValueAt(vc, rs, call.Args[1])
		r.Check(ok, vc, "ValueCopy returns SafeCopy(dst, value)", rs, why)
	}
	r.Exists(n >= 2, vc, "ValueCopy exits", nil, "expected the prefetched and the direct return of ValueCopy")
	// Item.Value: fn(v)
	vf := w.F("badger.Item.Value")
	var fnParam *types.Var
	if ps := vf.Obj.Type().(*types.Signature).Params(); ps.Len() == 1 {
		fnParam = ps.At(0)
	}
	n = 0
	vf.walk(func(x ast.Node) bool {
		call, ok := x.(*ast.CallExpr)
		if !ok || len(call.Args) != 1 {
			return true
		}
		if id, ok := unparen(call.Fun).(*ast.Ident); ok && fnParam != nil && w.Use(id) == types.Object(fnParam) {
			n++
			ok, why := isValueAt(vf, call, call.Args[0])
			r.Check(ok, vf, "Value passes the value to the callback", call, why)
		}
		return true
	})
	r.Exists(n >= 2, vf, "Value callbacks", nil, "expected the prefetched and the direct callback of Item.Value")
	// y.SafeCopy = append(a[:0], src...)
	sc := w.F("y.SafeCopy")
	okApp := false
	sc.walk(func(x ast.Node) bool {
		call, ok := x.(*ast.CallExpr)
		if !ok || !isBuiltin(w, call, "append") || len(call.Args) != 2 || !call.Ellipsis.IsValid() {
			return true
		}
		ps := sc.Obj.Type().(*types.Signature).Params()
		if se, ok := unparen(call.Args[0]).(*ast.SliceExpr); ok && se.Low == nil && se.High != nil {
			if v, isC := w.constInt(se.High); isC && v == 0 {
				a, aok := unparen(se.X).(*ast.Ident)
				s, sok := unparen(call.Args[1]).(*ast.Ident)
				if aok && sok && w.Use(a) == types.Object(ps.At(0)) && w.Use(s) == types.Object(ps.At(1)) {
					okApp = true
				}
			}
		}
		return true
	})
	r.Check(okApp, sc, "SafeCopy is append(a[:0], src...)", nil, "y.SafeCopy no longer builds its result as append(a[:0], src...)")
	for _, e := range sc.allExits() {
		rs, ok := e.Node.(*ast.ReturnStmt)
		if !ok || len(rs.Results) != 1 {
			continue
		}
		org := unparen(w.Origin(sc, rs.Results[0]))
		_, isLit := org.(*ast.CompositeLit)
		call, isCall := org.(*ast.CallExpr)
		r.Check(isLit || (isCall && isBuiltin(w, call, "append")), sc, "SafeCopy returns the appended slice (or an empty one)", rs, "SafeCopy returns "+short(w, org))
	}
	// copies into resized buffers
	resize := w.Func("y.Slice.Resize")
	n = 0
	for _, name := range []string{"badger.Item.yieldItemValue", "badger.Item.prefetchValue"} {
		f := w.F(name)
		f.walk(func(x ast.Node) bool {
			call, ok := x.(*ast.CallExpr)
			if !ok || !isBuiltin(w, call, "copy") || len(call.Args) != 2 {
				return true
			}
			dst := unparen(w.Origin(f, call.Args[0]))
			rc, isCall := dst.(*ast.CallExpr)
			if !isCall || w.Callee(rc) != types.Object(resize) || len(rc.Args) != 1 {
				return true
			}
			n++
			src := types.ExprString(unparen(call.Args[1]))
			okLen := false
			if lc, ok := unparen(w.Origin(f, rc.Args[0])).(*ast.CallExpr); ok && isBuiltin(w, lc, "len") && len(lc.Args) == 1 {
				okLen = types.ExprString(unparen(lc.Args[0])) == src
			}
			r.Check(okLen, f, "buffer resized to the length of the copied value", call, "copy("+short(w, call.Args[0])+", "+src+") into a buffer resized to "+short(w, rc.Args[0]))
			return true
		})
	}
	r.Exists(n >= 2, vc, "resized copies", nil, "expected the inline copy of yieldItemValue and the prefetch copy")
	// prefetchValue stores the copied buffer
	pf := w.F("badger.Item.prefetchValue")
	for _, s := range pf.Sites(selStore(valF)) {
		as, ok := s.(*ast.AssignStmt)
		okv := false
		if ok && len(as.Rhs) == 1 {
			if rc, isCall := unparen(w.Origin(pf, as.Rhs[0])).(*ast.CallExpr); isCall && w.Callee(rc) == types.Object(resize) {
				okv = true
			}
		}
		r.Check(okv, pf, "prefetched value is the resized copy", s, "item.val is assigned something other than the buffer the value was copied into")
	}
}

// R06.6: a value pointer names the place its entry was written to.
func ruleR06_6(c *Check) {
	w := c.W
	r := c.Rule("R06.6", "E4", 4, "valueLog.write builds each value pointer from the file that receives the entry: Fid is the fid of the log file variable on which encodeEntry is called (the variable the rotation replaces, not a file id read before the loop), Offset is the current write offset (valueLog.woffset()) and is the offset handed to encodeEntry, Len is the length encodeEntry returned",
		"a pointer with the file id taken before a rotation, or an offset/length from another source, makes every later read of that key return another entry's bytes (or fail its bounds check)")
	f := w.F("badger.valueLog.write")
	enc := w.Func("badger.logFile.encodeEntry")
	fidF, offF, lenF := w.Field("badger.valuePointer.Fid"), w.Field("badger.valuePointer.Offset"), w.Field("badger.valuePointer.Len")
	lfFid := w.Field("badger.logFile.fid")
	var cur types.Object
	var encCall *ast.CallExpr
	f.walkDeep(func(own *Fn, x ast.Node) bool {
		call, ok := x.(*ast.CallExpr)
		if ok && w.Callee(call) == types.Object(enc) {
			encCall = call
			if rc := recvOf(call); rc != nil {
				if id, isId := unparen(rc).(*ast.Ident); isId {
					cur = w.Use(id)
				}
			}
		}
		return true
	})
	if cur == nil || encCall == nil {
		panic(anchorError{"encodeEntry call on the current log file in valueLog.write"})
	}
	var k keyer
	nf, no, nl := 0, 0, 0
	for _, o := range f.SitesDeep(selStore(fidF, offF, lenF)) {
		as, ok := o.Node.(*ast.AssignStmt)
		if !ok || len(as.Lhs) != 1 || len(as.Rhs) != 1 {
			continue
		}
		rhs := unparen(as.Rhs[0])
		switch w.fieldOf(as.Lhs[0]) {
		case fidF:
			nf++
			okv := false
			if se, isSel := rhs.(*ast.SelectorExpr); isSel && w.fieldOf(se) == lfFid {
				if id, isId := unparen(se.X).(*ast.Ident); isId && w.Use(id) == cur {
					okv = true
				}
			}
			r.Check(okv, o.SiteFn, k.key("pointer file id is the file written to", w, as), as, "valuePointer.Fid is assigned "+short(w, rhs)+", not the fid of the log file that encodeEntry writes to")
		case offF:
			no++
			r.Check(w.isCallTo(w.Origin(o.SiteFn, rhs), w.Func("badger.valueLog.woffset")), o.SiteFn, k.key("pointer offset is the current write offset", w, as), as, "valuePointer.Offset is assigned "+short(w, rhs))
		case lenF:
			nl++
			org := w.Origin(o.SiteFn, rhs)
			if call, isCall := unparen(org).(*ast.CallExpr); isCall && len(call.Args) == 1 {
				if tv, ok := w.Info.Types[call.Fun]; ok && tv.IsType() {
					org = w.Origin(o.SiteFn, call.Args[0])
				}
			}
			r.Check(w.isCallTo(org, enc), o.SiteFn, k.key("pointer length is what encodeEntry wrote", w, as), as, "valuePointer.Len is assigned "+short(w, rhs))
		}
	}
	r.Exists(nf >= 1 && no >= 1 && nl >= 1, f, "pointer fields assigned", nil, "expected stores to Fid, Offset and Len of the value pointer in valueLog.write")
	// the offset given to encodeEntry is the pointer's offset
	okArg := len(encCall.Args) == 3 && w.fieldOf(encCall.Args[2]) == offF
	if !okArg && len(encCall.Args) == 3 {
		// or the very local the pointer's Offset was assigned from
		if aid, isId := unparen(encCall.Args[2]).(*ast.Ident); isId {
			for _, o := range f.SitesDeep(selStore(offF)) {
				if as, isAs := o.Node.(*ast.AssignStmt); isAs && len(as.Rhs) == 1 {
					if rid, isR := unparen(as.Rhs[0]).(*ast.Ident); isR && w.Use(rid) == w.Use(aid) {
						okArg = true
					}
				}
			}
		}
	}
	r.Check(okArg, f, "entry encoded at the pointer's offset", encCall, "encodeEntry is given "+short(w, encCall.Args[len(encCall.Args)-1])+" as offset, not the pointer's Offset")
}

func propC06(c *Check) {
	ruleR06_6(c)
	ruleR06_1(c)
	ruleR06_2(c)
	ruleR06_3(c)
	ruleR06_4(c)
	ruleR06_5(c)
	ruleR15_4(c) // the entry a GC rewrite writes back carries the original's value and metadata
}

// counterSel selects the sites that move an atomic counter field in one direction: a direct
// `x.fld.Add(k)` with a constant k of the given sign, or a call to a function of the package
// whose body does that (and does not also move it the other way), such as incrIteratorCount.
func counterSel(w *World, fld *types.Var, sign int) Sel {
	direct := func(n ast.Node) int {
		call, ok := n.(*ast.CallExpr)
		if !ok || len(call.Args) != 1 {
			return 0
		}
		se, ok := unparen(call.Fun).(*ast.SelectorExpr)
		if !ok || se.Sel.Name != "Add" || w.fieldOf(se.X) != fld {
			return 0
		}
		v, isC := w.constInt(call.Args[0])
		switch {
		case !isC:
			return 0
		case v > 0:
			return 1
		case v < 0:
			return -1
		}
		return 0
	}
	movers := map[types.Object]bool{}
	for _, f := range w.Fns {
		if f.Obj == nil || f.Body == nil {
			continue
		}
		up, down := false, false
		f.walk(func(n ast.Node) bool {
			switch direct(n) {
			case 1:
				up = true
			case -1:
				down = true
			}
			return true
		})
		if (sign > 0 && up && !down) || (sign < 0 && down && !up) {
			movers[f.Obj] = true
		}
	}
	return selPred("counter:"+fld.Name(), func(w *World, f *Fn, n ast.Node) bool {
		call, ok := n.(*ast.CallExpr)
		if !ok {
			return false
		}
		if d := direct(call); d != 0 {
			return (d > 0) == (sign > 0)
		}
		o := w.Callee(call)
		return o != nil && movers[o]
	})
}
