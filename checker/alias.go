package main

// Slice-alias mutation analysis (E3 effect): which expressions share the backing array of a
// given slice, and where that backing array is written through them.
//
// Inside one function, a local is an alias of a tainted slice when one of its definitions is a
// tainted expression: a tainted identifier, a slice expression x[a:b] of one, or the seed
// itself. A write through an alias is: an element store a[i] = v, append(a…, …) (which writes
// into a's backing array whenever capacity allows — always for a[:0]), copy(a, …), a sort of
// a, or passing a to a function (declared, or a local closure) that writes through the
// corresponding parameter. The callee summaries are computed on demand to a fixed depth.

import (
	"go/ast"
	"go/types"
)

type aliasWrite struct {
	fn   *Fn
	node ast.Node
	how  string
}

type aliasAnalysis struct {
	w    *World
	memo map[aliasKey][]aliasWrite
	busy map[aliasKey]bool
}

type aliasKey struct {
	fn    *Fn
	param int
}

func newAliasAnalysis(w *World) *aliasAnalysis {
	return &aliasAnalysis{w: w, memo: map[aliasKey][]aliasWrite{}, busy: map[aliasKey]bool{}}
}

// taintedLocals closes the seed predicate over local definitions in f (and its closures).
func (a *aliasAnalysis) taintedLocals(f *Fn, seed func(e ast.Expr) bool) map[types.Object]bool {
	t, _ := a.taintedDefs(f, seed)
	return t
}

// reaches: the definition statement def of v reaches the node use in fn (some path from def to
// use passes no other definition of v). Definitions and uses in different function bodies
// (closures) are treated as reaching.
func (a *aliasAnalysis) reaches(fn *Fn, def ast.Node, use ast.Node, v types.Object) bool {
	if a.w.fnOf(def) != fn || a.w.fnOf(use) != fn {
		return true
	}
	g := fn.G()
	dv, uv := g.VertexOf(def), g.VertexOf(use)
	if dv < 0 || uv < 0 {
		return true
	}
	if dv == uv {
		return def.Pos() <= use.Pos()
	}
	avoid := map[int]bool{}
	for _, s := range fn.Sites(selStoreVar(v)) {
		if sv := g.VertexOf(s); sv >= 0 && sv != dv && sv != uv {
			avoid[sv] = true
		}
	}
	return g.pathAvoiding([]int{dv}, func(x int) bool { return x == uv }, avoid, false) != nil
}

// taintedDefs also returns, per tainted local, the statements that taint it.
func (a *aliasAnalysis) taintedDefs(f *Fn, seed func(e ast.Expr) bool) (map[types.Object]bool, map[types.Object][]ast.Node) {
	w := a.w
	t := map[types.Object]bool{}
	defs := map[types.Object][]ast.Node{}
	_ = defs
	var isT func(e ast.Expr) bool
	isT = func(e ast.Expr) bool {
		e = unparen(e)
		if seed(e) {
			return true
		}
		switch x := e.(type) {
		case *ast.Ident:
			return t[w.Use(x)]
		case *ast.SliceExpr:
			return isT(x.X)
		}
		return false
	}
	recorded := map[ast.Node]bool{}
	for changed := true; changed; {
		changed = false
		ast.Inspect(f.Root().Body, func(n ast.Node) bool {
			mark := func(l ast.Expr, r ast.Expr) {
				id, ok := unparen(l).(*ast.Ident)
				if !ok || id.Name == "_" {
					return
				}
				o := w.Use(id)
				if o == nil || recorded[n] {
					return
				}
				if isT(r) {
					t[o] = true
					recorded[n] = true
					defs[o] = append(defs[o], n)
					changed = true
				}
			}
			switch s := n.(type) {
			case *ast.AssignStmt:
				if len(s.Lhs) == len(s.Rhs) {
					for i := range s.Lhs {
						mark(s.Lhs[i], s.Rhs[i])
					}
				}
			case *ast.ValueSpec:
				if len(s.Names) == len(s.Values) {
					for i := range s.Names {
						mark(s.Names[i], s.Values[i])
					}
				}
			}
			return true
		})
	}
	return t, defs
}

// writesThrough lists the writes in f (closures included) through expressions tainted by seed.
func (a *aliasAnalysis) writesThrough(f *Fn, seed func(e ast.Expr) bool, depth int) []aliasWrite {
	w := a.w
	t, defs := a.taintedDefs(f, seed)
	var cur *Fn
	var at ast.Node
	var isT func(e ast.Expr) bool
	isT = func(e ast.Expr) bool {
		e = unparen(e)
		if seed(e) {
			return true
		}
		switch x := e.(type) {
		case *ast.Ident:
			o := w.Use(x)
			if !t[o] {
				return false
			}
			// tainted only if a tainting definition reaches this use
			for _, d := range defs[o] {
				if a.reaches(cur, d, at, o) {
					return true
				}
			}
			return false
		case *ast.SliceExpr:
			return isT(x.X)
		}
		return false
	}
	var out []aliasWrite
	f.walkDeep(func(own *Fn, n ast.Node) bool {
		cur, at = own, n
		switch s := n.(type) {
		case *ast.AssignStmt:
			for _, l := range s.Lhs {
				if ix, ok := unparen(l).(*ast.IndexExpr); ok && isT(ix.X) {
					out = append(out, aliasWrite{own, s, "element store"})
				}
			}
		case *ast.CallExpr:
			switch {
			case isBuiltin(w, s, "append") && len(s.Args) >= 1 && isT(s.Args[0]) && !isCapLimited(s.Args[0]):
				out = append(out, aliasWrite{own, s, "append into the shared backing array"})
			case isBuiltin(w, s, "copy") && len(s.Args) == 2 && isT(s.Args[0]):
				out = append(out, aliasWrite{own, s, "copy into the shared backing array"})
			default:
				if fn, ok := w.Callee(s).(*types.Func); ok && fn.Pkg() != nil && (fn.Pkg().Path() == "sort" || fn.Pkg().Path() == "slices") && len(s.Args) >= 1 && isT(s.Args[0]) {
					switch fn.Name() {
					case "Slice", "SliceStable", "Sort", "Stable", "SortFunc", "SortStableFunc", "Reverse":
						out = append(out, aliasWrite{own, s, "in-place sort"})
					}
					break
				}
				if depth <= 0 {
					break
				}
				callee := w.calleeFn(own, s)
				if callee == nil || callee.Body == nil {
					break
				}
				for i, arg := range s.Args {
					if !isT(arg) {
						continue
					}
					for _, wr := range a.paramWrites(callee, i, depth-1) {
						out = append(out, aliasWrite{own, s, "passed to " + callee.Name + ", which does: " + wr.how})
						break
					}
				}
			}
		}
		return true
	})
	return out
}

// paramWrites: writes through the i-th parameter of callee.
func (a *aliasAnalysis) paramWrites(callee *Fn, i int, depth int) []aliasWrite {
	key := aliasKey{callee, i}
	if r, ok := a.memo[key]; ok {
		return r
	}
	if a.busy[key] {
		return nil
	}
	a.busy[key] = true
	defer delete(a.busy, key)
	var params []*ast.Ident
	if callee.Type != nil && callee.Type.Params != nil {
		for _, fl := range callee.Type.Params.List {
			if len(fl.Names) == 0 {
				params = append(params, nil)
			}
			params = append(params, fl.Names...)
		}
	}
	var out []aliasWrite
	if i < len(params) && params[i] != nil {
		po := a.w.Info.Defs[params[i]]
		out = a.writesThrough(callee, func(e ast.Expr) bool {
			id, ok := e.(*ast.Ident)
			return ok && po != nil && a.w.Use(id) == po
		}, depth)
	}
	a.memo[key] = out
	return out
}

// isCapLimited: a[lo:hi:hi] — appending to it always copies.
func isCapLimited(e ast.Expr) bool {
	se, ok := unparen(e).(*ast.SliceExpr)
	return ok && se.Slice3 && se.Max != nil && se.High != nil && types.ExprString(se.Max) == types.ExprString(se.High)
}
