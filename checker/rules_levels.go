package main

// C12 (compaction never changes reads), C13 (retention), C14 (structural consistency).

import (
	"fmt"
	"go/ast"
	"go/token"
	"go/types"
	"sort"
	"strings"
)

func init() {
	register("C12", "Decides structural necessary conditions for compactions not changing reads: (R12.1) the branch that drops a deleted/expired newest version without keeping a marker is control-dependent on the overlap guard, and that guard — interpreted for every (thisLevel, nextLevel) pair a compaction can have — scans every level that reads consult after the inputs (levels below nextLevel, levels passed over between thisLevel and nextLevel) and is unconditionally true for an L0→L0 compaction (which picks a subset of L0); (R12.3) newer inputs precede older ones in the merge; (R12.4) new tables are installed before old ones are removed and MANIFEST first; (R12.5) levelHandler.tables is written only by its owner functions under the write lock; plus R13.1/R13.3. Does NOT decide picker schedules as a space, nor L0 age order after an L0→L0 install.", propC12)
	register("C13", "Decides that every place where a compaction omits an entry is guarded as the retention settings require: (R13.1) skipKey assignment and the drop branch are control-dependent on version <= discardTs and on the merge bit being clear; the last-valid-version predicate is DiscardEarlierVersions or the version count reaching NumVersionsToKeep, the count being incremented only under that guard; (R13.2) deleted/expired is the shared predicate; (R13.3) discardTs comes from the oracle's watermark and is only ever lowered afterwards. Does NOT decide version counting across several compactions with partial inputs.", propC13)
	register("C14", "Decides structural clauses of LSM/MANIFEST consistency: (R14.1) every successful compaction pick registered its key ranges and tables in the compaction status under its lock, and a finished compaction unregisters; (R14.2) an output table is ended only at a user-key boundary; (R14.3) split and range boundaries cover all versions of the boundary key; (R14.4) levels are kept sorted by smallest key after every change (L0 by file id on load); (R14.5) the tree is validated on open and after a stream load. Does NOT decide disjointness as a fact about data or crash-interrupted schedules.", propC14)
}

// ---- R12.1 ----

func ruleR12_1(c *Check) {
	w := c.W
	r := c.Rule("R12.1", "E6+interp", 14, "levelsController.subcompact: the branch that skips a deleted/expired newest version entirely is taken only when the overlap guard is false; the guard, evaluated for every (thisLevel,nextLevel) a compaction can have, scans all levels below nextLevel and all levels passed over between thisLevel and nextLevel, and is true outright for L0→L0 (a subset of L0 is compacted, the rest of L0 may hold older versions)",
		"if a table that reads still consult holds an older version of the key, dropping the marker makes the deleted (or expired, or overwritten-and-discarded) key visible again")
	f := w.F("badger.levelsController.subcompact")
	addKeys := f.LitVar("addKeys")
	// the guard variable: bool local of subcompact defined from a call that reaches overlappingTables
	scan := w.Func("badger.levelHandler.overlappingTables")
	var guard *types.Var
	var guardDef ast.Expr
	f.walk(func(n ast.Node) bool {
		as, ok := n.(*ast.AssignStmt)
		if !ok || as.Tok != token.DEFINE || len(as.Lhs) != 1 || len(as.Rhs) != 1 {
			return true
		}
		id := as.Lhs[0].(*ast.Ident)
		v, _ := w.Use(id).(*types.Var)
		if v == nil {
			return true
		}
		if b, ok := v.Type().(*types.Basic); !ok || b.Kind() != types.Bool {
			return true
		}
		reaches := false
		ast.Inspect(as.Rhs[0], func(m ast.Node) bool {
			if call, ok := m.(*ast.CallExpr); ok {
				if t := w.calleeFn(f, call); t != nil {
					if s, _ := t.containsSite(selCall(scan), 3, map[*Fn]bool{}); s != nil {
						reaches = true
					}
				}
			}
			return true
		})
		if reaches && guard == nil {
			guard, guardDef = v, as.Rhs[0]
		}
		return true
	})
	if guard == nil {
		panic(anchorError{"overlap guard variable in subcompact"})
	}
	// reassignments of the guard after its definition must only strengthen it (x = x || …): none expected
	for _, s := range f.SitesDeep(selStoreVar(guard)) {
		if as, ok := s.Node.(*ast.AssignStmt); ok && as.Tok == token.DEFINE {
			continue
		}
		r.Check(false, s.SiteFn, "overlap guard reassigned", s.Node, "the overlap guard is modified after it was computed")
	}
	// (a) drop sites: `continue` statements in addKeys that skip the newest deleted/expired version.
	// They are the continues nested under the isExpired||lastValidVersion test.
	ide := w.Func("badger.isDeletedOrExpired")
	var k keyer
	drops := 0
	addKeys.walk(func(n ast.Node) bool {
		b, ok := n.(*ast.BranchStmt)
		if !ok || b.Tok != token.CONTINUE {
			return true
		}
		gs := w.Guards(addKeys, b)
		underExpired := false
		for _, g := range gs {
			if g.Implicit {
				continue
			}
			ast.Inspect(g.Cond, func(m ast.Node) bool {
				if id, ok := m.(*ast.Ident); ok {
					if v, ok := w.Use(id).(*types.Var); ok && !v.IsField() {
						for _, d := range w.DefsOf(addKeys, v) {
							if w.isCallTo(d, ide) {
								underExpired = true
							}
						}
					}
				}
				return true
			})
		}
		if !underExpired {
			return true
		}
		drops++
		held := HasGuard(gs, false, func(e ast.Expr) bool {
			id, ok := e.(*ast.Ident)
			return ok && w.Use(id) == types.Object(guard)
		})
		r.Check(held != nil, addKeys, k.key("marker dropped only without overlap", w, b), b, "a deleted/expired version is dropped without the overlap guard being false")
		return true
	})
	r.Exists(drops >= 1, addKeys, "drop branch found", nil, "no `continue` under the deleted/expired test: the rule's anchor moved")
	// (b) coverage of the guard, by interpretation
	const maxLevels = 7
	type pair struct{ this, next int }
	var pairs []pair
	for next := 0; next < maxLevels; next++ {
		pairs = append(pairs, pair{0, next}) // L0->L0 and L0->Lbase for every possible base
	}
	for this := 1; this < maxLevels-1; this++ {
		pairs = append(pairs, pair{this, this + 1})
	}
	pairs = append(pairs, pair{maxLevels - 1, maxLevels - 1}) // last level into itself
	for _, p := range pairs {
		in := &ovInterp{w: w, this: p.this, next: p.next, max: maxLevels, scanned: map[int]bool{},
			levelsFld: w.Field("badger.levelsController.levels"), levelFld: w.Field("badger.levelHandler.level"),
			thisFld: w.Field("badger.compactDef.thisLevel"), nextFld: w.Field("badger.compactDef.nextLevel"), scanFn: scan}
		val := in.evalBool(newFrame(), guardDef)
		if len(in.unsupported) > 0 {
			panic(anchorError{"overlap guard uses constructs the interpreter does not support: " + strings.Join(in.unsupported, "; ")})
		}
		var need []int
		if p.this == 0 && p.next == 0 {
			// subset of L0 compacted into L0: the rest of L0 is not scanned by anything; the guard must be true
			ok := val == triTrue
			r.Check(ok, f, "guard for L0->L0 is unconditionally true", guardDef, "for an L0->L0 compaction the guard only scans levels "+fmtSet(in.scanned)+"; L0 tables left out of the compaction can hold older versions")
			continue
		}
		for l := p.this + 1; l < maxLevels; l++ {
			if l == p.next {
				continue // inputs (all overlapping tables of nextLevel are in cd.bot)
			}
			if p.this == p.next {
				continue
			}
			need = append(need, l)
		}
		if p.this == p.next {
			need = nil // last level into itself: nothing below, level is key-disjoint
		}
		var missing []int
		for _, l := range need {
			if !in.scanned[l] {
				missing = append(missing, l)
			}
		}
		ok := val == triTrue || len(missing) == 0
		r.Check(ok, f, fmt.Sprintf("guard coverage for L%d->L%d", p.this, p.next), guardDef,
			fmt.Sprintf("compaction L%d->L%d: the guard scans levels %s but reads also consult %v, which are neither inputs nor scanned", p.this, p.next, fmtSet(in.scanned), missing))
	}
	// (c) pickers: who can produce thisLevel==nextLevel==0, and fillTablesL0ToLbase takes a prefix in age order
	lb := w.F("badger.levelsController.fillTablesL0ToLbase")
	// the selection loop breaks at the first non-overlapping table (so what is left out is newer)
	okBreak := false
	lb.walk(func(n ast.Node) bool {
		rs, ok := n.(*ast.RangeStmt)
		if !ok {
			return true
		}
		// whatever the spelling (if/else, inverted test with early break): a table is taken only
		// when it overlaps, the loop is left when one does not, and no table is skipped over
		ov := w.Func("badger.keyRange.overlapsWith")
		isOv := func(e ast.Expr) bool {
			call, ok := unparen(e).(*ast.CallExpr)
			return ok && w.Callee(call) == types.Object(ov)
		}
		breaks, conts, takes, takesOK := 0, 0, 0, true
		ast.Inspect(rs.Body, func(m ast.Node) bool {
			switch x := m.(type) {
			case *ast.FuncLit:
				return false
			case *ast.BranchStmt:
				if x.Tok == token.CONTINUE {
					conts++
				}
				if x.Tok == token.BREAK && HasGuard(w.Guards(lb, x), false, isOv) != nil {
					breaks++
				}
			case *ast.CallExpr:
				if isBuiltin(w, x, "append") {
					takes++
					if HasGuard(w.Guards(lb, x), true, isOv) == nil {
						takesOK = false
					}
				}
			}
			return true
		})
		if breaks >= 1 && conts == 0 && takes >= 1 && takesOK {
			okBreak = true
		}
		return true
	})
	r.Check(okBreak, lb, "L0->Lbase takes a prefix of L0 in age order", nil, "the selection loop of fillTablesL0ToLbase no longer stops at the first non-overlapping table: tables older than a picked one could be left out")
}

func fmtSet(m map[int]bool) string {
	var ks []int
	for k := range m {
		ks = append(ks, k)
	}
	sort.Ints(ks)
	return fmt.Sprint(ks)
}

func ruleR12_3(c *Check) {
	w := c.W
	r := c.Rule("R12.3", "E1", 3, "compactBuildTables: the merge inputs are the top-level iterators (L0 newest first via appendIteratorsReversed) followed by the concat iterator over the bottom tables; appendIteratorsReversed walks its tables from the last to the first",
		"the merge iterator lets the earlier input win an equal key (R21.1): if older data precedes newer data the compaction keeps the stale copy")
	f := w.F("badger.levelsController.compactBuildTables")
	ni := f.LitVar("newIterator")
	concat := selCallName(w, "table.NewConcatIterator")
	top := selOr(selCallName(w, "badger.appendIteratorsReversed"), selCallName(w, "table.Table.NewIterator"))
	r.Exists(len(ni.Sites(concat)) == 1 && len(ni.Sites(top)) >= 2, ni, "top and bottom iterator sites", nil, "expected appendIteratorsReversed/NewIterator for the top tables and one NewConcatIterator")
	r.NeverAfterAll(ni, "no top-level iterator added after the bottom iterator", concat, 0, top, 0)
	// the concat iterator is the last element appended
	for _, s := range ni.Sites(concat) {
		call, ok := w.parentOf(s).(*ast.CallExpr)
		okv := false
		if ok {
			if id, isID := unparen(call.Fun).(*ast.Ident); isID && id.Name == "append" && len(call.Args) == 2 && call.Args[1] == s.(ast.Expr) {
				_, okv = w.parentOf(call).(*ast.ReturnStmt)
			}
		}
		r.Check(okv, ni, "bottom iterator appended last", s, "NewConcatIterator is not the last input")
	}
	// level 0 uses the reversed append, and nothing else
	l0sites := 0
	for _, s := range ni.Sites(top) {
		underL0 := false
		for _, g := range w.Guards(ni, s) {
			if eqOf(g, true, func(e ast.Expr) bool { _, isC := w.constInt(e); return !isC }, w.isConst(0)) {
				underL0 = true
			}
		}
		if !underL0 {
			continue
		}
		l0sites++
		r.Check(descendingIterSite(w, ni, s, 2), ni, "L0 inputs newest first", s, "level-0 inputs are not added from the last table to the first")
		if call, isCall := s.(*ast.CallExpr); isCall {
			for _, a := range call.Args {
				if tv, ok := w.Info.Types[a]; ok {
					if sl, isSl := tv.Type.Underlying().(*types.Slice); isSl && namedIs(sl.Elem(), modPath+"/table", "Table") {
						o := tableListOrient(w, ni, a, 0)
						r.Check(o == 1, ni, "the L0 input list walked backwards is in table order", s, "the table list handed to the reversed append is not known to be in the level's order")
					}
				}
			}
		}
	}
	r.Exists(l0sites >= 1, ni, "level-0 branch adds its inputs", nil, "no iterator site under `lev == 0`")
	// levelHandler.appendIterators: under level == 0 every table iterator is added newest first
	ai := w.F("badger.levelHandler.appendIterators")
	lvl := w.Field("badger.levelHandler.level")
	n0 := 0
	var k keyer
	ai.walkInl(func(own *Fn, n ast.Node) bool {
		call, ok := n.(*ast.CallExpr)
		if !ok || !addsTableIterators(w, own, call, 2) {
			return true
		}
		op, g := w.guardRel(w.Guards(own, call), w.isField(lvl), w.isConst(0), false)
		if g == nil || op != token.EQL {
			return true
		}
		n0++
		r.Check(descendingIterSite(w, own, call, 2), own, k.key("read path appends L0 newest first", w, call), call, "level-0 table iterators are appended in table order (oldest first): an older copy of an identical key+version wins the merge")
		// … from a list that is in the level's own (oldest-first) order: a list already reversed and
		// then walked backwards is oldest first again
		for _, a := range call.Args {
			if tv, ok := w.Info.Types[a]; ok {
				if sl, isSl := tv.Type.Underlying().(*types.Slice); isSl && namedIs(sl.Elem(), modPath+"/table", "Table") {
					o := tableListOrient(w, own, a, 0)
					r.Check(o == 1, own, k.key("the list walked backwards is in table order", w, call), call, "the table list handed to the reversed append is not known to be in the level's order (built in a counting-down loop, or of unknown origin): the merge may receive the oldest table first")
				}
			}
		}
		return true
	})
	r.Exists(n0 >= 1, ai, "read path has a level-0 branch that adds table iterators", nil, "no table iterator is added under `level == 0` in levelHandler.appendIterators")
}

// tableListOrient: +1 if the list expression holds tables in the order of the level's own list
// (levelHandler.tables, compactDef.top: oldest first for L0), -1 if in the reverse order, 0 unknown.
// A local list is followed through its appends: built in a range / counting-up loop over a list it
// has that list's orientation, in a counting-down loop the opposite one.
func tableListOrient(w *World, own *Fn, e ast.Expr, depth int) int {
	e = unparen(e)
	if depth > 3 {
		return 0
	}
	switch w.fieldOf(e) {
	case w.Field("badger.levelHandler.tables"), w.Field("badger.compactDef.top"):
		if w.fieldOf(e) != nil {
			return 1
		}
	}
	if se, ok := e.(*ast.SliceExpr); ok {
		return tableListOrient(w, own, se.X, depth+1)
	}
	id, ok := e.(*ast.Ident)
	if !ok {
		return 0
	}
	v, ok := w.Use(id).(*types.Var)
	if !ok || v.IsField() {
		return 0
	}
	res, n := 0, 0
	for _, s := range own.Root().SitesDeep(selStoreVar(v)) {
		as, ok := s.Node.(*ast.AssignStmt)
		if !ok || len(as.Rhs) != 1 {
			continue
		}
		rhs := unparen(as.Rhs[0])
		call, isCall := rhs.(*ast.CallExpr)
		if isCall && isBuiltin(w, call, "make") {
			continue
		}
		o := 0
		if isCall && isBuiltin(w, call, "append") && len(call.Args) == 2 && !call.Ellipsis.IsValid() {
			// the enclosing loop decides
			for p := w.parentOf(as); p != nil; p = w.parentOf(p) {
				if rs, isRange := p.(*ast.RangeStmt); isRange {
					o = tableListOrient(w, s.SiteFn, rs.X, depth+1)
					break
				}
				if fs, isFor := p.(*ast.ForStmt); isFor {
					dir := 0
					if inc, ok := fs.Post.(*ast.IncDecStmt); ok {
						if inc.Tok == token.INC {
							dir = 1
						} else {
							dir = -1
						}
					}
					// the list indexed by the loop variable
					base := 0
					ast.Inspect(fs.Body, func(m ast.Node) bool {
						if ix, ok := m.(*ast.IndexExpr); ok && base == 0 {
							base = tableListOrient(w, s.SiteFn, ix.X, depth+1)
						}
						return true
					})
					o = dir * base
					break
				}
				if _, isFn := p.(*ast.FuncLit); isFn {
					break
				}
				if _, isFn := p.(*ast.FuncDecl); isFn {
					break
				}
			}
		} else {
			o = tableListOrient(w, s.SiteFn, rhs, depth+1)
		}
		if n == 0 {
			res = o
		} else if res != o {
			return 0
		}
		n++
	}
	return res
}

// addsTableIterators: the call creates table iterators — Table.NewIterator itself, or a module
// function that contains such a call (depth levels deep).
func addsTableIterators(w *World, own *Fn, call *ast.CallExpr, depth int) bool {
	ni := w.Func("table.Table.NewIterator")
	if o := w.Callee(call); o != nil && (o == types.Object(ni) || (o.Name() == "NewIterator" && o.Pkg() != nil && o.Pkg().Path() == modPath+"/table")) {
		return true
	}
	if depth <= 0 {
		return false
	}
	callee := w.calleeFn(own, call)
	if callee == nil || callee.Body == nil || callee.Decl == nil {
		return false
	}
	found := false
	callee.walkDeep(func(g *Fn, n ast.Node) bool {
		if c, ok := n.(*ast.CallExpr); ok && !found && c != call && addsTableIterators(w, g, c, depth-1) {
			found = true
		}
		return !found
	})
	return found
}

// descendingIterSite: the table iterators this call creates are created from the last table to the
// first: the call sits in a counting-down loop, or it calls a function all of whose
// iterator-creating calls do.
func descendingIterSite(w *World, own *Fn, n ast.Node, depth int) bool {
	call, ok := n.(*ast.CallExpr)
	if !ok {
		return false
	}
	// reversedIndex: the table the iterator is created on is indexed `C - i` with i the variable of
	// the (counting-up) loop: the tables are taken from the last to the first all the same
	reversedIndex := func(x ast.Node, loopVar types.Object) bool {
		c, ok := x.(*ast.CallExpr)
		if !ok || loopVar == nil {
			return false
		}
		rc := recvOf(c)
		if rc == nil {
			return false
		}
		ix, ok := unparen(rc).(*ast.IndexExpr)
		if !ok {
			return false
		}
		fnAt := w.fnOf(x)
		if fnAt == nil {
			fnAt = own
		}
		be, ok := unparen(w.Origin(fnAt, ix.Index)).(*ast.BinaryExpr)
		if !ok || be.Op != token.SUB {
			return false
		}
		id, ok := unparen(be.Y).(*ast.Ident)
		return ok && w.Use(id) == loopVar
	}
	inDownLoop := func(x ast.Node) bool {
		for p := w.parentOf(x); p != nil; p = w.parentOf(p) {
			switch fs := p.(type) {
			case *ast.ForStmt:
				if inc, ok := fs.Post.(*ast.IncDecStmt); ok && inc.Tok == token.DEC {
					return true
				}
				if inc, ok := fs.Post.(*ast.IncDecStmt); ok && inc.Tok == token.INC {
					if id, isId := unparen(inc.X).(*ast.Ident); isId {
						return reversedIndex(x, w.Use(id))
					}
				}
				return false
			case *ast.RangeStmt:
				if kid, isId := fs.Key.(*ast.Ident); isId {
					return reversedIndex(x, w.Info.Defs[kid])
				}
				return false
			case *ast.FuncLit, *ast.FuncDecl:
				return false
			}
		}
		return false
	}
	if o := w.Callee(call); o != nil && o.Name() == "NewIterator" && o.Pkg() != nil && o.Pkg().Path() == modPath+"/table" {
		return inDownLoop(call)
	}
	if depth <= 0 {
		return false
	}
	callee := w.calleeFn(own, call)
	if callee == nil || callee.Body == nil || callee.Decl == nil {
		return false
	}
	all, any := true, false
	callee.walkDeep(func(g *Fn, m ast.Node) bool {
		if c, ok := m.(*ast.CallExpr); ok && addsTableIterators(w, g, c, 0) {
			any = true
			if !inDownLoop(c) {
				all = false
			}
		}
		return true
	})
	return any && all
}

// R12.7: what a deferred call is told about the outcome is the outcome.
func ruleR12_7(c *Check) {
	w := c.W
	r := c.Rule("R12.7", "E1", 20, "no deferred call takes, as an argument, a local variable that is assigned after the defer statement: arguments of a deferred call are evaluated when the defer statement runs, so `var err error; defer done(err); …; err = build()` reports nil whatever happens (the compaction's table builders reported their build error this way). A closure (`defer func() { done(err) }()`) reads the variable when it runs",
		"a table that could not be written (disk full, name taken) was reported to the throttle as built: the compaction went on without it, committed the change set and deleted its inputs — every key of the missing table is lost, and nothing returns an error")
	n := 0
	var k keyer
	for _, f := range w.Fns {
		if isCmdPkg(f) || f.Body == nil {
			continue
		}
		f := f
		f.walk(func(x ast.Node) bool {
			ds, ok := x.(*ast.DeferStmt)
			if !ok {
				return true
			}
			n++
			bad := ""
			for _, a := range ds.Call.Args {
				id, isId := unparen(a).(*ast.Ident)
				if !isId {
					continue
				}
				v, isVar := w.Use(id).(*types.Var)
				if !isVar || v.IsField() || v.Pkg() == nil || v.Parent() == v.Pkg().Scope() {
					continue
				}
				for _, o := range f.Root().SitesDeep(selStoreVar(v)) {
					// an assignment that can run after the defer statement in the same body
					if w.fnOf(o.Node) == f && o.Node.Pos() > ds.End() {
						bad = v.Name()
					}
				}
			}
			r.Check(bad == "", f, k.key("deferred call sees the final value of its arguments", w, ds), ds, "`"+short(w, ds.Call)+"` is deferred with the value `"+bad+"` has now; `"+bad+"` is assigned afterwards, and the deferred call never sees that")
			return true
		})
	}
	r.Exists(n >= 20, nil, "defer statements examined", nil, "too few defer statements found")
}

func ruleR12_4(c *Check) {
	w := c.W
	r := c.Rule("R12.4", "E1", 1, "runCompactDef installs the new tables in nextLevel (replaceTables) before removing the inputs from thisLevel (deleteTables)",
		"readers visit levels top-down without a global lock: removing first opens a window in which a key is in neither level")
	f := w.F("badger.levelsController.runCompactDef")
	// (the two calls may sit together in a helper that runCompactDef calls at one place)
	seen := map[*Fn]bool{}
	for _, o := range f.SitesInl(selCallName(w, "badger.levelHandler.deleteTables")) {
		if !seen[o.SiteFn] {
			seen[o.SiteFn] = true
			r.DomAll(o.SiteFn, "deleteTables", selCallName(w, "badger.levelHandler.deleteTables"), 0, selCallName(w, "badger.levelHandler.replaceTables"), 0)
		}
	}
}

func ruleR12_5(c *Check) {
	w := c.W
	r := c.Rule("R12.5", "E3+E2", 7, "levelHandler.tables is assigned only in initTables, replaceTables, deleteTables, addTable, sortTables (sort), tryAddLevel0Table and dropTree, each holding the level's write lock",
		"any other writer can break the sorted/disjoint invariant or race with readers holding the read lock")
	tables := w.Field("badger.levelHandler.tables")
	mu := w.Field("badger.levelHandler.RWMutex")
	allowed := map[string]bool{"badger.levelHandler.initTables": true, "badger.levelHandler.replaceTables": true, "badger.levelHandler.deleteTables": true,
		"badger.levelHandler.addTable": true, "badger.levelHandler.tryAddLevel0Table": true, "badger.levelsController.dropTree": true}
	var k keyer
	for _, o := range allSites(w, "badger", selStore(tables)) {
		root := o.SiteFn.Root().Name
		ok := allowed[root]
		msg := "levelHandler.tables assigned in " + root
		if ok {
			ok = o.SiteFn.HeldAt(o.Node)[mu] == 2
			msg = "write lock of the level not held"
		}
		r.Check(ok, o.SiteFn, k.key("tables assigned by an owner under the write lock", w, o.Node), o.Node, msg)
	}
	// sort.Slice on s.tables also under the write lock
	for _, o := range allSites(w, "badger", selPred("sort(tables)", func(w *World, f *Fn, n ast.Node) bool {
		call, ok := n.(*ast.CallExpr)
		if !ok || len(call.Args) < 1 {
			return false
		}
		fn, ok := w.Callee(call).(*types.Func)
		return ok && fn.Pkg() != nil && fn.Pkg().Path() == "sort" && w.fieldOf(call.Args[0]) == tables
	})) {
		r.Check(o.SiteFn.HeldAt(o.Node)[mu] == 2, o.SiteFn, k.key("tables sorted under the write lock", w, o.Node), o.Node, "write lock of the level not held")
	}
}

func propC12(c *Check) {
	ruleR12_1(c)
	ruleR12_3(c)
	ruleR12_4(c)
	ruleR12_5(c)
	ruleR12_6(c)
	ruleR13_1(c)
	ruleR13_3(c)
	ruleR08_1(c)
	// a table cut between two versions of one key lets a later compaction pick the table holding
	// the marker without the one holding the older version (same level is never scanned by the guard)
	ruleR14_2(c)
	ruleR01_5(c) // a read in progress keeps the tables it looks at alive across the compaction that replaces them
	ruleR12_7(c) // a compaction that could not write one of its tables fails (deferred error reports see the error)
}

// ---- C13 ----

func ruleR13_1(c *Check) {
	w := c.W
	r := c.Rule("R13.1", "E6+E5", 5, "subcompact.addKeys: the assignment of skipKey and every drop of the current entry are control-dependent on version <= discardTs (a stronger comparison is accepted) and on the merge bit being clear; lastValidVersion is DiscardEarlierVersions || numVersions == NumVersionsToKeep with numVersions incremented only under that guard; entries skipped for skipKey are those with the same user key",
		"dropping a version above the discard watermark changes what an open transaction reads; dropping merge operands loses part of the fold; counting versions above the watermark drops the only version visible to an old reader")
	f := w.F("badger.levelsController.subcompact")
	ak := f.LitVar("addKeys")
	parseTs := w.Func("y.ParseTs")
	merge := w.Obj("badger.bitMergeEntry")
	doa := w.Func("badger.oracle.discardAtOrBelow")
	// discardTs: local of subcompact defined from discardAtOrBelow
	var discard *types.Var
	f.walk(func(n ast.Node) bool {
		if as, ok := n.(*ast.AssignStmt); ok && as.Tok == token.DEFINE && len(as.Rhs) == 1 && w.isCallTo(as.Rhs[0], doa) {
			discard, _ = w.Use(as.Lhs[0].(*ast.Ident)).(*types.Var)
		}
		return true
	})
	if discard == nil {
		panic(anchorError{"discardTs variable of subcompact"})
	}
	role := func(e ast.Expr) string {
		if w.isCallTo(w.Origin(ak, e), parseTs) {
			return "version"
		}
		if id, ok := unparen(e).(*ast.Ident); ok && w.Use(id) == types.Object(discard) {
			return "discard"
		}
		return ""
	}
	okGuards := func(n ast.Node) (bool, string) {
		gs := w.Guards(ak, n)
		op, _ := FindRel(RelsOf(gs), role, "version", "discard")
		if op != token.LEQ && op != token.LSS {
			return false, "not guarded by version <= discardTs (relation '" + op.String() + "')"
		}
		if w.bitGuard(gs, merge) != 0 {
			return false, "not guarded by the merge bit being clear"
		}
		return true, ""
	}
	// skipKey variable
	// the "skip the remaining versions of this key" variable: the second argument of the SameKey test whose
	// true branch skips the entry (`if SameKey(it.Key(), X) { …; continue }`)
	var skip *types.Var
	ak.walk(func(n ast.Node) bool {
		is, ok := n.(*ast.IfStmt)
		if !ok {
			return true
		}
		call, ok := unparen(is.Cond).(*ast.CallExpr)
		if !ok || w.Callee(call) != types.Object(w.Func("y.SameKey")) || len(call.Args) != 2 {
			return true
		}
		if n := len(is.Body.List); n > 0 {
			if b, ok := is.Body.List[n-1].(*ast.BranchStmt); ok && b.Tok == token.CONTINUE {
				if id, ok := unparen(call.Args[1]).(*ast.Ident); ok {
					skip, _ = w.Use(id).(*types.Var)
				}
			}
		}
		return true
	})
	if skip == nil {
		panic(anchorError{"skipKey variable of subcompact"})
	}
	var k keyer
	n := 0
	for _, s := range ak.Sites(selStoreVar(skip)) {
		as := s.(*ast.AssignStmt)
		// resetting to empty (skipKey = skipKey[:0]) is not a drop decision
		if se, ok := unparen(as.Rhs[0]).(*ast.SliceExpr); ok && se.High != nil {
			if v, ok := w.constInt(se.High); ok && v == 0 {
				continue
			}
		}
		n++
		ok, why := okGuards(s)
		r.Check(ok, ak, k.key("skipKey set under the retention guard", w, s), s, why)
	}
	r.Exists(n == 1, ak, "one skipKey assignment", nil, "expected exactly one place that arms skipKey")
	// drop sites: continue statements in addKeys
	ak.walk(func(x ast.Node) bool {
		b, ok := x.(*ast.BranchStmt)
		if !ok || b.Tok != token.CONTINUE {
			return true
		}
		gs := w.Guards(ak, b)
		// classify
		isPrefixDrop, isSkipKey := false, false
		for _, g := range gs {
			if g.Implicit || !g.Val {
				continue
			}
			if call, ok := g.Cond.(*ast.CallExpr); ok {
				if w.Callee(call) == w.Func("badger.hasAnyPrefixes") {
					isPrefixDrop = true
				}
				if w.Callee(call) == w.Func("y.SameKey") && len(call.Args) == 2 {
					if id, ok := unparen(call.Args[1]).(*ast.Ident); ok && w.Use(id) == types.Object(skip) {
						isSkipKey = true
					}
				}
			}
		}
		switch {
		case isPrefixDrop:
			r.Check(true, ak, k.key("drop: requested prefix", w, b), b, "")
		case isSkipKey:
			r.Check(true, ak, k.key("drop: older version of a key whose retention was decided", w, b), b, "")
		default:
			ok, why := okGuards(b)
			r.Check(ok, ak, k.key("drop under the retention guard", w, b), b, why)
		}
		return true
	})
	// lastValidVersion := meta&bitDiscardEarlierVersions > 0 || numVersions == NumVersionsToKeep
	nvk := w.Field("badger.Options.NumVersionsToKeep")
	dev := w.Obj("badger.bitDiscardEarlierVersions")
	found := false
	var numVersions *types.Var
	ak.walk(func(x ast.Node) bool {
		as, ok := x.(*ast.AssignStmt)
		if !ok || as.Tok != token.DEFINE || len(as.Rhs) != 1 {
			return true
		}
		parts := flatten(as.Rhs[0], token.LOR)
		if len(parts) != 2 {
			return true
		}
		var hasBit, hasCount bool
		for _, p := range parts {
			if o, set, ok := w.maskTest(p); ok && o == dev && set {
				hasBit = true
			}
			if b, ok := unparen(p).(*ast.BinaryExpr); ok && b.Op == token.EQL && (w.fieldOf(b.Y) == nvk || w.fieldOf(b.X) == nvk) {
				hasCount = true
				other := b.X
				if w.fieldOf(b.X) == nvk {
					other = b.Y
				}
				if id, ok := unparen(other).(*ast.Ident); ok {
					numVersions, _ = w.Use(id).(*types.Var)
				}
			}
		}
		if hasBit && hasCount {
			found = true
			ok, why := okGuards(as)
			r.Check(ok, ak, "last-valid-version predicate evaluated under the retention guard", as, why)
		}
		return true
	})
	r.Check(found, ak, "last-valid-version predicate", nil, "no `DiscardEarlierVersions || numVersions == NumVersionsToKeep` predicate found")
	if numVersions != nil {
		for _, s := range ak.Sites(selStoreVar(numVersions)) {
			if inc, ok := s.(*ast.IncDecStmt); ok && inc.Tok == token.INC {
				ok, why := okGuards(s)
				r.Check(ok, ak, "versions counted only at or below the discard watermark", s, why)
			}
		}
	}
}

func ruleR13_2(c *Check) {
	w := c.W
	r := c.Rule("R13.2", "E5", 1, "subcompact decides deleted/expired with the shared predicate isDeletedOrExpired(vs.Meta, vs.ExpiresAt) of the current entry",
		"a private notion of expiry in compaction would drop entries that reads still show (or keep showing entries reads hide)")
	ak := w.F("badger.levelsController.subcompact").LitVar("addKeys")
	n := 0
	for _, s := range ak.Sites(selCallName(w, "badger.isDeletedOrExpired")) {
		n++
		call := s.(*ast.CallExpr)
		ok := len(call.Args) == 2 && w.fieldOf(call.Args[0]) == w.Field("y.ValueStruct.Meta") && w.fieldOf(call.Args[1]) == w.Field("y.ValueStruct.ExpiresAt")
		r.Check(ok, ak, "isDeletedOrExpired on the entry's meta and expiry", s, "arguments are "+short(w, s))
	}
	r.Exists(n >= 1, ak, "shared predicate used", nil, "subcompact does not call isDeletedOrExpired")
}

func ruleR13_3(c *Check) {
	w := c.W
	r := c.Rule("R13.3", "E1+E5", 4, "discardTs in subcompact is defined from oracle.discardAtOrBelow(); any later assignment is under `x < discardTs` and assigns x (only lowered); discardAtOrBelow returns readMark.DoneUntil() or, in managed mode, oracle.discardTs read under the oracle mutex",
		"raising the threshold above the oldest open reader lets compaction drop versions that reader must see")
	f := w.F("badger.levelsController.subcompact")
	doa := w.Func("badger.oracle.discardAtOrBelow")
	var discard *types.Var
	var defAt ast.Node
	f.walk(func(n ast.Node) bool {
		if as, ok := n.(*ast.AssignStmt); ok && as.Tok == token.DEFINE && len(as.Rhs) == 1 && w.isCallTo(as.Rhs[0], doa) {
			discard, _ = w.Use(as.Lhs[0].(*ast.Ident)).(*types.Var)
			defAt = as
		}
		return true
	})
	if discard == nil {
		panic(anchorError{"discardTs variable of subcompact"})
	}
	r.Exists(true, f, "discardTs defined from discardAtOrBelow", defAt, "")
	for _, o := range f.SitesDeep(selStoreVar(discard)) {
		as, ok := o.Node.(*ast.AssignStmt)
		if !ok || as == defAt {
			continue
		}
		okv := false
		if len(as.Rhs) == 1 {
			if id, ok := unparen(as.Rhs[0]).(*ast.Ident); ok {
				x := w.Use(id)
				role := func(e ast.Expr) string {
					if i, ok := unparen(e).(*ast.Ident); ok {
						if w.Use(i) == x {
							return "x"
						}
						if w.Use(i) == types.Object(discard) {
							return "d"
						}
					}
					return ""
				}
				op, _ := FindRel(RelsOf(w.Guards(o.SiteFn, as)), role, "x", "d")
				okv = op == token.LSS || op == token.LEQ
			}
		}
		r.Check(okv, o.SiteFn, "discardTs only lowered", as, "discardTs reassigned without `new < discardTs` guard")
	}
	d := w.F("badger.oracle.discardAtOrBelow")
	mu := oracleMu(w)
	for _, e := range d.allExits() {
		rs := e.Node.(*ast.ReturnStmt)
		if len(rs.Results) != 1 {
			continue
		}
		x := rs.Results[0]
		switch {
		case w.fieldOf(x) == w.Field("badger.oracle.discardTs"):
			managed := HasGuard(w.Guards(d, rs), true, func(e ast.Expr) bool { return w.fieldOf(e) == w.Field("badger.oracle.isManaged") }) != nil
			r.Check(managed && d.HeldAt(rs)[mu] == 2, d, "managed: discardTs read under the oracle mutex", rs, "oracle.discardTs returned outside the managed branch or without the mutex")
		case w.isCallTo(x, w.Func("y.WaterMark.DoneUntil")) && w.fieldOf(recvOf(unparen(x).(*ast.CallExpr))) == w.Field("badger.oracle.readMark"):
			r.Check(true, d, "normal mode: readMark.DoneUntil()", rs, "")
		default:
			r.Check(false, d, "discard watermark source", rs, "discardAtOrBelow returns "+short(w, x))
		}
	}
	// who stores oracle.discardTs: setDiscardTs under the lock
	for _, o := range allStores(w, w.Field("badger.oracle.discardTs")) {
		var trail []string
		r.Check(o.SiteFn.HeldDeep(o.Node, mu, 2, 1, &trail), o.SiteFn, "oracle.discardTs stored under the oracle mutex", o.Node, joinTrail(trail))
	}
}

// R13.4: the per-key state of the retention decision.
func ruleR13_4(c *Check) {
	w := c.W
	r := c.Rule("R13.4", "E6+E5", 4, "subcompact.addKeys, per-key retention state: the version count restarts at 0 for every new user key (unconditionally in the branch taken when the key differs from the remembered one, which also remembers the new key); the remaining versions are skipped for the key of the entry that decided it; an entry that reaches the retention decision is itself dropped only when it is deleted or expired (decided propositionally over the guards of every drop)",
		"a count carried over from the previous key drops the newest versions of the next key; arming the skip with another key drops versions of the wrong key; dropping the last valid version leaves fewer than NumVersionsToKeep versions")
	ak := w.F("badger.levelsController.subcompact").LitVar("addKeys")
	sameKey := w.Func("y.SameKey")
	nvk := w.Field("badger.Options.NumVersionsToKeep")
	var numVersions *types.Var
	ak.walk(func(x ast.Node) bool {
		b, ok := x.(*ast.BinaryExpr)
		if !ok || (b.Op != token.EQL && b.Op != token.GEQ && b.Op != token.LEQ) {
			return true
		}
		other := ast.Expr(nil)
		if w.fieldOf(b.Y) == nvk {
			other = b.X
		} else if w.fieldOf(b.X) == nvk {
			other = b.Y
		}
		if id, ok := unparen(other).(*ast.Ident); ok && other != nil {
			if v, ok := w.Use(id).(*types.Var); ok {
				numVersions = v
			}
		}
		return true
	})
	if numVersions == nil {
		panic(anchorError{"version counter compared with NumVersionsToKeep in subcompact"})
	}
	// the skip test and the iterator's key accessor
	var skip *types.Var
	var keyCallee types.Object
	ak.walk(func(n ast.Node) bool {
		is, ok := n.(*ast.IfStmt)
		if !ok {
			return true
		}
		call, ok := unparen(is.Cond).(*ast.CallExpr)
		if !ok || w.Callee(call) != types.Object(sameKey) || len(call.Args) != 2 {
			return true
		}
		if n := len(is.Body.List); n > 0 {
			if b, ok := is.Body.List[n-1].(*ast.BranchStmt); ok && b.Tok == token.CONTINUE {
				if id, ok := unparen(call.Args[1]).(*ast.Ident); ok {
					skip, _ = w.Use(id).(*types.Var)
					if kc, ok := unparen(call.Args[0]).(*ast.CallExpr); ok {
						keyCallee = w.Callee(kc)
					}
				}
			}
		}
		return true
	})
	if skip == nil || keyCallee == nil {
		panic(anchorError{"skipKey test of subcompact"})
	}
	mentionsKey := func(e ast.Node) bool {
		found := false
		ast.Inspect(e, func(n ast.Node) bool {
			if call, ok := n.(*ast.CallExpr); ok && w.Callee(call) == keyCallee {
				found = true
			}
			return true
		})
		return found
	}
	// (a) the count restarts for every new key
	resets := 0
	for _, s := range ak.Sites(selStoreVar(numVersions)) {
		as, ok := s.(*ast.AssignStmt)
		if !ok || len(as.Rhs) != 1 {
			continue
		}
		if v, ok := w.constInt(as.Rhs[0]); !ok || v != 0 {
			continue
		}
		resets++
		var newKey *Guard
		var last *types.Var
		bad := ""
		gs := w.Guards(ak, as)
		for i, g := range gs {
			if g.Implicit {
				continue
			}
			if _, isFor := g.At.(*ast.ForStmt); isFor {
				continue
			}
			if call, ok := g.Cond.(*ast.CallExpr); ok && !g.Val && w.Callee(call) == types.Object(sameKey) && len(call.Args) == 2 {
				for j, a := range call.Args {
					if id, ok := unparen(a).(*ast.Ident); ok && mentionsKey(call.Args[1-j]) {
						if v, ok := w.Use(id).(*types.Var); ok && v != skip {
							last = v
							newKey = &gs[i]
						}
					}
				}
				if newKey != nil {
					continue
				}
			}
			bad = "the reset also depends on `" + short(w, g.Cond) + "`"
		}
		switch {
		case newKey == nil:
			r.Check(false, ak, "count restarts when the user key changes", as, "the reset is not in the branch taken when SameKey(current key, remembered key) fails")
		case bad != "":
			r.Check(false, ak, "count restarts when the user key changes", as, bad)
		default:
			r.Check(true, ak, "count restarts when the user key changes", as, "")
			// the remembered key is replaced by the current key in the same branch
			ok := false
			for _, st := range ak.Sites(selStoreVar(last)) {
				sa, isAs := st.(*ast.AssignStmt)
				if !isAs || len(sa.Rhs) != 1 || !mentionsKey(sa.Rhs[0]) {
					continue
				}
				for _, g := range w.Guards(ak, sa) {
					if g.At == newKey.At && !g.Implicit {
						ok = true
					}
				}
			}
			r.Check(ok, ak, "the new key is remembered in the same branch", as, "no assignment of the current key to `"+last.Name()+"` under the new-key test")
		}
	}
	r.Exists(resets >= 1, ak, "version count reset", nil, "numVersions is never reset to 0 in addKeys")
	// (b) the skip is armed with the key of the current entry (or the remembered key, which equals it there)
	for _, s := range ak.Sites(selStoreVar(skip)) {
		as := s.(*ast.AssignStmt)
		if se, ok := unparen(as.Rhs[0]).(*ast.SliceExpr); ok && se.High != nil {
			if v, ok := w.constInt(se.High); ok && v == 0 {
				continue
			}
		}
		r.Check(mentionsKey(as.Rhs[0]), ak, "skip armed with the current entry's key", as, "skipKey is set from "+short(w, as.Rhs[0]))
	}
	// (c) the entry that reaches the retention decision is dropped only if deleted or expired
	isExp := w.Func("badger.isDeletedOrExpired")
	atom := func(e ast.Expr) string {
		if w.isCallTo(w.Origin(ak, e), isExp) {
			return "E"
		}
		return ""
	}
	ak.walk(func(x ast.Node) bool {
		b, ok := x.(*ast.BranchStmt)
		if !ok || b.Tok != token.CONTINUE {
			return true
		}
		gs := w.Guards(ak, b)
		for _, g := range gs {
			if g.Implicit || !g.Val {
				continue
			}
			if call, ok := g.Cond.(*ast.CallExpr); ok {
				if w.Callee(call) == w.Func("badger.hasAnyPrefixes") {
					return true
				}
				if w.Callee(call) == types.Object(sameKey) && len(call.Args) == 2 {
					if id, ok := unparen(call.Args[1]).(*ast.Ident); ok && w.Use(id) == types.Object(skip) {
						return true
					}
				}
			}
		}
		var expl []Guard
		for _, g := range gs {
			if _, isFor := g.At.(*ast.ForStmt); isFor {
				continue
			}
			expl = append(expl, g)
		}
		ok = w.guardsImply(expl, atom, func(env map[string]bool) bool { return env["E"] })
		r.Check(ok, ak, "retention drop only of a deleted or expired entry", b, "the guards of this drop do not entail isDeletedOrExpired: a live version that should be kept (the last valid one) can be dropped")
		return true
	})
}

func propC13(c *Check) {
	ruleR13_1(c)
	ruleR13_2(c)
	ruleR13_3(c)
	ruleR13_4(c)
	// what the watermark and the merge exemption rest on (round-2 seeds broke retention through them):
	ruleR01_4(c) // the read mark is released once per reader
	ruleR25_1(c) // stream producers share the snapshot's read mark and do not release it
	ruleR15_4(c) // a GC rewrite keeps the entry's meta bits (merge bit included)
}

// ---- C14 ----

func ruleR14_1(c *Check) {
	w := c.W
	r := c.Rule("R14.1", "E1", 8, "every `return true` of the compaction pickers is the result of, or dominated by, cstatus.compareAndAdd (fillTablesL0ToL0 registers its infinite range and table ids under cstatus.Lock); doCompact unregisters (cstatus.delete) on every exit after a successful pick",
		"two compactions over overlapping key ranges produce overlapping tables in one level or delete each other's inputs")
	caa := w.Func("badger.compactStatus.compareAndAdd")
	var k keyer
	for _, name := range []string{"badger.levelsController.fillTablesL0ToLbase", "badger.levelsController.fillTables", "badger.levelsController.fillMaxLevelTables"} {
		f := w.F(name)
		f.walk(func(n ast.Node) bool {
			rs, ok := n.(*ast.ReturnStmt)
			if !ok || len(rs.Results) != 1 {
				return true
			}
			x := unparen(rs.Results[0])
			if tv, ok := w.Info.Types[x]; ok && tv.Value != nil {
				if tv.Value.String() == "false" {
					return true
				}
				// return true: must be under a successful compareAndAdd
				okv := false
				for _, g := range w.Guards(f, rs) {
					if call, ok := g.Cond.(*ast.CallExpr); ok && w.Callee(call) == caa && g.Val {
						okv = true // `if !compareAndAdd {continue}` precedes, i.e. compareAndAdd returned true
					}
				}
				r.Check(okv, f, k.key("return true after compareAndAdd succeeded", w, rs), rs, "picker reports success without registering the compaction")
				return true
			}
			if call, ok := x.(*ast.CallExpr); ok {
				if w.Callee(call) == caa {
					r.Check(true, f, k.key("returns compareAndAdd's verdict", w, rs), rs, "")
					return true
				}
				if t := w.calleeFn(f, call); t != nil && (t.Name == "badger.levelsController.fillMaxLevelTables") {
					r.Check(true, f, k.key("delegates to a picker", w, rs), rs, "")
					return true
				}
			}
			r.Check(false, f, k.key("picker result", w, rs), rs, "picker returns "+short(w, x)+", which is neither false nor compareAndAdd's verdict")
			return true
		})
	}
	// fillTablesL0ToL0 registers by hand under cstatus.Lock
	z := w.F("badger.levelsController.fillTablesL0ToL0")
	cmu := w.Field("badger.compactStatus.RWMutex")
	ranges := w.Field("badger.levelCompactStatus.ranges")
	tbls := w.Field("badger.compactStatus.tables")
	z.walk(func(n ast.Node) bool {
		rs, ok := n.(*ast.ReturnStmt)
		if !ok || len(rs.Results) != 1 {
			return true
		}
		if tv, ok := w.Info.Types[unparen(rs.Results[0])]; ok && tv.Value != nil && tv.Value.String() == "true" {
			e := Occ{V: z.G().VertexOf(rs), Node: rs}
			r.Order(z.Dominated(e, z.Occs(selStore(ranges), 0)), z, "L0->L0 registers its range before success", rs, "no store to the level's compaction ranges before `return true`")
			// the table-id store is in a range loop: require that the loop statement itself dominates
			var loops []ast.Node
			for _, s := range z.Sites(selStore(tbls)) {
				for p := w.parentOf(s); p != nil; p = w.parentOf(p) {
					if rg, ok := p.(*ast.RangeStmt); ok {
						loops = append(loops, rg.X)
						break
					}
				}
			}
			r.Order(z.Dominated(e, occsOf(z, loops)), z, "L0->L0 registers its tables before success", rs, "no registration of the picked table ids before `return true`")
		}
		return true
	})
	for _, s := range z.Sites(selOr(selStore(ranges), selStore(tbls))) {
		r.Check(z.HeldAt(s)[cmu] == 2, z, k.key("registration under cstatus lock", w, s), s, "compaction status modified without its lock")
	}
	// doCompact: delete on every exit after a successful fill
	d := w.F("badger.levelsController.doCompact")
	del := selCallName(w, "badger.compactStatus.delete")
	run := selCallName(w, "badger.levelsController.runCompactDef")
	r.FollowAll(d, "compaction unregistered after it ran", run, 0, del, 0, exitAll)
	r.DomAll(d, "runCompactDef after a successful pick", run, 0, selOr(selCallName(w, "badger.levelsController.fillTables"), selCallName(w, "badger.levelsController.fillTablesL0")), 0)
}

func ruleR14_2(c *Check) {
	w := c.W
	r := c.Rule("R14.2", "E6", 4, "subcompact.addKeys: every `break` that ends an output table is control-dependent on the current key differing from the previous one (!SameKey(it.Key(), lastKey)); sortedWriter.Add starts a new table only at a different key",
		"a table boundary between two versions of one key makes the versions of that key live in two tables of a level >= 1: point lookups (one table per level) then miss the newer or the older version")
	ak := w.F("badger.levelsController.subcompact").LitVar("addKeys")
	same := w.Func("y.SameKey")
	var k keyer
	n := 0
	ak.walk(func(x ast.Node) bool {
		b, ok := x.(*ast.BranchStmt)
		if !ok || b.Tok != token.BREAK {
			return true
		}
		n++
		okv := false
		for _, g := range w.Guards(ak, b) {
			if call, ok := g.Cond.(*ast.CallExpr); ok && w.Callee(call) == same && !g.Val && !g.Implicit {
				okv = true
			}
		}
		r.Check(okv, ak, k.key("table ended only at a key change", w, b), b, "`break` out of the table-building loop is not under !SameKey(current, last)")
		return true
	})
	r.Exists(n >= 3, ak, "break sites", nil, "expected the range-end, capacity and overlap breaks")
	// the capacity test exists at all (a table that never ends is not this rule's concern) and lastKey is updated under the same guard
	sa := w.F("badger.sortedWriter.Add")
	rc := w.Func("table.Builder.ReachedCapacity")
	for _, s := range sa.Sites(selCall(rc)) {
		// `if sameKey … ` / `!sameKey && ReachedCapacity()`
		is, ok := w.enclosingStmt(s).(*ast.IfStmt)
		okv := false
		if ok {
			for _, p := range flatten(is.Cond, token.LAND) {
				if u, ok := unparen(p).(*ast.UnaryExpr); ok && u.Op == token.NOT {
					if id, ok := unparen(u.X).(*ast.Ident); ok {
						if v, ok := w.Use(id).(*types.Var); ok {
							for _, d := range w.DefsOf(sa, v) {
								if w.isCallTo(d, same) {
									okv = true
								}
							}
						}
					}
					if call, ok := unparen(u.X).(*ast.CallExpr); ok && w.Callee(call) == same {
						okv = true
					}
				}
			}
		}
		r.Check(okv, sa, "stream writer splits tables only at a key change", s, "ReachedCapacity is not conjoined with !sameKey")
	}
	// every place that ends a stream-writer table while the stream goes on (send(false)) does so
	// under "the key being added differs from the last one"; send(true) belongs to Done
	snd := w.F("badger.sortedWriter.send")
	for _, cs := range w.CG().In[snd] {
		call, ok := cs.Node.(*ast.CallExpr)
		if !ok || len(call.Args) != 1 {
			continue
		}
		tv := w.Info.Types[call.Args[0]]
		if tv.Value != nil && tv.Value.String() == "true" {
			r.Check(cs.Caller.Root().Name == "badger.sortedWriter.Done", cs.Caller, k.key("final table handed over by Done", w, call), call, "send(true) outside sortedWriter.Done")
			continue
		}
		okv := false
		for _, g := range w.Guards(cs.Caller, call) {
			c2 := w.Origin(cs.Caller, g.Cond)
			if w.isCallTo(c2, same) && !g.Val {
				okv = true
			}
		}
		r.Check(okv, cs.Caller, k.key("a stream-writer table ends only when the next key differs", w, call), call, "send(false) is reached without !SameKey(key, lastKey): the versions of one key can be split over two tables of the level")
	}
}

func ruleR14_3(c *Check) {
	w := c.W
	r := c.Rule("R14.3", "E4", 3, "split boundaries and key ranges cover all versions of the boundary key: addSplits uses KeyWithTs(ParseKey(biggest), 0) as the right end; getKeyRange uses version MaxUint64 on the left and 0 on the right",
		"version 0 sorts last and MaxUint64 first for a user key: any other choice splits the versions of the boundary key between two sub-compactions or leaves some outside the registered range")
	kwt := w.Func("y.KeyWithTs")
	pk := w.Func("y.ParseKey")
	as := w.F("badger.levelsController.addSplits")
	n := 0
	for _, s := range as.Sites(selCall(kwt)) {
		n++
		call := s.(*ast.CallExpr)
		v, ok := w.constInt(call.Args[1])
		r.Check(ok && v == 0 && w.isCallTo(call.Args[0], pk), as, "split right boundary at version 0 of the user key", s, "boundary is "+short(w, s))
	}
	r.Exists(n >= 1, as, "split boundary site", nil, "addSplits no longer builds its boundary with KeyWithTs")
	g := w.F("badger.getKeyRange")
	var lit *ast.CompositeLit
	g.walk(func(x ast.Node) bool {
		if cl, ok := x.(*ast.CompositeLit); ok && isNamedType(w.TypeOf(cl), "keyRange") && len(cl.Elts) > 0 {
			lit = cl
		}
		return true
	})
	if lit == nil {
		r.Check(false, g, "keyRange literal", nil, "getKeyRange builds no keyRange")
		return
	}
	for _, el := range lit.Elts {
		kv := el.(*ast.KeyValueExpr)
		call, ok := unparen(kv.Value).(*ast.CallExpr)
		if !ok || w.Callee(call) != kwt {
			r.Check(false, g, "range bound "+kv.Key.(*ast.Ident).Name, kv, "bound is not built with KeyWithTs")
			continue
		}
		tv := w.Info.Types[call.Args[1]]
		val := ""
		if tv.Value != nil {
			val = tv.Value.String()
		}
		switch kv.Key.(*ast.Ident).Name {
		case "left":
			r.Check(val == "18446744073709551615" && w.isCallTo(call.Args[0], pk), g, "left bound is the newest possible version", kv, "left bound version is "+val)
		case "right":
			r.Check(val == "0" && w.isCallTo(call.Args[0], pk), g, "right bound is the oldest possible version", kv, "right bound version is "+val)
		}
	}
}

func ruleR14_4(c *Check) {
	w := c.W
	r := c.Rule("R14.4", "E1", 4, "replaceTables and sortTables sort levelHandler.tables by CompareKeys(Smallest, Smallest) after modifying it; initTables sorts L0 by file id and other levels by smallest key",
		"levels >= 1 are binary-searched by key range; an unsorted level returns 'not found' for present keys")
	tables := w.Field("badger.levelHandler.tables")
	sortSel := selPred("sort.Slice(tables)", func(w *World, f *Fn, n ast.Node) bool {
		call, ok := n.(*ast.CallExpr)
		if !ok || len(call.Args) < 2 {
			return false
		}
		fn, ok := w.Callee(call).(*types.Func)
		return ok && fn.Pkg() != nil && fn.Pkg().Path() == "sort" && w.fieldOf(call.Args[0]) == tables
	})
	cmpBySmallest := func(f *Fn, call ast.Node) bool {
		lit, ok := call.(*ast.CallExpr).Args[1].(*ast.FuncLit)
		if !ok {
			return false
		}
		good := false
		ast.Inspect(lit.Body, func(n ast.Node) bool {
			if c2, ok := n.(*ast.CallExpr); ok && w.Callee(c2) == w.Func("y.CompareKeys") && len(c2.Args) == 2 {
				if w.isCallTo(c2.Args[0], w.Func("table.Table.Smallest")) && w.isCallTo(c2.Args[1], w.Func("table.Table.Smallest")) {
					if b, ok := w.parentOf(c2).(*ast.BinaryExpr); ok && b.Op == token.LSS {
						good = true
					}
				}
			}
			return true
		})
		return good
	}
	for _, name := range []string{"badger.levelHandler.replaceTables", "badger.levelHandler.sortTables"} {
		f := w.F(name)
		ss := f.Sites(sortSel)
		r.Exists(len(ss) >= 1, f, "sorts its tables", nil, "no sort.Slice over levelHandler.tables")
		for _, s := range ss {
			r.Check(cmpBySmallest(f, s), f, "sorted by smallest key", s, "comparison is not CompareKeys(Smallest, Smallest) < 0")
		}
		// no store to tables after the sort
		r.NeverAfterAll(f, "tables not modified after sorting", sortSel, 0, selStore(tables), 0)
		if name == "badger.levelHandler.replaceTables" {
			r.ExitsNeed(f, "sort", sortSel, 0, exitAll)
		}
	}
	it := w.F("badger.levelHandler.initTables")
	ss := it.Sites(sortSel)
	r.Exists(len(ss) == 2, it, "initTables sorts both kinds of level", nil, "expected an L0 sort by id and a sort by smallest key")
	for _, s := range ss {
		l0 := false
		for _, g := range w.Guards(it, s) {
			notConst := func(e ast.Expr) bool { _, isC := w.constInt(e); return !isC }
			if eqOf(g, true, notConst, w.isConst(0)) {
				l0 = true
			} else if eqOf(g, false, notConst, w.isConst(0)) {
				l0 = false
			}
		}
		if l0 {
			byID := false
			ast.Inspect(s.(*ast.CallExpr).Args[1], func(n ast.Node) bool {
				if b, ok := n.(*ast.BinaryExpr); ok && b.Op == token.LSS && w.isCallTo(b.X, w.Func("table.Table.ID")) && w.isCallTo(b.Y, w.Func("table.Table.ID")) {
					byID = true
				}
				return true
			})
			r.Check(byID, it, "L0 sorted by file id (age)", s, "L0 is not sorted by ascending table id")
		} else {
			r.Check(cmpBySmallest(it, s), it, "levels >= 1 sorted by smallest key", s, "comparison is not CompareKeys(Smallest, Smallest) < 0")
		}
	}
}

func ruleR14_5(c *Check) {
	w := c.W
	r := c.Rule("R14.5", "E1", 2, "newLevelsController and StreamWriter.Flush call levelsController.validate on their success paths",
		"an LSM tree with overlapping tables in a level must be refused at open rather than served")
	val := selCallName(w, "badger.levelsController.validate")
	f := w.F("badger.newLevelsController")
	inMem := w.Field("badger.Options.InMemory")
	r.ExitsNeed(f, "validate", val, 0, exitSuccess, excuseField(w, inMem, true))
	g := w.F("badger.StreamWriter.Flush")
	r.ExitsNeed(g, "validate", val, 0, exitSuccess)
}

func ruleR14_6(c *Check) {
	w := c.W
	r := c.Rule("R14.6", "E5", 3, "levelHandler.validate rejects a level (>= 1) in which some table's biggest key is >= the next table's smallest key, or a table whose smallest key exceeds its biggest; levelsController.validate checks every level",
		"this is the check Open and StreamWriter.Flush rely on to refuse an overlapping or unsorted level")
	f := w.F("badger.levelHandler.validate")
	ck := w.Func("y.CompareKeys")
	inter, intra := false, false
	var interB, interS int64
	tablesFld := w.Field("badger.levelHandler.tables")
	stepped := map[types.Object]bool{}
	f.walk(func(n ast.Node) bool {
		if s, ok := n.(*ast.IncDecStmt); ok {
			if id, ok := s.X.(*ast.Ident); ok {
				stepped[w.Use(id)] = true
			}
		}
		return true
	})
	loopVar := func(e ast.Expr) bool {
		id, ok := e.(*ast.Ident)
		return ok && stepped[w.Use(id)]
	}
	f.walk(func(n ast.Node) bool {
		is, ok := n.(*ast.IfStmt)
		if !ok || !w.terminates(is.Body.List) {
			return true
		}
		// oriented as CompareKeys(<x>.Biggest(), <y>.Smallest()) op 0
		isBig := func(e ast.Expr) bool { return isCallNamed(w, w.from(e), "Biggest") }
		isSmall := func(e ast.Expr) bool { return isCallNamed(w, w.from(e), "Smallest") }
		op, call, ok := w.threeWay(is.Cond, true, isBig, ck)
		if !ok {
			return true
		}
		var big, small ast.Expr
		for _, a := range call.Args {
			if isBig(a) {
				big = recvOf(w.from(a).(*ast.CallExpr))
			} else if isSmall(a) {
				small = recvOf(w.from(a).(*ast.CallExpr))
			}
		}
		if big == nil || small == nil {
			return true
		}
		big, small = w.from(big), w.from(small)
		bi, okB := unparen(big).(*ast.IndexExpr)
		si, okS := unparen(small).(*ast.IndexExpr)
		if !okB || !okS || w.fieldOf(bi.X) != tablesFld || w.fieldOf(si.X) != tablesFld {
			return true
		}
		aB, bB, ok1 := w.linear(f, bi.Index, loopVar, 0)
		aS, bS, ok2 := w.linear(f, si.Index, loopVar, 0)
		if !ok1 || !ok2 || aB != 1 || aS != 1 {
			return true
		}
		switch bS - bB {
		case 1:
			r.Check(op == token.GEQ, f, "neighbouring tables must not touch or overlap (Biggest(j-1) >= Smallest(j) is an error)", is.Cond, "inter-table test is 'Biggest(j-1) "+op.String()+" Smallest(j)'")
			inter, interB, interS = true, bB, bS
		case 0:
			r.Check(op == token.LSS, f, "a table's smallest key must not exceed its biggest (Biggest(j) < Smallest(j) is an error)", is.Cond, "intra-table test is 'Biggest(j) "+op.String()+" Smallest(j)'")
			intra = true
		}
		return true
	})
	// the scan covers every neighbouring pair: the loop starts at the first pair and runs to the end of tables
	f.walk(func(n ast.Node) bool {
		fs, ok := n.(*ast.ForStmt)
		if !ok || fs.Cond == nil {
			return true
		}
		be, ok := unparen(fs.Cond).(*ast.BinaryExpr)
		if !ok {
			return true
		}
		isLen := func(e ast.Expr) bool {
			c, ok := unparen(e).(*ast.CallExpr)
			return ok && len(c.Args) == 1 && isBuiltin(w, c, "len") && w.fieldOf(c.Args[0]) == tablesFld
		}
		bound, op := be.Y, be.Op
		if !loopVar(unparen(be.X)) {
			bound, op = be.X, swapOp(be.Op)
		}
		a, k, okl := w.linear(f, bound, isLen, 0)
		if op == token.LEQ {
			k++
		}
		// last index looked at is (bound-1)+interS; it must reach len-1
		r.Check(okl && a == 1 && (op == token.LSS || op == token.LEQ) && k+interS >= 0, f, "the validation loop runs to the end of the level's tables", fs.Cond, "the loop stops before the last pair of tables")
		if as, ok := fs.Init.(*ast.AssignStmt); ok && len(as.Rhs) == 1 {
			v, isC := w.constInt(as.Rhs[0])
			r.Check(isC && v+interB <= 0, f, "the validation loop starts at the first table", fs.Init, "loop starts past the first pair of tables")
		}
		return true
	})
	// only level 0 is exempt: every `return nil` other than the function's last statement is taken under level == 0
	levelFld := w.Field("badger.levelHandler.level")
	last := f.Body.List[len(f.Body.List)-1]
	f.walk(func(n ast.Node) bool {
		rs, ok := n.(*ast.ReturnStmt)
		if !ok || ast.Node(rs) == ast.Node(last) || len(rs.Results) != 1 || !isNil(rs.Results[0]) {
			return true
		}
		op, g := w.guardRel(w.Guards(f, rs), w.isField(levelFld), w.isConst(0), true)
		r.Check(g != nil && (op == token.EQL || op == token.LEQ), f, "only level 0 is exempt from validation", rs, "validate returns success early for levels other than 0")
		return true
	})
	r.Check(inter, f, "inter-table order test present", nil, "validate no longer compares Biggest(j-1) with Smallest(j)")
	r.Check(intra, f, "intra-table order test present", nil, "validate no longer compares a table's Smallest with its Biggest")
	lc := w.F("badger.levelsController.validate")
	okAll := false
	lc.walk(func(n ast.Node) bool {
		if rs, ok := n.(*ast.RangeStmt); ok && w.fieldOf(rs.X) == w.Field("badger.levelsController.levels") && containsSel(w, lc, rs.Body, selCallName(w, "badger.levelHandler.validate")) {
			okAll = true
		}
		return true
	})
	r.Check(okAll, lc, "every level is validated", nil, "levelsController.validate does not call validate for each level")
	for _, s := range lc.Sites(selCallName(w, "badger.levelHandler.validate")) {
		r.Check(w.errIsFatal(lc, s.(*ast.CallExpr)), lc, "a failing level fails validation", s, "the error of levelHandler.validate can be ignored")
	}
}

func propC14(c *Check) {
	ruleR14_7(c)
	ruleR14_6(c)
	ruleR12_6(c)
	ruleR14_1(c)
	ruleR14_2(c)
	ruleR14_3(c)
	ruleR14_4(c)
	ruleR14_5(c)
	ruleR08_8(c)
	ruleR12_5(c)
}
