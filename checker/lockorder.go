package main

// E8 "lockorder": the acquired-while-held graph over lock objects (struct field
// granularity), built interprocedurally from the E2 lock sets, plus blocking
// operations executed while a given lock is held.

import (
	"go/ast"
	"go/token"
	"go/types"
	"sort"
)

type lockEdge struct {
	From, To types.Object
	Fn       *Fn
	At       ast.Node
	Via      string // "" direct, else callee chain
	ReadOnly bool   // both acquisitions are read locks
}

type lockGraph struct {
	w        *World
	acq      map[*Fn]map[types.Object]*acqInfo
	visiting map[*Fn]bool
	Edges    []*lockEdge
}

type acqInfo struct {
	read bool   // only ever read-acquired on this path
	via  string // where
}

// acquires: locks acquired by running f synchronously (its own operations and its callees').
func (lg *lockGraph) acquires(f *Fn, depth int) map[types.Object]*acqInfo {
	if m, ok := lg.acq[f]; ok {
		return m
	}
	if lg.visiting[f] || depth > 8 {
		return nil
	}
	lg.visiting[f] = true
	defer delete(lg.visiting, f)
	w := lg.w
	m := map[types.Object]*acqInfo{}
	f.walk(func(n ast.Node) bool {
		c, ok := n.(*ast.CallExpr)
		if !ok {
			return true
		}
		if op := w.lockOpOf(c); op != nil && op.Acquire {
			if cur, ok := m[op.Lock]; ok {
				cur.read = cur.read && op.Read
			} else {
				m[op.Lock] = &acqInfo{read: op.Read, via: f.Name}
			}
		}
		return true
	})
	for _, cs := range w.CG().Out[f] {
		if cs.Async || cs.Kind == "ref" {
			continue
		}
		if cs.Kind == "created" {
			// a literal handed to someone else: treat as run synchronously unless hosted by a go statement
			if _, isGo := cs.Callee.Host.(*ast.GoStmt); isGo {
				continue
			}
		}
		for l, info := range lg.acquires(cs.Callee, depth+1) {
			if cur, ok := m[l]; ok {
				cur.read = cur.read && info.read
			} else {
				m[l] = &acqInfo{read: info.read, via: cs.Callee.Name + " <- " + info.via}
			}
		}
	}
	lg.acq[f] = m
	return m
}

func (w *World) buildLockGraph() *lockGraph {
	lg := &lockGraph{w: w, acq: map[*Fn]map[types.Object]*acqInfo{}, visiting: map[*Fn]bool{}}
	for _, f := range w.Fns {
		if isCmdPkg(f) || f.Pkg.PkgPath == "github.com/dgraph-io/ristretto/v2/z" {
			continue
		}
		f := f
		lf := f.lockFlow()
		// direct: acquire while holding
		for v, ops := range lf.ops {
			_ = v
			for _, op := range ops {
				if !op.Acquire {
					continue
				}
				held := f.HeldAt(op.Call)
				for h, mode := range held {
					lg.Edges = append(lg.Edges, &lockEdge{From: h, To: op.Lock, Fn: f, At: op.Call, ReadOnly: op.Read && mode == 1})
				}
			}
		}
		// through calls
		for _, cs := range w.CG().Out[f] {
			if cs.Async || cs.Kind == "ref" || cs.Kind == "created" {
				continue
			}
			held := f.HeldAt(cs.Node)
			if len(held) == 0 {
				continue
			}
			for l, info := range lg.acquires(cs.Callee, 0) {
				for h, mode := range held {
					lg.Edges = append(lg.Edges, &lockEdge{From: h, To: l, Fn: f, At: cs.Node, Via: info.via, ReadOnly: info.read && mode == 1})
				}
			}
		}
	}
	sort.SliceStable(lg.Edges, func(i, j int) bool {
		a, b := lg.Edges[i], lg.Edges[j]
		if a.Fn.Name != b.Fn.Name {
			return a.Fn.Name < b.Fn.Name
		}
		return a.At.Pos() < b.At.Pos()
	})
	return lg
}

// cycles returns the strongly connected components with more than one lock.
func (lg *lockGraph) cycles() [][]types.Object {
	adj := map[types.Object][]types.Object{}
	nodes := map[types.Object]bool{}
	for _, e := range lg.Edges {
		if e.From == e.To {
			continue
		}
		adj[e.From] = append(adj[e.From], e.To)
		nodes[e.From], nodes[e.To] = true, true
	}
	index := 0
	idx := map[types.Object]int{}
	low := map[types.Object]int{}
	on := map[types.Object]bool{}
	var stack []types.Object
	var out [][]types.Object
	var strong func(v types.Object)
	strong = func(v types.Object) {
		index++
		idx[v], low[v] = index, index
		stack = append(stack, v)
		on[v] = true
		for _, t := range adj[v] {
			if idx[t] == 0 {
				strong(t)
				if low[t] < low[v] {
					low[v] = low[t]
				}
			} else if on[t] && idx[t] < low[v] {
				low[v] = idx[t]
			}
		}
		if low[v] == idx[v] {
			var comp []types.Object
			for {
				x := stack[len(stack)-1]
				stack = stack[:len(stack)-1]
				on[x] = false
				comp = append(comp, x)
				if x == v {
					break
				}
			}
			if len(comp) > 1 {
				out = append(out, comp)
			}
		}
	}
	var ns []types.Object
	for n := range nodes {
		ns = append(ns, n)
	}
	sort.Slice(ns, func(i, j int) bool { return lg.w.lockName(ns[i]) < lg.w.lockName(ns[j]) })
	for _, n := range ns {
		if idx[n] == 0 {
			strong(n)
		}
	}
	return out
}

// blockingOp classifies a node as an operation that can block indefinitely:
// channel send/receive outside a select with default, WaitGroup.Wait, Closer waits, time.Sleep.
func (w *World) blockingOp(f *Fn, n ast.Node) (string, bool) {
	inSelectWithDefault := func(x ast.Node) bool {
		for p := w.parentOf(x); p != nil; p = w.parentOf(p) {
			if cc, ok := p.(*ast.CommClause); ok {
				if sel, ok := w.parentOf(w.parentOf(cc)).(*ast.SelectStmt); ok {
					for _, c := range sel.Body.List {
						if c.(*ast.CommClause).Comm == nil {
							return true
						}
					}
				}
				return false
			}
			if _, ok := p.(ast.Stmt); ok {
				if _, isBlock := p.(*ast.BlockStmt); isBlock {
					return false
				}
			}
		}
		return false
	}
	switch x := n.(type) {
	case *ast.SendStmt:
		if !inSelectWithDefault(x) {
			return "channel send " + short(w, x), true
		}
	case *ast.UnaryExpr:
		if x.Op == token.ARROW && !inSelectWithDefault(x) {
			return "channel receive " + short(w, x), true
		}
	case *ast.CallExpr:
		if fn, ok := w.Callee(x).(*types.Func); ok && fn.Pkg() != nil {
			full := fn.Pkg().Path() + "." + fn.Name()
			if sig := fn.Type().(*types.Signature); sig.Recv() != nil {
				full = fn.Pkg().Path() + "." + recvName(sig.Recv().Type()) + "." + fn.Name()
			}
			switch full {
			case "sync.WaitGroup.Wait", "time.Sleep",
				"github.com/dgraph-io/ristretto/v2/z.Closer.SignalAndWait", "github.com/dgraph-io/ristretto/v2/z.Closer.Wait":
				return full, true
			}
		}
	}
	return "", false
}
