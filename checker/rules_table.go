package main

// C18 (SSTables): agreement between table.Builder and the table reader, and the comparison
// polarity of the seek paths.

import (
	"go/ast"
	"go/token"
	"go/types"
	"sort"
	"strings"
)

func init() {
	register("C18", "Decides the structural clauses that make an SSTable readable as written: (R18.1) the block trailer Table.block parses from the end (checksum length, checksum, entry count, entry offsets) coincides field by field with what Builder.finishBlock appended, and the bytes the reader verifies against the checksum are the bytes the writer summed; (R18.2) likewise the table footer of buildData.Copy against Table.initIndex, and buildData.Size equals what Copy writes; (R18.3) an entry is header, key suffix, value in that order on both sides, the header's overlap/diff are the lengths the reader uses to rebuild the key from the block's base key, and the entry's offset is recorded before its bytes are appended; (R18.4) compress-then-encrypt on write is undone as decrypt-then-decompress on read, block checksums are taken over plain data and verified after both, the index checksum over the stored (encrypted) index and verified before decryption; (R18.5) max version, key count, smallest and biggest key come from every added entry / the first block's base key / a reverse rewind; (R18.6) seek comparisons: first entry >= key inside a block, last block whose base key <= key across blocks with the step to the next block at end of block, seek-for-prev steps back unless equal, forward/reverse dispatch on the REVERSED bit, and ConcatIterator picks the table by Biggest >= key (Smallest <= key in reverse). Does NOT decide round-trip equality for arbitrary entry sequences, the compression codecs, flatbuffer encoding, or block-boundary arithmetic for all sizes.", propC18)
}

func sortedByPos(ns []ast.Node) []ast.Node {
	out := append([]ast.Node(nil), ns...)
	sort.Slice(out, func(i, j int) bool { return out[i].Pos() < out[j].Pos() })
	return out
}

func reportLayout(r *RuleInfo, f *Fn, lr *layoutReader, what string) {
	var k keyer
	for _, p := range lr.problems {
		r.Check(false, f, k.key(what+": read coincides with a written field", f.W, p.node), p.node, p.msg)
	}
	for i := range lr.fields {
		fl := lr.fields[i]
		r.Check(fl.reads > 0, f, what+": field "+fl.String()+" is read back", nil, "the reader never reads the field "+fl.String()+" that the writer appends")
	}
}

func layoutString(fs []lfield) string {
	var s []string
	for _, f := range fs {
		s = append(s, f.String())
	}
	return strings.Join(s, " ")
}

func ruleR18_1(c *Check) {
	w := c.W
	r := c.Rule("R18.1", "E4", 8, "block trailer: the fields Builder.finishBlock appends after the entries (entry offsets, their count, checksum, checksum length) are exactly the regions Table.block slices from the end of the block, a length decoded from a u32 field being used only as the length the writer stored there; the prefix Table.block keeps as Block.data ends where the writer's checksum input ended, and Block.verifyCheckSum verifies Block.data against Block.checksum",
		"a reader that cuts the trailer differently from the writer reads entry offsets or checksums from the wrong bytes: entries are lost or blocks are rejected")
	fb := w.F("table.Builder.finishBlock")
	appendFn := w.Func("table.Builder.append")
	chkFn := w.Func("table.Builder.calculateChecksum")
	sites := sortedByPos(fb.Sites(selCall(appendFn)))
	var args []ast.Expr
	for _, s := range sites {
		args = append(args, s.(*ast.CallExpr).Args[0])
	}
	fields, problem := w.classifyAppended(fb, args)
	r.Check(problem == "" && len(fields) >= 4, fb, "trailer fields recognised", nil, "cannot derive the trailer layout from finishBlock: "+problem)
	if problem != "" || len(fields) == 0 {
		return
	}
	// the checksum call: how many trailer fields precede it (they are part of the summed bytes)
	chk := fb.Sites(selCall(chkFn))
	r.Check(len(chk) == 1, fb, "one checksum computation per block", nil, "expected one calculateChecksum call")
	covered := 0
	if len(chk) == 1 {
		for i, s := range sites {
			if s.Pos() < chk[0].Pos() {
				covered = i + 1
				r.DomAll(fb, "summed field appended before the checksum is computed", selNode(chk[0]), 0, selNode(s), 0)
			} else {
				r.DomAll(fb, "later field appended after the checksum is computed", selNode(s), 0, selNode(chk[0]), 0)
			}
		}
		// its input is data[:end]: everything appended so far
		arg := unparen(chk[0].(*ast.CallExpr).Args[0])
		se, isSlice := arg.(*ast.SliceExpr)
		okArg := isSlice && se.Low == nil && se.High != nil && w.fieldOf(se.X) == w.Field("table.bblock.data") && w.fieldOf(se.High) == w.Field("table.bblock.end")
		r.Check(okArg, fb, "checksum input is everything appended so far (data[:end])", chk[0], "calculateChecksum is not applied to data[:end]")
	}
	// reader
	bf := w.F("table.Table.block")
	dataFld := w.Field("table.Block.data")
	lr := &layoutReader{w: w, f: bf, fields: fields,
		isLen: func(e ast.Expr) bool {
			c, ok := e.(*ast.CallExpr)
			return ok && len(c.Args) == 1 && isBuiltin(w, c, "len") && w.fieldOf(c.Args[0]) == dataFld
		},
		region: func(n ast.Node) (bool, ast.Expr, ast.Expr, ast.Expr, ast.Expr) {
			se, ok := n.(*ast.SliceExpr)
			if !ok || w.fieldOf(se.X) != dataFld {
				return false, nil, nil, nil, nil
			}
			if _, isSel := unparen(se.X).(*ast.SelectorExpr); !isSel {
				return false, nil, nil, nil, nil
			}
			return true, se.Low, se.High, nil, nil
		}}
	lr.run()
	reportLayout(r, bf, lr, "block trailer ("+layoutString(fields)+")")
	// the entry area handed to iterators ends where the trailer begins
	eis, okE := lr.env[w.Field("table.Block.entriesIndexStart")]
	r.Check(okE && eis.eq(fields[0].lo), bf, "Block.entriesIndexStart is where the entry-offset table begins", nil, "entriesIndexStart is not the start of the first trailer field")
	// the prefix kept as Block.data = the writer's checksum input
	if covered <= len(fields) && len(chk) == 1 {
		want := fields[0].lo
		if covered > 0 {
			want = fields[covered-1].hi
		}
		ok := lr.prefixEnd != nil && lr.prefixEnd.eq(want)
		got := "none"
		if lr.prefixEnd != nil {
			got = lr.prefixEnd.String()
		}
		r.Check(ok, bf, "bytes kept for verification end where the summed bytes ended", lr.prefixAt, "Block.data is cut at "+got+", the writer's checksum covers [0, "+want.String()+")")
	}
	// Block.checksum is bound to the checksum field
	chkIdx, hasChk := lr.bufs[w.Field("table.Block.checksum")]
	okChk := hasChk && chkIdx >= 0 && fields[chkIdx].kind == "bytes" && covered <= chkIdx
	r.Check(okChk, bf, "Block.checksum is the checksum field", nil, "Block.checksum is not sliced from the field the writer stored the checksum in")
	// verifyCheckSum: VerifyChecksum(b.data, cs) with cs unmarshalled from b.checksum
	vf := w.F("table.Block.verifyCheckSum")
	okV := false
	vf.walk(func(n ast.Node) bool {
		call, ok := n.(*ast.CallExpr)
		if !ok || len(call.Args) != 2 {
			return true
		}
		if fn, _ := w.Callee(call).(*types.Func); fn != nil && fn.Name() == "VerifyChecksum" {
			okV = w.fieldOf(call.Args[0]) == dataFld
		}
		return true
	})
	unmOK := false
	vf.walk(func(n ast.Node) bool {
		call, ok := n.(*ast.CallExpr)
		if !ok || len(call.Args) != 2 {
			return true
		}
		if fn, _ := w.Callee(call).(*types.Func); fn != nil && fn.Name() == "Unmarshal" {
			unmOK = w.fieldOf(call.Args[0]) == w.Field("table.Block.checksum")
		}
		return true
	})
	r.Check(okV && unmOK, vf, "verifyCheckSum checks Block.data against Block.checksum", nil, "verifyCheckSum does not verify Block.data with the checksum unmarshalled from Block.checksum")
}

func ruleR18_2(c *Check) {
	w := c.W
	r := c.Rule("R18.2", "E4", 8, "table footer: what buildData.Copy writes after the blocks (index, index length, checksum, checksum length) are exactly the regions Table.initIndex reads from the end of the file; the bytes initIndex verifies are the index field, against the checksum unmarshalled from the checksum field; buildData.Size is the number of bytes Copy writes; the checksum Builder.Done stores was computed over the very index bytes it stores (after encryption)",
		"a footer parsed at other offsets than written makes every table unreadable or, worse, lets a wrong index pass")
	cp := w.F("table.buildData.Copy")
	var args []ast.Expr
	var loopArgs []ast.Expr
	for _, s := range sortedByPos(cp.Sites(selPred("copy", func(w *World, f *Fn, n ast.Node) bool {
		c, ok := n.(*ast.CallExpr)
		return ok && len(c.Args) == 2 && isBuiltin(w, c, "copy")
	}))) {
		call := s.(*ast.CallExpr)
		inLoop := false
		for p := w.parentOf(call); p != nil; p = w.parentOf(p) {
			switch p.(type) {
			case *ast.RangeStmt, *ast.ForStmt:
				inLoop = true
			}
		}
		if inLoop {
			loopArgs = append(loopArgs, call.Args[1])
			r.Check(len(args) == 0, cp, "blocks are written before the footer", call, "a block is copied after a footer field")
			continue
		}
		args = append(args, call.Args[1])
	}
	r.Check(len(loopArgs) == 1, cp, "one block-copy loop", nil, "expected one copy inside the loop over the blocks")
	fields, problem := w.classifyAppended(cp, args)
	r.Check(problem == "" && len(fields) >= 4, cp, "footer fields recognised", nil, "cannot derive the footer layout from buildData.Copy: "+problem)
	if problem != "" || len(fields) == 0 {
		return
	}
	// the blocks: copied as data[:end], in blockList order
	for _, a := range loopArgs {
		se, ok := unparen(a).(*ast.SliceExpr)
		r.Check(ok && se.Low == nil && se.High != nil && w.fieldOf(se.X) == w.Field("table.bblock.data") && w.fieldOf(se.High) == w.Field("table.bblock.end"), cp, "each block is written as data[:end]", a, "a block is not copied as data[:end] (the length recorded in the index is bblock.end)")
	}
	// every destination is dst[written:], written advancing by what copy returned
	ii := w.F("table.Table.initIndex")
	sizeFld := w.Field("table.Table.tableSize")
	readFns := map[types.Object]bool{w.Func("table.Table.read"): true, w.Func("table.Table.readNoFail"): true}
	lr := &layoutReader{w: w, f: ii, fields: fields,
		isLen: func(e ast.Expr) bool {
			_, isSel := e.(*ast.SelectorExpr)
			return isSel && w.fieldOf(e) == sizeFld
		},
		region: func(n ast.Node) (bool, ast.Expr, ast.Expr, ast.Expr, ast.Expr) {
			call, ok := n.(*ast.CallExpr)
			if !ok || len(call.Args) != 2 {
				return false, nil, nil, nil, nil
			}
			if o := w.Callee(call); o == nil || !readFns[o] {
				if fn, _ := w.Callee(call).(*types.Func); fn == nil || fn.Name() != "Bytes" || !sigIs(fn, []string{"int", "int"}, []string{"[]byte", "error"}) {
					return false, nil, nil, nil, nil
				}
			}
			return true, nil, nil, call.Args[0], call.Args[1]
		}}
	lr.run()
	reportLayout(r, ii, lr, "table footer ("+layoutString(fields)+")")
	// which field is the index, which the checksum: by what Done stores
	idxFld, chkFld := w.Field("table.buildData.index"), w.Field("table.buildData.checksum")
	fi, fc := -1, -1
	for i, f := range fields {
		if f.kind == "bytes" && f.obj == types.Object(idxFld) {
			fi = i
		}
		if f.kind == "bytes" && f.obj == types.Object(chkFld) {
			fc = i
		}
	}
	r.Check(fi >= 0 && fc >= 0, cp, "index and checksum are footer fields", nil, "buildData.index / buildData.checksum are not written by Copy")
	r.Check(len(lr.verified) == 1, ii, "the index is verified once", nil, "expected one VerifyChecksum call in initIndex")
	for _, v := range lr.verified {
		r.Check(v.dataField == fi, ii, "the verified bytes are the index field", v.node, "VerifyChecksum is not applied to the bytes read from the index field")
		r.Check(v.chkField == fc, ii, "verified against the stored checksum", v.node, "the expected checksum is not unmarshalled from the checksum field")
	}
	// indexStart/indexLen (used by readTableIndex) are the index field's position and length
	if fi >= 0 {
		st, ok1 := lr.env[w.Field("table.Table.indexStart")]
		ln, ok2 := lr.env[w.Field("table.Table.indexLen")]
		r.Check(ok1 && st.eq(fields[fi].lo), ii, "Table.indexStart is where the index field starts", nil, "indexStart does not equal the start of the index field")
		r.Check(ok2 && ln.eq(fields[fi].size), ii, "Table.indexLen is the index field's length", nil, "indexLen does not equal the stored index length")
		rt := w.F("table.Table.readTableIndex")
		okRT := false
		rt.walk(func(n ast.Node) bool {
			if call, ok := n.(*ast.CallExpr); ok && len(call.Args) == 2 && readFns[w.Callee(call)] {
				okRT = w.fieldOf(call.Args[0]) == w.Field("table.Table.indexStart") && w.fieldOf(call.Args[1]) == w.Field("table.Table.indexLen")
			}
			return true
		})
		r.Check(okRT, rt, "readTableIndex reads [indexStart, indexStart+indexLen)", nil, "readTableIndex does not read the index region recorded by initIndex")
	}
	// Done: Size = dataSize + footer; checksum over the stored index
	dn := w.F("table.Builder.Done")
	var sizeExpr ast.Expr
	var idxVar, chkVar types.Object
	dn.walk(func(n ast.Node) bool {
		as, ok := n.(*ast.AssignStmt)
		if !ok || len(as.Lhs) != len(as.Rhs) {
			return true
		}
		for i, l := range as.Lhs {
			if _, isSel := unparen(l).(*ast.SelectorExpr); !isSel {
				continue
			}
			switch w.fieldOf(l) {
			case w.Field("table.buildData.Size"):
				sizeExpr = as.Rhs[i]
			case idxFld:
				if id, ok := unparen(as.Rhs[i]).(*ast.Ident); ok {
					idxVar = w.Use(id)
				}
			case chkFld:
				if id, ok := unparen(as.Rhs[i]).(*ast.Ident); ok {
					chkVar = w.Use(id)
				}
			}
		}
		return true
	})
	r.Check(sizeExpr != nil && idxVar != nil && chkVar != nil, dn, "Done fills Size, index and checksum", nil, "Builder.Done does not assign buildData.Size/index/checksum from locals")
	if sizeExpr != nil && idxVar != nil && chkVar != nil && fi >= 0 && fc >= 0 {
		// evaluate Size with len(index) -> sym(index field), len(checksum) -> sym(checksum field), anything else integer local -> "D"
		var ev func(e ast.Expr) (aff, bool)
		ev = func(e ast.Expr) (aff, bool) {
			e = unparen(e)
			if v, ok := w.constInt(e); ok {
				return affC(v), true
			}
			switch x := e.(type) {
			case *ast.Ident:
				return affS("D"), true
			case *ast.BinaryExpr:
				a, ok1 := ev(x.X)
				b, ok2 := ev(x.Y)
				if ok1 && ok2 && x.Op == token.ADD {
					return a.add(b, 1), true
				}
			case *ast.CallExpr:
				if tv, ok := w.Info.Types[x.Fun]; ok && tv.IsType() && len(x.Args) == 1 {
					return ev(x.Args[0])
				}
				if isBuiltin(w, x, "len") && len(x.Args) == 1 {
					if id, ok := unparen(x.Args[0]).(*ast.Ident); ok {
						switch w.Use(id) {
						case idxVar:
							return affS(fields[fi].sym), true
						case chkVar:
							return affS(fields[fc].sym), true
						}
					}
				}
			}
			return aff{}, false
		}
		got, ok := ev(sizeExpr)
		want := affS("D")
		for _, f := range fields {
			want = want.add(f.size, 1)
		}
		r.Check(ok && got.eq(want), dn, "Size is the data size plus every footer field", sizeExpr, "buildData.Size = "+got.String()+", Copy writes "+want.String())
		// checksum computed over idxVar, after the (conditional) encryption of idxVar
		chkFn := w.Func("table.Builder.calculateChecksum")
		for _, s := range dn.Sites(selCall(chkFn)) {
			call := s.(*ast.CallExpr)
			id, ok := unparen(call.Args[0]).(*ast.Ident)
			r.Check(ok && w.Use(id) == idxVar, dn, "the stored checksum is computed over the stored index", call, "calculateChecksum is applied to something other than the index that is stored")
			for _, e := range dn.Sites(selCall(w.Func("table.Builder.encrypt"))) {
				r.DomAll(dn, "index checksum taken after encryption", selNode(s), 0, selNode(e), 0, excuseExpr(func(e ast.Expr) bool { return w.isCallTo(e, w.Func("table.Builder.shouldEncrypt")) }, false))
			}
		}
	}
}

func ruleR18_3(c *Check) {
	w := c.W
	r := c.Rule("R18.3", "E4+E1", 10, "entry layout: Builder.addHelper appends header, key suffix, value in that order, the header holding overlap = len(key)-len(suffix) and diff = len(suffix), the suffix being the whole key for the first entry of a block and keyDiff(key) — the part after the longest common prefix with the block's base key — otherwise, and records the entry's offset before appending; blockIterator.setIdx cuts the entry as [offsets[i], offsets[i+1]) (the end of the entry area for the last one), reads the header first, the suffix as the next diff bytes, the value as the rest, and rebuilds the key as baseKey[:overlap]+suffix with baseKey taken from the first entry; header.Encode/Decode and headerSize agree on the header's size",
		"any disagreement between the two sides shifts every key or value of a block by a few bytes")
	ah := w.F("table.Builder.addHelper")
	appendFn := w.Func("table.Builder.append")
	allocFn := w.Func("table.Builder.allocate")
	encFn := w.Func("table.header.Encode")
	overlapF, diffF := w.Field("table.header.overlap"), w.Field("table.header.diff")
	var keyParam types.Object
	if ps := ah.Decl.Type.Params; ps != nil && len(ps.List) > 0 && len(ps.List[0].Names) > 0 {
		keyParam = w.Info.Defs[ps.List[0].Names[0]]
	}
	// the header literal
	var suffix types.Object
	hdrOK := false
	ah.walk(func(n ast.Node) bool {
		cl, ok := n.(*ast.CompositeLit)
		if !ok || namedOf(w.TypeOf(cl)) != w.Obj("table.header") {
			return true
		}
		var ov, df ast.Expr
		for _, el := range cl.Elts {
			if kv, ok := el.(*ast.KeyValueExpr); ok {
				if id, ok := kv.Key.(*ast.Ident); ok {
					switch w.Use(id) {
					case types.Object(overlapF):
						ov = kv.Value
					case types.Object(diffF):
						df = kv.Value
					}
				}
			}
		}
		if ov == nil || df == nil {
			return true
		}
		// diff: uint16(len(S)); overlap: uint16(len(key) - len(S))
		lenOf := func(e ast.Expr) types.Object {
			e = unparen(e)
			for {
				c, ok := e.(*ast.CallExpr)
				if !ok || len(c.Args) != 1 {
					return nil
				}
				if tv, ok := w.Info.Types[c.Fun]; ok && tv.IsType() {
					e = unparen(c.Args[0])
					continue
				}
				if isBuiltin(w, c, "len") {
					if id, ok := unparen(c.Args[0]).(*ast.Ident); ok {
						return w.Use(id)
					}
				}
				return nil
			}
		}
		suffix = lenOf(w.Origin(ah, df))
		inner := unparen(w.Origin(ah, ov))
		for {
			c, ok := inner.(*ast.CallExpr)
			if ok && len(c.Args) == 1 {
				if tv, ok := w.Info.Types[c.Fun]; ok && tv.IsType() {
					inner = unparen(c.Args[0])
					continue
				}
			}
			break
		}
		if be, ok := inner.(*ast.BinaryExpr); ok && be.Op == token.SUB && suffix != nil {
			hdrOK = lenOf(be.X) == keyParam && lenOf(be.Y) == suffix
		}
		return true
	})
	r.Check(hdrOK, ah, "header holds overlap = len(key)-len(suffix), diff = len(suffix)", nil, "the entry header is not built as {overlap: len(key)-len(suffix), diff: len(suffix)}")
	// order: offset recorded, header, suffix, value
	offStore := selStore(w.Field("table.bblock.entryOffsets"))
	apps := sortedByPos(ah.Sites(selCall(appendFn)))
	r.Check(len(apps) == 2, ah, "two appends (header, key suffix)", nil, "expected append(header) and append(suffix)")
	if len(apps) == 2 && suffix != nil {
		a0, a1 := apps[0].(*ast.CallExpr).Args[0], apps[1].(*ast.CallExpr).Args[0]
		isEnc := false
		if c0, ok := unparen(w.from(a0)).(*ast.CallExpr); ok && w.Callee(c0) == types.Object(encFn) {
			isEnc = true
		}
		id1, _ := unparen(a1).(*ast.Ident)
		r.Check(isEnc, ah, "first the encoded header", apps[0], "the first append is not header.Encode()")
		r.Check(id1 != nil && w.Use(id1) == suffix, ah, "then the key suffix the header describes", apps[1], "the second append is not the suffix whose length is stored in the header")
		r.DomAll(ah, "header before suffix", selNode(apps[1]), 0, selNode(apps[0]), 0)
		r.DomAll(ah, "entry offset recorded before its bytes are appended", selNode(apps[0]), 0, offStore, 0)
		for _, al := range ah.Sites(selCall(allocFn)) {
			r.DomAll(ah, "value after header and suffix", selNode(al), 0, selNode(apps[1]), 0)
		}
		// the recorded offset is the current end of the block
		for _, s := range ah.Sites(offStore) {
			r.Check(w.mentions(s, w.Field("table.bblock.end")), ah, "recorded offset is the block's current end", s, "the entry offset is not bblock.end")
		}
	}
	// the suffix: whole key for the first entry (base key empty), keyDiff(key) otherwise
	if suffix != nil {
		kd := w.Func("table.Builder.keyDiff")
		baseKey := w.Field("table.bblock.baseKey")
		whole, diffd := false, false
		for _, s := range ah.Sites(selStoreVar(suffix)) {
			as, ok := s.(*ast.AssignStmt)
			if !ok || len(as.Rhs) != 1 {
				continue
			}
			op, g := w.guardRel(w.Guards(ah, as), func(e ast.Expr) bool {
				c, ok := unparen(e).(*ast.CallExpr)
				return ok && isBuiltin(w, c, "len") && len(c.Args) == 1 && w.fieldOf(c.Args[0]) == baseKey
			}, w.isConst(0), false)
			if id, ok := unparen(as.Rhs[0]).(*ast.Ident); ok && w.Use(id) == keyParam {
				whole = g != nil && op == token.EQL
				r.Check(whole, ah, "whole key stored only for the first entry of a block", as, "the whole key is stored as suffix although the block has a base key")
			} else if w.isCallTo(as.Rhs[0], kd) {
				diffd = g != nil && (op == token.NEQ || op == token.GTR)
				r.Check(diffd, ah, "later entries store keyDiff(key)", as, "keyDiff is used although the block has no base key yet")
			}
		}
		r.Check(whole && diffd, ah, "suffix is the key for the first entry and keyDiff(key) afterwards", nil, "the two definitions of the key suffix are not both present")
		// base key set from the key in the first-entry branch
		okBase := false
		for _, s := range ah.Sites(selStore(baseKey)) {
			if w.mentions(s, keyParam) {
				okBase = true
			}
		}
		r.Check(okBase, ah, "base key is the block's first key", nil, "bblock.baseKey is not set from the first key")
		// keyDiff: newKey[i:] with i the first index where newKey and baseKey differ
		kf := w.F("table.Builder.keyDiff")
		okRet, okCmp := false, false
		kf.walk(func(n ast.Node) bool {
			switch x := n.(type) {
			case *ast.ReturnStmt:
				if len(x.Results) == 1 {
					if se, ok := unparen(x.Results[0]).(*ast.SliceExpr); ok && se.Low != nil && se.High == nil {
						if _, isId := unparen(se.Low).(*ast.Ident); isId {
							okRet = true
						}
					}
				}
			case *ast.IfStmt:
				if be, ok := unparen(x.Cond).(*ast.BinaryExpr); ok && be.Op == token.NEQ && w.terminates(x.Body.List) {
					a, b := unparen(be.X), unparen(be.Y)
					ia, okA := a.(*ast.IndexExpr)
					ib, okB := b.(*ast.IndexExpr)
					if okA && okB && w.norm(ia.Index, nil) == w.norm(ib.Index, nil) && (w.fieldOf(ia.X) == baseKey) != (w.fieldOf(ib.X) == baseKey) {
						okCmp = true
					}
				}
			}
			return true
		})
		r.Check(okRet && okCmp, kf, "keyDiff returns the key from the first differing byte on", nil, "keyDiff is not `for i…{ if newKey[i] != baseKey[i] {break} }; return newKey[i:]`")
	}
	// header size: Encode returns a slice of an N-byte array, headerSize == N
	var encN int64 = -1
	w.F("table.header.Encode").walk(func(n ast.Node) bool {
		if vs, ok := n.(*ast.ValueSpec); ok && len(vs.Names) == 1 {
			if at, ok := w.TypeOf(vs.Names[0]).Underlying().(*types.Array); ok {
				encN = at.Len()
			}
		}
		return true
	})
	hsObj, _ := w.Obj("table.headerSize").(*types.Const)
	var hsVal int64 = -2
	if hsObj != nil {
		if v, ok := constantInt64(hsObj); ok {
			hsVal = v
		}
	}
	r.Check(encN > 0 && encN == hsVal, w.F("table.header.Encode"), "header.Encode writes headerSize bytes", nil, "header.Encode writes "+itoa(encN)+" bytes, headerSize is "+itoa(hsVal))
	// reader: setIdx
	si := w.F("table.blockIterator.setIdx")
	dataFld := w.Field("table.blockIterator.data")
	offsFld := w.Field("table.blockIterator.entryOffsets")
	// entryData := data[offsets[i] : end] with end = offsets[i+1] or len(data) for the last entry
	var entryVar types.Object
	var lowE, highE ast.Expr
	si.walk(func(n ast.Node) bool {
		as, ok := n.(*ast.AssignStmt)
		if !ok || len(as.Lhs) != 1 || len(as.Rhs) != 1 {
			return true
		}
		se, ok := unparen(as.Rhs[0]).(*ast.SliceExpr)
		if !ok || w.fieldOf(se.X) != dataFld || se.Low == nil || se.High == nil {
			return true
		}
		if _, isIdx := unparen(w.from(se.Low)).(*ast.CallExpr); !isIdx {
			if _, isIx := unparen(w.from(se.Low)).(*ast.IndexExpr); !isIx {
				return true
			}
		}
		if id, ok := as.Lhs[0].(*ast.Ident); ok {
			entryVar, lowE, highE = w.Use(id), se.Low, se.High
		}
		return true
	})
	r.Check(entryVar != nil, si, "entry cut out of the block", nil, "no `entry := data[start:end]` in setIdx")
	if entryVar != nil {
		// start = offsets[i]
		okStart := false
		ast.Inspect(w.from(lowE), func(n ast.Node) bool {
			if ix, ok := n.(*ast.IndexExpr); ok && w.fieldOf(ix.X) == offsFld {
				okStart = true
			}
			return true
		})
		r.Check(okStart, si, "entry starts at its recorded offset", lowE, "the entry does not start at entryOffsets[i]")
		// end: defs of the end variable: len(data) under idx+1 == len(offsets), offsets[idx+1] otherwise
		endLast, endNext := false, false
		if id, ok := unparen(highE).(*ast.Ident); ok {
			if v, ok := w.Use(id).(*types.Var); ok {
				for _, s := range si.Sites(selStoreVar(v)) {
					as, ok := s.(*ast.AssignStmt)
					if !ok || len(as.Rhs) != 1 {
						continue
					}
					rhs := unparen(w.from(as.Rhs[0]))
					isLenData := func(e ast.Expr) bool {
						c, ok := unparen(e).(*ast.CallExpr)
						return ok && isBuiltin(w, c, "len") && len(c.Args) == 1 && w.fieldOf(c.Args[0]) == dataFld
					}
					isLenOffs := func(e ast.Expr) bool {
						c, ok := unparen(e).(*ast.CallExpr)
						return ok && isBuiltin(w, c, "len") && len(c.Args) == 1 && w.fieldOf(c.Args[0]) == offsFld
					}
					gs := w.Guards(si, as)
					lastGuard := 0
					for _, g := range gs {
						// idx+1 compared with len(entryOffsets): idx is the iterator's index field or setIdx's parameter
						isNextIdx := func(e ast.Expr) bool {
							a, b, ok := w.linear(si, e, func(x ast.Expr) bool {
								if w.fieldOf(x) == w.Field("table.blockIterator.idx") {
									return true
								}
								id, isId := x.(*ast.Ident)
								if !isId {
									return false
								}
								v, isVar := w.Use(id).(*types.Var)
								return isVar && isParam(si, v)
							}, 0)
							return ok && a == 1 && b == 1
						}
						if op, ok := w.cmpRoles(g.Cond, g.Val, isNextIdx, isLenOffs); ok {
							switch op {
							case token.EQL:
								lastGuard = 1
							case token.NEQ:
								lastGuard = -1
							}
						}
					}
					if isLenData(rhs) {
						endLast = lastGuard == 1
						r.Check(endLast, si, "the last entry ends where the entry area ends", as, "len(data) is used as the entry's end without `idx+1 == len(entryOffsets)`")
					} else {
						hasNext := false
						ast.Inspect(rhs, func(n ast.Node) bool {
							if ix, ok := n.(*ast.IndexExpr); ok && w.fieldOf(ix.X) == offsFld {
								if be, ok := unparen(ix.Index).(*ast.BinaryExpr); ok && be.Op == token.ADD {
									if v, isC := w.constInt(be.Y); isC && v == 1 {
										hasNext = true
									}
								}
							}
							return true
						})
						if hasNext {
							endNext = lastGuard == -1
							r.Check(endNext, si, "other entries end at the next entry's offset", as, "entryOffsets[idx+1] is used without excluding the last entry")
						}
					}
				}
			}
		}
		r.Check(endLast && endNext, si, "entry end: next offset, or end of the entry area for the last entry", nil, "the two definitions of the entry's end are not both present")
		// parse of the entry with the layout reader: [header | suffix(diff) | value(rest)]
		fields := []lfield{
			{kind: "bytes", sym: "headerSize", size: affC(hsVal), lo: affC(0), hi: affC(hsVal)},
			{kind: "bytes", sym: "diff", size: affS("diff"), lo: affC(hsVal), hi: affC(hsVal).add(affS("diff"), 1)},
			{kind: "bytes", sym: "value", size: affS("value"), lo: affC(hsVal).add(affS("diff"), 1), hi: affS("L")},
		}
		lr := &layoutReader{w: w, f: si, fields: fields,
			isLen: func(e ast.Expr) bool {
				c, ok := e.(*ast.CallExpr)
				if !ok || len(c.Args) != 1 || !isBuiltin(w, c, "len") {
					return false
				}
				id, ok := unparen(c.Args[0]).(*ast.Ident)
				return ok && w.Use(id) == entryVar
			},
			region: func(n ast.Node) (bool, ast.Expr, ast.Expr, ast.Expr, ast.Expr) {
				se, ok := n.(*ast.SliceExpr)
				if !ok {
					return false, nil, nil, nil, nil
				}
				id, ok := unparen(se.X).(*ast.Ident)
				if !ok || w.Use(id) != entryVar {
					return false, nil, nil, nil, nil
				}
				return true, se.Low, se.High, nil, nil
			}}
		lr.presetField = map[*types.Var]aff{diffF: affS("diff")}
		lr.run()
		var k keyer
		for _, p := range lr.problems {
			r.Check(false, si, k.key("entry parsed as header, suffix, value", w, p.node), p.node, p.msg)
		}
		r.Check(fields[1].reads+lr.fields[1].reads > 0, si, "key suffix read as the diff bytes after the header", nil, "setIdx does not slice entry[headerSize : headerSize+diff]")
		r.Check(lr.fields[2].reads > 0, si, "value is the rest of the entry", nil, "setIdx does not slice entry[headerSize+diff:]")
		// header decoded from the start of the entry
		decOK := false
		si.walk(func(n ast.Node) bool {
			if call, ok := n.(*ast.CallExpr); ok && w.Callee(call) == types.Object(w.Func("table.header.Decode")) && len(call.Args) == 1 {
				if id, ok := unparen(call.Args[0]).(*ast.Ident); ok && w.Use(id) == entryVar {
					decOK = true
				}
			}
			return true
		})
		r.Check(decOK, si, "header decoded from the start of the entry", nil, "header.Decode is not applied to the entry")
		// key = key[:overlap] + suffix
		keyFld := w.Field("table.blockIterator.key")
		okKey := false
		for _, s := range si.Sites(selStore(keyFld)) {
			as, ok := s.(*ast.AssignStmt)
			if !ok || len(as.Rhs) != 1 {
				continue
			}
			call, ok := unparen(as.Rhs[0]).(*ast.CallExpr)
			if !ok || !isBuiltin(w, call, "append") || len(call.Args) != 2 || !call.Ellipsis.IsValid() {
				continue
			}
			se, ok := unparen(call.Args[0]).(*ast.SliceExpr)
			if !ok || w.fieldOf(se.X) != keyFld || se.High == nil || w.fieldOf(w.from(se.High)) != overlapF {
				continue
			}
			if idx := lr.regionOf(call.Args[1]); idx == 1 {
				okKey = true
			}
		}
		r.Check(okKey, si, "key rebuilt as key[:overlap] + suffix", nil, "no `key = append(key[:h.overlap], suffix...)` with the suffix read from the entry")
		// key[:overlap] is a prefix of the base key: refreshed from baseKey when the overlap grows
		bk := w.Field("table.blockIterator.baseKey")
		okRefresh := false
		for _, s := range si.Sites(selStore(keyFld)) {
			if !w.mentions(s, bk) {
				continue
			}
			op, g := w.guardRel(w.Guards(si, s), w.isField(overlapF), w.isField(w.Field("table.blockIterator.prevOverlap")), false)
			okRefresh = g != nil && (op == token.GTR || op == token.GEQ)
		}
		r.Check(okRefresh, si, "shared prefix copied from the base key when the overlap grows", nil, "key[:overlap] is not refreshed from baseKey under `overlap > prevOverlap`")
		// baseKey = data[headerSize : headerSize+diff] of the first entry
		okBK := false
		for _, s := range si.Sites(selStore(bk)) {
			as, ok := s.(*ast.AssignStmt)
			if !ok || len(as.Rhs) != 1 {
				continue
			}
			se, ok := unparen(as.Rhs[0]).(*ast.SliceExpr)
			if !ok || w.fieldOf(se.X) != dataFld || se.Low == nil || se.High == nil {
				continue
			}
			lo, ok1 := lr.eval(se.Low)
			hi, ok2 := lr.eval(se.High)
			okBK = ok1 && ok2 && lo.eq(fields[1].lo) && hi.eq(fields[1].hi)
		}
		r.Check(okBK, si, "base key is the first entry's suffix (its whole key)", nil, "baseKey is not data[headerSize : headerSize+diff] of the block's first entry")
	}
	// setBlock: the entry area excludes the trailer
	sb := w.F("table.blockIterator.setBlock")
	okSB := false
	for _, s := range sb.Sites(selStore(dataFld)) {
		as, ok := s.(*ast.AssignStmt)
		if !ok || len(as.Rhs) != 1 {
			continue
		}
		if se, ok := unparen(as.Rhs[0]).(*ast.SliceExpr); ok && se.Low == nil && se.High != nil && w.fieldOf(se.X) == w.Field("table.Block.data") && w.fieldOf(se.High) == w.Field("table.Block.entriesIndexStart") {
			okSB = true
		}
	}
	r.Check(okSB, sb, "entry area is the block up to the entry-offset table", nil, "blockIterator.data is not Block.data[:entriesIndexStart]")
}

func ruleR18_4(c *Check) {
	w := c.W
	r := c.Rule("R18.4", "E1+E4", 10, "transformations are undone in mirror order: Builder.handleBlock compresses and then encrypts a block, Table.block decrypts and then decompresses it; the block checksum is computed on plain data (before the block is handed to handleBlock) and verified after decrypt+decompress; Builder.Done checksums the index after encrypting it and Table.initIndex verifies before readTableIndex decrypts; the encrypt/decrypt and compress/decompress decisions are the same predicates (data key present; Options.Compression), every compression type has both directions; Builder.encrypt puts the IV after the ciphertext and Table.decrypt takes it from there",
		"a block decompressed before it is decrypted, or verified against a checksum of different bytes, never reads back")
	hb := w.F("table.Builder.handleBlock")
	comp, enc := selCallName(w, "table.Builder.compressData"), selCallName(w, "table.Builder.encrypt")
	r.Exists(len(hb.Sites(comp)) == 1 && len(hb.Sites(enc)) == 1, hb, "compress and encrypt sites", nil, "expected one compressData and one encrypt call in handleBlock")
	// (both sit in the per-block loop: the order is that of the loop body's statements)
	if cs, es := hb.Sites(comp), hb.Sites(enc); len(cs) == 1 && len(es) == 1 {
		stmtIn := func(n ast.Node) (ast.Stmt, []ast.Stmt) {
			for p := n; p != nil; p = w.parentOf(p) {
				if st, ok := p.(ast.Stmt); ok {
					if blk, ok := w.parentOf(p).(*ast.BlockStmt); ok {
						if _, isLoop := w.parentOf(blk).(*ast.RangeStmt); isLoop {
							return st, blk.List
						}
						if _, isLoop := w.parentOf(blk).(*ast.ForStmt); isLoop {
							return st, blk.List
						}
					}
				}
			}
			return nil, nil
		}
		sc, lc := stmtIn(cs[0])
		se, le := stmtIn(es[0])
		okOrder := sc != nil && se != nil && len(lc) > 0 && len(le) > 0 && lc[0] == le[0] && sc.Pos() < se.Pos()
		r.Check(okOrder, hb, "a block is compressed before it is encrypted", es[0], "encrypt does not follow compressData in the per-block loop body")
	}
	bf := w.F("table.Table.block")
	dec, decomp := selCallName(w, "table.Table.decrypt"), selCallName(w, "table.Table.decompress")
	r.Exists(len(bf.Sites(dec)) == 1 && len(bf.Sites(decomp)) == 1, bf, "decrypt and decompress sites", nil, "expected one decrypt and one decompress call in Table.block")
	r.NeverAfterAll(bf, "no decryption after decompression", decomp, 0, dec, 0)
	r.DomAll(bf, "trailer parsed after decompression", selStore(w.Field("table.Block.entryOffsets")), 0, decomp, 0)
	for _, s := range bf.Sites(selCallName(w, "table.Block.verifyCheckSum")) {
		r.DomAll(bf, "block verified after decrypt and decompress", selNode(s), 0, decomp, 0)
	}
	// guards: encrypt under shouldEncrypt, decrypt under shouldDecrypt; both predicates are DataKey != nil
	for _, p := range []struct {
		f    *Fn
		site Sel
		pred string
	}{{hb, enc, "table.Builder.shouldEncrypt"}, {bf, dec, "table.Table.shouldDecrypt"}, {w.F("table.Builder.Done"), enc, "table.Builder.shouldEncrypt"}, {w.F("table.Table.readTableIndex"), dec, "table.Table.shouldDecrypt"}} {
		pf := w.Func(p.pred)
		for _, s := range p.f.Sites(p.site) {
			g := HasGuard(w.Guards(p.f, s), true, func(e ast.Expr) bool { return w.isCallTo(e, pf) })
			r.Check(g != nil, p.f, "cipher applied exactly when a data key is set", s, "the call is not under "+p.pred+"()")
		}
	}
	dk := w.Field("table.Options.DataKey")
	for _, name := range []string{"table.Builder.shouldEncrypt", "table.Table.shouldDecrypt"} {
		body, f := w.tinyBody(w.Func(name))
		okP := false
		if body != nil {
			if op, ok := w.cmpRoles(body, true, w.isField(dk), isNil); ok && op == token.NEQ {
				okP = true
			}
		}
		r.Check(okP, f, "predicate is `DataKey != nil`", nil, name+" is not `opt.DataKey != nil`")
	}
	// compression: same option on both sides, both directions for every type
	compF := w.Field("table.Options.Compression")
	cd := w.F("table.Builder.compressData")
	dc := w.F("table.Table.decompress")
	casesOf := func(f *Fn) map[string]bool {
		out := map[string]bool{}
		f.walk(func(n ast.Node) bool {
			sw, ok := n.(*ast.SwitchStmt)
			if !ok || sw.Tag == nil || w.fieldOf(sw.Tag) != compF {
				return true
			}
			for _, cs := range sw.Body.List {
				cc := cs.(*ast.CaseClause)
				for _, e := range cc.List {
					if id := lastIdent(e); id != nil {
						if cn, ok := w.Use(id).(*types.Const); ok {
							// a case that only returns an error does not count as support
							errOnly := len(cc.Body) == 1
							if errOnly {
								rs, isRet := cc.Body[0].(*ast.ReturnStmt)
								errOnly = isRet && len(rs.Results) >= 1 && !isNil(rs.Results[len(rs.Results)-1]) && w.isErrorValue(rs.Results[len(rs.Results)-1])
							}
							if !errOnly {
								out[cn.Name()] = true
							}
						}
					}
				}
			}
			return true
		})
		return out
	}
	cw, cr := casesOf(cd), casesOf(dc)
	r.Exists(len(cw) >= 2, cd, "compression types handled by the writer", nil, "compressData does not switch on Options.Compression")
	for name := range cw {
		r.Check(cr[name], dc, "compression type "+name+" can be read back", nil, "compressData handles "+name+" but decompress does not")
	}
	for name := range cr {
		r.Check(cw[name], cd, "compression type "+name+" is written as the reader expects", nil, "decompress handles "+name+" but compressData does not")
	}
	// handleBlock compresses exactly when Compression != None
	for _, s := range hb.Sites(comp) {
		okG := false
		for _, g := range w.Guards(hb, s) {
			e := w.from(g.Cond)
			if op, ok := w.cmpRoles(e, g.Val, w.isField(compF), func(x ast.Expr) bool { id := lastIdent(x); return id != nil && id.Name == "None" }); ok && op == token.NEQ {
				okG = true
			}
		}
		r.Check(okG, hb, "a block is compressed exactly when a compression type is set", s, "compressData is not under `Compression != None`")
	}
	// checksum of a block is taken before the block is handed over for compression/encryption
	fb := w.F("table.Builder.finishBlock")
	for _, s := range fb.Sites(selSend(w.Field("table.Builder.blockChan"))) {
		r.DomAll(fb, "block checksummed before it is compressed/encrypted", selNode(s), 0, selCallName(w, "table.Builder.calculateChecksum"), 0)
	}
	// index: verified before decrypted
	ii := w.F("table.Table.initIndex")
	vsel := selPred("VerifyChecksum", func(w *World, f *Fn, n ast.Node) bool {
		call, ok := n.(*ast.CallExpr)
		if !ok {
			return false
		}
		fn, _ := w.Callee(call).(*types.Func)
		return fn != nil && fn.Name() == "VerifyChecksum"
	})
	r.DomAll(ii, "index verified before it is decrypted", selCallName(w, "table.Table.readTableIndex"), 0, vsel, 0)
	// IV placement
	ef := w.F("table.Builder.encrypt")
	var dataP, ivV types.Object
	if ps := ef.Decl.Type.Params; ps != nil && len(ps.List) == 1 && len(ps.List[0].Names) == 1 {
		dataP = w.Info.Defs[ps.List[0].Names[0]]
	}
	ef.walk(func(n ast.Node) bool {
		if as, ok := n.(*ast.AssignStmt); ok && len(as.Rhs) == 1 {
			if call, ok := unparen(as.Rhs[0]).(*ast.CallExpr); ok {
				if fn, _ := w.Callee(call).(*types.Func); fn != nil && fn.Name() == "GenerateIV" {
					if id, ok := as.Lhs[0].(*ast.Ident); ok {
						ivV = w.Use(id)
					}
				}
			}
		}
		return true
	})
	okCipher, okIV := false, false
	isLenOf := func(e ast.Expr, o types.Object) bool {
		c, ok := unparen(w.from(e)).(*ast.CallExpr)
		if !ok || !isBuiltin(w, c, "len") || len(c.Args) != 1 {
			return false
		}
		id, ok := unparen(c.Args[0]).(*ast.Ident)
		return ok && w.Use(id) == o
	}
	ef.walk(func(n ast.Node) bool {
		call, ok := n.(*ast.CallExpr)
		if !ok {
			return true
		}
		if fn, _ := w.Callee(call).(*types.Func); fn != nil && fn.Name() == "XORBlock" && len(call.Args) == 4 {
			if se, ok := unparen(call.Args[0]).(*ast.SliceExpr); ok && se.Low == nil && se.High != nil && isLenOf(se.High, dataP) {
				if id, ok := unparen(call.Args[3]).(*ast.Ident); ok && w.Use(id) == ivV {
					okCipher = true
				}
			}
		}
		if isBuiltin(w, call, "copy") && len(call.Args) == 2 {
			if se, ok := unparen(call.Args[0]).(*ast.SliceExpr); ok && se.Low != nil && se.High == nil && isLenOf(se.Low, dataP) {
				if id, ok := unparen(call.Args[1]).(*ast.Ident); ok && w.Use(id) == ivV {
					okIV = true
				}
			}
		}
		return true
	})
	r.Check(okCipher && okIV && ivV != nil, ef, "ciphertext in dst[:len(data)], IV in dst[len(data):]", nil, "Builder.encrypt does not lay out ciphertext followed by the IV it encrypted with")
	df := w.F("table.Table.decrypt")
	var dData types.Object
	if ps := df.Decl.Type.Params; ps != nil && len(ps.List) >= 1 && len(ps.List[0].Names) >= 1 {
		dData = w.Info.Defs[ps.List[0].Names[0]]
	}
	bs := w.ObjIn("crypto/aes", "BlockSize")
	okTail, okHead := false, false
	df.walk(func(n ast.Node) bool {
		se, ok := n.(*ast.SliceExpr)
		if !ok {
			return true
		}
		id, ok := unparen(se.X).(*ast.Ident)
		if !ok || w.Use(id) != dData {
			return true
		}
		cut := func(e ast.Expr) bool {
			be, ok := unparen(w.Origin(df, e)).(*ast.BinaryExpr)
			return ok && be.Op == token.SUB && isLenOf(be.X, dData) && (w.mentions(be.Y, bs) || func() bool { v, isC := w.constInt(be.Y); return isC && v == 16 }())
		}
		if se.Low != nil && se.High == nil && cut(se.Low) {
			okTail = true
		}
		if se.Low == nil && se.High != nil && cut(se.High) {
			okHead = true
		}
		return true
	})
	r.Check(okTail && okHead, df, "IV is the last aes.BlockSize bytes, ciphertext the rest", nil, "Table.decrypt does not split data[:len-BlockSize] / data[len-BlockSize:]")
	giv := w.ByObj[w.ObjIn(modPath+"/y", "GenerateIV").(*types.Func)]
	okLen := false
	if giv != nil {
		giv.walk(func(n ast.Node) bool {
			if call, ok := n.(*ast.CallExpr); ok && isBuiltin(w, call, "make") && len(call.Args) >= 2 && (w.mentions(call.Args[1], bs) || func() bool { v, isC := w.constInt(call.Args[1]); return isC && v == 16 }()) {
				okLen = true
			}
			return true
		})
	}
	r.Check(okLen, giv, "the IV is aes.BlockSize bytes long", nil, "GenerateIV does not make an aes.BlockSize IV")
}

func lastIdent(e ast.Expr) *ast.Ident {
	switch x := unparen(e).(type) {
	case *ast.Ident:
		return x
	case *ast.SelectorExpr:
		return x.Sel
	}
	return nil
}

func ruleR18_5(c *Check) {
	w := c.W
	r := c.Rule("R18.5", "E1+E6", 10, "table metadata follows the entries: every public add (Add, AddStaleKey) reaches addHelper, which records the key hash for every entry and raises maxVersion to the entry's version when it is larger; buildIndex stores maxVersion and the number of hashes; the block index lists every block with its first key, a start offset that is the sum of the preceding block lengths and its length, in blockList order — the order buildData.Copy writes them in; Table.initIndex copies MaxVersion and KeyCount from the index; the smallest key is the first block's base key and the biggest key is where a reverse iterator lands after Rewind, both copied",
		"MaxVersion feeds the timestamp oracle after re-open and table filtering by SinceTs; smallest/biggest decide which tables a read consults")
	ah := w.F("table.Builder.addHelper")
	mv := w.Field("table.Builder.maxVersion")
	kh := w.Field("table.Builder.keyHashes")
	for _, name := range []string{"table.Builder.Add", "table.Builder.AddStaleKey"} {
		f := w.F(name)
		r.ExitsNeed(f, "addHelper", selCallFn(ah), 2, exitAll)
	}
	for _, s := range ah.Sites(selStore(kh)) {
		r.Check(len(w.Guards(ah, s)) == 0, ah, "every entry's key hash is recorded", s, "the key hash is recorded only under a condition")
	}
	r.Exists(len(ah.Sites(selStore(kh))) >= 1, ah, "key hash recorded", nil, "addHelper does not append to keyHashes")
	pt := w.Func("y.ParseTs")
	nmv := 0
	for _, s := range ah.Sites(selStore(mv)) {
		nmv++
		op, g := w.guardRel(w.Guards(ah, s), func(e ast.Expr) bool { return w.isCallTo(e, pt) }, w.isField(mv), false)
		as, _ := s.(*ast.AssignStmt)
		okRhs := as != nil && len(as.Rhs) == 1 && w.isCallTo(as.Rhs[0], pt)
		r.Check(g != nil && (op == token.GTR || op == token.GEQ) && okRhs, ah, "maxVersion raised to a larger entry version", s, "maxVersion is not `if ParseTs(key) > maxVersion { maxVersion = that }`")
	}
	r.Exists(nmv >= 1, ah, "maxVersion maintained", nil, "addHelper does not maintain maxVersion")
	bi := w.F("table.Builder.buildIndex")
	okMV, okKC := false, false
	bi.walk(func(n ast.Node) bool {
		call, ok := n.(*ast.CallExpr)
		if !ok || len(call.Args) != 2 {
			return true
		}
		fn, _ := w.Callee(call).(*types.Func)
		if fn == nil {
			return true
		}
		switch fn.Name() {
		case "TableIndexAddMaxVersion":
			okMV = w.fieldOf(call.Args[1]) == mv
		case "TableIndexAddKeyCount":
			okKC = w.mentions(call.Args[1], kh)
		}
		return true
	})
	r.Check(okMV, bi, "index stores the builder's maxVersion", nil, "TableIndexAddMaxVersion is not given Builder.maxVersion")
	r.Check(okKC, bi, "index stores the number of keys", nil, "TableIndexAddKeyCount is not given len(keyHashes)")
	// block offsets
	wo := w.F("table.Builder.writeBlockOffsets")
	bl := w.Field("table.Builder.blockList")
	var start types.Object
	okRange, okAcc := false, false
	wo.walk(func(n ast.Node) bool {
		rs, ok := n.(*ast.RangeStmt)
		if !ok || w.fieldOf(rs.X) != bl || rs.Key == nil {
			return true
		}
		okRange = true
		ast.Inspect(rs.Body, func(m ast.Node) bool {
			if as, ok := m.(*ast.AssignStmt); ok && as.Tok == token.ADD_ASSIGN && len(as.Lhs) == 1 && w.mentions(as.Rhs[0], w.Field("table.bblock.end")) {
				if id, ok := as.Lhs[0].(*ast.Ident); ok {
					start = w.Use(id)
					okAcc = true
				}
			}
			return true
		})
		return true
	})
	r.Check(okRange && okAcc, wo, "block start offsets accumulate the block lengths in blockList order", nil, "writeBlockOffsets does not range over blockList adding bblock.end to the running offset")
	if start != nil {
		for _, s := range wo.Sites(selCallName(w, "table.Builder.writeBlockOffset")) {
			call := s.(*ast.CallExpr)
			okArg := false
			for _, a := range call.Args {
				if id, ok := unparen(a).(*ast.Ident); ok && w.Use(id) == start {
					okArg = true
				}
			}
			r.Check(okArg, wo, "each block is indexed at the running offset", s, "writeBlockOffset is not passed the running start offset")
			if okArg {
				// the offset is used before it is advanced
				for _, acc := range wo.Sites(selStoreVar(start)) {
					if as, ok := acc.(*ast.AssignStmt); ok && as.Tok == token.ADD_ASSIGN {
						r.DomAll(wo, "offset advanced after the block was indexed", selNode(acc), 0, selNode(s), 0)
					}
				}
			}
		}
	}
	wb := w.F("table.Builder.writeBlockOffset")
	got := map[string]bool{}
	wb.walk(func(n ast.Node) bool {
		call, ok := n.(*ast.CallExpr)
		if !ok || len(call.Args) != 2 {
			return true
		}
		fn, _ := w.Callee(call).(*types.Func)
		if fn == nil {
			return true
		}
		switch fn.Name() {
		case "BlockOffsetAddKey":
			got["key"] = w.isCallNamedWithArg(call.Args[1], wb, "CreateByteVector", w.Field("table.bblock.baseKey"))
		case "BlockOffsetAddOffset":
			if id, ok := unparen(call.Args[1]).(*ast.Ident); ok {
				if v, ok := w.Use(id).(*types.Var); ok && isParam(wb, v) {
					got["offset"] = true
				}
			}
		case "BlockOffsetAddLen":
			got["len"] = w.mentions(call.Args[1], w.Field("table.bblock.end"))
		}
		return true
	})
	r.Check(got["key"] && got["offset"] && got["len"], wb, "a block is indexed by its base key, start offset and length", nil, "writeBlockOffset does not store baseKey, the start offset and bblock.end")
	// Copy ranges over the same list
	cp := w.F("table.buildData.Copy")
	okCp := false
	cp.walk(func(n ast.Node) bool {
		switch x := n.(type) {
		case *ast.RangeStmt:
			if w.fieldOf(x.X) == w.Field("table.buildData.blockList") {
				okCp = true
			}
		case *ast.ForStmt:
			// for i := 0; i < len(bd.blockList); i++ { bl := bd.blockList[i] … }
			if inc, ok := x.Post.(*ast.IncDecStmt); ok && inc.Tok == token.INC && x.Cond != nil && w.mentions(x.Cond, w.Field("table.buildData.blockList")) {
				if as, ok := x.Init.(*ast.AssignStmt); ok && len(as.Rhs) == 1 {
					if v, isC := w.constInt(as.Rhs[0]); isC && v == 0 {
						okCp = true
					}
				}
			}
		}
		return true
	})
	dn := w.F("table.Builder.Done")
	okBL := false
	dn.walk(func(n ast.Node) bool {
		if kv, ok := n.(*ast.KeyValueExpr); ok {
			if id, ok := kv.Key.(*ast.Ident); ok && w.Use(id) == types.Object(w.Field("table.buildData.blockList")) && w.fieldOf(kv.Value) == bl {
				okBL = true
			}
		}
		return true
	})
	r.Check(okCp && okBL, cp, "blocks are written in the order they were indexed", nil, "buildData.Copy does not range over the builder's blockList")
	// reader side
	ii := w.F("table.Table.initIndex")
	for _, name := range []string{"MaxVersion", "KeyCount"} {
		okF := false
		ii.walk(func(n ast.Node) bool {
			if kv, ok := n.(*ast.KeyValueExpr); ok {
				if id, ok := kv.Key.(*ast.Ident); ok && id.Name == name && isCallNamed(w, kv.Value, name) {
					okF = true
				}
			}
			return true
		})
		r.Check(okF, ii, "cheap index carries "+name, nil, "initIndex does not copy "+name+" from the table index")
	}
	// first block offset: Offsets(&bo, 0)
	okFirst := false
	ii.walk(func(n ast.Node) bool {
		if call, ok := n.(*ast.CallExpr); ok && len(call.Args) == 2 {
			if fn, _ := w.Callee(call).(*types.Func); fn != nil && fn.Name() == "Offsets" {
				if v, isC := w.constInt(call.Args[1]); isC && v == 0 {
					okFirst = true
				}
			}
		}
		return true
	})
	r.Check(okFirst, ii, "initIndex returns the first block's index entry", nil, "initIndex does not return Offsets(…, 0)")
	bs := w.F("table.Table.initBiggestAndSmallest")
	sm, bg := w.Field("table.Table.smallest"), w.Field("table.Table.biggest")
	okS, okB := false, false
	var itVar types.Object
	bs.walk(func(n ast.Node) bool {
		as, ok := n.(*ast.AssignStmt)
		if !ok || len(as.Lhs) != 1 || len(as.Rhs) != 1 {
			return true
		}
		if call, ok := unparen(as.Rhs[0]).(*ast.CallExpr); ok && isCallNamed(w, call, "NewIterator") && len(call.Args) == 1 {
			if w.mentions(call.Args[0], w.Obj("table.REVERSED")) {
				if id, ok := as.Lhs[0].(*ast.Ident); ok {
					itVar = w.Use(id)
				}
			}
		}
		return true
	})
	for _, s := range bs.Sites(selStore(sm)) {
		as := s.(*ast.AssignStmt)
		if call, ok := unparen(as.Rhs[0]).(*ast.CallExpr); ok && isCallNamed(w, call, "Copy") && len(call.Args) == 1 && isCallNamed(w, call.Args[0], "KeyBytes") {
			// the receiver of KeyBytes comes from initIndex
			if rc := recvOf(unparen(call.Args[0]).(*ast.CallExpr)); rc != nil {
				if id, ok := unparen(rc).(*ast.Ident); ok {
					if v, ok := w.Use(id).(*types.Var); ok {
						for _, d := range w.DefsOf(bs, v) {
							if w.isCallTo(d, w.Func("table.Table.initIndex")) {
								okS = true
							}
						}
					}
				}
			}
		}
	}
	for _, s := range bs.Sites(selStore(bg)) {
		as := s.(*ast.AssignStmt)
		if call, ok := unparen(as.Rhs[0]).(*ast.CallExpr); ok && isCallNamed(w, call, "Copy") && len(call.Args) == 1 && isCallNamed(w, call.Args[0], "Key") {
			if rc := recvOf(unparen(call.Args[0]).(*ast.CallExpr)); rc != nil {
				if id, ok := unparen(rc).(*ast.Ident); ok && itVar != nil && w.Use(id) == itVar {
					okB = true
					// after Rewind
					rew := selPred("it.Rewind()", func(w *World, f *Fn, n ast.Node) bool {
						c, ok := n.(*ast.CallExpr)
						if !ok || !isCallNamed(w, c, "Rewind") {
							return false
						}
						rid, ok := unparen(recvOf(c)).(*ast.Ident)
						return ok && w.Use(rid) == itVar
					})
					r.DomAll(bs, "biggest key read after the reverse iterator was rewound", selNode(s), 0, rew, 0)
				}
			}
		}
	}
	r.Check(okS, bs, "smallest key is a copy of the first block's base key", nil, "Table.smallest is not y.Copy(<first block offset from initIndex>.KeyBytes())")
	r.Check(okB, bs, "biggest key is a copy of a REVERSED iterator's key", nil, "Table.biggest is not y.Copy(it.Key()) of an iterator created with REVERSED")
}

// isCallNamedWithArg: e (or the single definition of the local it names) is a call to a function
// called name one of whose arguments is the field fld.
func (w *World) isCallNamedWithArg(e ast.Expr, f *Fn, name string, fld *types.Var) bool {
	call, ok := unparen(w.Origin(f, e)).(*ast.CallExpr)
	if !ok || !isCallNamed(w, call, name) {
		return false
	}
	for _, a := range call.Args {
		if w.fieldOf(a) == fld {
			return true
		}
	}
	return false
}

func ruleR18_6(c *Check) {
	w := c.W
	r := c.Rule("R18.6", "E5", 12, "seek polarity: blockIterator.seek lands on the first entry whose key is >= the target; Iterator.seekFrom picks the first block whose base key is > the target, seeks in the block before it and moves to that block only when the previous one is exhausted; seekForPrev steps back unless the key found equals the target; Next/Rewind/Seek take the forward variants exactly when the REVERSED bit is clear; at the end of a block the iterator moves to the next (previous) block; ConcatIterator.Seek picks the first table whose biggest key is >= the target (the last whose smallest key is <= it in reverse) and Next moves on to the next non-empty table in the iteration direction",
		"an off-by-one in any of these comparisons skips the entry at a block or table boundary, or lands on the wrong side of the target")
	ck := w.Func("y.CompareKeys")
	// block seek
	bs := w.F("table.blockIterator.seek")
	keyFld := w.Field("table.blockIterator.key")
	okB := false
	bs.walkDeep(func(own *Fn, n ast.Node) bool {
		rs, ok := n.(*ast.ReturnStmt)
		if !ok || own == bs || len(rs.Results) != 1 {
			return true
		}
		if op, _, ok := w.threeWay(rs.Results[0], true, w.isField(keyFld), ck); ok {
			r.Check(op == token.GEQ, own, "in-block search predicate is entry key >= target", rs, "block seek predicate is `entry "+op.String()+" target`")
			okB = okB || op == token.GEQ
		}
		return true
	})
	r.Check(okB, bs, "block seek compares entry keys with the target", nil, "no CompareKeys(itr.key, key) >= 0 predicate in blockIterator.seek")
	// table seek
	sf := w.F("table.Iterator.seekFrom")
	okT := false
	sf.walkDeep(func(own *Fn, n ast.Node) bool {
		rs, ok := n.(*ast.ReturnStmt)
		if !ok || own == sf || len(rs.Results) != 1 {
			return true
		}
		if op, _, ok := w.threeWay(rs.Results[0], true, func(e ast.Expr) bool { return isCallNamed(w, w.from(e), "KeyBytes") }, ck); ok {
			r.Check(op == token.GTR, own, "block search predicate is base key > target", rs, "table seek predicate is `block base key "+op.String()+" target`")
			okT = okT || op == token.GTR
		}
		return true
	})
	r.Check(okT, sf, "table seek compares block base keys with the target", nil, "no CompareKeys(ko.KeyBytes(), key) > 0 predicate in Iterator.seekFrom")
	sh := w.Func("table.Iterator.seekHelper")
	var idxVar types.Object
	sf.walk(func(n ast.Node) bool {
		if as, ok := n.(*ast.AssignStmt); ok && len(as.Lhs) == 1 && len(as.Rhs) == 1 {
			if call, ok := unparen(as.Rhs[0]).(*ast.CallExpr); ok {
				if fn, _ := w.Callee(call).(*types.Func); fn != nil && fn.Name() == "Search" && fn.Pkg() != nil && fn.Pkg().Path() == "sort" {
					if id, ok := as.Lhs[0].(*ast.Ident); ok {
						idxVar = w.Use(id)
					}
				}
			}
		}
		return true
	})
	r.Check(idxVar != nil, sf, "block index from sort.Search", nil, "seekFrom does not keep the result of sort.Search")
	if idxVar != nil {
		isIdx := func(e ast.Expr) bool { id, ok := unparen(e).(*ast.Ident); return ok && w.Use(id) == idxVar }
		prev, same, first := 0, 0, 0
		for _, s := range sf.Sites(selCall(sh)) {
			call := s.(*ast.CallExpr)
			a, b, okl := w.linear(sf, call.Args[0], isIdx, 0)
			gs := w.Guards(sf, call)
			switch {
			case okl && a == 1 && b == -1:
				prev++
				op, g := w.guardRel(gs, isIdx, w.isConst(0), false)
				r.Check(g != nil && (op == token.NEQ || op == token.GTR), sf, "the block before the first larger base key is searched when there is one", call, "seekHelper(idx-1) is reachable with idx == 0")
			case okl && a == 1 && b == 0:
				same++
				// only after the previous block was exhausted (err == io.EOF) and when idx is a block
				eof := false
				for _, g := range gs {
					// err == io.EOF holds here, however it is spelled (enclosing if, or an earlier `if err != io.EOF { return }`)
					isEOF := func(e ast.Expr) bool { return w.mentions(e, w.Obj("io.EOF")) }
					if eqOf(g, true, func(e ast.Expr) bool { return !isEOF(e) }, isEOF) {
						eof = true
					}
				}
				op, g := w.guardRel(gs, isIdx, func(e ast.Expr) bool { return isCallNamed(w, w.from(e), "offsetsLength") }, false)
				r.Check(eof && g != nil && (op == token.NEQ || op == token.LSS), sf, "the next block is entered only when the previous one holds nothing >= target and it exists", call, "seekHelper(idx) is not under `err == io.EOF` and `idx != number of blocks`")
			case okl && a == 0 && b == 0:
				first++
				op, g := w.guardRel(gs, isIdx, w.isConst(0), false)
				r.Check(g != nil && op == token.EQL, sf, "target before the first block: seek in block 0", call, "seekHelper(0) is not under idx == 0")
			}
		}
		r.Check(prev == 1 && same == 1 && first == 1, sf, "seekFrom tries block idx-1, then idx, or block 0", nil, "expected seekHelper(0), seekHelper(idx-1) and seekHelper(idx)")
	}
	// seekForPrev
	sp := w.F("table.Iterator.seekForPrev")
	okSP := false
	for _, s := range sp.Sites(selCallName(w, "table.Iterator.prev")) {
		for _, g := range w.Guards(sp, s) {
			if call, ok := unparen(g.Cond).(*ast.CallExpr); ok && !g.Val {
				if fn, _ := w.Callee(call).(*types.Func); fn != nil && fn.Name() == "Equal" {
					okSP = true
				}
			}
			if op, _, ok := w.threeWay(g.Cond, g.Val, func(e ast.Expr) bool { return isCallNamed(w, w.from(e), "Key") }, ck, w.Func("bytes.Compare")); ok && op == token.NEQ {
				okSP = true
			}
		}
		r.DomAll(sp, "step back only after the forward seek", selNode(s), 0, selCallName(w, "table.Iterator.seekFrom"), 0)
	}
	r.Check(okSP, sp, "seekForPrev steps back unless it found the target itself", nil, "seekForPrev does not call prev() under `!bytes.Equal(Key(), key)`")
	// dispatch on REVERSED
	rev := w.Obj("table.REVERSED")
	for _, d := range []struct{ fn, fwd, bwd string }{
		{"table.Iterator.Next", "table.Iterator.next", "table.Iterator.prev"},
		{"table.Iterator.Rewind", "table.Iterator.seekToFirst", "table.Iterator.seekToLast"},
		{"table.Iterator.Seek", "table.Iterator.seek", "table.Iterator.seekForPrev"},
	} {
		f := w.F(d.fn)
		for _, dir := range []struct {
			callee string
			want   int
		}{{d.fwd, 0}, {d.bwd, 1}} {
			sites := f.Sites(selCall(w.orForwarded(w.Func(dir.callee))...))
			r.Check(len(sites) >= 1, f, "calls "+dir.callee, nil, "no call of "+dir.callee+" (or of what it forwards to)")
			for _, s := range sites {
				r.Check(w.bitGuard(w.Guards(f, s), rev) == dir.want, f, "direction chosen by the REVERSED bit", s, dir.callee+" is not called exactly when REVERSED is "+map[int]string{0: "clear", 1: "set"}[dir.want])
			}
		}
	}
	// block boundary: next -> bpos++, prev -> bpos--
	bpos := w.Field("table.Iterator.bpos")
	for _, d := range []struct {
		fn  string
		tok token.Token
	}{{"table.Iterator.next", token.INC}, {"table.Iterator.prev", token.DEC}} {
		f := w.F(d.fn)
		okStep := false
		for _, s := range f.Sites(selStore(bpos)) {
			switch x := s.(type) {
			case *ast.IncDecStmt:
				okStep = x.Tok == d.tok
			case *ast.AssignStmt:
				if len(x.Rhs) == 1 {
					if v, isC := w.constInt(x.Rhs[0]); isC && v == 1 && ((x.Tok == token.ADD_ASSIGN && d.tok == token.INC) || (x.Tok == token.SUB_ASSIGN && d.tok == token.DEC)) {
						okStep = true
					}
				}
			}
			if okStep {
				// only when the block iterator ran off its block
				g := HasGuard(w.Guards(f, s), false, func(e ast.Expr) bool { return isCallNamed(w, e, "Valid") })
				r.Check(g != nil, f, "block position moves when the block is exhausted", s, "bpos changes although the block iterator is still valid")
			}
		}
		r.Check(okStep, f, "moves to the adjacent block in its direction", nil, d.fn+" does not step bpos by one in its direction")
	}
	// ConcatIterator.Seek
	cs := w.F("table.ConcatIterator.Seek")
	okF, okR := false, false
	cs.walkDeep(func(own *Fn, n ast.Node) bool {
		rs, ok := n.(*ast.ReturnStmt)
		if !ok || own == cs || len(rs.Results) != 1 {
			return true
		}
		dir := w.bitGuard(w.Guards(cs, own.Host), rev)
		if op, _, ok := w.threeWay(rs.Results[0], true, func(e ast.Expr) bool { return isCallNamed(w, w.from(e), "Biggest") }, ck); ok {
			r.Check(op == token.GEQ && dir == 0, own, "forward: first table whose biggest key >= target", rs, "forward table search is `Biggest "+op.String()+" target`")
			okF = okF || (op == token.GEQ && dir == 0)
		}
		if op, _, ok := w.threeWay(rs.Results[0], true, func(e ast.Expr) bool { return isCallNamed(w, w.from(e), "Smallest") }, ck); ok {
			r.Check(op == token.LEQ && dir == 1, own, "reverse: last table whose smallest key <= target", rs, "reverse table search is `Smallest "+op.String()+" target`")
			okR = okR || (op == token.LEQ && dir == 1)
		}
		return true
	})
	r.Check(okF && okR, cs, "table chosen by Biggest >= key / Smallest <= key", nil, "ConcatIterator.Seek lacks one of the two table search predicates")
	// ConcatIterator.Next: direction
	cn := w.F("table.ConcatIterator.Next")
	idxF := w.Field("table.ConcatIterator.idx")
	up, down := false, false
	for _, o := range cn.SitesInl(selCallName(w, "table.ConcatIterator.setIdx")) {
		s := o.Node
		call := s.(*ast.CallExpr)
		a, b, okl := w.linear(o.SiteFn, call.Args[0], w.isField(idxF), 0)
		dir := w.bitGuard(w.Guards(o.SiteFn, s), rev)
		if okl && a == 1 && b == 1 {
			r.Check(dir == 0, cn, "forward: next table", s, "idx+1 is not taken exactly when REVERSED is clear")
			up = dir == 0
		}
		if okl && a == 1 && b == -1 {
			r.Check(dir == 1, cn, "reverse: previous table", s, "idx-1 is not taken exactly when REVERSED is set")
			down = dir == 1
		}
	}
	r.Check(up && down, cn, "ConcatIterator.Next moves one table in the iteration direction", nil, "expected setIdx(idx+1) / setIdx(idx-1) under the REVERSED test")
	for _, s := range cn.Sites(selCallName(w, "table.Iterator.Rewind")) {
		r.Check(insideLoop(w, cn, s), cn, "empty tables are skipped", s, "the next table is rewound outside the skip-empty loop")
	}
}

func constantInt64(c *types.Const) (int64, bool) {
	s := c.Val().ExactString()
	var v int64
	for _, ch := range s {
		if ch < '0' || ch > '9' {
			return 0, false
		}
		v = v*10 + int64(ch-'0')
	}
	return v, len(s) > 0
}

func propC18(c *Check) {
	ruleR18_1(c)
	ruleR18_2(c)
	ruleR18_3(c)
	ruleR18_4(c)
	ruleR18_5(c)
	ruleR18_6(c)
}
