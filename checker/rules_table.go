package main

// C18 (SSTables): agreement between table.Builder and the table reader, and the comparison
// polarity of the seek paths.

import (
	"go/ast"
	"go/token"
	"go/types"
	"sort"
	"strings"
)

func init() {
	register("C18", "Decides the structural clauses that make an SSTable readable as written: (R18.1) the block trailer Table.block parses from the end (checksum length, checksum, entry count, entry offsets) coincides field by field with what Builder.finishBlock appended, and the bytes the reader verifies against the checksum are the bytes the writer summed; (R18.2) likewise the table footer of buildData.Copy against Table.initIndex, and buildData.Size equals what Copy writes; (R18.3) an entry is header, key suffix, value in that order on both sides, the header's overlap/diff are the lengths the reader uses to rebuild the key from the block's base key, and the entry's offset is recorded before its bytes are appended; (R18.4) compress-then-encrypt on write is undone as decrypt-then-decompress on read, block checksums are taken over plain data and verified after both, the index checksum over the stored (encrypted) index and verified before decryption; (R18.5) max version, key count, smallest and biggest key come from every added entry / the first block's base key / a reverse rewind; (R18.6) seek comparisons: first entry >= key inside a block, last block whose base key <= key across blocks with the step to the next block at end of block, seek-for-prev steps back unless equal, forward/reverse dispatch on the REVERSED bit, and ConcatIterator picks the table by Biggest >= key (Smallest <= key in reverse). Does NOT decide round-trip equality for arbitrary entry sequences, the compression codecs, flatbuffer encoding, or block-boundary arithmetic for all sizes.", propC18)
}

func sortedByPos(ns []ast.Node) []ast.Node {
	out := append([]ast.Node(nil), ns...)
	sort.Slice(out, func(i, j int) bool { return out[i].Pos() < out[j].Pos() })
	return out
}

func reportLayout(r *RuleInfo, f *Fn, lr *layoutReader, what string) {
	var k keyer
	for _, p := range lr.problems {
		r.Check(false, f, k.key(what+": read coincides with a written field", f.W, p.node), p.node, p.msg)
	}
	for i := range lr.fields {
		fl := lr.fields[i]
		r.Check(fl.reads > 0, f, what+": field "+fl.String()+" is read back", nil, "the reader never reads the field "+fl.String()+" that the writer appends")
	}
}

func layoutString(fs []lfield) string {
	var s []string
	for _, f := range fs {
		s = append(s, f.String())
	}
	return strings.Join(s, " ")
}

func ruleR18_1(c *Check) {
	w := c.W
	r := c.Rule("R18.1", "E4", 8, "block trailer: the fields Builder.finishBlock appends after the entries (entry offsets, their count, checksum, checksum length) are exactly the regions Table.block slices from the end of the block, a length decoded from a u32 field being used only as the length the writer stored there; the prefix Table.block keeps as Block.data ends where the writer's checksum input ended, and Block.verifyCheckSum verifies Block.data against Block.checksum",
		"a reader that cuts the trailer differently from the writer reads entry offsets or checksums from the wrong bytes: entries are lost or blocks are rejected")
	fb := w.F("table.Builder.finishBlock")
	appendFn := w.Func("table.Builder.append")
	chkFn := w.Func("table.Builder.calculateChecksum")
	sites := sortedByPos(fb.Sites(selCall(appendFn)))
	var args []ast.Expr
	for _, s := range sites {
		args = append(args, s.(*ast.CallExpr).Args[0])
	}
	fields, problem := w.classifyAppended(fb, args)
	r.Check(problem == "" && len(fields) >= 4, fb, "trailer fields recognised", nil, "cannot derive the trailer layout from finishBlock: "+problem)
	if problem != "" || len(fields) == 0 {
		return
	}
	// the checksum call: how many trailer fields precede it (they are part of the summed bytes)
	chk := fb.Sites(selCall(chkFn))
	r.Check(len(chk) == 1, fb, "one checksum computation per block", nil, "expected one calculateChecksum call")
	covered := 0
	if len(chk) == 1 {
		for i, s := range sites {
			if s.Pos() < chk[0].Pos() {
				covered = i + 1
				r.DomAll(fb, "summed field appended before the checksum is computed", selNode(chk[0]), 0, selNode(s), 0)
			} else {
				r.DomAll(fb, "later field appended after the checksum is computed", selNode(s), 0, selNode(chk[0]), 0)
			}
		}
		// its input is data[:end]: everything appended so far
		arg := unparen(chk[0].(*ast.CallExpr).Args[0])
		se, isSlice := arg.(*ast.SliceExpr)
		okArg := isSlice && se.Low == nil && se.High != nil && w.fieldOf(se.X) == w.Field("table.bblock.data") && w.fieldOf(se.High) == w.Field("table.bblock.end")
		r.Check(okArg, fb, "checksum input is everything appended so far (data[:end])", chk[0], "calculateChecksum is not applied to data[:end]")
	}
	// reader
	bf := w.F("table.Table.block")
	dataFld := w.Field("table.Block.data")
	lr := &layoutReader{w: w, f: bf, fields: fields,
		isLen: func(e ast.Expr) bool {
			c, ok := e.(*ast.CallExpr)
			return ok && len(c.Args) == 1 && isBuiltin(w, c, "len") && w.fieldOf(c.Args[0]) == dataFld
		},
		region: func(n ast.Node) (bool, ast.Expr, ast.Expr, ast.Expr, ast.Expr) {
			se, ok := n.(*ast.SliceExpr)
			if !ok || w.fieldOf(se.X) != dataFld {
				return false, nil, nil, nil, nil
			}
			if _, isSel := unparen(se.X).(*ast.SelectorExpr); !isSel {
				return false, nil, nil, nil, nil
			}
			return true, se.Low, se.High, nil, nil
		}}
	lr.run()
	reportLayout(r, bf, lr, "block trailer ("+layoutString(fields)+")")
	// the prefix kept as Block.data = the writer's checksum input
	if covered <= len(fields) && len(chk) == 1 {
		want := fields[0].lo
		if covered > 0 {
			want = fields[covered-1].hi
		}
		ok := lr.prefixEnd != nil && lr.prefixEnd.eq(want)
		got := "none"
		if lr.prefixEnd != nil {
			got = lr.prefixEnd.String()
		}
		r.Check(ok, bf, "bytes kept for verification end where the summed bytes ended", lr.prefixAt, "Block.data is cut at "+got+", the writer's checksum covers [0, "+want.String()+")")
	}
	// Block.checksum is bound to the checksum field
	chkIdx, hasChk := lr.bufs[w.Field("table.Block.checksum")]
	okChk := hasChk && chkIdx >= 0 && fields[chkIdx].kind == "bytes" && covered <= chkIdx
	r.Check(okChk, bf, "Block.checksum is the checksum field", nil, "Block.checksum is not sliced from the field the writer stored the checksum in")
	// verifyCheckSum: VerifyChecksum(b.data, cs) with cs unmarshalled from b.checksum
	vf := w.F("table.Block.verifyCheckSum")
	okV := false
	vf.walk(func(n ast.Node) bool {
		call, ok := n.(*ast.CallExpr)
		if !ok || len(call.Args) != 2 {
			return true
		}
		if fn, _ := w.Callee(call).(*types.Func); fn != nil && fn.Name() == "VerifyChecksum" {
			okV = w.fieldOf(call.Args[0]) == dataFld
		}
		return true
	})
	unmOK := false
	vf.walk(func(n ast.Node) bool {
		call, ok := n.(*ast.CallExpr)
		if !ok || len(call.Args) != 2 {
			return true
		}
		if fn, _ := w.Callee(call).(*types.Func); fn != nil && fn.Name() == "Unmarshal" {
			unmOK = w.fieldOf(call.Args[0]) == w.Field("table.Block.checksum")
		}
		return true
	})
	r.Check(okV && unmOK, vf, "verifyCheckSum checks Block.data against Block.checksum", nil, "verifyCheckSum does not verify Block.data with the checksum unmarshalled from Block.checksum")
}

func ruleR18_2(c *Check) {
	w := c.W
	r := c.Rule("R18.2", "E4", 8, "table footer: what buildData.Copy writes after the blocks (index, index length, checksum, checksum length) are exactly the regions Table.initIndex reads from the end of the file; the bytes initIndex verifies are the index field, against the checksum unmarshalled from the checksum field; buildData.Size is the number of bytes Copy writes; the checksum Builder.Done stores was computed over the very index bytes it stores (after encryption)",
		"a footer parsed at other offsets than written makes every table unreadable or, worse, lets a wrong index pass")
	cp := w.F("table.buildData.Copy")
	var args []ast.Expr
	var loopArgs []ast.Expr
	for _, s := range sortedByPos(cp.Sites(selPred("copy", func(w *World, f *Fn, n ast.Node) bool {
		c, ok := n.(*ast.CallExpr)
		return ok && len(c.Args) == 2 && isBuiltin(w, c, "copy")
	}))) {
		call := s.(*ast.CallExpr)
		inLoop := false
		for p := w.parentOf(call); p != nil; p = w.parentOf(p) {
			switch p.(type) {
			case *ast.RangeStmt, *ast.ForStmt:
				inLoop = true
			}
		}
		if inLoop {
			loopArgs = append(loopArgs, call.Args[1])
			r.Check(len(args) == 0, cp, "blocks are written before the footer", call, "a block is copied after a footer field")
			continue
		}
		args = append(args, call.Args[1])
	}
	r.Check(len(loopArgs) == 1, cp, "one block-copy loop", nil, "expected one copy inside the loop over the blocks")
	fields, problem := w.classifyAppended(cp, args)
	r.Check(problem == "" && len(fields) >= 4, cp, "footer fields recognised", nil, "cannot derive the footer layout from buildData.Copy: "+problem)
	if problem != "" || len(fields) == 0 {
		return
	}
	// the blocks: copied as data[:end], in blockList order
	for _, a := range loopArgs {
		se, ok := unparen(a).(*ast.SliceExpr)
		r.Check(ok && se.Low == nil && se.High != nil && w.fieldOf(se.X) == w.Field("table.bblock.data") && w.fieldOf(se.High) == w.Field("table.bblock.end"), cp, "each block is written as data[:end]", a, "a block is not copied as data[:end] (the length recorded in the index is bblock.end)")
	}
	// every destination is dst[written:], written advancing by what copy returned
	ii := w.F("table.Table.initIndex")
	sizeFld := w.Field("table.Table.tableSize")
	readFns := map[types.Object]bool{w.Func("table.Table.read"): true, w.Func("table.Table.readNoFail"): true}
	lr := &layoutReader{w: w, f: ii, fields: fields,
		isLen: func(e ast.Expr) bool {
			_, isSel := e.(*ast.SelectorExpr)
			return isSel && w.fieldOf(e) == sizeFld
		},
		region: func(n ast.Node) (bool, ast.Expr, ast.Expr, ast.Expr, ast.Expr) {
			call, ok := n.(*ast.CallExpr)
			if !ok || len(call.Args) != 2 {
				return false, nil, nil, nil, nil
			}
			if o := w.Callee(call); o == nil || !readFns[o] {
				if fn, _ := w.Callee(call).(*types.Func); fn == nil || fn.Name() != "Bytes" || !sigIs(fn, []string{"int", "int"}, []string{"[]byte", "error"}) {
					return false, nil, nil, nil, nil
				}
			}
			return true, nil, nil, call.Args[0], call.Args[1]
		}}
	lr.run()
	reportLayout(r, ii, lr, "table footer ("+layoutString(fields)+")")
	// which field is the index, which the checksum: by what Done stores
	idxFld, chkFld := w.Field("table.buildData.index"), w.Field("table.buildData.checksum")
	fi, fc := -1, -1
	for i, f := range fields {
		if f.kind == "bytes" && f.obj == types.Object(idxFld) {
			fi = i
		}
		if f.kind == "bytes" && f.obj == types.Object(chkFld) {
			fc = i
		}
	}
	r.Check(fi >= 0 && fc >= 0, cp, "index and checksum are footer fields", nil, "buildData.index / buildData.checksum are not written by Copy")
	r.Check(len(lr.verified) == 1, ii, "the index is verified once", nil, "expected one VerifyChecksum call in initIndex")
	for _, v := range lr.verified {
		r.Check(v.dataField == fi, ii, "the verified bytes are the index field", v.node, "VerifyChecksum is not applied to the bytes read from the index field")
		r.Check(v.chkField == fc, ii, "verified against the stored checksum", v.node, "the expected checksum is not unmarshalled from the checksum field")
	}
	// indexStart/indexLen (used by readTableIndex) are the index field's position and length
	if fi >= 0 {
		st, ok1 := lr.env[w.Field("table.Table.indexStart")]
		ln, ok2 := lr.env[w.Field("table.Table.indexLen")]
		r.Check(ok1 && st.eq(fields[fi].lo), ii, "Table.indexStart is where the index field starts", nil, "indexStart does not equal the start of the index field")
		r.Check(ok2 && ln.eq(fields[fi].size), ii, "Table.indexLen is the index field's length", nil, "indexLen does not equal the stored index length")
		rt := w.F("table.Table.readTableIndex")
		okRT := false
		rt.walk(func(n ast.Node) bool {
			if call, ok := n.(*ast.CallExpr); ok && len(call.Args) == 2 && readFns[w.Callee(call)] {
				okRT = w.fieldOf(call.Args[0]) == w.Field("table.Table.indexStart") && w.fieldOf(call.Args[1]) == w.Field("table.Table.indexLen")
			}
			return true
		})
		r.Check(okRT, rt, "readTableIndex reads [indexStart, indexStart+indexLen)", nil, "readTableIndex does not read the index region recorded by initIndex")
	}
	// Done: Size = dataSize + footer; checksum over the stored index
	dn := w.F("table.Builder.Done")
	var sizeExpr ast.Expr
	var idxVar, chkVar types.Object
	dn.walk(func(n ast.Node) bool {
		as, ok := n.(*ast.AssignStmt)
		if !ok || len(as.Lhs) != len(as.Rhs) {
			return true
		}
		for i, l := range as.Lhs {
			if _, isSel := unparen(l).(*ast.SelectorExpr); !isSel {
				continue
			}
			switch w.fieldOf(l) {
			case w.Field("table.buildData.Size"):
				sizeExpr = as.Rhs[i]
			case idxFld:
				if id, ok := unparen(as.Rhs[i]).(*ast.Ident); ok {
					idxVar = w.Use(id)
				}
			case chkFld:
				if id, ok := unparen(as.Rhs[i]).(*ast.Ident); ok {
					chkVar = w.Use(id)
				}
			}
		}
		return true
	})
	r.Check(sizeExpr != nil && idxVar != nil && chkVar != nil, dn, "Done fills Size, index and checksum", nil, "Builder.Done does not assign buildData.Size/index/checksum from locals")
	if sizeExpr != nil && idxVar != nil && chkVar != nil && fi >= 0 && fc >= 0 {
		// evaluate Size with len(index) -> sym(index field), len(checksum) -> sym(checksum field), anything else integer local -> "D"
		var ev func(e ast.Expr) (aff, bool)
		ev = func(e ast.Expr) (aff, bool) {
			e = unparen(e)
			if v, ok := w.constInt(e); ok {
				return affC(v), true
			}
			switch x := e.(type) {
			case *ast.Ident:
				return affS("D"), true
			case *ast.BinaryExpr:
				a, ok1 := ev(x.X)
				b, ok2 := ev(x.Y)
				if ok1 && ok2 && x.Op == token.ADD {
					return a.add(b, 1), true
				}
			case *ast.CallExpr:
				if tv, ok := w.Info.Types[x.Fun]; ok && tv.IsType() && len(x.Args) == 1 {
					return ev(x.Args[0])
				}
				if isBuiltin(w, x, "len") && len(x.Args) == 1 {
					if id, ok := unparen(x.Args[0]).(*ast.Ident); ok {
						switch w.Use(id) {
						case idxVar:
							return affS(fields[fi].sym), true
						case chkVar:
							return affS(fields[fc].sym), true
						}
					}
				}
			}
			return aff{}, false
		}
		got, ok := ev(sizeExpr)
		want := affS("D")
		for _, f := range fields {
			want = want.add(f.size, 1)
		}
		r.Check(ok && got.eq(want), dn, "Size is the data size plus every footer field", sizeExpr, "buildData.Size = "+got.String()+", Copy writes "+want.String())
		// checksum computed over idxVar, after the (conditional) encryption of idxVar
		chkFn := w.Func("table.Builder.calculateChecksum")
		for _, s := range dn.Sites(selCall(chkFn)) {
			call := s.(*ast.CallExpr)
			id, ok := unparen(call.Args[0]).(*ast.Ident)
			r.Check(ok && w.Use(id) == idxVar, dn, "the stored checksum is computed over the stored index", call, "calculateChecksum is applied to something other than the index that is stored")
			for _, e := range dn.Sites(selCall(w.Func("table.Builder.encrypt"))) {
				r.DomAll(dn, "index checksum taken after encryption", selNode(s), 0, selNode(e), 0, excuseExpr(func(e ast.Expr) bool { return w.isCallTo(e, w.Func("table.Builder.shouldEncrypt")) }, false))
			}
		}
	}
}

func propC18(c *Check) {
	ruleR18_1(c)
	ruleR18_2(c)
}
