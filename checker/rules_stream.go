package main

// C24 (backup/load), C25 (stream snapshot), C26 (StreamWriter).

import (
	"go/ast"
	"go/token"
	"go/types"
	"strings"
)

func init() {
	register("C24", "Decides the wiring of backup and load: (R24.1) the `since` version reaches the iterators (Stream.SinceTs → IteratorOptions.SinceTs with AllVersions) where parseItem applies it; (R24.2) backed-up entries carry the item's meta without transaction bits, a discard-earlier-versions item is followed by a delete marker one version below, and a key's versions stop at the first deleted/expired one; (R24.3=R11.4) Load raises the next timestamp above every loaded version and finishes the loader before marking done; (R24.4=R25.1) the run reads one snapshot, so that the returned version is a valid resume point. Does NOT decide equality of restored contents.", propC24)
	register("C25", "Decides structural clauses of stream runs: (R25.1) no function run by a producer goroutine obtains a fresh read timestamp — the timestamp of all producers comes from state fixed once per run; (R25.2) Send is called only from the single streamKVs goroutine, which Orchestrate starts once, outside any loop; (R25.3) key ranges are half-open: a producer seeks the left end and stops at key >= right end, every range is sent once and the channel closed, consecutive ranges share their boundary. Does NOT decide exactly-once per key as a fact about data, nor user callbacks.", propC25)
	register("C26", "Decides structural clauses of StreamWriter: (R26.1) a new table starts only at a different user key and keys must arrive in strictly increasing internal-key order; (R26.2=R08.2) MANIFEST before publication; (R26.3) Flush: writers done → oracle reset above the streamed versions → wait for table creation → sort levels → sync directories → validate, and the pause taken by Prepare is released on every exit; (R26.4=R06.1/R06.2) same value placement rule as the write path; (R26.5) writer map, max version and previous level are only touched under writeLock. Does NOT decide equality of contents, nor batching/interleaving of streams.", propC26)
}

func ruleR24_1(c *Check) {
	w := c.W
	r := c.Rule("R24.1", "E1", 3, "DB.Backup sets stream.SinceTs = since; Stream.produceKVs copies st.SinceTs into IteratorOptions.SinceTs and sets AllVersions; Iterator.parseItem hides versions <= SinceTs only when SinceTs > 0 (R05.2)",
		"an incremental backup that ignores `since` re-dumps everything; one that filters with the wrong polarity misses the changes")
	b := w.F("badger.DB.Backup")
	ss := w.Field("badger.Stream.SinceTs")
	ok := false
	for _, s := range b.Sites(selStore(ss)) {
		if id, isID := unparen(s.(*ast.AssignStmt).Rhs[0]).(*ast.Ident); isID {
			if v, isV := w.Use(id).(*types.Var); isV && isParam(b, v) {
				ok = true
			}
		}
	}
	r.Check(ok, b, "since reaches Stream.SinceTs", nil, "DB.Backup no longer assigns stream.SinceTs from its parameter")
	p := w.F("badger.Stream.produceKVs")
	is := w.Field("badger.IteratorOptions.SinceTs")
	av := w.Field("badger.IteratorOptions.AllVersions")
	okS, okA := false, false
	p.walkDeep(func(own *Fn, n ast.Node) bool {
		if as, isAs := n.(*ast.AssignStmt); isAs && len(as.Lhs) == 1 {
			if w.fieldOf(as.Lhs[0]) == is && w.fieldOf(as.Rhs[0]) == ss {
				okS = true
			}
			if w.fieldOf(as.Lhs[0]) == av {
				if tv := w.Info.Types[as.Rhs[0]]; tv.Value != nil && tv.Value.String() == "true" {
					okA = true
				}
			}
		}
		return true
	})
	r.Check(okS, p, "Stream.SinceTs reaches the iterator options", nil, "produceKVs no longer sets iterOpts.SinceTs = st.SinceTs")
	r.Check(okA, p, "streams iterate all versions", nil, "produceKVs no longer sets AllVersions")
	ruleR05_2(c)
}

func ruleR24_2(c *Check) {
	w := c.W
	r := c.Rule("R24.2", "E4", 4, "Stream.Backup's KeyToList: Meta = item.meta &^ (bitTxn|bitFinTxn); an item with DiscardEarlierVersions is followed by a delete marker at Version()-1 and ends the key; a deleted/expired version ends the key; the value is copied unless the item is deleted/expired",
		"transaction bits in a backup make the loaded entries replay as an unterminated transaction (dropped at the next restart); without the delete marker, versions below a discard point come back after restore")
	f := w.F("badger.Stream.Backup")
	var ktl *Fn
	for _, l := range f.Lits {
		if as, ok := l.Host.(*ast.AssignStmt); ok && len(as.Lhs) == 1 && w.fieldOf(as.Lhs[0]) == w.Field("badger.Stream.KeyToList") {
			ktl = l
		}
	}
	if ktl == nil {
		panic(anchorError{"KeyToList literal in Stream.Backup"})
	}
	meta := w.Field("badger.Item.meta")
	okMeta := false
	var metaVar *types.Var
	ktl.walk(func(n ast.Node) bool {
		if as, ok := n.(*ast.AssignStmt); ok && len(as.Rhs) == 1 {
			if be, ok := unparen(as.Rhs[0]).(*ast.BinaryExpr); ok && be.Op == token.AND_NOT && w.fieldOf(be.X) == meta &&
				w.mentions(be.Y, w.Obj("badger.bitTxn")) && w.mentions(be.Y, w.Obj("badger.bitFinTxn")) {
				okMeta = true
				if id, ok := as.Lhs[0].(*ast.Ident); ok {
					metaVar, _ = w.Use(id).(*types.Var)
				}
			}
		}
		return true
	})
	r.Check(okMeta, ktl, "transaction bits cleared", nil, "no `item.meta &^ (bitTxn|bitFinTxn)`")
	// the KV literal's Meta uses that variable
	okUse := false
	ktl.walk(func(n ast.Node) bool {
		if kv, ok := n.(*ast.KeyValueExpr); ok {
			if id, ok := kv.Key.(*ast.Ident); ok && id.Name == "Meta" && metaVar != nil && w.mentions(kv.Value, metaVar) {
				okUse = true
			}
		}
		return true
	})
	r.Check(okUse, ktl, "cleared meta is what gets backed up", nil, "KV.Meta is not built from the cleared meta")
	// discard-earlier arm: delete marker at Version()-1
	okDel := false
	ktl.walk(func(n ast.Node) bool {
		cc, ok := n.(*ast.CaseClause)
		if !ok || len(cc.List) != 1 || !w.isCallTo(cc.List[0], w.Func("badger.Item.DiscardEarlierVersions")) {
			return true
		}
		hasMarker, ver1 := false, false
		ast.Inspect(cc, func(m ast.Node) bool {
			if kv, ok := m.(*ast.KeyValueExpr); ok {
				if id, ok := kv.Key.(*ast.Ident); ok {
					if id.Name == "Meta" && w.mentions(kv.Value, w.Obj("badger.bitDelete")) {
						hasMarker = true
					}
					if id.Name == "Version" {
						if be, ok := unparen(kv.Value).(*ast.BinaryExpr); ok && be.Op == token.SUB && w.isCallTo(be.X, w.Func("badger.Item.Version")) {
							if v, ok := w.constInt(be.Y); ok && v == 1 {
								ver1 = true
							}
						}
					}
				}
			}
			return true
		})
		okDel = hasMarker && ver1 && w.terminates(cc.Body)
		return true
	})
	r.Check(okDel, ktl, "discard point becomes a delete marker one version below and ends the key", nil, "the DiscardEarlierVersions arm does not append {Meta: bitDelete, Version: item.Version()-1} and return")
	okStop := false
	ktl.walk(func(n ast.Node) bool {
		if cc, ok := n.(*ast.CaseClause); ok && len(cc.List) == 1 && w.isCallTo(cc.List[0], w.Func("badger.Item.IsDeletedOrExpired")) && w.terminates(cc.Body) {
			okStop = true
		}
		return true
	})
	r.Check(okStop, ktl, "a deleted/expired version ends the key", nil, "no terminating IsDeletedOrExpired arm")
}

func ruleR25_1(c *Check) {
	w := c.W
	r := c.Rule("R25.1", "E3", 2, "one read timestamp per stream run: no function reachable (synchronously) from Stream.produceKVs calls DB.NewTransaction, DB.View or oracle.readTs through them — a producer's read timestamp comes from state fixed once per run (NewTransactionAt(st.readTs) or a timestamp taken once in Orchestrate)",
		"each producer goroutine iterates a different key range; with separate snapshots a transaction that commits between two producers' starts is emitted for one range and not for the other: not a consistent snapshot, and the version returned by Backup is not a safe resume point")
	p := w.F("badger.Stream.produceKVs")
	fresh := selOr(selCallName(w, "badger.DB.NewTransaction"), selCallName(w, "badger.DB.View"), selCallName(w, "badger.DB.Update"))
	seen := w.CG().Reach([]*Fn{p}, reachOpt{SkipAsync: true, Stop: func(cs *CallSite) bool {
		n := cs.Callee.Name
		// user callbacks and the transaction constructors themselves are not followed
		return n == "badger.DB.NewTransaction" || n == "badger.DB.NewTransactionAt" || n == "badger.DB.newTransaction" || n == "badger.DB.View" || cs.Kind == "ref"
	}})
	n := 0
	var k keyer
	for g := range seen {
		// only functions of the stream machinery itself (the iterator's error-logging path opens its own
		// transaction for diagnostics and emits nothing)
		if g.Root().Name == "badger.Item.yieldItemValue" {
			continue
		}
		for _, s := range g.Sites(fresh) {
			n++
			r.Check(false, g.Root(), "producer takes its own read timestamp", s, "each producer goroutine calls "+short(w, s)+" and so reads its own snapshot (reachable: "+strings.Join(chain(seen, g), " -> ")+")")
			_ = k
		}
	}
	// the managed branch uses the run's fixed timestamp
	for _, s := range p.Sites(selCallName(w, "badger.DB.NewTransactionAt")) {
		r.Check(w.fieldOf(s.(*ast.CallExpr).Args[0]) == w.Field("badger.Stream.readTs"), p, "managed producers read at the stream's timestamp", s, "NewTransactionAt argument is "+short(w, s.(*ast.CallExpr).Args[0]))
	}
	r.Check(true, p, "producer machinery analysed", nil, "")
	// positive side: a producer's read timestamp is a field of the Stream, and that field is assigned per run in
	// Orchestrate outside any loop, from one transaction that stays open until Orchestrate returns
	rts := w.Field("badger.Txn.readTs")
	orc := w.F("badger.Stream.Orchestrate")
	for _, s := range p.Sites(selStore(rts)) {
		as := s.(*ast.AssignStmt)
		fld := w.fieldOf(rhsFor(w, as, rts))
		okFld := fld != nil && fld.Pkg() != nil && w.mentions(as, fld) && isFieldOf(w, fld, "badger.Stream")
		r.Check(okFld, p, "producer reads at a timestamp stored in the Stream", s, "producer's readTs is "+short(w, rhsFor(w, as, rts)))
		if !okFld {
			continue
		}
		n := 0
		for _, st := range orc.Sites(selStore(fld)) {
			n++
			sas := st.(*ast.AssignStmt)
			fromTxn := w.fieldOf(sas.Rhs[0]) == rts
			r.Check(fromTxn && !insideLoop(w, orc, st), orc, "run timestamp taken once per run from one transaction", st, "Stream."+fld.Name()+" is not assigned once, outside loops, from a transaction's read timestamp")
			// that transaction is discarded only at the end (defer)
			okDefer := false
			orc.walk(func(x ast.Node) bool {
				if d, ok := x.(*ast.DeferStmt); ok && w.Callee(d.Call) == types.Object(w.Func("badger.Txn.Discard")) {
					okDefer = true
				}
				return true
			})
			r.Check(okDefer, orc, "snapshot transaction stays open for the whole run", st, "the transaction whose timestamp the producers use is not kept open (no deferred Discard)")
			// and it is taken before the producers start
			spawn := selPred("go producer", func(w *World, fn *Fn, x ast.Node) bool {
				g, ok := x.(*ast.GoStmt)
				if !ok {
					return false
				}
				if lit, ok := g.Call.Fun.(*ast.FuncLit); ok {
					return len(w.ByLit[lit].Sites(selCallName(w, "badger.Stream.produceKVs"))) > 0
				}
				return false
			})
			r.DomAll(orc, "producers started after the run timestamp is fixed", spawn, 0, selNode(st), 0, Excuse{Cond: func(e ast.Expr) bool {
				be, ok := e.(*ast.BinaryExpr)
				return ok && be.Op == token.EQL && w.fieldOf(be.X) == w.Field("badger.Stream.readTs")
			}, Val: false})
		}
		r.Exists(n >= 1, orc, "run timestamp assigned in Orchestrate", nil, "Stream."+fld.Name()+" is not assigned in Orchestrate")
		// the producer must not release the read mark a second time
		okDone := false
		for _, d := range p.Sites(selStore(w.Field("badger.Txn.doneRead"))) {
			if tv := w.Info.Types[d.(*ast.AssignStmt).Rhs[0]]; tv.Value != nil && tv.Value.String() == "true" {
				okDone = true
			}
		}
		r.Check(okDone, p, "producer transactions do not release the shared read mark", s, "a producer's Discard would mark the shared read timestamp done although only the snapshot transaction began it")
	}
}

func isFieldOf(w *World, fld *types.Var, typeName string) bool {
	st, ok := w.Named(typeName).Underlying().(*types.Struct)
	if !ok {
		return false
	}
	for i := 0; i < st.NumFields(); i++ {
		if st.Field(i) == fld {
			return true
		}
	}
	return false
}

func ruleR25_2(c *Check) {
	w := c.W
	r := c.Rule("R25.2", "E3", 3, "Stream.Send is called only inside streamKVs (and its closures); Orchestrate starts streamKVs from exactly one go statement that is not inside a loop; producers only send to kvChan",
		"Send implementations (StreamWriter.Write, backup writer) are not safe for concurrent use")
	send := w.Field("badger.Stream.Send")
	n := 0
	for _, o := range allSites(w, "badger", selPred("st.Send(…)", func(w *World, f *Fn, n ast.Node) bool {
		call, ok := n.(*ast.CallExpr)
		return ok && w.fieldOf(call.Fun) == send
	})) {
		n++
		r.Check(o.SiteFn.Root().Name == "badger.Stream.streamKVs", o.SiteFn, "Send called from streamKVs only", o.Node, "Stream.Send called from "+o.SiteFn.Root().Name)
	}
	r.Exists(n >= 1, nil, "Send call site", nil, "no call of Stream.Send found")
	sk := w.F("badger.Stream.streamKVs")
	orc := w.F("badger.Stream.Orchestrate")
	starts := 0
	for _, cs := range w.CG().CallSitesOf(sk) {
		starts++
		host := cs.Caller
		inLoop := false
		if host.Lit != nil {
			// literal hosted by a go statement in Orchestrate
			inLoop = insideLoop(w, host.Parent, host.Lit)
			_, isGo := host.Host.(*ast.GoStmt)
			r.Check(isGo && host.Root() == orc && !inLoop, host, "streamKVs started once, outside loops", cs.Node, "streamKVs is started from a loop or not from a go statement of Orchestrate")
		} else {
			r.Check(false, host, "streamKVs started by Orchestrate's goroutine", cs.Node, "streamKVs called from "+host.Name)
		}
	}
	r.Exists(starts == 1, sk, "single start", nil, "expected exactly one call of streamKVs")
}

func ruleR25_3(c *Check) {
	w := c.W
	r := c.Rule("R25.3", "E5", 4, "ranges are half-open [left, right): the producer seeks kr.left and stops when Compare(key, kr.right) >= 0 (only if right is non-empty); produceRanges sends every range once and closes rangeCh; DB.Ranges builds consecutive ranges that share their boundary key and the last one is open-ended",
		"with `>` a boundary key is emitted by two producers; with a gap between consecutive ranges keys are skipped")
	p := w.F("badger.Stream.produceKVs")
	it := p.LitVar("iterate")
	left, right := w.Field("badger.keyRange.left"), w.Field("badger.keyRange.right")
	okSeek := false
	for _, s := range it.Sites(selCallName(w, "badger.Iterator.Seek")) {
		if w.fieldOf(s.(*ast.CallExpr).Args[0]) == left {
			okSeek = true
		}
	}
	r.Check(okSeek, it, "producer seeks the left end of its range", nil, "iterate does not Seek(kr.left)")
	okStop := false
	it.walk(func(n ast.Node) bool {
		b, ok := n.(*ast.BranchStmt)
		if !ok || b.Tok != token.BREAK {
			return true
		}
		for _, g := range w.Guards(it, b) {
			if g.Implicit {
				continue
			}
			// Compare(key, kr.right) op 0, oriented with the key first, however it is spelled
			notRight := func(e ast.Expr) bool { return w.fieldOf(w.from(e)) != right }
			if op, call, ok := w.threeWay(g.Cond, g.Val, notRight, w.Func("bytes.Compare"), w.Func("y.CompareKeys")); ok && w.fieldOf(w.from(otherArg(call, notRight))) == right {
				r.Check(op == token.GEQ, it, "producer stops at key >= right end", b, "range end test is `key "+op.String()+" right`")
				okStop = true
			}
		}
		return true
	})
	r.Exists(okStop, it, "range end test present", nil, "iterate no longer stops at kr.right")
	pr := w.F("badger.Stream.produceRanges")
	rc := w.Field("badger.Stream.rangeCh")
	r.ExitsNeed(pr, "close(rangeCh)", selClose(rc), 0, exitAll)
	okAll := false
	pr.walk(func(n ast.Node) bool {
		if rs, ok := n.(*ast.RangeStmt); ok && containsSel(w, pr, rs.Body, selSend(rc)) {
			okAll = true
		}
		return true
	})
	r.Check(okAll, pr, "every range is sent", nil, "produceRanges does not send each element of ranges")
	rg := w.F("badger.DB.Ranges")
	// in the construction loop: right of the new range and `start` for the next are copies of the same key
	okShare, okOpen := false, false
	rg.walk(func(n ast.Node) bool {
		rs, ok := n.(*ast.RangeStmt)
		if !ok {
			return true
		}
		var keyVar types.Object
		if id, ok := rs.Value.(*ast.Ident); ok {
			keyVar = w.Use(id)
		}
		if keyVar == nil {
			return true
		}
		rightFromKey, startFromKey := false, false
		ast.Inspect(rs.Body, func(m ast.Node) bool {
			if kv, ok := m.(*ast.KeyValueExpr); ok {
				if id, ok := kv.Key.(*ast.Ident); ok && w.Use(id) == types.Object(right) && w.mentions(kv.Value, keyVar) {
					rightFromKey = true
				}
			}
			if as, ok := m.(*ast.AssignStmt); ok && len(as.Lhs) == 1 {
				// the variable carried to the next iteration as the next range's left end
				if id, ok := as.Lhs[0].(*ast.Ident); ok && w.mentions(as.Rhs[0], keyVar) {
					if v, ok := w.Use(id).(*types.Var); ok {
						ast.Inspect(rs.Body, func(m2 ast.Node) bool {
							if kv2, ok := m2.(*ast.KeyValueExpr); ok {
								if kid, ok := kv2.Key.(*ast.Ident); ok && w.Use(kid) == types.Object(left) && w.mentions(kv2.Value, v) {
									startFromKey = true
								}
							}
							return true
						})
					}
				}
			}
			return true
		})
		if rightFromKey && startFromKey {
			okShare = true
		}
		return true
	})
	rg.walk(func(n ast.Node) bool {
		if cl, ok := n.(*ast.CompositeLit); ok && isNamedType(w.TypeOf(cl), "keyRange") && len(cl.Elts) == 1 {
			if kv, ok := cl.Elts[0].(*ast.KeyValueExpr); ok && w.Use(kv.Key.(*ast.Ident)) == types.Object(left) {
				okOpen = true
			}
		}
		return true
	})
	r.Check(okShare, rg, "consecutive ranges share their boundary", nil, "the next range does not start at the previous range's right key")
	r.Check(okOpen, rg, "last range is open-ended", nil, "no final keyRange{left: start}")
}

func ruleR25_4(c *Check) {
	w := c.W
	r := c.Rule("R25.4", "E1+E6", 10, "each key once per producer: in produceKVs' scan the key just handled is remembered (a copy of item.Key()) before anything can skip the rest of the iteration, an item whose key equals it is stepped over with Next, and every `continue` of the scan is preceded in its iteration by that store or by an advance of the iterator (so the scan always moves and never hands the same key to KeyToList twice); every KV of a list goes into the output buffer; a full buffer is sent, and what is left is sent before the range ends; Stream.ToList stops at the first other key, at a deleted/expired version, after one version when NumVersionsToKeep is 1 and after a discard-earlier marker; streamKVs writes every received buffer into the batch it sends",
		"a key handed to KeyToList twice is delivered twice; a skipped remainder or an unsent last buffer loses keys")
	p := w.F("badger.Stream.produceKVs")
	it := p.LitVar("iterate")
	itemKey := w.Func("badger.Item.Key")
	// prevKey: the []byte local compared with item.Key() for equality and stored from it
	var prev *types.Var
	it.walk(func(n ast.Node) bool {
		call, ok := n.(*ast.CallExpr)
		if !ok || len(call.Args) != 2 {
			return true
		}
		fn, _ := w.Callee(call).(*types.Func)
		if fn == nil || fn.Name() != "Equal" {
			return true
		}
		for i, a := range call.Args {
			if w.isCallTo(a, itemKey) {
				if id, ok := unparen(call.Args[1-i]).(*ast.Ident); ok {
					if v, ok := w.Use(id).(*types.Var); ok && isByteSlice(v.Type()) {
						prev = v
					}
				}
			}
		}
		return true
	})
	if prev == nil {
		panic(anchorError{"previous-key variable of the stream producer's scan"})
	}
	store := selStoreVar(prev)
	next := selPred("itr.Next()", func(w *World, f *Fn, n ast.Node) bool {
		call, ok := n.(*ast.CallExpr)
		return ok && w.Callee(call) == types.Object(w.Func("badger.Iterator.Next"))
	})
	// the store is a copy of the current key
	for _, s := range it.Sites(store) {
		as, ok := s.(*ast.AssignStmt)
		if !ok || as.Tok == token.DEFINE && len(as.Rhs) == 1 && isNil(as.Rhs[0]) {
			continue
		}
		okCopy := false
		if len(as.Rhs) == 1 {
			if call, ok := unparen(as.Rhs[0]).(*ast.CallExpr); ok {
				if isBuiltin(w, call, "append") && call.Ellipsis.IsValid() && len(call.Args) == 2 && w.isCallTo(call.Args[1], itemKey) {
					okCopy = true
				}
				if (isCallNamed(w, call, "Copy") || isCallNamed(w, call, "SafeCopy") || isCallNamed(w, call, "KeyCopy")) && (w.mentions(call, itemKey) || isCallNamed(w, call, "KeyCopy")) {
					okCopy = true
				}
			}
		}
		r.Check(okCopy, it, "the remembered key is a copy of the current key", s, "prevKey is not a copy of item.Key() (the iterator reuses that buffer)")
	}
	// dedupe branch: Equal(item.Key(), prevKey) => Next
	okSkip := false
	for _, s := range it.Sites(next) {
		for _, g := range w.Guards(it, s) {
			if call, ok := unparen(g.Cond).(*ast.CallExpr); ok && g.Val && !g.Implicit && w.mentions(call, prev) && w.mentions(call, itemKey) {
				okSkip = true
			}
		}
	}
	r.Check(okSkip, it, "further versions of the key just handled are stepped over", nil, "no itr.Next() under bytes.Equal(item.Key(), prevKey)")
	// every continue of the scan loop is preceded by the store or an advance
	var scan *ast.ForStmt
	it.walk(func(n ast.Node) bool {
		if fs, ok := n.(*ast.ForStmt); ok && fs.Init != nil && scan == nil {
			if containsSel(w, it, fs.Init, selCallName(w, "badger.Iterator.Seek")) {
				scan = fs
			}
		}
		return true
	})
	r.Check(scan != nil, it, "scan loop found", nil, "no `for itr.Seek(…); itr.Valid(); {` loop in the producer")
	if scan != nil {
		keyToList := selPred("KeyToList", func(w *World, f *Fn, n ast.Node) bool {
			call, ok := n.(*ast.CallExpr)
			if !ok {
				return false
			}
			fld := w.fieldOf(call.Fun)
			return fld == w.Field("badger.Stream.KeyToList") || fld == w.Field("badger.Stream.KeyToListWithThreadId")
		})
		var k keyer
		ast.Inspect(scan.Body, func(n ast.Node) bool {
			switch x := n.(type) {
			case *ast.FuncLit:
				return false
			case *ast.ForStmt, *ast.RangeStmt:
				if n != ast.Node(scan) {
					return false // `continue` inside an inner loop belongs to that loop
				}
			case *ast.BranchStmt:
				if x.Tok == token.CONTINUE {
					res := it.Dominated(Occ{V: it.G().VertexOf(x), Node: x}, append(append(it.Occs(store, 0), it.Occs(next, 0)...), it.Occs(keyToList, 0)...))
					// dominance over the whole function is too weak for a loop (a store in an earlier iteration
					// dominates nothing here); require the store/advance to precede the continue inside the body
					okPos := false
					for _, s := range append(it.Sites(store), it.Sites(next)...) {
						if s.Pos() > scan.Body.Pos() && s.End() < x.Pos() {
							if as, ok := s.(*ast.AssignStmt); ok && as.Tok == token.DEFINE {
								continue
							}
							// not nested in a conditional the continue is not also nested in
							mine := map[ast.Node]bool{}
							for _, g := range w.Guards(it, x) {
								if !g.Implicit {
									mine[g.At] = true
								}
							}
							sub := true
							for _, g := range w.Guards(it, s) {
								if !g.Implicit && g.At != ast.Node(scan) && !mine[g.At] {
									sub = false
								}
							}
							if sub {
								okPos = true
							}
						}
					}
					_ = res
					r.Check(okPos, it, k.key("the scan moves on before it skips the rest of an iteration", w, x), x, "this `continue` is reached without the current key having been remembered or the iterator advanced: the same item is looked at again forever, or handed out twice")
				}
			}
			return true
		})
		// every KV of a list reaches the buffer
		okAll := false
		ast.Inspect(scan.Body, func(n ast.Node) bool {
			if rs, ok := n.(*ast.RangeStmt); ok && w.fieldOf(rs.X) == w.Field("pb.KVList.Kv") {
				for _, st := range rs.Body.List {
					if es, ok := st.(*ast.ExprStmt); ok && isCallNamed(w, es.X, "KVToBuffer") {
						okAll = true
					}
				}
			}
			return true
		})
		r.Check(okAll, it, "every KV of a key's list is buffered", nil, "KVToBuffer is not called unconditionally for each KV of the list")
	}
	// the last buffer is sent
	sendIt := it.LitVar("sendIt")
	r.ExitsNeed(it, "remaining buffer sent before the range ends", selCallFn(sendIt), 0, exitSuccess)
	// ToList's stops
	tl := w.F("badger.Stream.ToList")
	stops := map[string]bool{}
	tl.walk(func(n ast.Node) bool {
		b, ok := n.(*ast.BranchStmt)
		if !ok || b.Tok != token.BREAK {
			return true
		}
		var gsAll []Guard
		for _, g0 := range w.Guards(tl, b) {
			// a break under `A || B` is a stop for A and a stop for B
			if g0.Val && !g0.Implicit {
				if parts := flatten(g0.Cond, token.LOR); len(parts) > 1 {
					for _, p := range parts {
						gsAll = append(gsAll, Guard{Cond: unparen(p), Val: true, At: g0.At, Fn: g0.Fn})
					}
					continue
				}
			}
			gsAll = append(gsAll, g0)
		}
		for _, g := range gsAll {
			if g.Implicit {
				continue
			}
			switch {
			case isCallNamed(w, g.Cond, "IsDeletedOrExpired") && g.Val:
				stops["deleted"] = true
			case isCallNamed(w, g.Cond, "DiscardEarlierVersions") && g.Val:
				stops["discard"] = true
			case w.mentions(g.Cond, w.Field("badger.Options.NumVersionsToKeep")):
				stops["one"] = eqOf(g, true, w.isField(w.Field("badger.Options.NumVersionsToKeep")), w.isConst(1))
			default:
				if call, ok := unparen(g.Cond).(*ast.CallExpr); ok && !g.Val {
					if fn, _ := w.Callee(call).(*types.Func); fn != nil && fn.Name() == "Equal" {
						stops["otherkey"] = true
					}
				}
			}
		}
		return true
	})
	for _, s := range []string{"deleted", "discard", "one", "otherkey"} {
		r.Check(stops[s], tl, "ToList stops: "+s, nil, "Stream.ToList has no stop for: "+s)
	}
	// the other-key and deleted tests come before the KV is appended
	for _, s := range tl.Sites(selStore(w.Field("pb.KVList.Kv"))) {
		okG := false
		for _, g := range w.Guards(tl, s) {
			if call, ok := unparen(g.Cond).(*ast.CallExpr); ok && g.Implicit && g.Val {
				if fn, _ := w.Callee(call).(*types.Func); fn != nil && fn.Name() == "Equal" {
					okG = true
				}
			}
		}
		r.Check(okG, tl, "only versions of the requested key are listed", s, "a KV is appended without the key having been compared with the requested key")
	}
	// streamKVs: every received buffer is written into the batch
	sk := w.F("badger.Stream.streamKVs")
	kvCh := w.Field("badger.Stream.kvChan")
	for _, o := range sk.SitesDeep(selRecv(kvCh)) {
		// the CommClause body writes kvs into the batch
		var cc *ast.CommClause
		for p := w.parentOf(o.Site); p != nil; p = w.parentOf(p) {
			if c2, ok := p.(*ast.CommClause); ok {
				cc = c2
				break
			}
		}
		okW := false
		if cc != nil {
			for _, st := range cc.Body {
				ast.Inspect(st, func(m ast.Node) bool {
					if call, ok := m.(*ast.CallExpr); ok && (isCallNamed(w, call, "Write") || w.calleeFn(o.SiteFn, call) != nil && w.calleeFn(o.SiteFn, call).Parent == sk) {
						okW = true
					}
					return true
				})
			}
		}
		r.Check(okW, o.SiteFn, "a received buffer goes into the batch that is sent", o.Site, "a buffer received from kvChan is dropped")
	}
}

func ruleR25_5(c *Check) {
	w := c.W
	r := c.Rule("R25.5", "E1", 3, "DB.Ranges, merging fine-grained ranges into bins: a range that has been absorbed into the current bin (bin.right = range.right) is never looked at again — on every path from the absorption the index is advanced before the loop is left or the next bin starts; every bin starts at the first range not yet absorbed and the first range of a bin is consumed (index advanced) before the absorbing loop",
		"a range absorbed into one bin and used again as the start of the next makes two producers scan the same keys: every key in the overlap is delivered twice")
	f := w.F("badger.DB.Ranges")
	right := w.Field("badger.keyRange.right")
	g := f.G()
	n := 0
	var k keyer
	f.walk(func(x ast.Node) bool {
		fs, ok := x.(*ast.ForStmt)
		if !ok || fs.Post == nil {
			return true
		}
		inc, ok := fs.Post.(*ast.IncDecStmt)
		if !ok || inc.Tok != token.INC {
			return true
		}
		// absorption: a store X.right = Y.right in the body
		var absorb []ast.Node
		ast.Inspect(fs.Body, func(m ast.Node) bool {
			if as, ok := m.(*ast.AssignStmt); ok && len(as.Lhs) == 1 && len(as.Rhs) == 1 && w.fieldOf(as.Lhs[0]) == right && w.fieldOf(as.Rhs[0]) == right {
				absorb = append(absorb, as)
			}
			return true
		})
		if len(absorb) == 0 {
			return true
		}
		n++
		post := g.VertexOf(fs.Post)
		var breaks []int
		ast.Inspect(fs.Body, func(m ast.Node) bool {
			if b, ok := m.(*ast.BranchStmt); ok && b.Tok == token.BREAK {
				if v := g.VertexOf(b); v >= 0 {
					breaks = append(breaks, v)
				}
			}
			return true
		})
		// exits of the loop other than through the post statement: the nodes following the loop
		for _, a := range absorb {
			av := g.VertexOf(a)
			if av < 0 || post < 0 {
				r.Check(false, f, k.key("absorption and index advance located", w, a), a, "cannot place the absorption or the loop's post statement in the control-flow graph")
				continue
			}
			// leaving the loop without passing its post statement = leaving through a break
			// (break statements are edges, not vertices, of the graph: the goal is any vertex outside the loop)
			_ = breaks
			outside := func(v int) bool {
				nd := g.V[v].N
				return nd != nil && (nd.Pos() < fs.Pos() || nd.Pos() >= fs.End())
			}
			bad := g.pathAvoiding([]int{av}, outside, map[int]bool{post: true}, false) != nil
			r.Check(!bad, f, k.key("an absorbed range is stepped over before the bin is closed", w, a), a, "after `bin.right = range.right` the loop can be left without advancing the index: the same range also starts the next bin")
		}
		// the first range of the bin is consumed before this loop: an increment of the same index precedes the loop
		idx, _ := inc.X.(*ast.Ident)
		if idx != nil {
			incs := selPred("i++", func(w *World, fn *Fn, m ast.Node) bool {
				s, ok := m.(*ast.IncDecStmt)
				if !ok || s.Tok != token.INC || s == inc {
					return false
				}
				id, ok := s.X.(*ast.Ident)
				return ok && w.Use(id) == w.Use(idx)
			})
			r.DomAll(f, "the bin's first range is consumed before further ranges are absorbed", selNode(absorb...), 0, incs, 0)
		}
		return true
	})
	r.Exists(n == 1, f, "bin-building loop", nil, "no loop in DB.Ranges that absorbs ranges into a bin")
}

func propC25(c *Check) {
	ruleR12_6(c) // a stream's SinceTs iterators filter a copy of the level's table list, never the list itself
	ruleR25_5(c)
	ruleR25_1(c)
	ruleR25_2(c)
	ruleR25_3(c)
	ruleR25_4(c)
}

func ruleR24_3(c *Check) {
	w := c.W
	r := c.Rule("R24.3", "E4", 10, "field coverage of the round trip: the KV a backup emits for a version carries Key, Value, UserMeta, Version, ExpiresAt and Meta of the item; KVLoader.Set builds the entry from exactly those: Key = KeyWithTs(kv.Key, kv.Version), Value, UserMeta = kv.UserMeta[0], ExpiresAt, meta = kv.Meta[0] (so delete and discard-earlier markers survive); Load hands every KV of every list to the loader and finishes it before returning; the length prefix written by writeTo is the one Load reads (uint64, little endian, of the marshalled list)",
		"a field dropped on either side is lost for every restored key: an expiry that no longer expires, a delete marker restored as a live empty value")
	bk := w.F("badger.Stream.Backup")
	// the KV literal for a version: the one that mentions item.Version() for Version and a value
	wantKV := map[string]func(e ast.Expr) bool{
		"Key":       func(e ast.Expr) bool { return w.mentions(e, w.Func("badger.Item.Key")) || w.mentions(e, w.Func("badger.Item.KeyCopy")) },
		"Version":   func(e ast.Expr) bool { return w.isCallTo(e, w.Func("badger.Item.Version")) },
		"UserMeta":  func(e ast.Expr) bool { return w.mentions(e, w.Func("badger.Item.UserMeta")) },
		"ExpiresAt": func(e ast.Expr) bool { return w.isCallTo(e, w.Func("badger.Item.ExpiresAt")) },
	}
	found := false
	bk.walkDeep(func(own *Fn, n ast.Node) bool {
		cl, ok := n.(*ast.CompositeLit)
		if !ok || !isNamedType(w.TypeOf(cl), "KV") {
			return true
		}
		got := map[string]ast.Expr{}
		for _, el := range cl.Elts {
			if kv, ok := el.(*ast.KeyValueExpr); ok {
				if id, ok := kv.Key.(*ast.Ident); ok {
					got[id.Name] = kv.Value
				}
			}
		}
		if _, hasValue := got["Value"]; !hasValue {
			return true // the delete marker appended for DiscardEarlierVersions
		}
		found = true
		for name, p := range wantKV {
			e, ok := got[name]
			r.Check(ok && p(e), own, "backup KV."+name+" from the item", cl, "the KV emitted for a version does not carry "+name+" of the item")
		}
		// Meta: from item.meta (txn bits cleared, R24.2)
		e, ok := got["Meta"]
		okMeta := false
		if ok {
			ast.Inspect(e, func(m ast.Node) bool {
				if x, isE := m.(ast.Expr); isE && w.mentions(w.from(x), w.Field("badger.Item.meta")) {
					okMeta = true
				}
				return !okMeta
			})
		}
		r.Check(okMeta, own, "backup KV.Meta from the item's meta", cl, "the KV emitted for a version does not carry the item's meta byte")
		return true
	})
	r.Exists(found, bk, "KV literal of a version", nil, "no pb.KV literal with a Value in Stream.Backup")
	// loader side
	st := w.F("badger.KVLoader.Set")
	kvT := func(name string) *types.Var { return w.Field("pb.KV." + name) }
	ent := map[string]ast.Expr{}
	st.walk(func(n ast.Node) bool {
		cl, ok := n.(*ast.CompositeLit)
		if !ok || !isNamedType(w.TypeOf(cl), "Entry") {
			return true
		}
		for _, el := range cl.Elts {
			if kv, ok := el.(*ast.KeyValueExpr); ok {
				if id, ok := kv.Key.(*ast.Ident); ok {
					ent[id.Name] = kv.Value
				}
			}
		}
		return true
	})
	firstByteOf := func(e ast.Expr, fld *types.Var) bool {
		// a local defined (under len(kv.F) > 0) as kv.F[0]
		ok := false
		id, isId := unparen(e).(*ast.Ident)
		if !isId {
			return false
		}
		v, isVar := w.Use(id).(*types.Var)
		if !isVar {
			return false
		}
		for _, d := range w.DefsOf(st, v) {
			if ix, isIx := unparen(d).(*ast.IndexExpr); isIx && w.fieldOf(ix.X) == fld {
				if c0, isC := w.constInt(ix.Index); isC && c0 == 0 {
					ok = true
				}
			}
		}
		return ok
	}
	okKey := false
	if e, ok := ent["Key"]; ok {
		if call, isCall := unparen(e).(*ast.CallExpr); isCall && w.Callee(call) == types.Object(w.Func("y.KeyWithTs")) && len(call.Args) == 2 {
			okKey = w.fieldOf(call.Args[0]) == kvT("Key") && w.fieldOf(call.Args[1]) == kvT("Version")
		}
	}
	r.Check(okKey, st, "entry key is KeyWithTs(kv.Key, kv.Version)", nil, "KVLoader.Set does not restore the key at the backed-up version")
	r.Check(ent["Value"] != nil && w.fieldOf(ent["Value"]) == kvT("Value"), st, "entry value from kv.Value", nil, "KVLoader.Set does not restore the value")
	r.Check(ent["ExpiresAt"] != nil && w.fieldOf(ent["ExpiresAt"]) == kvT("ExpiresAt"), st, "entry expiry from kv.ExpiresAt", nil, "KVLoader.Set does not restore the expiry")
	r.Check(ent["UserMeta"] != nil && firstByteOf(ent["UserMeta"], kvT("UserMeta")), st, "entry user meta from kv.UserMeta[0]", nil, "KVLoader.Set does not restore the user meta byte")
	r.Check(ent["meta"] != nil && firstByteOf(ent["meta"], kvT("Meta")), st, "entry meta from kv.Meta[0]", nil, "KVLoader.Set does not restore the meta byte (delete / discard-earlier markers)")
	// Load: every KV of every list goes to the loader; Finish before the success return
	ld := w.F("badger.DB.Load")
	set, fin := selCallName(w, "badger.KVLoader.Set"), selCallName(w, "badger.KVLoader.Finish")
	okRange := false
	for _, s := range ld.Sites(set) {
		for p := w.parentOf(s); p != nil; p = w.parentOf(p) {
			if rs, ok := p.(*ast.RangeStmt); ok && w.fieldOf(rs.X) == w.Field("pb.KVList.Kv") {
				okRange = true
				r.Check(len(w.Guards(ld, s)) == 0 || onlyLoopGuards(w, ld, s), ld, "every KV of a list is loaded", s, "KVLoader.Set is called only for some KVs")
			}
		}
		r.Check(w.errIsFatal(ld, s.(*ast.CallExpr)), ld, "a KV that cannot be loaded fails Load", s, "the error of KVLoader.Set is ignored")
	}
	r.Check(okRange, ld, "Load ranges over list.Kv", nil, "KVLoader.Set is not called inside a range over the list's KVs")
	r.ExitsNeed(ld, "KVLoader.Finish", fin, 0, exitSuccess)
	for _, s := range ld.Sites(fin) {
		r.Check(w.errIsFatal(ld, s.(*ast.CallExpr)), ld, "a failed flush of the loader fails Load", s, "the error of KVLoader.Finish is ignored")
	}
	// framing: writeTo writes uint64 LE size of the list then the marshalled list; Load reads a uint64 LE and that many bytes
	wt := w.F("badger.writeTo")
	le := w.ObjIn("encoding/binary", "LittleEndian")
	okW, okR := false, false
	wt.walk(func(n ast.Node) bool {
		if call, ok := n.(*ast.CallExpr); ok && len(call.Args) == 3 {
			if fn, _ := w.Callee(call).(*types.Func); fn != nil && fn.Name() == "Write" && fn.Pkg() != nil && fn.Pkg().Path() == "encoding/binary" {
				okW = w.mentions(call.Args[1], le) && w.TypeOf(call.Args[2]) != nil && w.TypeOf(call.Args[2]).String() == "uint64"
			}
		}
		return true
	})
	ld.walk(func(n ast.Node) bool {
		if call, ok := n.(*ast.CallExpr); ok && len(call.Args) == 3 {
			if fn, _ := w.Callee(call).(*types.Func); fn != nil && fn.Name() == "Read" && fn.Pkg() != nil && fn.Pkg().Path() == "encoding/binary" {
				t := w.TypeOf(call.Args[2])
				okR = w.mentions(call.Args[1], le) && t != nil && t.String() == "*uint64"
			}
		}
		return true
	})
	r.Check(okW && okR, wt, "length prefix: uint64, little endian, on both sides", nil, "writeTo and Load disagree on the list length prefix")
}

func ruleR24_4(c *Check) {
	w := c.W
	r := c.Rule("R24.4", "E5", 4, "the version Stream.Backup returns — the `since` of the next incremental backup — is the running maximum of the versions of the KVs it wrote (raised in Send for every KV of every list, `if max < kv.Version { max = kv.Version }`), not a property of the database at return time; DB.Backup returns what Stream.Backup returned",
		"a returned version above what was dumped (e.g. the database's current maximum) makes the next incremental backup skip every commit that landed while this backup was running")
	bk := w.F("badger.Stream.Backup")
	ver := w.Field("pb.KV.Version")
	// the variable returned on success
	var acc *types.Var
	for _, e := range bk.successExits() {
		rs := e.Node.(*ast.ReturnStmt)
		if len(rs.Results) != 2 {
			continue
		}
		id, ok := unparen(rs.Results[0]).(*ast.Ident)
		if !ok {
			r.Check(false, bk, "returned version is the maximum dumped", rs, "Stream.Backup returns "+short(w, rs.Results[0])+", not the running maximum of the versions it wrote")
			continue
		}
		acc, _ = w.Use(id).(*types.Var)
	}
	if acc == nil {
		return
	}
	isAcc := func(e ast.Expr) bool { id, ok := unparen(e).(*ast.Ident); return ok && w.Use(id) == types.Object(acc) }
	isVer := func(e ast.Expr) bool { _, isSel := unparen(e).(*ast.SelectorExpr); return isSel && w.fieldOf(e) == ver }
	n := 0
	var k keyer
	bk.walkDeep(func(own *Fn, nd ast.Node) bool {
		as, ok := nd.(*ast.AssignStmt)
		if !ok || len(as.Lhs) != 1 || len(as.Rhs) != 1 || !isAcc(as.Lhs[0]) || as.Tok == token.DEFINE {
			return true
		}
		n++
		okRhs := isVer(as.Rhs[0])
		op, g := w.guardRel(w.Guards(own, as), isVer, isAcc, false)
		r.Check(okRhs && g != nil && (op == token.GTR || op == token.GEQ), own, k.key("raised to a larger dumped version", w, as), as, "the returned version is not maintained as `if max < kv.Version { max = kv.Version }`")
		// for every KV: in a range over the list's KVs, not under further conditions
		inRange := false
		for p := w.parentOf(as); p != nil; p = w.parentOf(p) {
			if rs, ok := p.(*ast.RangeStmt); ok && w.fieldOf(rs.X) == w.Field("pb.KVList.Kv") {
				inRange = true
			}
		}
		r.Check(inRange, own, k.key("every KV of every list takes part", w, as), as, "the maximum is not computed in a range over list.Kv")
		for _, gd := range w.Guards(own, as) {
			if _, ok := w.cmpRoles(gd.Cond, gd.Val, isVer, isAcc); ok || gd.Implicit {
				continue
			}
			if _, isFor := gd.At.(*ast.ForStmt); isFor {
				continue
			}
			r.Check(false, own, k.key("no KV is left out of the maximum", w, as), as, "a KV takes part in the returned version only under "+short(w, gd.Cond))
		}
		return true
	})
	r.Exists(n >= 1, bk, "running maximum maintained", nil, "the variable Stream.Backup returns is never raised from kv.Version")
	db := w.F("badger.DB.Backup")
	okD := false
	for _, e := range db.allExits() {
		rs := e.Node.(*ast.ReturnStmt)
		if len(rs.Results) == 1 && w.isCallTo(rs.Results[0], w.Func("badger.Stream.Backup")) {
			okD = true
		}
	}
	r.Check(okD, db, "DB.Backup returns Stream.Backup's result", nil, "DB.Backup does not return the result of Stream.Backup")
}

// onlyLoopGuards: every guard of n in f is a loop condition or an error-return guard preceding it.
func onlyLoopGuards(w *World, f *Fn, n ast.Node) bool {
	for _, g := range w.Guards(f, n) {
		if _, isFor := g.At.(*ast.ForStmt); isFor {
			continue
		}
		if g.Implicit && w.errNonNil(g.Cond, !g.Val) {
			continue
		}
		if g.Implicit {
			// early exits on read errors (err == io.EOF → break, err != nil → return)
			if w.mentions(g.Cond, w.Obj("io.EOF")) {
				continue
			}
		}
		return false
	}
	return true
}

// R24.5: a batch handed to the asynchronous write path is not written again by the sender.
func ruleR24_5(c *Check) {
	w := c.W
	r := c.Rule("R24.5", "E10", 2, "a slice of entries handed to the asynchronous write path (DB.batchSetAsync, DB.sendToWriteCh keep it in the request until the write loop applied it) is given away: the variable or field it came from is never re-sliced (`x = x[:0]`, `append(x[:0], …)`) anywhere — it is replaced by a fresh allocation, nil or a literal before it is filled again",
		"re-using the backing array overwrites entries of a batch that is still queued: earlier entries are never written and later ones twice, while Load reports success")
	async := []types.Object{w.Func("badger.DB.batchSetAsync"), w.Func("badger.DB.sendToWriteCh")}
	var k keyer
	n := 0
	for _, f := range w.Fns {
		if shortPkg(f.Pkg) != "badger" || isCmdPkg(f) || f.Body == nil {
			continue
		}
		f := f
		f.walk(func(x ast.Node) bool {
			call, ok := x.(*ast.CallExpr)
			if !ok || len(call.Args) == 0 {
				return true
			}
			isAsync := false
			for _, o := range async {
				if w.Callee(call) == o {
					isAsync = true
				}
			}
			if !isAsync {
				return true
			}
			n++
			arg := unparen(call.Args[0])
			// the thing handed over: a struct field or a local variable
			var stores []Occ
			what := short(w, arg)
			if fld := w.fieldOf(arg); fld != nil {
				stores = allStores(w, fld)
			} else if id, isId := arg.(*ast.Ident); isId {
				if v, isVar := w.Use(id).(*types.Var); isVar && !v.IsField() {
					for _, o := range f.Root().SitesDeep(selStoreVar(v)) {
						stores = append(stores, o)
					}
				}
			} else {
				r.Check(true, f, k.key("batch handed over is a fresh expression", w, call), call, "")
				return true
			}
			bad := 0
			for _, o := range stores {
				as, isAs := o.Node.(*ast.AssignStmt)
				if !isAs {
					continue
				}
				for i, l := range as.Lhs {
					same := types.ExprString(unparen(l)) == types.ExprString(arg) || (w.fieldOf(l) != nil && w.fieldOf(l) == w.fieldOf(arg))
					if !same || len(as.Rhs) != len(as.Lhs) {
						continue
					}
					reslice := false
					ast.Inspect(as.Rhs[i], func(m ast.Node) bool {
						if se, isSl := m.(*ast.SliceExpr); isSl {
							if (w.fieldOf(se.X) != nil && w.fieldOf(se.X) == w.fieldOf(arg)) || types.ExprString(unparen(se.X)) == types.ExprString(arg) {
								reslice = true
							}
						}
						return true
					})
					if reslice {
						bad++
						r.Check(false, o.SiteFn, k.key("handed-over batch is not re-sliced", w, as), as, what+" is handed to the asynchronous write path at "+w.Position(call.Pos())+" and re-sliced here: the next fill overwrites entries of a batch that may still be queued")
					}
				}
			}
			if bad == 0 {
				r.Check(true, f, k.key("handed-over batch is replaced, not re-used", w, call), call, "")
			}
			return true
		})
	}
	r.Exists(n >= 3, nil, "asynchronous hand-over sites", nil, "expected the call sites of batchSetAsync and sendToWriteCh")
}

func propC24(c *Check) {
	ruleR24_5(c)
	ruleR12_6(c) // SinceTs iterators (incremental backups) filter a copy of the level's table list
	ruleR24_1(c)
	ruleR24_2(c)
	ruleR24_3(c)
	ruleR24_4(c)
	ruleR11_4(c)
	ruleR25_1(c)
}

// ---- C26 ----

func ruleR26_1(c *Check) {
	w := c.W
	r := c.Rule("R26.1", "E5", 2, "sortedWriter.Add rejects a key that is not strictly greater (CompareKeys(key, lastKey) <= 0 ⇒ error) before anything is written, and (R14.2) starts a new table only when the user key changes",
		"unsorted or duplicate internal keys produce a table whose binary search misses keys")
	f := w.F("badger.sortedWriter.Add")
	lk := w.Field("badger.sortedWriter.lastKey")
	var cmp ast.Expr
	f.walk(func(n ast.Node) bool {
		if is, ok := n.(*ast.IfStmt); ok {
			for _, p := range flatten(is.Cond, token.LAND) {
				if be, ok := unparen(p).(*ast.BinaryExpr); ok && w.isCallTo(be.X, w.Func("y.CompareKeys")) {
					call := unparen(be.X).(*ast.CallExpr)
					if w.fieldOf(call.Args[1]) == lk {
						v, _ := w.constInt(be.Y)
						okv := be.Op == token.LEQ && v == 0 && w.terminates(is.Body.List)
						r.Check(okv, f, "keys must be strictly increasing", is, "order test is CompareKeys(key,lastKey) "+be.Op.String()+" 0 or does not return an error")
						cmp = is.Cond
					}
				}
			}
		}
		return true
	})
	r.Exists(cmp != nil, f, "sorted-order guard present", nil, "sortedWriter.Add no longer compares the key with lastKey")
	if cmp != nil {
		r.DomAll(f, "order checked before the entry is added", selOr(selCallName(w, "table.Builder.Add"), selCallName(w, "table.Builder.AddStaleKey")), 0, selNode(cmp), 0)
	}
	ruleR14_2(c)
}

func ruleR26_3(c *Check) {
	w := c.W
	r := c.Rule("R26.3", "E1", 6, "StreamWriter.Flush success path: every writer Done → oracle reset (R11.5) → throttle.Finish (tables written) → sortTables on every level → syncDir of both directories → validate; sw.done runs on every exit",
		"validating or syncing before all tables exist certifies a partial tree; skipping the sort leaves levels unsearchable")
	f := w.F("badger.StreamWriter.Flush")
	done := selCallName(w, "badger.sortedWriter.Done")
	fin := selPred("throttle.Finish", func(w *World, fn *Fn, n ast.Node) bool {
		call, ok := n.(*ast.CallExpr)
		if !ok {
			return false
		}
		s, ok := unparen(call.Fun).(*ast.SelectorExpr)
		return ok && s.Sel.Name == "Finish" && w.fieldOf(s.X) == w.Field("badger.StreamWriter.throttle")
	})
	srt := selCallName(w, "badger.levelHandler.sortTables")
	sd := selCallName(w, "badger.DB.syncDir")
	val := selCallName(w, "badger.levelsController.validate")
	r.Exists(len(f.Sites(done)) >= 1, f, "writers are finished", nil, "Flush no longer calls Done on its writers")
	r.NeverAfterAll(f, "no writer finished after the tables were awaited", fin, 0, done, 0)
	r.DomAll(f, "levels sorted after all tables were written", srt, 0, fin, 0)
	r.DomAll(f, "directories synced after sorting", sd, 0, fin, 0)
	r.DomAll(f, "validate after the directory sync", val, 0, sd, 0)
	r.ExitsNeed(f, "validate", val, 0, exitSuccess)
	// sortTables for every level
	okAll := false
	f.walk(func(n ast.Node) bool {
		if rs, ok := n.(*ast.RangeStmt); ok && w.fieldOf(rs.X) == w.Field("badger.levelsController.levels") && containsSel(w, f, rs.Body, srt) {
			okAll = true
		}
		return true
	})
	r.Check(okAll, f, "every level is sorted", nil, "sortTables is not called for each level")
	// both directories
	dirs := map[*types.Var]bool{}
	for _, s := range f.Sites(sd) {
		dirs[w.fieldOf(s.(*ast.CallExpr).Args[0])] = true
	}
	r.Check(dirs[w.Field("badger.Options.Dir")] && dirs[w.Field("badger.Options.ValueDir")], f, "both directories synced", nil, "Dir or ValueDir is not synced by Flush")
}

func ruleR26_5(c *Check) {
	w := c.W
	r := c.Rule("R26.5", "E2", 4, "StreamWriter.writers, maxVersion and prevLevel are read and written only while writeLock is held (Prepare*, Write, Flush, Cancel take it; helpers are called with it held)",
		"Write may be called from several goroutines (one per stream): unsynchronised access corrupts the writer map or loses the max version")
	lock := w.Field("badger.StreamWriter.writeLock")
	var k keyer
	for _, name := range []string{"badger.StreamWriter.writers", "badger.StreamWriter.maxVersion", "badger.StreamWriter.prevLevel"} {
		fld := w.Field(name)
		for _, o := range allSites(w, "badger", selUse(fld)) {
			if o.SiteFn.Root().Name == "badger.DB.NewStreamWriter" {
				continue
			}
			var trail []string
			ok := o.SiteFn.HeldDeep(o.Node, lock, 2, 2, &trail)
			r.Check(ok, o.SiteFn, k.key(fld.Name()+" under writeLock", w, o.Node), o.Node, joinTrail(trail))
		}
	}
}

func propC26(c *Check) {
	ruleR26_1(c)
	ruleR08_2(c)
	ruleR26_3(c)
	ruleR06_1(c)
	ruleR06_2(c)
	ruleR26_5(c)
	ruleR11_5(c)
	ruleR29_1(c)
	ruleR06_6(c) // one vlog.write call serves the requests of several streams across a rotation: each pointer names its own file
	ruleR11_2(c) // after re-open the oracle starts above every streamed version, wherever the incremental load put it
}
