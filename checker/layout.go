package main

// Layout agreement between a writer that appends a trailer field by field and a reader that
// parses it from the end (E4, affine offsets).
//
// Writer side: the ordered list of appended fields, each with a size that is a constant (u32)
// or a symbol (the length of a byte string, four times the length of a u32 slice), and, for
// u32 fields, the symbol whose value they hold (`U32ToBytes(uint32(len(x)))` holds len(x)).
// Reader side: the function is walked in source order with an environment that maps integer
// locals and fields to affine forms over L (the total length) and the writer's symbols. Every
// slice of, or positioned read from, the buffer must coincide exactly with one written field
// (or be a prefix ending at a field boundary); a u32 decoded from a field evaluates to the
// symbol the writer stored there. Nothing is executed; no solver is involved: forms are
// compared for syntactic equality after normalisation.

import (
	"fmt"
	"go/ast"
	"go/token"
	"go/types"
	"sort"
	"strings"
)

type aff struct {
	c int64
	t map[string]int64
}

func affC(c int64) aff { return aff{c: c, t: map[string]int64{}} }
func affS(s string) aff { return aff{t: map[string]int64{s: 1}} }

func (a aff) add(b aff, sign int64) aff {
	out := aff{c: a.c + sign*b.c, t: map[string]int64{}}
	for k, v := range a.t {
		out.t[k] = v
	}
	for k, v := range b.t {
		out.t[k] += sign * v
		if out.t[k] == 0 {
			delete(out.t, k)
		}
	}
	return out
}

func (a aff) scale(k int64) aff {
	out := aff{c: a.c * k, t: map[string]int64{}}
	for s, v := range a.t {
		if v*k != 0 {
			out.t[s] = v * k
		}
	}
	return out
}

func (a aff) isConst() bool { return len(a.t) == 0 }

func (a aff) eq(b aff) bool {
	if a.c != b.c || len(a.t) != len(b.t) {
		return false
	}
	for k, v := range a.t {
		if b.t[k] != v {
			return false
		}
	}
	return true
}

func (a aff) String() string {
	var ks []string
	for k := range a.t {
		ks = append(ks, k)
	}
	sort.Strings(ks)
	var parts []string
	for _, k := range ks {
		switch v := a.t[k]; v {
		case 1:
			parts = append(parts, "+"+k)
		case -1:
			parts = append(parts, "-"+k)
		default:
			parts = append(parts, fmt.Sprintf("%+d*%s", v, k))
		}
	}
	if a.c != 0 || len(parts) == 0 {
		parts = append(parts, fmt.Sprintf("%+d", a.c))
	}
	return strings.TrimPrefix(strings.Join(parts, ""), "+")
}

type lfield struct {
	kind   string       // "u32", "bytes", "u32slice"
	obj    types.Object // the object written (bytes, u32slice) or whose length is held (u32)
	sym    string       // symbol of len(obj)
	size   aff
	lo, hi aff // offsets from the start of the buffer, in terms of L and the symbols
	node   ast.Node
	reads  int
}

func (f lfield) String() string {
	switch f.kind {
	case "u32":
		return "u32(" + f.sym + ")"
	case "u32slice":
		return "u32s[" + f.sym + "]"
	}
	return "bytes[" + f.sym + "]"
}

// classifyAppended turns the expressions a writer appends, in order, into fields.
func (w *World) classifyAppended(f *Fn, args []ast.Expr) ([]lfield, string) {
	syms := map[types.Object]string{}
	used := map[string]bool{}
	symOf := func(o types.Object) string {
		if s, ok := syms[o]; ok {
			return s
		}
		s := "len(" + o.Name() + ")"
		for used[s] {
			s += "'"
		}
		used[s] = true
		syms[o] = s
		return s
	}
	objOf := func(e ast.Expr) types.Object {
		e = unparen(e)
		if v := w.fieldOf(e); v != nil {
			if _, isSel := e.(*ast.SelectorExpr); isSel {
				return v
			}
		}
		if id, ok := e.(*ast.Ident); ok {
			return w.Use(id)
		}
		return nil
	}
	var out []lfield
	for _, a := range args {
		e := unparen(a)
		if call, ok := e.(*ast.CallExpr); ok && len(call.Args) == 1 {
			fn, _ := w.Callee(call).(*types.Func)
			if fn != nil {
				switch {
				case isU32Encode(fn):
					// U32ToBytes(uint32(len(x)))
					inner := unparen(call.Args[0])
					for {
						c, ok := inner.(*ast.CallExpr)
						if !ok || len(c.Args) != 1 {
							break
						}
						if tv, ok := w.Info.Types[c.Fun]; ok && tv.IsType() {
							inner = unparen(c.Args[0])
							continue
						}
						break
					}
					lc, ok := inner.(*ast.CallExpr)
					if !ok || !isBuiltin(w, lc, "len") {
						return nil, "u32 field does not hold a length: " + types.ExprString(a)
					}
					o := objOf(lc.Args[0])
					if o == nil {
						return nil, "u32 field holds the length of an unnamed value: " + types.ExprString(a)
					}
					out = append(out, lfield{kind: "u32", obj: o, sym: symOf(o), size: affC(4), node: a})
					continue
				case isU32SliceEncode(fn):
					o := objOf(call.Args[0])
					if o == nil {
						return nil, "u32 slice field of an unnamed value: " + types.ExprString(a)
					}
					out = append(out, lfield{kind: "u32slice", obj: o, sym: symOf(o), size: affS(symOf(o)).scale(4), node: a})
					continue
				}
			}
		}
		o := objOf(e)
		if o == nil {
			return nil, "appended value is neither a named byte string nor a u32 encoding: " + types.ExprString(a)
		}
		out = append(out, lfield{kind: "bytes", obj: o, sym: symOf(o), size: affS(symOf(o)), node: a})
	}
	// positions from the end
	hi := affS("L")
	for i := len(out) - 1; i >= 0; i-- {
		out[i].hi = hi
		out[i].lo = hi.add(out[i].size, -1)
		hi = out[i].lo
	}
	return out, ""
}

func sigIs(fn *types.Func, params []string, results []string) bool {
	sig, ok := fn.Type().(*types.Signature)
	if !ok || sig.Params().Len() != len(params) || sig.Results().Len() != len(results) {
		return false
	}
	for i, p := range params {
		if sig.Params().At(i).Type().String() != p {
			return false
		}
	}
	for i, p := range results {
		if sig.Results().At(i).Type().String() != p {
			return false
		}
	}
	return true
}

func isU32Encode(fn *types.Func) bool      { return fn.Name() == "U32ToBytes" && sigIs(fn, []string{"uint32"}, []string{"[]byte"}) }
func isU32SliceEncode(fn *types.Func) bool { return fn.Name() == "U32SliceToBytes" && sigIs(fn, []string{"[]uint32"}, []string{"[]byte"}) }
func isU32Decode(fn *types.Func) bool      { return sigIs(fn, []string{"[]byte"}, []string{"uint32"}) }
func isU32SliceDecode(fn *types.Func) bool { return sigIs(fn, []string{"[]byte"}, []string{"[]uint32"}) }

// layoutReader walks a parsing function.
type layoutReader struct {
	w      *World
	f      *Fn
	fields []lfield
	env    map[types.Object]aff
	bufs   map[types.Object]int // byte-slice locals/fields currently bound to a field's region
	isLen  func(e ast.Expr) bool
	// region: n is a read of the buffer; returns the [lo, hi) expressions (nil lo = 0, nil hi = L,
	// or pos/size for positioned reads)
	region    func(n ast.Node) (isRead bool, lo, hi, pos, sz ast.Expr)
	seen      map[ast.Node]bool
	problems  []layoutProblem
	prefixEnd *aff     // end of the last prefix slice assigned back to the buffer
	prefixAt  ast.Node // where
	presetField map[*types.Var]aff // fields whose value is known from the writer (header.diff = len(suffix))
	unm       map[types.Object]int // proto.Unmarshal(target) <- field index of the source bytes
	verified  []verifiedPair
}

type layoutProblem struct {
	node ast.Node
	msg  string
}

type verifiedPair struct {
	node      ast.Node
	dataField int // -1: unknown, -2: prefix
	chkField  int
}

func (lr *layoutReader) bad(n ast.Node, format string, a ...interface{}) {
	lr.problems = append(lr.problems, layoutProblem{n, fmt.Sprintf(format, a...)})
}

func (lr *layoutReader) eval(e ast.Expr) (aff, bool) {
	w := lr.w
	e = unparen(e)
	if v, ok := w.constInt(e); ok {
		return affC(v), true
	}
	if lr.isLen(e) {
		return affS("L"), true
	}
	switch x := e.(type) {
	case *ast.Ident:
		if a, ok := lr.env[w.Use(x)]; ok {
			return a, true
		}
	case *ast.SelectorExpr:
		if v := w.fieldOf(x); v != nil {
			if a, ok := lr.env[v]; ok {
				return a, true
			}
			if a, ok := lr.presetField[v]; ok {
				return a, true
			}
		}
	case *ast.BinaryExpr:
		a, ok1 := lr.eval(x.X)
		b, ok2 := lr.eval(x.Y)
		if !ok1 || !ok2 {
			return aff{}, false
		}
		switch x.Op {
		case token.ADD:
			return a.add(b, 1), true
		case token.SUB:
			return a.add(b, -1), true
		case token.MUL:
			if a.isConst() {
				return b.scale(a.c), true
			}
			if b.isConst() {
				return a.scale(b.c), true
			}
		}
	case *ast.CallExpr:
		if tv, ok := w.Info.Types[x.Fun]; ok && tv.IsType() && len(x.Args) == 1 {
			return lr.eval(x.Args[0])
		}
		if fn, ok := w.Callee(x).(*types.Func); ok && len(x.Args) == 1 && isU32Decode(fn) {
			idx := lr.regionOf(x.Args[0])
			if idx < 0 {
				return aff{}, false
			}
			fl := lr.fields[idx]
			if fl.kind != "u32" {
				lr.bad(x, "a u32 is decoded from the field %s, which the writer did not write as a u32", fl)
				return aff{}, false
			}
			return affS(fl.sym), true
		}
	}
	return aff{}, false
}

// regionOf: the field index an expression of type []byte denotes (a read of the buffer, or a
// variable bound to one); -1 if none (a problem has been recorded when it was a read), -2 for a prefix.
func (lr *layoutReader) regionOf(e ast.Expr) int {
	w := lr.w
	e = unparen(e)
	if isRead, lo, hi, pos, sz := lr.region(e); isRead {
		lr.seen[e] = true
		var l, h aff
		var ok1, ok2 bool
		if pos != nil {
			l, ok1 = lr.eval(pos)
			var s aff
			s, ok2 = lr.eval(sz)
			h = l.add(s, 1)
		} else {
			l, ok1 = affC(0), true
			if lo != nil {
				l, ok1 = lr.eval(lo)
			}
			h, ok2 = affS("L"), true
			if hi != nil {
				h, ok2 = lr.eval(hi)
			}
		}
		if !ok1 || !ok2 {
			lr.bad(e, "the bounds of this read are not affine in the layout's lengths: %s", types.ExprString(e))
			return -1
		}
		for i := range lr.fields {
			if lr.fields[i].lo.eq(l) && lr.fields[i].hi.eq(h) {
				lr.fields[i].reads++
				return i
			}
		}
		if l.isConst() && l.c == 0 {
			for i := range lr.fields {
				if lr.fields[i].lo.eq(h) || (i == len(lr.fields)-1 && lr.fields[i].hi.eq(h)) {
					hh := h
					lr.prefixEnd, lr.prefixAt = &hh, e
					return -2
				}
			}
		}
		var lay []string
		for _, f := range lr.fields {
			lay = append(lay, fmt.Sprintf("%s@[%s,%s)", f, f.lo, f.hi))
		}
		lr.bad(e, "read of [%s, %s) does not coincide with a field of the written layout %s", l, h, strings.Join(lay, " "))
		return -1
	}
	if id, ok := e.(*ast.Ident); ok {
		if i, ok := lr.bufs[w.Use(id)]; ok {
			return i
		}
	}
	if v := w.fieldOf(e); v != nil {
		if _, isSel := e.(*ast.SelectorExpr); isSel {
			if i, ok := lr.bufs[v]; ok {
				return i
			}
		}
	}
	return -1
}

func (lr *layoutReader) lhsObj(l ast.Expr) types.Object {
	l = unparen(l)
	if id, ok := l.(*ast.Ident); ok {
		if id.Name == "_" {
			return nil
		}
		return lr.w.Use(id)
	}
	if _, ok := l.(*ast.SelectorExpr); ok {
		if v := lr.w.fieldOf(l); v != nil {
			return v
		}
	}
	return nil
}

func isByteSlice(t types.Type) bool {
	s, ok := t.Underlying().(*types.Slice)
	if !ok {
		return false
	}
	b, ok := s.Elem().Underlying().(*types.Basic)
	return ok && b.Kind() == types.Uint8
}

func isIntegerType(t types.Type) bool {
	b, ok := t.Underlying().(*types.Basic)
	return ok && b.Info()&types.IsInteger != 0
}

func (lr *layoutReader) assign(n ast.Node, lhs ast.Expr, rhs ast.Expr, tok token.Token) {
	w := lr.w
	o := lr.lhsObj(lhs)
	if o == nil {
		return
	}
	t := o.Type()
	switch {
	case isIntegerType(t):
		v, ok := lr.eval(rhs)
		if !ok {
			delete(lr.env, o)
			return
		}
		switch tok {
		case token.ADD_ASSIGN, token.SUB_ASSIGN:
			old, had := lr.env[o]
			if !had {
				return
			}
			if tok == token.ADD_ASSIGN {
				lr.env[o] = old.add(v, 1)
			} else {
				lr.env[o] = old.add(v, -1)
			}
		default:
			lr.env[o] = v
		}
	case isByteSlice(t):
		// the buffer itself being re-sliced to a prefix, or a variable bound to a field region
		idx := lr.regionOf(rhs)
		if idx >= 0 {
			lr.bufs[o] = idx
		} else {
			delete(lr.bufs, o)
		}
	default:
		// []uint32 decoded from a region
		if call, ok := unparen(rhs).(*ast.CallExpr); ok && len(call.Args) == 1 {
			if fn, ok := w.Callee(call).(*types.Func); ok && isU32SliceDecode(fn) {
				idx := lr.regionOf(call.Args[0])
				if idx >= 0 && lr.fields[idx].kind != "u32slice" {
					lr.bad(call, "a u32 slice is decoded from the field %s", lr.fields[idx])
				}
			}
		}
	}
}

// run walks the function body in source order.
func (lr *layoutReader) run() {
	w := lr.w
	lr.env = map[types.Object]aff{}
	lr.bufs = map[types.Object]int{}
	lr.seen = map[ast.Node]bool{}
	lr.unm = map[types.Object]int{}
	ast.Inspect(lr.f.Body, func(n ast.Node) bool {
		switch s := n.(type) {
		case *ast.FuncLit:
			return false
		case *ast.AssignStmt:
			if len(s.Lhs) == len(s.Rhs) {
				for i := range s.Lhs {
					lr.assign(s, s.Lhs[i], s.Rhs[i], s.Tok)
				}
			} else if len(s.Rhs) == 1 && len(s.Lhs) >= 1 {
				lr.assign(s, s.Lhs[0], s.Rhs[0], s.Tok)
			}
		case *ast.ValueSpec:
			if len(s.Names) == len(s.Values) {
				for i := range s.Names {
					lr.assign(s, s.Names[i], s.Values[i], token.DEFINE)
				}
			}
		case *ast.IncDecStmt:
			if o := lr.lhsObj(s.X); o != nil {
				if old, had := lr.env[o]; had {
					if s.Tok == token.INC {
						lr.env[o] = old.add(affC(1), 1)
					} else {
						lr.env[o] = old.add(affC(1), -1)
					}
				}
			}
		case *ast.CallExpr:
			fn, _ := w.Callee(s).(*types.Func)
			if fn != nil && fn.Name() == "Unmarshal" && len(s.Args) == 2 {
				if o := lr.lhsObj(derefAddr(s.Args[1])); o != nil {
					lr.unm[o] = lr.regionOf(s.Args[0])
				}
			}
			if fn != nil && fn.Name() == "VerifyChecksum" && len(s.Args) == 2 {
				vp := verifiedPair{node: s, dataField: lr.regionOf(s.Args[0]), chkField: -1}
				if o := lr.lhsObj(derefAddr(s.Args[1])); o != nil {
					if i, ok := lr.unm[o]; ok {
						vp.chkField = i
					}
				}
				lr.verified = append(lr.verified, vp)
			}
		}
		// any read of the buffer not yet accounted for by an assignment or a decode
		if e, ok := n.(ast.Expr); ok && !lr.seen[e] {
			if isRead, _, _, _, _ := lr.region(e); isRead {
				lr.regionOf(e)
			}
		}
		return true
	})
}

func derefAddr(e ast.Expr) ast.Expr {
	e = unparen(e)
	if u, ok := e.(*ast.UnaryExpr); ok && u.Op == token.AND {
		return u.X
	}
	return e
}
