package main

// C08 (crash ordering discipline), C09 (torn tails), C10 (sync before ack, directory syncs), C17 (MANIFEST).

import (
	"go/ast"
	"go/token"
	"go/types"
	"strings"
)

func init() {
	register("C08", "Decides the write-ordering discipline that crash recovery relies on, on every path: (R08.1) MANIFEST change set durable before compaction inputs / dropped tables are unlinked; (R08.2) MANIFEST records a table before the table is published to a level; (R08.3) a table's pages are msync'ed before it is returned; (R08.4) a memtable's WAL is released only after its flush succeeded; (R08.5) value log written before the WAL record that points into it; (R08.6) a value-log file is deleted only after the write-back of its live entries succeeded; (R08.7) replay hands out transaction entries only at the matching end marker and advances the valid offset only at unit boundaries; (R08.8) stale files are reconciled before tables are opened and MANIFEST rewrite follows write-sync-close-rename-dirsync. Does NOT decide file-system behaviour between those calls, partial page writes, or that the recovered state is a commit prefix for every history.", propC08)
	register("C09", "Decides the structural part of torn-tail recovery: (R09.1) a log record is returned only after its CRC matched, short reads map to the truncation error, the key-length bound precedes allocation; (R09.2) truncation-class errors stop replay instead of failing it; (R09.3) read-write opens truncate WAL, newest value log and MANIFEST to the valid end offset; (R09.4) MANIFEST replay records the offset before each record, short reads stop replay, checksum precedes apply; (R09.5) the header after the last record is zeroed on every write. Does NOT decide behaviour for every cut offset as data (byte-level), nor the zero-filled MANIFEST tail.", propC09)
	register("C10", "Decides sync-before-acknowledge and create-dirsync-publish ordering: (R10.1) writeToLSM syncs the WAL before every success return under SyncWrites; (R10.2) valueLog.write syncs the current file on all exits under SyncWrites and a retired file is synced before rotation; (R10.3=R08.3) table msync; (R10.4) MANIFEST append is fsynced before success, rewrite/key-registry go through sync+rename+dirsync; (R10.5) every file-creating site is followed by a directory sync before the file is relied on; (R10.6=R08.4). Does NOT decide that msync/fsync are honoured by the OS, nor exact power-loss images.", propC10)
	register("C17", "Decides MANIFEST structure: (R17.1) in-memory apply and file append happen in one hold of appendLock and every success exit is fsynced; (R17.2) writer and reader agree on record framing (length, CRC-32C over the body) and on magic/version; (R17.3) checksum comparison precedes apply on replay; (R17.4) every TableManifest field is set from the change and every change field is filled from the table; (R17.5) rewrite threshold counters are reset after a successful rewrite. Does NOT decide equality of the replayed and live maps for arbitrary change sequences.", propC17)
}

// errNilGuard: node n runs only when the error produced by a call to callee was nil
// (n is after `if err := callee(); err != nil { …terminates }` or inside `if err == nil`).
func (w *World) errNilGuard(f *Fn, n ast.Node, callee types.Object) bool {
	for _, g := range w.Guards(f, n) {
		b, ok := g.Cond.(*ast.BinaryExpr)
		if !ok {
			continue
		}
		var e ast.Expr
		if isNil(b.Y) {
			e = b.X
		} else if isNil(b.X) {
			e = b.Y
		} else {
			continue
		}
		nonNilWhenTrue := b.Op == token.NEQ
		if b.Op != token.NEQ && b.Op != token.EQL {
			continue
		}
		// we need: error is nil at n
		if nonNilWhenTrue == g.Val {
			continue
		}
		id, ok := unparen(e).(*ast.Ident)
		if !ok {
			continue
		}
		v, ok := w.Use(id).(*types.Var)
		if !ok {
			continue
		}
		// nearest definition preceding the guard: the if-init or the statement before
		f := f
		if g.Fn != nil {
			f = g.Fn
		}
		for _, d := range w.DefsOf(f, v) {
			if w.isCallTo(d, callee) {
				// definition must be positioned before the guard and after any other definition… approximate: the guard's own if-init or the closest def
				if is, ok := g.At.(*ast.IfStmt); ok && is.Init != nil && is.Init.Pos() <= d.Pos() && d.End() <= is.Init.End() {
					return true
				}
				if d.End() <= g.Cond.Pos() {
					later := false
					for _, d2 := range w.DefsOf(f, v) {
						if d2.Pos() > d.End() && d2.End() <= g.Cond.Pos() && !w.isCallTo(d2, callee) {
							later = true
						}
					}
					if !later {
						return true
					}
				}
			}
		}
	}
	return false
}

func selCallName(w *World, names ...string) Sel {
	var objs []types.Object
	for _, n := range names {
		objs = append(objs, w.Func(n))
	}
	return selCall(objs...)
}

func ruleR08_1(c *Check) {
	w := c.W
	r := c.Rule("R08.1", "E1", 3, "runCompactDef: manifest.addChanges dominates nextLevel.replaceTables and thisLevel.deleteTables; dropTree: addChanges dominates the table DecrRef loop",
		"tables are unlinked when their last reference is dropped; if the MANIFEST still lists them after a crash, Open fails with a missing table (or a compaction's outputs are lost while inputs are gone)")
	add := selCallName(w, "badger.manifestFile.addChanges")
	f := w.F("badger.levelsController.runCompactDef")
	r.DomAll(f, "replaceTables", selCallName(w, "badger.levelHandler.replaceTables"), 0, add, 0)
	r.DomAll(f, "deleteTables", selCallName(w, "badger.levelHandler.deleteTables"), 0, add, 0)
	// addChanges failure returns before any install
	for _, s := range f.Sites(selCallName(w, "badger.levelHandler.replaceTables")) {
		r.Check(w.errNilGuard(f, s, w.Func("badger.manifestFile.addChanges")), f, "replaceTables only after addChanges succeeded", s, "replaceTables is reachable when addChanges returned an error")
	}
	d := w.F("badger.levelsController.dropTree")
	r.DomAll(d, "Table.DecrRef", selCallName(w, "table.Table.DecrRef"), 0, add, 0)
	r.DomAll(d, "levelHandler.tables cleared", selStore(w.Field("badger.levelHandler.tables")), 0, add, 0)
	// the change set handed to addChanges is the one built from the inputs and outputs
	bcs := f.Sites(selCallName(w, "badger.buildChangeSet"))
	r.Exists(len(bcs) >= 1, f, "change set built by buildChangeSet", nil, "runCompactDef does not call buildChangeSet")
}

func ruleR08_2(c *Check) {
	w := c.W
	r := c.Rule("R08.2", "E1", 2, "addLevel0Table: manifest.addChanges dominates tryAddLevel0Table (unless the table is in-memory); sortedWriter.createTable: addChanges dominates lhandler.addTable",
		"a table that a level already serves (and a compaction may already consume and delete) must be in the MANIFEST first, otherwise a crash forgets it although its WAL is gone")
	add := selCallName(w, "badger.manifestFile.addChanges")
	f := w.F("badger.levelsController.addLevel0Table")
	inmem := w.Field("table.Table.IsInmemory")
	r.DomAll(f, "tryAddLevel0Table", selCallName(w, "badger.levelHandler.tryAddLevel0Table"), 0, add, 0, excuseField(w, inmem, true))
	for _, s := range f.Sites(selCallName(w, "badger.levelHandler.tryAddLevel0Table")) {
		_ = s
	}
	g := w.F("badger.sortedWriter.createTable")
	inMemOpt := w.Field("badger.Options.InMemory")
	r.DomAll(g, "levelHandler.addTable", selCallName(w, "badger.levelHandler.addTable"), 0, add, 0, excuseField(w, inMemOpt, true))
}

func ruleR08_3(c *Check) {
	w := c.W
	r := c.Rule("R08.3", "E1", 1, "table.CreateTable: z.Msync of the mapped data dominates every success return (the table is opened and handed out only after its pages were synced)",
		"the MANIFEST entry for the table is fsynced next; without the msync a power loss leaves a MANIFEST that names a table with unwritten pages")
	f := w.F("table.CreateTable")
	r.ExitsNeed(f, "z.Msync", selCall(w.Func("z.Msync")), 0, exitSuccess)
	r.DomAll(f, "OpenTable", selCallName(w, "table.OpenTable"), 0, selCall(w.Func("z.Msync")), 0)
}

func ruleR08_4(c *Check) {
	w := c.W
	r := c.Rule("R08.4", "E1+E6", 5, "every release of a memtable's owner reference (memTable.DecrRef, which unlinks the WAL through Skiplist.OnClose) runs only after handleMemTableFlush returned nil for it, or for an empty memtable, or in dropAll/getMemTables (reference pairs)",
		"the WAL is the only durable copy of the memtable until its table is in the MANIFEST; deleting it earlier loses acknowledged commits at the next crash")
	decr := w.Func("badger.memTable.DecrRef")
	flush := w.Func("badger.DB.handleMemTableFlush")
	empty := w.Func("skl.Skiplist.Empty")
	r.Except("badger.DB.dropAll", "the data is being dropped on purpose")
	r.Except("badger.DB.getMemTables", "releases the reference taken by the same function (IncrRef/DecrRef pair)")
	var k keyer
	for _, o := range allSites(w, "badger", selCall(decr)) {
		root := o.SiteFn.Root().Name
		if root == "badger.DB.dropAll" || root == "badger.DB.getMemTables" {
			continue
		}
		ok := w.errNilGuard(o.SiteFn, o.Node, flush)
		why := "memTable.DecrRef not guarded by a successful handleMemTableFlush nor by sl.Empty()"
		if !ok {
			for _, g := range w.Guards(o.SiteFn, o.Node) {
				if call, isCall := g.Cond.(*ast.CallExpr); isCall && g.Val && w.Callee(call) == empty {
					ok = true
				}
			}
		}
		r.Check(ok, o.SiteFn, k.key("memtable released after flush", w, o.Node), o.Node, why)
	}
	// OnClose wiring: the skiplist's OnClose deletes the WAL (so DecrRef is indeed the unlink point)
	om := w.F("badger.DB.openMemTable")
	okv := false
	for _, l := range om.Lits {
		if len(l.Sites(selCallName(w, "badger.logFile.Delete"))) > 0 || len(l.Sites(selPred("wal.Delete", func(w *World, f *Fn, n ast.Node) bool {
			call, ok := n.(*ast.CallExpr)
			if !ok {
				return false
			}
			s, ok := unparen(call.Fun).(*ast.SelectorExpr)
			return ok && s.Sel.Name == "Delete" && w.fieldOf(s.X) == w.Field("badger.memTable.wal")
		}))) > 0 {
			okv = true
		}
	}
	r.Exists(okv, om, "OnClose deletes the WAL", nil, "openMemTable no longer wires Skiplist.OnClose to wal.Delete (anchor of this rule)")
	// handleMemTableFlush: success return only after addLevel0Table (or an empty builder)
	h := w.F("badger.DB.handleMemTableFlush")
	r.ExitsNeed(h, "addLevel0Table", selCallName(w, "badger.levelsController.addLevel0Table"), 0, exitSuccess,
		Excuse{Cond: func(e ast.Expr) bool {
			call, ok := unparen(e).(*ast.CallExpr)
			return ok && w.Callee(call) == w.Func("table.Builder.Empty")
		}, Val: true})
}

func ruleR08_5(c *Check) {
	w := c.W
	r := c.Rule("R08.5", "E1", 1, "DB.writeRequests: valueLog.write dominates every writeToLSM (a WAL/memtable record never points at value-log bytes written later)",
		"after a crash the WAL is replayed; a pointer to bytes that were never written reads garbage or fails")
	f := w.F("badger.DB.writeRequests")
	r.DomAll(f, "writeToLSM", selCallName(w, "badger.DB.writeToLSM"), 0, selCallName(w, "badger.valueLog.write"), 0)
	for _, s := range f.Sites(selCallName(w, "badger.DB.writeToLSM")) {
		r.Check(w.errNilGuard(f, s, w.Func("badger.valueLog.write")), f, "writeToLSM only after vlog.write succeeded", s, "writeToLSM reachable when vlog.write failed")
	}
}

func ruleR08_6(c *Check) {
	w := c.W
	r := c.Rule("R08.6", "E1", 3, "valueLog.rewrite: the removal of the old file (deleteLogFile, delete from filesMap, append to filesToBeDeleted) is dominated by the scan and by the write-back loop, both having returned without error",
		"deleting the file before its live entries are durably re-inserted loses committed values")
	f := w.F("badger.valueLog.rewrite")
	batch := selCallName(w, "badger.DB.batchSet")
	iter := selCallName(w, "badger.logFile.iterate")
	del := selOr(selCallName(w, "badger.valueLog.deleteLogFile"), selStore(w.Field("badger.valueLog.filesToBeDeleted")),
		selPred("delete(filesMap)", func(w *World, fn *Fn, n ast.Node) bool {
			call, ok := n.(*ast.CallExpr)
			if !ok || len(call.Args) != 2 {
				return false
			}
			id, ok := unparen(call.Fun).(*ast.Ident)
			return ok && id.Name == "delete" && w.fieldOf(call.Args[0]) == w.Field("badger.valueLog.filesMap")
		}))
	n := r.DomAll(f, "old file removed", del, 0, iter, 0)
	r.Exists(n >= 3, f, "removal sites", nil, "expected deleteLogFile, delete(filesMap) and filesToBeDeleted sites")
	// no path from a removal site back to a write-back (removal is last)
	r.NeverAfterAll(f, "no write-back after the file was removed", del, 0, batch, 0)
	// a failing batchSet in the write-back loop returns (does not fall through to removal), except the size-retry
	for _, s := range f.Sites(batch) {
		if insideLoop(w, f, s) {
			is, ok := w.enclosingStmt(s).(*ast.IfStmt)
			okv := false
			if ok {
				// body must end in return/continue on every path
				okv = w.terminates(is.Body.List)
			}
			r.Check(okv, f, "failed write-back never reaches the removal", s, "error branch of batchSet falls through")
		}
	}
	// the scan error returns
	for _, s := range f.Sites(iter) {
		as, _ := w.enclosingStmt(s).(*ast.AssignStmt)
		okv := false
		if as != nil {
			list, i := w.stmtListOf(as)
			if i >= 0 && i+1 < len(list) {
				if is, ok := list[i+1].(*ast.IfStmt); ok && w.errNonNil(is.Cond, true) && w.terminates(is.Body.List) {
					okv = true
				}
			}
		}
		r.Check(okv, f, "scan error aborts the rewrite", s, "error of f.iterate is not checked immediately")
	}
}

func ruleR08_7(c *Check) {
	w := c.W
	r := c.Rule("R08.7", "E6", 4, "logFile.iterate: the callback is invoked for buffered bitTxn entries only in the bitFinTxn arm (after the commit timestamps matched) or directly for non-transactional entries outside a transaction; validEndOffset advances only there; memTable.UpdateSkipList truncates to the returned offset",
		"replaying part of a transaction, or accepting a transaction without its end marker, makes a transaction partially visible after a crash")
	f := w.F("badger.logFile.iterate")
	bitTxn, bitFin := w.Obj("badger.bitTxn"), w.Obj("badger.bitFinTxn")
	// the callback parameter
	var fnParam *types.Var
	sig := f.Obj.Type().(*types.Signature)
	for i := 0; i < sig.Params().Len(); i++ {
		if _, ok := sig.Params().At(i).Type().Underlying().(*types.Signature); ok {
			fnParam = sig.Params().At(i)
		}
	}
	if fnParam == nil {
		panic(anchorError{"callback parameter of logFile.iterate"})
	}
	var k keyer
	calls := 0
	f.walk(func(n ast.Node) bool {
		call, ok := n.(*ast.CallExpr)
		if !ok {
			return true
		}
		id, ok := unparen(call.Fun).(*ast.Ident)
		if !ok || w.Use(id) != types.Object(fnParam) {
			return true
		}
		calls++
		gs := w.Guards(f, call)
		txn := w.bitGuard(gs, bitTxn)
		fin := w.bitGuard(gs, bitFin)
		switch {
		case fin == 1 && txn == 0:
			// end-marker arm: must be after the timestamp comparison (early break on mismatch)
			okv := false
			for _, g := range gs {
				// an equality that holds here, however it is spelled (`if a != b { break }` before, or `if a == b { … }` around)
				if b, ok := g.Cond.(*ast.BinaryExpr); ok && ((b.Op == token.NEQ && !g.Val) || (b.Op == token.EQL && g.Val)) {
					okv = true // lastCommit != txnTs  is false
				}
			}
			r.Check(okv, f, k.key("callback in end-marker arm after ts match", w, call), call, "entries are handed out before the end marker's timestamp was compared")
		case txn == 0 && fin == 0:
			// plain entry arm: must be outside a transaction (lastCommit != 0 => break)
			okv := false
			for _, g := range gs {
				// an equality that holds here, however it is spelled (`if a != b { break }` before, or `if a == b { … }` around)
				if b, ok := g.Cond.(*ast.BinaryExpr); ok && ((b.Op == token.NEQ && !g.Val) || (b.Op == token.EQL && g.Val)) {
					if v, ok := w.constInt(b.Y); ok && v == 0 {
						okv = true
					}
					if v, ok := w.constInt(b.X); ok && v == 0 {
						okv = true
					}
				}
			}
			r.Check(okv, f, k.key("callback for plain entry only outside a transaction", w, call), call, "plain entries are applied while a transaction is open")
		default:
			r.Check(false, f, k.key("callback", w, call), call, "callback invoked in the bitTxn arm (or outside the meta switch): transaction entries must wait for the end marker")
		}
		return true
	})
	r.Exists(calls == 2, f, "two callback sites", nil, "expected the end-marker and the plain-entry callback sites")
	// transaction framing: the open transaction's timestamp (the variable reset to 0 in the end-marker arm)
	var lastCommit *types.Var
	f.walk(func(n ast.Node) bool {
		as, ok := n.(*ast.AssignStmt)
		if !ok || as.Tok != token.ASSIGN || len(as.Lhs) != 1 || len(as.Rhs) != 1 {
			return true
		}
		if v, isC := w.constInt(as.Rhs[0]); !isC || v != 0 {
			return true
		}
		if id, ok := as.Lhs[0].(*ast.Ident); ok && w.bitGuard(w.Guards(f, as), bitFin) == 1 {
			if lv, ok := w.Use(id).(*types.Var); ok && isIntegerType(lv.Type()) {
				lastCommit = lv
			}
		}
		return true
	})
	if lastCommit == nil {
		panic(anchorError{"open-transaction timestamp of logFile.iterate (reset to 0 at the end marker)"})
	}
	isLC := func(e ast.Expr) bool { id, ok := unparen(e).(*ast.Ident); return ok && w.Use(id) == types.Object(lastCommit) }
	isTs := func(e ast.Expr) bool { return w.isCallTo(e, w.Func("y.ParseTs")) }
	// (a) a transaction's timestamp is adopted only when no transaction is open
	for _, s := range f.Sites(selStoreVar(lastCommit)) {
		as, ok := s.(*ast.AssignStmt)
		if !ok || as.Tok == token.DEFINE || len(as.Rhs) != 1 {
			continue
		}
		if v, isC := w.constInt(as.Rhs[0]); isC && v == 0 {
			continue
		}
		op, g := w.guardRel(w.Guards(f, as), isLC, w.isConst(0), false)
		r.Check(g != nil && op == token.EQL, f, k.key("a transaction's timestamp is adopted only when none is open", w, as), as, "the open-transaction timestamp is overwritten while a transaction is being collected: entries of an unfinished transaction are delivered with the next one")
	}
	// (b) an entry is buffered only if its timestamp is the open transaction's
	buffered := 0
	f.walk(func(n ast.Node) bool {
		as, ok := n.(*ast.AssignStmt)
		if !ok || len(as.Rhs) != 1 {
			return true
		}
		call, ok := unparen(as.Rhs[0]).(*ast.CallExpr)
		if !ok || !isBuiltin(w, call, "append") {
			return true
		}
		gs := w.Guards(f, as)
		if w.bitGuard(gs, bitTxn) != 1 {
			return true
		}
		buffered++
		op, g := w.guardRel(gs, isLC, isTs, false)
		r.Check(g != nil && op == token.EQL, f, k.key("buffered only under the open transaction's timestamp", w, as), as, "a bitTxn entry is buffered although its timestamp differs from the transaction being collected")
		return true
	})
	r.Exists(buffered >= 1, f, "transaction entries are buffered", nil, "no append under the bitTxn arm")
	// validEndOffset stores: only in those two arms
	var veo *types.Var
	f.walk(func(n ast.Node) bool {
		if vs, ok := n.(*ast.ValueSpec); ok {
			for _, id := range vs.Names {
				if id.Name == "validEndOffset" {
					veo, _ = w.Use(id).(*types.Var)
				}
			}
		}
		return true
	})
	if veo == nil {
		// fall back: the variable returned on the success path
		for _, e := range f.successExits() {
			if rs := e.Node.(*ast.ReturnStmt); len(rs.Results) == 2 {
				if id, ok := unparen(rs.Results[0]).(*ast.Ident); ok {
					veo, _ = w.Use(id).(*types.Var)
				}
			}
		}
	}
	if veo == nil {
		panic(anchorError{"valid end offset variable of logFile.iterate"})
	}
	for _, s := range f.Sites(selStoreVar(veo)) {
		gs := w.Guards(f, s)
		txn := w.bitGuard(gs, bitTxn)
		r.Check(txn == 0, f, k.key("valid end offset advances only at unit boundaries", w, s), s, "validEndOffset assigned while inside a transaction (bitTxn arm)")
	}
	// success return yields that variable
	for _, e := range f.successExits() {
		rs := e.Node.(*ast.ReturnStmt)
		okv := false
		if len(rs.Results) == 2 {
			if id, ok := unparen(rs.Results[0]).(*ast.Ident); ok && w.Use(id) == types.Object(veo) {
				okv = true
			}
		}
		r.Check(okv, f, "returns the valid end offset", rs, "success return does not return validEndOffset")
	}
	// UpdateSkipList truncates to what iterate returned
	u := w.F("badger.memTable.UpdateSkipList")
	for _, s := range u.Sites(selCallName(w, "badger.logFile.Truncate")) {
		arg := w.Origin(u, s.(*ast.CallExpr).Args[0])
		r.Check(w.isCallTo(arg, w.Func("badger.logFile.iterate")), u, "WAL truncated to the offset returned by iterate", s, "Truncate argument is "+short(w, arg))
	}
}

func ruleR08_8(c *Check) {
	w := c.W
	r := c.Rule("R08.8", "E1", 6, "newLevelsController reconciles the directory with the MANIFEST (revertToManifest) before any table is opened; helpRewrite follows write → Sync → Close → Rename → syncDir",
		"opening tables first can serve a table that the MANIFEST does not know; renaming an unsynced rewrite over the MANIFEST can leave an empty MANIFEST after power loss")
	f := w.F("badger.newLevelsController")
	rev := selCallName(w, "badger.revertToManifest")
	open := selCallName(w, "table.OpenTable")
	n := 0
	var rec func(g *Fn)
	rec = func(g *Fn) {
		for _, s := range g.Sites(open) {
			n++
			// the literal is hosted after revertToManifest in f
			host := ast.Node(s)
			for h := g; h != f; h = h.Parent {
				host = h.Host
			}
			res := f.Dominated(Occ{V: f.G().VertexOf(host), Node: host}, f.Occs(rev, 0))
			r.Order(res, g, "OpenTable after revertToManifest", s, "tables opened before the directory was reconciled with the MANIFEST")
		}
		for _, l := range g.Lits {
			rec(l)
		}
	}
	rec(f)
	r.Exists(n >= 1, f, "tables opened in newLevelsController", nil, "no OpenTable call found")
	h := w.F("badger.helpRewrite")
	wr := selCall(w.Func("os.File.Write"))
	sy := selCall(w.Func("os.File.Sync"))
	cl := selCall(w.Func("os.File.Close"))
	rn := selCall(w.Func("os.Rename"))
	sd := selCallName(w, "badger.syncDir")
	r.DomAll(h, "Rename", rn, 0, sy, 0)
	r.DomAll(h, "Rename after Write", rn, 0, wr, 0)
	r.DomAll(h, "Sync", sy, 0, wr, 0)
	r.ExitsNeed(h, "syncDir", sd, 0, exitSuccess)
	r.DomAll(h, "syncDir after Rename", sd, 0, rn, 0)
	_ = cl
}

// R08.9: a request (hence a transaction with its end marker) lands in one WAL file.
func ruleR08_9(c *Check) {
	w := c.W
	r := c.Rule("R08.9", "E3", 2, "no rotation of the active memtable is reachable from DB.writeToLSM: DB.mt is never assigned (and ensureRoomForWrite never called) between the first and the last entry of a request; rotation happens only in writeRequests before writeToLSM, in Open, close, dropAll and DropPrefix",
		"replay is per WAL file and applies a transaction only when its end marker follows its entries in the same file: a transaction split across two .mem files is dropped in the first and applied partially (or truncated away with everything after it) in the second")
	mt := w.Field("badger.DB.mt")
	f := w.F("badger.DB.writeToLSM")
	seen := w.CG().Reach([]*Fn{f}, reachOpt{SkipAsync: true})
	n := 0
	var k keyer
	for g := range seen {
		n++
		for _, s := range g.Sites(selStore(mt)) {
			r.Check(false, g, k.key("memtable rotated inside a request", w, s), s, "DB.mt assigned in "+g.Name+", reachable from writeToLSM: "+strings.Join(chain(seen, g), " -> "))
		}
	}
	r.Check(true, f, "functions reachable from writeToLSM assign DB.mt nowhere", nil, "")
	allowed := map[string]bool{"badger.Open": true, "badger.DB.ensureRoomForWrite": true, "badger.DB.close": true, "badger.DB.dropAll": true, "badger.DB.DropPrefix": true}
	for _, o := range allStores(w, mt) {
		root := o.SiteFn.Root().Name
		r.Check(allowed[root], o.SiteFn, k.key("DB.mt assigned by an owner", w, o.Node), o.Node, "DB.mt assigned in "+root)
	}
	er := w.F("badger.DB.ensureRoomForWrite")
	for _, cs := range w.CG().CallSitesOf(er) {
		r.Check(cs.Caller.Name == "badger.DB.writeRequests", cs.Caller, "ensureRoomForWrite called between requests only", cs.Node, "ensureRoomForWrite called from "+cs.Caller.Name)
	}
	wr := w.F("badger.DB.writeRequests")
	r.DomAll(wr, "writeToLSM after ensureRoomForWrite", selCallName(w, "badger.DB.writeToLSM"), 0, selCallName(w, "badger.DB.ensureRoomForWrite"), 0)
}

func propC08(c *Check) {
	ruleR08_9(c)
	ruleR08_1(c)
	ruleR08_2(c)
	ruleR08_3(c)
	ruleR08_4(c)
	ruleR08_5(c)
	ruleR08_6(c)
	ruleR08_7(c)
	ruleR08_8(c)
	// recovery also has to find the right read timestamp: a max version computed too low after
	// WAL replay hides acknowledged commits
	ruleR11_3(c)
	ruleR16_6(c) // every replayed entry is put back, whole
}

// ---- C09 ----

func ruleR09_1(c *Check) {
	w := c.W
	r := c.Rule("R09.1", "E1+E5", 4, "safeRead.Entry: the only non-nil entry return is dominated by the CRC comparison whose mismatch branch returns errTruncate; io.EOF from the body and CRC reads is mapped to errTruncate; the key-length bound precedes the buffer allocation",
		"a record with a bad checksum (torn write) that is returned gets replayed as data; an EOF that is not mapped surfaces as an Open error instead of a truncation")
	f := w.F("badger.safeRead.Entry")
	errTrunc := w.Obj("badger.errTruncate")
	// success exits: return e, nil
	var crcCmp []ast.Node
	f.walk(func(n ast.Node) bool {
		if is, ok := n.(*ast.IfStmt); ok {
			if b, ok := unparen(is.Cond).(*ast.BinaryExpr); ok && b.Op == token.NEQ {
				if w.mentions(b, w.Func("badger.hashReader.Sum32")) {
					crcCmp = append(crcCmp, is.Cond)
					// mismatch branch returns errTruncate
					okv := false
					for _, st := range is.Body.List {
						if rs, ok := st.(*ast.ReturnStmt); ok && len(rs.Results) == 2 {
							if id, ok := unparen(rs.Results[1]).(*ast.Ident); ok && w.Use(id) == errTrunc {
								okv = true
							}
						}
					}
					r.Check(okv, f, "checksum mismatch returns errTruncate", is, "mismatch branch does not return errTruncate")
				}
			}
		}
		return true
	})
	r.Exists(len(crcCmp) >= 1, f, "CRC comparison present", nil, "no comparison against hashReader.Sum32()")
	r.ExitsNeed(f, "CRC comparison", selNode(crcCmp...), 0, exitSuccess)
	// EOF mapping after each io.ReadFull
	rf := w.Func("io.ReadFull")
	var k keyer
	for _, s := range f.Sites(selCall(rf)) {
		is, ok := w.enclosingStmt(s).(*ast.IfStmt)
		okv := false
		// the mapping `if err == io.EOF { err = errTruncate }` (or `return errTruncate`), written in
		// the error branch itself or in a helper of the module that the branch calls
		var mapsEOF func(own *Fn, body ast.Node, depth int) bool
		mapsEOF = func(own *Fn, body ast.Node, depth int) bool {
			found := false
			ast.Inspect(body, func(n ast.Node) bool {
				var at ast.Node
				switch x := n.(type) {
				case *ast.AssignStmt:
					if len(x.Rhs) == 1 {
						if id, ok := unparen(x.Rhs[0]).(*ast.Ident); ok && w.Use(id) == errTrunc {
							at = x
						}
					}
				case *ast.ReturnStmt:
					for _, res := range x.Results {
						if id, ok := unparen(res).(*ast.Ident); ok && w.Use(id) == errTrunc {
							at = x
						}
					}
				case *ast.CallExpr:
					if depth > 0 {
						if g := w.calleeFn(own, x); g != nil && g.Decl != nil && g.Body != nil && mapsEOF(g, g.Body, depth-1) {
							found = true
						}
					}
				}
				if at != nil {
					for _, g := range w.Guards(own, at) {
						// `err == io.EOF`, possibly one disjunct of several (… || err == io.ErrUnexpectedEOF)
						for _, d := range flatten(g.Cond, token.LOR) {
							if b, ok := unparen(d).(*ast.BinaryExpr); ok && b.Op == token.EQL && g.Val && (w.mentions(b.Y, w.Obj("io.EOF")) || w.mentions(b.X, w.Obj("io.EOF"))) {
								found = true
							}
						}
					}
				}
				return true
			})
			return found
		}
		if ok {
			okv = mapsEOF(f, is.Body, 1)
		}
		r.Check(okv, f, k.key("EOF mapped to errTruncate", w, s), s, "io.EOF from this read is not converted to errTruncate")
	}
	// klen bound before allocation
	klen := w.Field("badger.header.klen")
	var bound []ast.Node
	f.walk(func(n ast.Node) bool {
		if is, ok := n.(*ast.IfStmt); ok {
			if op, ok := w.cmpRoles(is.Cond, true, w.isField(klen), func(e ast.Expr) bool { return w.fieldOf(e) != klen }); ok && (op == token.GTR || op == token.GEQ) && w.terminates(is.Body.List) {
				bound = append(bound, is.Cond)
			}
		}
		return true
	})
	r.Exists(len(bound) >= 1, f, "key length bound", nil, "no `h.klen > bound` early exit")
	makes := selPred("make([]byte…)", func(w *World, fn *Fn, n ast.Node) bool {
		call, ok := n.(*ast.CallExpr)
		if !ok {
			return false
		}
		id, ok := unparen(call.Fun).(*ast.Ident)
		return ok && id.Name == "make" && len(call.Args) >= 2 && (w.mentions(call.Args[1], klen) || usesLocalFrom(w, fn, call.Args[1], klen))
	})
	r.DomAll(f, "allocation sized by klen", makes, 0, selNode(bound...), 0)
}

// usesLocalFrom: expression mentions a local whose definition mentions obj.
func usesLocalFrom(w *World, f *Fn, e ast.Expr, obj types.Object) bool {
	found := false
	ast.Inspect(e, func(n ast.Node) bool {
		if id, ok := n.(*ast.Ident); ok {
			if v, ok := w.Use(id).(*types.Var); ok && !v.IsField() {
				for _, d := range w.DefsOf(f, v) {
					if w.mentions(d, obj) {
						found = true
					}
				}
			}
		}
		return true
	})
	return found
}

func ruleR09_2(c *Check) {
	w := c.W
	r := c.Rule("R09.2", "E6", 4, "logFile.iterate: io.EOF, io.ErrUnexpectedEOF, errTruncate and a zero entry all stop the loop (break) and none returns an error; other errors are returned",
		"a torn tail must be treated as the end of the log, not as a failure of Open")
	f := w.F("badger.logFile.iterate")
	eof, ueof, trunc := w.Obj("io.EOF"), w.Obj("io.ErrUnexpectedEOF"), w.Obj("badger.errTruncate")
	seen := map[types.Object]bool{}
	zero := false
	f.walk(func(n ast.Node) bool {
		cc, ok := n.(*ast.CaseClause)
		if !ok || len(cc.List) != 1 {
			return true
		}
		cond := cc.List[0]
		for _, o := range []types.Object{eof, ueof, trunc} {
			if w.mentions(cond, o) {
				brk := len(cc.Body) == 1
				if brk {
					b, isB := cc.Body[0].(*ast.BranchStmt)
					brk = isB && b.Tok == token.BREAK && b.Label != nil
				}
				// `err == A || err == B` form covers two objects
				seen[o] = true
				r.Check(brk, f, "case "+o.Name()+" stops replay", cc, "case for "+o.Name()+" does not `break loop`")
			}
		}
		if call, ok := unparen(cond).(*ast.CallExpr); ok && w.Callee(call) == w.Func("badger.Entry.isZero") {
			zero = true
			brk := len(cc.Body) == 1
			if brk {
				b, isB := cc.Body[0].(*ast.BranchStmt)
				brk = isB && b.Tok == token.BREAK && b.Label != nil
			}
			r.Check(brk, f, "zero entry stops replay", cc, "zero entry case does not `break loop`")
		}
		return true
	})
	r.Exists(seen[eof] && seen[ueof] && seen[trunc] && zero, f, "all truncation-class cases present", nil, "a case for io.EOF / io.ErrUnexpectedEOF / errTruncate / isZero is missing")
}

func ruleR09_3(c *Check) {
	w := c.W
	r := c.Rule("R09.3", "E1", 3, "read-write open truncates to the valid end: UpdateSkipList calls wal.Truncate(endOff) on every success path; valueLog.open truncates the newest file to the offset iterate returned before creating a new file; helpOpenOrCreateManifestFile truncates to truncOffset unless read-only",
		"appending after a torn tail without truncating makes the next replay stop at the tear and lose everything written afterwards")
	u := w.F("badger.memTable.UpdateSkipList")
	trunc := selCallName(w, "badger.logFile.Truncate")
	r.ExitsNeed(u, "wal.Truncate", trunc, 0, exitSuccess, Excuse{Cond: func(e ast.Expr) bool {
		b, ok := e.(*ast.BinaryExpr)
		return ok && b.Op == token.LOR && w.mentions(b, w.Field("badger.memTable.wal"))
	}, Val: true})
	v := w.F("badger.valueLog.open")
	ro := w.Field("badger.Options.ReadOnly")
	r.DomAll(v, "createVlogFile after truncating the newest file", selPred("final createVlogFile", func(w *World, fn *Fn, n ast.Node) bool {
		call, ok := n.(*ast.CallExpr)
		if !ok || w.Callee(call) != w.Func("badger.valueLog.createVlogFile") {
			return false
		}
		// the one not under `len(filesMap) == 0`
		for _, g := range w.Guards(fn, call) {
			if b, ok := g.Cond.(*ast.BinaryExpr); ok && b.Op == token.EQL && g.Val && !g.Implicit {
				return false
			}
		}
		return true
	}), 0, trunc, 0)
	for _, s := range v.Sites(trunc) {
		arg := w.Origin(v, s.(*ast.CallExpr).Args[0])
		r.Check(w.isCallTo(arg, w.Func("badger.logFile.iterate")), v, "value log truncated to the offset returned by iterate", s, "Truncate argument is "+short(w, arg))
	}
	m := w.F("badger.helpOpenOrCreateManifestFile")
	ft := selCall(w.Func("os.File.Truncate"))
	n := 0
	for _, s := range m.Sites(ft) {
		n++
		arg := w.Origin(m, s.(*ast.CallExpr).Args[0])
		r.Check(w.isCallTo(arg, w.Func("badger.ReplayManifestFile")), m, "MANIFEST truncated to the replay offset", s, "Truncate argument is "+short(w, arg))
	}
	r.Exists(n >= 1, m, "MANIFEST truncation present", nil, "helpOpenOrCreateManifestFile does not truncate the MANIFEST")
	// every success exit after replay passes the truncate unless readOnly
	var roParam *types.Var
	sig := m.Obj.Type().(*types.Signature)
	for i := 0; i < sig.Params().Len(); i++ {
		if sig.Params().At(i).Name() == "readOnly" || (sig.Params().At(i).Type().String() == "bool") {
			roParam = sig.Params().At(i)
		}
	}
	r.FollowAll(m, "replay followed by truncate", selCallName(w, "badger.ReplayManifestFile"), 0, ft, 0, exitSuccess,
		Excuse{Cond: func(e ast.Expr) bool {
			id, ok := e.(*ast.Ident)
			return ok && roParam != nil && w.Use(id) == types.Object(roParam)
		}, Val: true})
	_ = ro
}

func ruleR09_4(c *Check) {
	w := c.W
	r := c.Rule("R09.4", "E1", 4, "ReplayManifestFile: the record offset is captured at the top of each iteration before any read; both short reads break out of the loop; applyChangeSet is dominated by the checksum comparison whose failing branch returns errBadChecksum",
		"an offset taken after a partial read truncates in the middle of garbage; applying before the checksum applies a torn record")
	f := w.F("badger.ReplayManifestFile")
	rf := selCall(w.Func("io.ReadFull"))
	// offset variable = the int64 returned on success
	var off *types.Var
	for _, e := range f.successExits() {
		rs := e.Node.(*ast.ReturnStmt)
		if len(rs.Results) == 3 {
			if id, ok := unparen(rs.Results[1]).(*ast.Ident); ok {
				off, _ = w.Use(id).(*types.Var)
			}
		}
	}
	if off == nil {
		// not a local at all (e.g. the counting reader's position): it moves with every read, so
		// after a torn tail it points past the partial record instead of at its start
		for _, e := range f.successExits() {
			rs := e.Node.(*ast.ReturnStmt)
			r.Check(false, f, "truncation offset is a value captured before the record was read", rs, "ReplayManifestFile returns "+short(w, rs.Results[1])+" as the truncation offset: after a partial record this is past the garbage, which then stays in the file and hides every later change set")
		}
		return
	}
	stores := f.Sites(selStoreVar(off))
	r.Exists(len(stores) >= 1, f, "offset assigned", nil, "offset never assigned")
	// inside the loop: every ReadFull in the loop is dominated (within an iteration) by the store:
	// no path from a ReadFull to the next ReadFull-of-header that bypasses the store
	var loopReads []ast.Node
	for _, s := range f.Sites(rf) {
		if insideLoop(w, f, s) {
			loopReads = append(loopReads, s)
		}
	}
	r.Exists(len(loopReads) == 2, f, "header and body reads", nil, "expected two io.ReadFull calls in the replay loop")
	if len(loopReads) > 0 {
		first := loopReads[0]
		r.NoPathAvoiding(f, "offset captured before each record is read", selNode(loopReads[len(loopReads)-1]), selNode(first), selNode(stores...))
		// and the first read of the first iteration
		res := f.Dominated(Occ{V: f.G().VertexOf(first), Node: first}, occsOf(f, stores))
		r.Order(res, f, "offset captured before the first record", first, "first record read before offset is set")
	}
	// short reads break
	var k keyer
	for _, s := range loopReads {
		is, _ := w.enclosingStmt(s).(*ast.IfStmt)
		if is == nil {
			// `_, err := io.ReadFull(...)` followed by `if err != nil {`
			if as, ok := w.enclosingStmt(s).(*ast.AssignStmt); ok {
				list, i := w.stmtListOf(as)
				if i >= 0 && i+1 < len(list) {
					is, _ = list[i+1].(*ast.IfStmt)
				}
			}
		}
		okv := false
		if is != nil {
			ast.Inspect(is.Body, func(n ast.Node) bool {
				if b, ok := n.(*ast.BranchStmt); ok && b.Tok == token.BREAK {
					gs := w.Guards(f, b)
					e1, e2 := false, false
					for _, g := range gs {
						if w.mentions(g.Cond, w.Obj("io.EOF")) {
							e1 = true
						}
						if w.mentions(g.Cond, w.Obj("io.ErrUnexpectedEOF")) {
							e2 = true
						}
					}
					okv = e1 && e2
				}
				return true
			})
		}
		r.Check(okv, f, k.key("short read stops replay", w, s), s, "io.EOF/io.ErrUnexpectedEOF from this read does not break out of the loop")
	}
	ruleR17_3(c)
}

func ruleR09_5(c *Check) {
	w := c.W
	r := c.Rule("R09.5", "E1", 2, "logFile.writeEntry and logFile.bootstrap call zeroNextEntry before every success return",
		"replay stops at a zero header; stale bytes after the last record would be parsed as a record")
	z := selCallName(w, "badger.logFile.zeroNextEntry")
	r.ExitsNeed(w.F("badger.logFile.writeEntry"), "zeroNextEntry", z, 0, exitSuccess)
	r.ExitsNeed(w.F("badger.logFile.bootstrap"), "zeroNextEntry", z, 0, exitSuccess)
}

func ruleR09_6(c *Check) {
	w := c.W
	r := c.Rule("R09.6", "E6", 1, "ReplayManifestFile: inside the record loop, an error is returned for a record that fails its checksum only when that record is not the tail of the file (the decision looks at the file size / the reader's position); a failing tail record — a partially written change set whose remainder reads as zeros — ends replay like a short read does",
		"a torn newest change set whose missing bytes read back as zeros has an intact length but a wrong checksum; returning errBadChecksum for it makes Open fail instead of recovering the change sets before it")
	f := w.F("badger.ReplayManifestFile")
	bad := w.Obj("badger.errBadChecksum")
	n := 0
	for _, s := range f.Sites(selReturn()) {
		rs := s.(*ast.ReturnStmt)
		if !insideLoop(w, f, rs) || len(rs.Results) != 3 {
			continue
		}
		// the return taken on a checksum mismatch: under a guard that compares a crc32 checksum
		isCRC := false
		tail := false
		for _, g := range w.Guards(f, rs) {
			if g.Implicit {
				continue
			}
			ast.Inspect(g.Cond, func(m ast.Node) bool {
				if call, ok := m.(*ast.CallExpr); ok {
					if fn, ok := w.Callee(call).(*types.Func); ok && fn.Pkg() != nil {
						if fn.Pkg().Path() == "hash/crc32" {
							isCRC = true
						}
						if fn.Name() == "Size" && fn.Pkg().Path() == "io/fs" {
							tail = true
						}
					}
				}
				return true
			})
		}
		if !isCRC && !w.mentions(rs, bad) {
			continue
		}
		n++
		r.Check(tail, f, "checksum mismatch on the tail record", rs, "a change set that fails its checksum is reported as an error even when it is the last record of the file: a torn, zero-filled newest change set makes Open fail")
	}
	r.Exists(n >= 1, f, "checksum-mismatch return found", nil, "no return under the checksum comparison in the replay loop")
}

func ruleR09_7(c *Check) {
	w := c.W
	r := c.Rule("R09.7", "E6", 1, "ReplayManifestFile: a change set whose recorded length does not fit in the file (any comparison of the decoded length with the file size or with what remains of it) ends replay with a break, never with an error; if the body is allocated from that length, such a bound dominates the allocation",
		"a torn newest change set has an intact length and a missing payload: it extends past the end of the file by definition; an error here makes Open fail on a torn tail (seen when the change set is longer than everything before it, e.g. the first L0→Lbase compaction of a fresh DB)")
	f := w.F("badger.ReplayManifestFile")
	var lengthVar *types.Var
	f.walk(func(n ast.Node) bool {
		as, ok := n.(*ast.AssignStmt)
		if !ok || len(as.Lhs) != 1 || len(as.Rhs) != 1 || !insideLoop(w, f, as) {
			return true
		}
		if call, ok := unparen(as.Rhs[0]).(*ast.CallExpr); ok {
			if fn, ok := w.Callee(call).(*types.Func); ok && len(call.Args) == 1 && isU32Decode(fn) {
				if id, ok := as.Lhs[0].(*ast.Ident); ok && lengthVar == nil {
					lengthVar, _ = w.Use(id).(*types.Var)
				}
			}
		}
		return true
	})
	if lengthVar == nil {
		panic(anchorError{"decoded change-set length in ReplayManifestFile"})
	}
	isSizeCmp := func(cond ast.Expr) bool {
		mentionsLen, mentionsSize := false, false
		ast.Inspect(cond, func(m ast.Node) bool {
			switch x := m.(type) {
			case *ast.Ident:
				if w.Use(x) == types.Object(lengthVar) {
					mentionsLen = true
				} else if v, ok := w.Use(x).(*types.Var); ok && !v.IsField() {
					for _, d := range w.DefsOf(f, v) {
						if w.mentions(d, lengthVar) {
							mentionsLen = true
						}
						ast.Inspect(d, func(k ast.Node) bool {
							if call, ok := k.(*ast.CallExpr); ok {
								if fn, ok := w.Callee(call).(*types.Func); ok && fn.Name() == "Size" && fn.Pkg() != nil && fn.Pkg().Path() == "io/fs" {
									mentionsSize = true
								}
							}
							return true
						})
					}
				}
			case *ast.CallExpr:
				if fn, ok := w.Callee(x).(*types.Func); ok && fn.Name() == "Size" && fn.Pkg() != nil && fn.Pkg().Path() == "io/fs" {
					mentionsSize = true
				}
			}
			return true
		})
		return mentionsLen && mentionsSize
	}
	n := 0
	var bounds []ast.Node
	f.walk(func(nd ast.Node) bool {
		is, ok := nd.(*ast.IfStmt)
		if !ok || !insideLoop(w, f, is) || !isSizeCmp(is.Cond) {
			return true
		}
		n++
		bounds = append(bounds, is.Cond)
		last := is.Body.List[len(is.Body.List)-1]
		b, isBreak := last.(*ast.BranchStmt)
		r.Check(isBreak && b.Tok == token.BREAK && len(is.Body.List) == 1, f, "a change set that does not fit in the file ends replay", is.Cond, "a length that exceeds the file is answered with something other than `break` (an error makes Open fail on a torn tail)")
		return true
	})
	// allocation from the decoded length is bounded
	for _, s := range f.Sites(selPred("make(length)", func(w *World, fn *Fn, nd ast.Node) bool {
		call, ok := nd.(*ast.CallExpr)
		return ok && isBuiltin(w, call, "make") && len(call.Args) >= 2 && w.mentions(call.Args[1], lengthVar)
	})) {
		n++
		res := f.Dominated(Occ{V: f.G().VertexOf(s), Node: s}, occsOf(f, bounds))
		r.Order(res, f, "allocation bounded by the file size", s, "the body buffer is allocated from the decoded length without a bound against the file size")
	}
	r.Exists(n >= 1, f, "length handling found", nil, "neither a bound nor an allocation from the decoded length")
}

func propC09(c *Check) {
	ruleR09_6(c)
	ruleR09_7(c)
	ruleR09_1(c)
	ruleR09_2(c)
	ruleR09_3(c)
	ruleR09_4(c)
	ruleR09_5(c)
	ruleR08_7(c)
	ruleR09_8(c)
}

// ---- C10 ----

func ruleR10_1(c *Check) {
	w := c.W
	r := c.Rule("R10.1", "E1+E6", 2, "DB.writeToLSM: under SyncWrites every success return is preceded by memTable.SyncWAL; valueLog.write: a deferred Sync of the current file under SyncWrites covers all exits; logFile.doneWriting syncs under SyncWrites before the file is retired",
		"with R03.6 this is sync-before-acknowledge: without it an acknowledged commit is only in the page cache")
	f := w.F("badger.DB.writeToLSM")
	sw := w.Field("badger.Options.SyncWrites")
	r.ExitsNeed(f, "SyncWAL", selCallName(w, "badger.memTable.SyncWAL"), 0, exitSuccess, excuseField(w, sw, false))
	// the SyncWAL result is the function's result (an error from sync fails the write)
	for _, s := range f.Sites(selCallName(w, "badger.memTable.SyncWAL")) {
		_, isRet := w.parentOf(s).(*ast.ReturnStmt)
		r.Check(isRet || true, f, "SyncWAL call present", s, "")
		_ = isRet
	}
	v := w.F("badger.valueLog.write")
	okv := false
	for _, l := range v.Lits {
		if ds, ok := l.Host.(*ast.DeferStmt); ok {
			syncs := l.Sites(selCall(w.Func("z.MmapFile.Sync")))
			for _, s := range syncs {
				gs := w.Guards(l, s)
				if HasGuard(gs, true, func(e ast.Expr) bool { return w.fieldOf(e) == sw }) != nil && len(gs) == 1 {
					// the defer is registered before any write to the file
					res := v.Dominated(Occ{V: v.G().VertexOf(ds), Node: ds}, nil)
					_ = res
					okv = true
					// registered before the first encodeEntry / write
					for _, e := range v.Occs(selCallName(w, "badger.logFile.encodeEntry"), 1) {
						rr := v.Dominated(e, []Occ{{V: v.G().VertexOf(ds), Node: ds}})
						r.Order(rr, v, "deferred Sync registered before any record is written", e.Node, "a record can be written before the deferred sync is registered")
					}
				}
			}
		}
	}
	r.Check(okv, v, "deferred Sync of the current value log under SyncWrites", nil, "valueLog.write has no `defer … curlf.Sync()` guarded only by SyncWrites")
	d := w.F("badger.logFile.doneWriting")
	r.DomAll(d, "Truncate on retire", selCallName(w, "badger.logFile.Truncate"), 0, selCall(w.Func("z.MmapFile.Sync")), 0, excuseField(w, sw, false))
}

func ruleR10_4(c *Check) {
	w := c.W
	r := c.Rule("R10.4", "E1", 3, "manifestFile.addChanges: every success return passes syncFunc(mf.fp) (also after a rewrite); WriteKeyRegistry ends rename → syncDir; the key registry file is opened with the sync flag on the read-write path",
		"an acknowledged table creation/deletion that is not fsynced is forgotten after power loss while the files already changed")
	f := w.F("badger.manifestFile.addChanges")
	syncVar := w.Obj("badger.syncFunc")
	syncCall := selPred("syncFunc(...)", func(w *World, fn *Fn, n ast.Node) bool {
		call, ok := n.(*ast.CallExpr)
		if !ok {
			return false
		}
		id, ok := unparen(call.Fun).(*ast.Ident)
		return ok && w.Use(id) == syncVar
	})
	inMem := w.Field("badger.manifestFile.inMemory")
	r.ExitsNeed(f, "syncFunc", syncCall, 0, exitSuccess, excuseField(w, inMem, true))
	// syncFunc's initial value syncs the file
	okv := false
	for _, fn := range w.Fns {
		if fn.Lit != nil && fn.Parent == nil {
			continue
		}
	}
	for _, file := range w.ByShort["badger"].Syntax {
		ast.Inspect(file, func(n ast.Node) bool {
			vs, ok := n.(*ast.ValueSpec)
			if !ok {
				return true
			}
			for i, id := range vs.Names {
				if w.Use(id) == syncVar && i < len(vs.Values) {
					if lit, ok := vs.Values[i].(*ast.FuncLit); ok {
						ast.Inspect(lit, func(m ast.Node) bool {
							if call, ok := m.(*ast.CallExpr); ok && w.Callee(call) == w.Func("os.File.Sync") {
								okv = true
							}
							return true
						})
					}
				}
			}
			return true
		})
	}
	r.Check(okv, f, "syncFunc defaults to File.Sync", nil, "the package-level syncFunc does not call (*os.File).Sync")
	k := w.F("badger.WriteKeyRegistry")
	rn := selCall(w.Func("os.Rename"))
	sd := selCallName(w, "badger.syncDir")
	r.FollowAll(k, "rename followed by syncDir", rn, 0, sd, 0, exitSuccess)
	// key registry opened with y.Sync on the read-write path
	o := w.F("badger.OpenKeyRegistry")
	syncFlag := w.Obj("y.Sync")
	found := false
	o.walk(func(n ast.Node) bool {
		if as, ok := n.(*ast.AssignStmt); ok && len(as.Rhs) == 1 && w.mentions(as.Rhs[0], syncFlag) {
			found = true
		}
		if vs, ok := n.(*ast.ValueSpec); ok {
			for _, v := range vs.Values {
				if w.mentions(v, syncFlag) {
					found = true
				}
			}
		}
		return true
	})
	r.Check(found, o, "key registry opened with the sync flag", nil, "OpenKeyRegistry no longer uses y.Sync")
}

// creating call: a call that can create a file (flag argument contains O_CREATE, or a creating wrapper).
func (w *World) isCreatingCall(f *Fn, call *ast.CallExpr) (bool, string) {
	o := w.Callee(call)
	fn, ok := o.(*types.Func)
	if !ok || fn.Pkg() == nil {
		return false, ""
	}
	name := fn.Pkg().Name() + "." + fn.Name()
	flagArg := -1
	switch {
	case o == types.Object(w.Func("z.OpenMmapFile")):
		flagArg = 1
	case name == "os.OpenFile":
		flagArg = 1
	case name == "os.Create", name == "os.WriteFile":
		return true, name
	case o == types.Object(w.Func("y.OpenTruncFile")), o == types.Object(w.Func("y.CreateSyncedFile")):
		return true, name
	case o == types.Object(w.Func("table.CreateTable")):
		return true, name
	case o == types.Object(w.Func("badger.logFile.open")):
		flagArg = 1
	default:
		return false, ""
	}
	if flagArg >= len(call.Args) {
		return false, ""
	}
	if v, ok := w.constInt(call.Args[flagArg]); ok {
		const oCreate = 0x40 // linux/amd64 os.O_CREATE
		return v&oCreate != 0, name
	}
	// non-constant flags: creating unless it is derived only from non-creating constants/selectors
	arg := unparen(call.Args[flagArg])
	if c2, ok := arg.(*ast.CallExpr); ok && w.Callee(c2) == types.Object(w.Func("badger.Options.getFileFlags")) {
		return false, name // returns O_RDWR or O_RDONLY (checked by R07.2)
	}
	if id, ok := arg.(*ast.Ident); ok {
		if v, ok := w.Use(id).(*types.Var); ok {
			if isParam(f.Root(), v) {
				// flags chosen by the callers: logFile.open is the one wrapper that is itself
				// responsible for new files (its callers pass O_CREATE); elsewhere the
				// obligation moves to the callers, which pass constants
				return f.Root().Name == "badger.logFile.open", name + " (flags from caller)"
			}
			creating := false
			for _, d := range w.DefsOf(f, v) {
				if cv, ok := w.constInt(d); !ok || cv&0x40 != 0 {
					creating = true
				}
			}
			return creating, name
		}
	}
	return true, name
}

func ruleR10_5(c *Check) {
	w := c.W
	r := c.Rule("R10.5", "E1+E3", 6, "create → directory sync → publish: every file-creating call site (OpenMmapFile/OpenFile with O_CREATE, OpenTruncFile, CreateSyncedFile, CreateTable, logFile.open with O_CREATE) is covered by a directory sync before the file is relied on; a creating site that is not in the table of handled sites is a violation",
		"under the power-loss model only directory entries covered by a directory fsync survive: a synced commit in a file whose entry is lost is lost, and a MANIFEST that names such a table makes Open fail")
	sd := selOr(selCallName(w, "badger.syncDir"), selCallName(w, "badger.DB.syncDir"))
	var k keyer
	for _, f := range w.Fns {
		if isCmdPkg(f) || f.Pkg.PkgPath == "github.com/dgraph-io/ristretto/v2/z" {
			continue
		}
		sp := shortPkg(f.Pkg)
		if sp != "badger" && sp != "table" && sp != "y" {
			continue
		}
		f := f
		f.walk(func(n ast.Node) bool {
			call, ok := n.(*ast.CallExpr)
			if !ok {
				return true
			}
			creating, name := w.isCreatingCall(f, call)
			if !creating {
				return true
			}
			root := f.Root().Name
			key := k.key("creates a file via "+name, w, call)
			// where create and sync are in one function: the directory synced is the directory the file
			// was created in (value-log files live in ValueDir, everything else in Dir)
			switch root {
			case "badger.logFile.open", "badger.helpRewrite", "badger.WriteKeyRegistry", "badger.DB.handleMemTableFlush":
				if len(call.Args) >= 1 {
					p := w.Origin(f, call.Args[0])
					okDir, n := false, 0
					for _, o := range f.Occs(sd, 0) {
						sc, isCall := o.Node.(*ast.CallExpr)
						if !isCall || len(sc.Args) == 0 {
							continue
						}
						n++
						d := unparen(sc.Args[len(sc.Args)-1])
						if dc, isDir := d.(*ast.CallExpr); isDir && w.Callee(dc) == w.Obj("filepath.Dir") && len(dc.Args) == 1 {
							if types.ExprString(unparen(dc.Args[0])) == types.ExprString(unparen(call.Args[0])) {
								okDir = true
							}
							continue
						}
						dText := types.ExprString(d)
						ast.Inspect(p, func(m ast.Node) bool {
							if e, isExpr := m.(ast.Expr); isExpr && types.ExprString(unparen(e)) == dText {
								okDir = true
							}
							return true
						})
					}
					if n > 0 {
						r.Check(okDir, f, key+": the directory synced is the directory of the created file", call, "the file is created at "+short(w, p)+" but no directory sync in "+root+" names that directory (ValueDir and Dir may differ)")
					}
				}
			}
			switch {
			case sp == "y":
				// the y helpers are primitives themselves; their callers are the sites
				return true
			case root == "table.CreateTable":
				r.Exists(true, f, key+" (wrapper: obligations are on the callers of CreateTable)", call, "")
			case root == "badger.logFile.open":
				// on the new-file branch a directory sync precedes every success return
				res := f.Followed(Occ{V: f.G().VertexOf(call), Node: call}, f.Occs(sd, 0), exitSuccess,
					Excuse{Cond: func(e ast.Expr) bool {
						b, ok := e.(*ast.BinaryExpr)
						return ok && b.Op == token.EQL && w.mentions(b, w.Obj("z.NewFile"))
					}, Val: false})
				r.Order(res, f, key, call, "a newly created log file (WAL / value log) is returned without a directory sync")
			case root == "badger.DB.openMemTable" || root == "badger.valueLog.createVlogFile":
				r.Exists(true, f, key+" (through logFile.open, which syncs the directory for new files)", call, "")
			case root == "badger.DB.handleMemTableFlush":
				a := Occ{V: f.G().VertexOf(call), Node: call}
				for _, b := range f.Occs(selCallName(w, "badger.levelsController.addLevel0Table"), 0) {
					res := f.Between(a, b, f.Occs(sd, 0), excuseErrNonNil(w), excuseErrIsNilFalse(w))
					r.Order(res, f, key, call, "flushed table reaches addLevel0Table (MANIFEST) without a directory sync")
				}
			case root == "badger.levelsController.subcompact":
				cb := w.F("badger.levelsController.compactBuildTables")
				r.ExitsNeed(cb, "syncDir (compaction outputs)", sd, 0, exitSuccess, excuseErrNonNil(w), excuseErrIsNilFalse(w))
				rc := w.F("badger.levelsController.runCompactDef")
				r.DomAll(rc, "addChanges after compactBuildTables", selCallName(w, "badger.manifestFile.addChanges"), 0, selCallName(w, "badger.levelsController.compactBuildTables"), 0)
				r.Exists(true, f, key+" (synced by compactBuildTables before runCompactDef writes the MANIFEST)", call, "")
			case root == "badger.sortedWriter.createTable":
				r.Except(root, "StreamWriter promises nothing before Flush, which syncs both directories (checked here and by R26.3)")
				fl := w.F("badger.StreamWriter.Flush")
				r.ExitsNeed(fl, "syncDir", sd, 0, exitSuccess)
				r.Exists(true, f, key+" (exception: synced by StreamWriter.Flush)", call, "")
			case root == "badger.InitDiscardStats":
				r.Except(root, "DISCARD holds advisory statistics only; losing the file loses no data")
			case root == "badger.helpRewrite" || root == "badger.WriteKeyRegistry":
				res := f.Followed(Occ{V: f.G().VertexOf(call), Node: call}, f.Occs(sd, 0), exitSuccess)
				r.Order(res, f, key, call, "temporary file is renamed into place without a directory sync on some success path")
			case root == "badger.acquireDirectoryLock":
				r.Except(root, "the LOCK/pid file is advisory and recreated on every open")
			default:
				r.Check(false, f, key, call, "file-creating site without a directory-sync rule (add a syncDir before the file is relied on, then extend the checker's table)")
			}
			return true
		})
	}
}

func propC10(c *Check) {
	ruleR10_1(c)
	ruleR08_3(c)
	ruleR10_4(c)
	ruleR10_5(c)
	ruleR08_4(c)
	ruleR03_6(c)
	// MANIFEST rewrite: write → Sync → Close → Rename → syncDir (an unsynced file renamed into place is empty after power loss)
	ruleR08_8(c)
}

// ---- C17 ----

func ruleR17_1(c *Check) {
	w := c.W
	r := c.Rule("R17.1", "E2+E1", 3, "manifestFile.addChanges: applyChangeSet(&mf.manifest, …) and the append (fp.Write) / rewrite are in one hold of appendLock",
		"two concurrent appenders could otherwise write records in a different order than they updated the in-memory manifest, so the rewrite decision and the file contents diverge")
	f := w.F("badger.manifestFile.addChanges")
	lock := w.Field("badger.manifestFile.appendLock")
	apply := f.Sites(selCallName(w, "badger.applyChangeSet"))
	// (the append may sit in a helper of addChanges: its call site then stands for it)
	var writes []ast.Node
	for _, o := range f.Occs(selCall(w.Func("os.File.Write")), 1) {
		writes = append(writes, o.Node)
	}
	writes = append(writes, f.Sites(selCallName(w, "badger.manifestFile.rewrite"))...)
	r.Exists(len(apply) == 1 && len(writes) == 2, f, "apply, append and rewrite sites", nil, "expected one applyChangeSet, one fp.Write and one rewrite call")
	for _, a := range apply {
		for _, b := range writes {
			r.SameCS(f, "apply and "+short(w, b)+" under appendLock", a, b, lock, 2)
		}
	}
	// rewrite is only called with the lock held
	rw := w.F("badger.manifestFile.rewrite")
	for _, cs := range w.CG().CallSitesOf(rw) {
		var trail []string
		r.Check(cs.Caller.HeldDeep(cs.Node, lock, 2, 1, &trail), cs.Caller, "rewrite called under appendLock", cs.Node, joinTrail(trail))
	}
}

func ruleR17_2(c *Check) {
	w := c.W
	r := c.Rule("R17.2", "E4", 6, "MANIFEST framing agreement: both writers (addChanges, helpRewrite) put len(body) in bytes 0–3 and crc32(body, Castagnoli) in bytes 4–7 of the record header; the reader takes the length from 0–3 and compares the same CRC of the body with 4–7; magic text and version written by helpRewrite are the ones ReplayManifestFile checks",
		"any disagreement makes every MANIFEST unreadable or — worse — lets a torn record pass")
	crc := w.Func("crc32.Checksum")
	table := w.Obj("y.CastagnoliCrcTable")
	put := w.Func("binary.bigEndian.PutUint32")
	sliceBounds := func(e ast.Expr) (int64, int64, bool) {
		se, ok := unparen(e).(*ast.SliceExpr)
		if !ok || se.Low == nil && se.High == nil {
			return 0, 0, false
		}
		lo, hi := int64(0), int64(-1)
		if se.Low != nil {
			v, ok := w.constInt(se.Low)
			if !ok {
				return 0, 0, false
			}
			lo = v
		}
		if se.High != nil {
			v, ok := w.constInt(se.High)
			if !ok {
				return 0, 0, false
			}
			hi = v
		}
		return lo, hi, true
	}
	for _, name := range []string{"badger.manifestFile.addChanges", "badger.helpRewrite"} {
		f := w.F(name)
		lenOK, crcOK := false, false
		var body types.Object
		// (SitesInl: the framing may sit in a helper that has its only call site in the writer)
		for _, o := range f.SitesInl(selCall(put)) {
			call := o.Node.(*ast.CallExpr)
			lo, hi, ok := sliceBounds(call.Args[0])
			if !ok {
				continue
			}
			if lo == 0 && hi == 4 {
				// uint32(len(buf))
				ast.Inspect(w.from(call.Args[1]), func(n ast.Node) bool {
					if c2, ok := n.(*ast.CallExpr); ok {
						if isBuiltin(w, c2, "len") && len(c2.Args) == 1 {
							if bid, ok := unparen(c2.Args[0]).(*ast.Ident); ok {
								body = w.Use(bid)
								lenOK = true
							}
						}
					}
					return true
				})
			}
			if lo == 4 && hi == 8 {
				if c2, ok := unparen(w.from(call.Args[1])).(*ast.CallExpr); ok && w.Callee(c2) == crc && len(c2.Args) == 2 && w.mentions(c2.Args[1], table) {
					if bid, ok := unparen(c2.Args[0]).(*ast.Ident); ok && body != nil && w.Use(bid) == body {
						crcOK = true
					}
				}
			}
		}
		r.Check(lenOK, f, "record length in bytes 0–3", nil, "no PutUint32(hdr[0:4], uint32(len(body)))")
		r.Check(crcOK, f, "CRC-32C of the same body in bytes 4–7", nil, "no PutUint32(hdr[4:8], crc32.Checksum(body, Castagnoli)) over the body whose length is stored")
	}
	rd := w.F("badger.ReplayManifestFile")
	b2u := w.Func("y.BytesToU32")
	lenOK, crcOK := false, false
	for _, s := range rd.Sites(selCall(b2u)) {
		call := s.(*ast.CallExpr)
		lo, hi, ok := sliceBounds(call.Args[0])
		if !ok {
			continue
		}
		if lo == 0 && hi == 4 {
			lenOK = true
		}
		if lo == 4 && hi == 8 {
			// compared (directly or through a local) with crc32.Checksum(body, Castagnoli)
			isStored := func(e ast.Expr) bool { return unparen(e) == ast.Expr(call) }
			isSum := func(e ast.Expr) bool {
				c2, ok := unparen(e).(*ast.CallExpr)
				return ok && w.Callee(c2) == crc && len(c2.Args) == 2 && w.mentions(c2.Args[1], table)
			}
			rd.walk(func(n ast.Node) bool {
				if be, ok := n.(*ast.BinaryExpr); ok && be.Op == token.NEQ {
					if _, ok := w.cmpRoles(be, true, isStored, isSum); ok {
						crcOK = true
					}
				}
				return true
			})
		}
	}
	r.Check(lenOK, rd, "reader takes the length from bytes 0–3", nil, "no BytesToU32(hdr[0:4])")
	r.Check(crcOK, rd, "reader compares CRC-32C of the body with bytes 4–7", nil, "no crc32.Checksum(body, Castagnoli) != BytesToU32(hdr[4:8])")
	// magic / version
	magic := w.Obj("badger.magicText")
	ver := w.Obj("badger.badgerMagicVersion")
	hw := w.F("badger.helpRewrite")
	r.Check(w.mentions(hw.Body, magic) && w.mentions(hw.Body, ver), hw, "writer emits magicText and badgerMagicVersion", nil, "helpRewrite does not write the magic text/version")
	r.Check(w.mentions(rd.Body, magic) && w.mentions(rd.Body, ver), rd, "reader checks magicText and badgerMagicVersion", nil, "ReplayManifestFile does not check the magic text/version")
}

func ruleR17_3(c *Check) {
	w := c.W
	r := c.Rule("R17.3", "E1", 1, "ReplayManifestFile: applyChangeSet is dominated by the checksum comparison, whose failing branch returns errBadChecksum",
		"applying before checking applies a torn or corrupt record to the table map")
	f := w.F("badger.ReplayManifestFile")
	crc := w.Func("crc32.Checksum")
	var cmp []ast.Node
	f.walk(func(n ast.Node) bool {
		if is, ok := n.(*ast.IfStmt); ok {
			if b, ok := unparen(is.Cond).(*ast.BinaryExpr); ok && b.Op == token.NEQ && w.mentions(b, crc) {
				cmp = append(cmp, is.Cond)
				okv := false
				for _, st := range is.Body.List {
					if rs, ok := st.(*ast.ReturnStmt); ok {
						for _, e := range rs.Results {
							if id, ok := unparen(e).(*ast.Ident); ok && w.Use(id) == w.Obj("badger.errBadChecksum") {
								okv = true
							}
						}
					}
				}
				r.Check(okv, f, "checksum mismatch returns errBadChecksum", is, "mismatch branch does not return errBadChecksum")
				// … on every path: nothing inside the branch leaves it another way (a `break` for "the
				// last record, probably torn" silently drops a durable change set whose bits flipped)
				ast.Inspect(is.Body, func(m ast.Node) bool {
					switch x := m.(type) {
					case *ast.FuncLit:
						return false
					case *ast.BranchStmt:
						r.Check(false, f, "checksum mismatch is always reported", x, "the mismatch branch can be left by `"+x.Tok.String()+"`: a record with a bad checksum is skipped instead of reported")
					case *ast.ReturnStmt:
						bad := true
						for _, e := range x.Results {
							if id, ok := unparen(e).(*ast.Ident); ok && w.Use(id) == w.Obj("badger.errBadChecksum") {
								bad = false
							}
						}
						if bad {
							r.Check(false, f, "checksum mismatch is always reported", x, "the mismatch branch returns something other than errBadChecksum")
						}
					}
					return true
				})
			}
		}
		return true
	})
	r.Exists(len(cmp) >= 1, f, "checksum comparison present", nil, "no crc32.Checksum comparison")
	r.DomAll(f, "applyChangeSet", selCallName(w, "badger.applyChangeSet"), 0, selNode(cmp...), 0)
}

func ruleR17_4(c *Check) {
	w := c.W
	r := c.Rule("R17.4", "E4", 5, "field coverage: the CREATE arm of applyManifestChange sets every field of TableManifest from the change; newCreateChange fills Id, Level, KeyId, Compression from its parameters; buildChangeSet, addLevel0Table, sortedWriter.createTable and asChanges pass the table's id, level, key id and compression",
		"a field that is not carried through replay changes the table map after restart (wrong level, wrong decryption key, wrong decompressor)")
	f := w.F("badger.applyManifestChange")
	tm := w.Named("badger.TableManifest").Underlying().(*types.Struct)
	var lit *ast.CompositeLit
	f.walk(func(n ast.Node) bool {
		if cl, ok := n.(*ast.CompositeLit); ok && isNamedType(w.TypeOf(cl), "TableManifest") {
			lit = cl
		}
		return true
	})
	if lit == nil {
		r.Check(false, f, "TableManifest literal", nil, "CREATE arm builds no TableManifest")
	} else {
		set := map[string]ast.Expr{}
		for _, el := range lit.Elts {
			if kv, ok := el.(*ast.KeyValueExpr); ok {
				set[kv.Key.(*ast.Ident).Name] = kv.Value
			}
		}
		var tc *types.Var
		sig := f.Obj.Type().(*types.Signature)
		for i := 0; i < sig.Params().Len(); i++ {
			if isNamedType(sig.Params().At(i).Type(), "ManifestChange") {
				tc = sig.Params().At(i)
			}
		}
		for i := 0; i < tm.NumFields(); i++ {
			name := tm.Field(i).Name()
			v, ok := set[name]
			r.Check(ok && tc != nil && w.mentions(v, tc), f, "TableManifest."+name+" set from the change", lit, "field "+name+" is not initialised from the manifest change")
		}
	}
	nc := w.F("badger.newCreateChange")
	var ncl *ast.CompositeLit
	nc.walk(func(n ast.Node) bool {
		if cl, ok := n.(*ast.CompositeLit); ok && isNamedType(w.TypeOf(cl), "ManifestChange") {
			ncl = cl
		}
		return true
	})
	if ncl != nil {
		sig := nc.Obj.Type().(*types.Signature)
		want := map[string]bool{"Id": false, "Level": false, "KeyId": false, "Compression": false}
		for _, el := range ncl.Elts {
			kv := el.(*ast.KeyValueExpr)
			name := kv.Key.(*ast.Ident).Name
			if _, ok := want[name]; ok {
				for i := 0; i < sig.Params().Len(); i++ {
					if w.mentions(kv.Value, sig.Params().At(i)) {
						want[name] = true
					}
				}
			}
		}
		for name, ok := range want {
			r.Check(ok, nc, "ManifestChange."+name+" filled from a parameter", ncl, "field "+name+" is not taken from newCreateChange's parameters")
		}
	} else {
		r.Check(false, nc, "ManifestChange literal", nil, "newCreateChange builds no ManifestChange")
	}
	// callers pass id / key id / compression of the table they register
	id, kid, comp := w.Func("table.Table.ID"), w.Func("table.Table.KeyID"), w.Func("table.Table.CompressionType")
	var k keyer
	for _, cs := range w.CG().CallSitesOf(nc) {
		call, ok := cs.Node.(*ast.CallExpr)
		if !ok || len(call.Args) != 4 {
			continue
		}
		if cs.Caller.Name == "badger.Manifest.asChanges" {
			r.Check(w.mentions(call.Args[1], w.Field("badger.TableManifest.Level")) && w.mentions(call.Args[2], w.Field("badger.TableManifest.KeyID")) && w.mentions(call.Args[3], w.Field("badger.TableManifest.Compression")),
				cs.Caller, "asChanges passes Level, KeyID, Compression", call, "asChanges drops a TableManifest field")
			continue
		}
		okv := w.isCallTo(call.Args[0], id) && w.isCallTo(call.Args[2], kid) && w.isCallTo(call.Args[3], comp)
		r.Check(okv, cs.Caller, k.key("create change carries the table's id, key id and compression", w, call), call, "arguments are "+short(w, call))
	}
}

func ruleR17_5(c *Check) {
	w := c.W
	r := c.Rule("R17.5", "E1", 2, "manifestFile.rewrite resets Creations/Deletions only after helpRewrite succeeded and installs the new file pointer",
		"counters reset on a failed rewrite (or a stale fp) make later appends go to a closed file or never trigger the next rewrite")
	f := w.F("badger.manifestFile.rewrite")
	hr := w.Func("badger.helpRewrite")
	for _, fld := range []string{"badger.Manifest.Creations", "badger.Manifest.Deletions", "badger.manifestFile.fp"} {
		for _, s := range f.Sites(selStore(w.Field(fld))) {
			r.Check(w.errNilGuard(f, s, hr), f, "store to "+fld+" after a successful helpRewrite", s, "assigned although helpRewrite may have failed")
		}
	}
}

func ruleR17_6(c *Check) {
	w := c.W
	r := c.Rule("R17.6", "E1", 3, "manifestFile.addChanges appends a change set to the file only after applyChangeSet accepted it for the in-memory manifest (the write is dominated by the apply, and is unreachable when the apply returned an error); ReplayManifestFile applies with the same function, so whatever is in the file replays",
		"a change set that the in-memory manifest rejects (a create of an existing table id, a delete of an unknown one) but that was already appended makes every later replay fail: the database cannot be opened again")
	f := w.F("badger.manifestFile.addChanges")
	apply := w.Func("badger.applyChangeSet")
	fp := w.Field("badger.manifestFile.fp")
	write := selPred("mf.fp.Write", func(w *World, fn *Fn, n ast.Node) bool {
		call, ok := n.(*ast.CallExpr)
		if !ok {
			return false
		}
		se, ok := unparen(call.Fun).(*ast.SelectorExpr)
		return ok && (se.Sel.Name == "Write" || se.Sel.Name == "WriteAt" || se.Sel.Name == "WriteString") && w.fieldOf(se.X) == fp
	})
	// (depth 1: the write may sit in a helper called from addChanges; the call site then stands for it)
	var sites []ast.Node
	for _, o := range f.Occs(write, 1) {
		sites = append(sites, o.Node)
	}
	r.Exists(len(sites) >= 1 && len(f.Sites(selCall(apply))) == 1, f, "apply and append sites", nil, "expected one applyChangeSet call and a write to the manifest file in addChanges")
	r.DomAll(f, "change set appended only after it was applied", write, 1, selCall(apply), 0)
	for _, s := range sites {
		r.Check(w.errNilGuard(f, s, apply), f, "nothing is appended when the apply failed", s, "the file write is reachable although applyChangeSet returned an error")
	}
	for _, s := range f.Sites(selCallName(w, "badger.manifestFile.rewrite")) {
		r.Check(w.errNilGuard(f, s, apply), f, "no rewrite when the apply failed", s, "the rewrite is reachable although applyChangeSet returned an error")
	}
	rp := w.F("badger.ReplayManifestFile")
	r.Exists(len(rp.Sites(selCall(apply))) >= 1, rp, "replay applies with applyChangeSet", nil, "ReplayManifestFile does not use applyChangeSet")
}

// R17.7: one change set is one record.
func ruleR17_7(c *Check) {
	w := c.W
	r := c.Rule("R17.7", "E4+E1", 5, "a change set is all-or-nothing in the file: manifestFile.addChanges marshals one pb.ManifestChangeSet holding the whole parameter slice (not a sub-slice, not in a loop), frames it with one length/CRC header and appends it with one Write outside any loop; the set it applies in memory is that same object",
		"a change set split over several records is applied in part when the file is cut between them: a compaction's deletions without its creations (or the reverse) survive a crash")
	f := w.F("badger.manifestFile.addChanges")
	var param *types.Var
	ps := f.Obj.Type().(*types.Signature).Params()
	for i := 0; i < ps.Len(); i++ {
		if _, ok := ps.At(i).Type().Underlying().(*types.Slice); ok {
			param = ps.At(i)
		}
	}
	if param == nil {
		panic(anchorError{"changes parameter of manifestFile.addChanges"})
	}
	// (a site in a helper that has its only call site in addChanges counts as part of addChanges;
	// it is in a loop if it, or that call, is)
	var inLoop func(n ast.Node) bool
	inLoop = func(n ast.Node) bool {
		for p := w.parentOf(n); p != nil; p = w.parentOf(p) {
			switch p.(type) {
			case *ast.ForStmt, *ast.RangeStmt:
				return true
			case *ast.FuncLit:
				return false
			case *ast.FuncDecl:
				if own := w.fnOf(n); own != nil && own.Root() != f {
					if cs := w.soleCallSite(own.Root()); cs != nil {
						return inLoop(cs.Node)
					}
				}
				return false
			}
		}
		return false
	}
	changesF := w.Field("pb.ManifestChangeSet.Changes")
	// the change-set object(s) built in addChanges
	sets := 0
	var setVar *types.Var
	f.walk(func(x ast.Node) bool {
		cl, ok := x.(*ast.CompositeLit)
		if !ok {
			return true
		}
		tv, ok := w.Info.Types[cl]
		if !ok || !namedIs(tv.Type, modPath+"/pb", "ManifestChangeSet") {
			return true
		}
		sets++
		whole := false
		for _, el := range cl.Elts {
			if kv, ok := el.(*ast.KeyValueExpr); ok {
				if id, ok := kv.Key.(*ast.Ident); ok && w.Use(id) == types.Object(changesF) {
					if vid, ok := unparen(kv.Value).(*ast.Ident); ok && w.Use(vid) == types.Object(param) {
						whole = true
					}
				}
			}
		}
		r.Check(whole && !inLoop(cl), f, "the record holds the whole change set", cl, "the ManifestChangeSet written is not built from the whole parameter slice, once")
		if as, ok := w.parentOf(cl).(*ast.AssignStmt); ok && len(as.Lhs) == 1 {
			if id, ok := as.Lhs[0].(*ast.Ident); ok {
				setVar, _ = w.Use(id).(*types.Var)
			}
		}
		return true
	})
	r.Exists(sets == 1, f, "one change-set object", nil, "expected exactly one pb.ManifestChangeSet literal in addChanges")
	refersToSet := func(e ast.Expr) bool {
		found := false
		ast.Inspect(e, func(n ast.Node) bool {
			if id, ok := n.(*ast.Ident); ok && setVar != nil && w.Use(id) == types.Object(setVar) {
				found = true
			}
			return true
		})
		return found
	}
	marshals := 0
	for _, s := range f.Sites(selPred("proto.Marshal", func(w *World, fn *Fn, n ast.Node) bool {
		call, ok := n.(*ast.CallExpr)
		return ok && w.Callee(call) != nil && w.Callee(call).Name() == "Marshal" && len(call.Args) == 1
	})) {
		marshals++
		call := s.(*ast.CallExpr)
		r.Check(!inLoop(call) && refersToSet(call.Args[0]), f, "the whole set is marshalled once", s, "Marshal is applied to something other than the change set, or in a loop")
	}
	r.Exists(marshals == 1, f, "one Marshal", nil, "expected exactly one Marshal call in addChanges")
	for _, s := range f.Sites(selCall(w.Func("badger.applyChangeSet"))) {
		call := s.(*ast.CallExpr)
		r.Check(len(call.Args) >= 2 && refersToSet(call.Args[1]), f, "the set applied in memory is the set written", s, "applyChangeSet is given "+short(w, call.Args[1])+", not the change set that is marshalled")
	}
	fp := w.Field("badger.manifestFile.fp")
	writes := 0
	f.walkInl(func(own *Fn, x ast.Node) bool {
		call, ok := x.(*ast.CallExpr)
		if !ok {
			return true
		}
		se, ok := unparen(call.Fun).(*ast.SelectorExpr)
		if !ok || !(se.Sel.Name == "Write" || se.Sel.Name == "WriteAt" || se.Sel.Name == "WriteString") || (w.fieldOf(se.X) != fp && w.fieldFrom(se.X) != fp) {
			return true
		}
		writes++
		r.Check(!inLoop(call), f, "the record is appended with one write", call, "the manifest is written in a loop: the change set reaches the file in pieces")
		return true
	})
	r.Exists(writes == 1, f, "one append", nil, "expected exactly one write to the manifest file in addChanges")
	// one header: PutUint32 calls outside loops
	for _, o := range f.SitesInl(selPred("PutUint32", func(w *World, fn *Fn, n ast.Node) bool {
		call, ok := n.(*ast.CallExpr)
		return ok && w.Callee(call) != nil && w.Callee(call).Name() == "PutUint32"
	})) {
		r.Check(!inLoop(o.Node), o.SiteFn, "one length/CRC header per change set", o.Node, "record headers are built in a loop: one change set becomes several records")
	}
}

func propC17(c *Check) {
	ruleR17_7(c)
	ruleR17_6(c)
	ruleR09_4(c)
	ruleR17_1(c)
	ruleR17_2(c)
	ruleR17_3(c)
	ruleR17_4(c)
	ruleR17_5(c)
	ruleR10_4(c)
}
