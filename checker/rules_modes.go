package main

// C07 (close/re-open, read-only), C35 (directory locking), C37 (in-memory mode).

import (
	"go/ast"
	"go/token"
	"go/types"
	"sort"
	"strings"
)

func init() {
	register("C07", "Decides (R07.1) the ordering of DB.close — GC stopped, writers stopped, write channel closed, a non-empty memtable handed to the flusher, flusher and compactors stopped, then value log and tables closed, then directory locks released, then directories synced — and (R07.2) effect confinement for read-only opens: every call site of a file-mutating primitive (remove, rename, write, truncate, create, writable open, mmap truncate/delete) that is reachable from Open, Close or the read APIs is control-dependent, on every call path, on a test that fails in read-only mode (option test, derived readOnly parameter, dominating assertion, or flag selection). Does NOT decide equality of read results before and after re-open, nor behaviour under different compaction settings.", propC07)
	register("C35", "Decides the structural part of directory locking: (R35.1) unless in-memory or explicitly bypassed, Open acquires the directory lock(s) before the MANIFEST, key registry, memtables, tables or value log are opened, the value directory being locked too when it differs; (R35.2) the lock is flock LOCK_EX|LOCK_NB, replaced by LOCK_SH|LOCK_NB only for read-only opens, and a failing flock fails Open; (R35.3) error exits of Open release the locks (deferred, disarmed only on the success return) and DB.close releases both. Does NOT decide flock semantics across processes or the non-unix variants.", propC35)
	register("C37", "Decides effect confinement for in-memory mode: (R37.1) every call site of a file-touching primitive reachable from Open, the write path, flush, compaction, StreamWriter, DropAll/DropPrefix and Close is control-dependent, on every call path, on a test that fails when InMemory (Options.InMemory and the flags derived from it: manifestFile.inMemory, Table.IsInmemory, KeyRegistryOptions.InMemory, a nil WAL); (R37.2) Open forces ValueThreshold to MaxInt32 and SyncWrites off under InMemory and option validation rejects directories. Does NOT decide read equivalence with the on-disk database.", propC37)
}

// ---- effect confinement engine (R07.2, R37.1) ----

type modeSpec struct {
	name string
	// predicate: guard (cond,val) implies "not in this mode" (site is dead in the mode)
	dead func(w *World, f *Fn, g Guard) bool
	// options that Open forces to a fixed value in this mode: a guard requiring the other value is dead.
	// Each entry is verified (an assignment of that constant under the mode's test exists in Open).
	forced map[*types.Var]bool
	// call edges not followed, with the reason (callee name -> reason)
	stop map[string]string
}

// forcedOption verifies that Open assigns opt.<fld> = val under a test that holds in the mode.
func forcedOption(w *World, fld *types.Var, val bool, modeFld *types.Var) bool {
	ok := false
	for _, name := range []string{"badger.Open", "badger.checkAndSetOptions"} {
		f := w.F(name)
		for _, s := range f.Sites(selStore(fld)) {
			as, isAs := s.(*ast.AssignStmt)
			if !isAs || len(as.Rhs) != 1 {
				continue
			}
			tv := w.Info.Types[as.Rhs[0]]
			if tv.Value == nil || (tv.Value.String() == "true") != val {
				continue
			}
			for _, g := range w.Guards(f, as) {
				if w.fieldOf(g.Cond) == modeFld && g.Val {
					ok = true
				}
			}
		}
	}
	return ok
}

// condException: a primitive site tolerated as long as none of the `unless` functions is reachable in the mode.
type condException struct {
	reason string
	unless []string
}

// fieldTest: g tests field fld (or a parameter derived from it) and asserts it is `want`.
func guardOnField(w *World, g Guard, want bool, flds ...*types.Var) bool {
	f := w.fieldOf(g.Cond)
	for _, x := range flds {
		if f == x && g.Val == want {
			return true
		}
	}
	return false
}

func readOnlyMode(w *World) modeSpec {
	ro := []*types.Var{w.Field("badger.Options.ReadOnly"), w.Field("badger.KeyRegistryOptions.ReadOnly"), w.Field("badger.directoryLockGuard.readOnly")}
	return modeSpec{name: "read-only", dead: func(w *World, f *Fn, g Guard) bool {
		if guardOnField(w, g, false, ro...) {
			return true
		}
		// derived boolean parameter named readOnly (helpOpenOrCreateManifestFile, acquireDirectoryLock, iterate)
		if id, ok := g.Cond.(*ast.Ident); ok && !g.Val {
			if v, ok := w.Use(id).(*types.Var); ok && isParam(f.Root(), v) && strings.EqualFold(v.Name(), "readOnly") {
				return true
			}
		}
		// y.ReadOnly flag test: flags&y.ReadOnly == 0
		return false
	}}
}

func inMemoryMode(w *World) modeSpec {
	im := []*types.Var{w.Field("badger.Options.InMemory"), w.Field("badger.manifestFile.inMemory"), w.Field("table.Table.IsInmemory"), w.Field("badger.KeyRegistryOptions.InMemory")}
	wal := w.Field("badger.memTable.wal")
	return modeSpec{name: "in-memory", dead: func(w *World, f *Fn, g Guard) bool {
		if guardOnField(w, g, false, im...) {
			return true
		}
		// mt.wal != nil  (true)  /  mt.wal == nil (false)
		if be, ok := g.Cond.(*ast.BinaryExpr); ok && isNil(be.Y) && w.fieldOf(be.X) == wal {
			if (be.Op == token.NEQ && g.Val) || (be.Op == token.EQL && !g.Val) {
				return true
			}
		}
		// `mt.wal == nil || mt.sl == nil` early return is split by Guards (LOR false) already
		return false
	}}
}

type primitive struct {
	name   string
	mutate bool
}

// filePrimitive classifies a call as a file-system primitive.
func (w *World) filePrimitive(f *Fn, call *ast.CallExpr) (primitive, bool) {
	fn, ok := w.Callee(call).(*types.Func)
	if !ok || fn.Pkg() == nil {
		return primitive{}, false
	}
	pkg := fn.Pkg().Path()
	recv := ""
	if sig := fn.Type().(*types.Signature); sig.Recv() != nil {
		recv = recvName(sig.Recv().Type())
	}
	name := fn.Name()
	full := pkg + "." + name
	if recv != "" {
		full = pkg + "." + recv + "." + name
	}
	const zp = "github.com/dgraph-io/ristretto/v2/z"
	switch full {
	case "os.Remove", "os.RemoveAll", "os.Rename", "os.WriteFile", "os.MkdirAll", "os.Mkdir", "os.Truncate", "os.Create":
		return primitive{full, true}, true
	case "os.File.Write", "os.File.WriteAt", "os.File.WriteString", "os.File.Truncate":
		return primitive{full, true}, true
	case "os.Open", "os.ReadDir", "os.ReadFile", "os.Stat", "os.File.Sync", "os.File.Read", "os.File.Seek", "os.File.Stat", "path/filepath.Walk":
		return primitive{full, false}, true
	case zp + ".MmapFile.Truncate", zp + ".MmapFile.Delete":
		return primitive{"z.MmapFile." + name, true}, true
	case zp + ".MmapFile.Sync", zp + ".Msync", zp + ".MmapFile.Close":
		return primitive{"z." + recv + "." + name, false}, true
	case modPath + "/y.OpenTruncFile", modPath + "/y.CreateSyncedFile":
		return primitive{"y." + name, true}, true
	case modPath + "/y.OpenExistingFile":
		return primitive{"y." + name, false}, true
	case modPath + ".syncDir":
		return primitive{"syncDir", false}, true
	case "os.OpenFile", zp + ".OpenMmapFile":
		// writable/creating unless the flag argument is provably read-only
		mut := true
		if len(call.Args) > 1 {
			if v, ok := w.constInt(call.Args[1]); ok {
				mut = v != 0 // os.O_RDONLY == 0
			} else if c2, ok := unparen(call.Args[1]).(*ast.CallExpr); ok && w.Callee(c2) == types.Object(w.Func("badger.Options.getFileFlags")) {
				mut = false // selects O_RDONLY under ReadOnly (checked separately)
			} else if id, ok := unparen(call.Args[1]).(*ast.Ident); ok {
				if v, ok := w.Use(id).(*types.Var); ok && isParam(f.Root(), v) {
					mut = false // flags chosen by the callers: checked at their call sites (flag selection rule)
				}
			}
		}
		n := "os.OpenFile"
		if pkg == zp {
			n = "z.OpenMmapFile"
		}
		return primitive{n, mut}, true
	}
	return primitive{}, false
}

type effectSite struct {
	fn   *Fn
	call *ast.CallExpr
	prim primitive
}

// confinement checks that every primitive site selected by `want` reachable from roots is dead in the mode.
// lastReach holds the functions found reachable in the mode by the latest confinement run.
var lastReach map[*Fn]*CallSite

func confinement(c *Check, r *RuleInfo, mode modeSpec, roots []*Fn, want func(p primitive) bool, exceptions map[string]condException) (sitesSeen int) {
	w := c.W
	cg := w.CG()
	deadAt := func(f *Fn, n ast.Node) bool {
		for _, g := range w.Guards(f, n) {
			if mode.dead(w, f, g) {
				return true
			}
			if fld := w.fieldOf(g.Cond); fld != nil {
				if forcedVal, ok := mode.forced[fld]; ok && g.Val != forcedVal {
					return true
				}
			}
		}
		return false
	}
	// a function literal inherits the guards of the place that creates it
	var deadNode func(f *Fn, n ast.Node) bool
	deadNode = func(f *Fn, n ast.Node) bool {
		if deadAt(f, n) {
			return true
		}
		if f.Lit != nil && f.Parent != nil {
			return deadNode(f.Parent, f.Lit)
		}
		return false
	}
	for callee, reason := range mode.stop {
		r.Except("edge into "+callee, reason)
	}
	seen := cg.Reach(roots, reachOpt{Stop: func(cs *CallSite) bool {
		if _, stop := mode.stop[cs.Callee.Name]; stop {
			return true
		}
		if cs.Kind == "ref" {
			return false
		}
		return deadNode(cs.Caller, cs.Node)
	}})
	lastReach = seen
	var fns []*Fn
	for f := range seen {
		fns = append(fns, f)
	}
	sort.Slice(fns, func(i, j int) bool { return fns[i].Name < fns[j].Name })
	reachableByName := map[string]*Fn{}
	for _, f := range fns {
		reachableByName[f.Root().Name] = f
	}
	var k keyer
	for _, f := range fns {
		// package y's file helpers are primitives themselves (classified by filePrimitive at their call sites)
		if f.Pkg.PkgPath == "github.com/dgraph-io/ristretto/v2/z" || isCmdPkg(f) || shortPkg(f.Pkg) == "y" {
			continue
		}
		f := f
		f.walk(func(n ast.Node) bool {
			call, ok := n.(*ast.CallExpr)
			if !ok {
				return true
			}
			p, ok := w.filePrimitive(f, call)
			if !ok || !want(p) {
				return true
			}
			sitesSeen++
			key := k.key(p.name+" in "+f.Root().Name, w, call)
			if deadNode(f, call) {
				r.Check(true, f, key, call, "")
				return true
			}
			if ex, isExc := exceptions[f.Root().Name+"|"+p.name]; isExc {
				var bad []string
				for _, u := range ex.unless {
					if g := reachableByName[u]; g != nil {
						bad = append(bad, u+" ("+strings.Join(chain(seen, g), " -> ")+")")
					}
				}
				if len(bad) == 0 {
					r.Except(f.Root().Name+"|"+p.name, ex.reason)
					r.Check(true, f, key+" (exception: its precondition is unreachable in "+mode.name+" mode)", call, "")
				} else {
					r.Check(false, f, key, call, p.name+" is tolerated only while "+strings.Join(ex.unless, ", ")+" cannot run in "+mode.name+" mode, but reachable: "+strings.Join(bad, "; "))
				}
				return true
			}
			if deadNode(f, call) {
				r.Check(true, f, key, call, "")
				return true
			}
			r.Check(false, f, key, call, p.name+" is reachable in "+mode.name+" mode and not guarded against it; call path: "+strings.Join(chain(seen, f), " -> "))
			return true
		})
	}
	return
}

func rootsByName(w *World, names ...string) []*Fn {
	var out []*Fn
	for _, n := range names {
		out = append(out, w.F(n))
	}
	return out
}

func ruleR07_2(c *Check) {
	w := c.W
	r := c.Rule("R07.2", "E3+E6", 12, "read-only mutates nothing: every call site of a file-mutating primitive (os.Remove/Rename/WriteFile/MkdirAll/Truncate/Create, (*os.File).Write/Truncate, writable or creating OpenFile/OpenMmapFile, MmapFile.Truncate/Delete, y.OpenTruncFile/CreateSyncedFile) reachable from Open, close and the read APIs is, on every call path, under a test that fails when ReadOnly; file-open flags are selected read-only under ReadOnly",
		"a read-only open (several may run concurrently under a shared lock, possibly on read-only media) that deletes, truncates or rewrites files changes the database under other readers or fails")
	roots := rootsByName(w, "badger.Open", "badger.DB.close", "badger.DB.View", "badger.Txn.Get", "badger.Txn.NewIterator",
		"badger.Iterator.Next", "badger.Iterator.Seek", "badger.Iterator.Close", "badger.Item.Value", "badger.Item.ValueCopy", "badger.DB.Backup", "badger.Stream.Orchestrate")
	gcAndDrops := []string{"badger.valueLog.rewrite", "badger.valueLog.dropAll", "badger.levelHandler.replaceTables", "badger.levelHandler.deleteTables", "badger.levelsController.dropTree", "badger.DB.handleMemTableFlush"}
	exc := map[string]condException{
		"badger.logFile.open|os.Remove": {reason: "removes the file only when this very call created it (ferr == z.NewFile), impossible without O_CREATE, which read-only opens never pass (flag selection is checked below)"},
		"badger.valueLog.deleteLogFile|z.MmapFile.Delete": {reason: "deletes only files queued by a GC rewrite or by DropAll; neither can run read-only", unless: gcAndDrops[:2]},
		"badger.discardStats.Update|z.MmapFile.Truncate": {reason: "reached only through deleteLogFile (see above) or compaction statistics; neither can run read-only", unless: gcAndDrops},
		"table.Table.DecrRef|z.MmapFile.Delete": {reason: "the file is deleted only when the last reference goes, i.e. after a level released its own reference (compaction, flush failure, drop); none of those can run read-only, and the table is opened O_RDONLY (getFileFlags, checked below) so Delete's truncate-by-descriptor fails before any removal", unless: gcAndDrops[2:]},
		"badger.DB.openMemTable|z.MmapFile.Delete": {reason: "Skiplist.OnClose: in read-only mode the WAL is opened O_RDONLY (flag selection checked below); MmapFile.Delete truncates through the descriptor first, which fails on a read-only descriptor, and returns before removing the file"},
	}
	mode := readOnlyMode(w)
	roFld := w.Field("badger.Options.ReadOnly")
	cl0 := w.Field("badger.Options.CompactL0OnClose")
	forcedOK := forcedOption(w, cl0, false, roFld)
	r.Check(forcedOK, w.F("badger.checkAndSetOptions"), "CompactL0OnClose forced off for read-only opens", nil, "option validation no longer clears CompactL0OnClose under ReadOnly")
	if forcedOK {
		mode.forced = map[*types.Var]bool{cl0: false}
	}
	mode.stop = map[string]string{
		"badger.DB.doWrites": "the write loop runs in read-only mode too but never receives a request: newTransaction forces update=false under ReadOnly and Txn.modify rejects non-update transactions (both verified here); the other producers of requests (GC rewrite, merge operator compaction, Load, StreamWriter) are write APIs",
	}
	// verification of the stop edge's argument
	nt := w.F("badger.DB.newTransaction")
	okForce := false
	for _, s := range nt.Sites(selPred("update = false", func(w *World, f *Fn, n ast.Node) bool {
		as, ok := n.(*ast.AssignStmt)
		if !ok || len(as.Lhs) != 1 {
			return false
		}
		id, ok := as.Lhs[0].(*ast.Ident)
		if !ok {
			return false
		}
		v, ok := w.Use(id).(*types.Var)
		tv := w.Info.Types[as.Rhs[0]]
		return ok && isParam(f, v) && tv.Value != nil && tv.Value.String() == "false"
	})) {
		for _, g := range w.Guards(nt, s) {
			if w.fieldOf(g.Cond) == roFld && g.Val {
				okForce = true
			}
		}
	}
	r.Check(okForce, nt, "read-only DBs only create read-only transactions", nil, "newTransaction no longer forces update=false under ReadOnly")
	md := w.F("badger.Txn.modify")
	okRej := false
	for _, m := range modifyRejections(w) {
		if m.class == "update" {
			okRej = true
		}
	}
	r.Check(okRej, md, "writes are rejected on read-only transactions", nil, "Txn.modify no longer rejects !txn.update first")
	n := confinement(c, r, mode, roots, func(p primitive) bool { return p.mutate }, exc)
	r.Exists(n >= 10, nil, "mutating primitive sites examined", nil, "too few primitive sites found: the primitive table no longer matches the tree")
	// flag selection: callers that pass open flags down choose O_RDONLY under ReadOnly
	ro := w.Field("badger.Options.ReadOnly")
	var k keyer
	checkFlags := func(fname string, argIdx int) {
		t := w.F(fname)
		for _, cs := range w.CG().CallSitesOf(t) {
			call, ok := cs.Node.(*ast.CallExpr)
			if !ok || argIdx >= len(call.Args) {
				continue
			}
			arg := unparen(call.Args[argIdx])
			f := cs.Caller
			okv, why := false, "flags argument is "+short(w, arg)
			if v, isC := w.constInt(arg); isC {
				// a constant writable/creating flag must itself be dead in read-only mode
				if v == 0 {
					okv = true
				} else {
					for _, g := range w.Guards(f, call) {
						if readOnlyMode(w).dead(w, f, g) {
							okv = true
						}
					}
					if !okv {
						// or the enclosing function is only reached in read-write mode
						_, reachable := lastReach[f]
						okv = !reachable
					}
					why = "constant writable flags passed on a path that read-only mode can reach"
				}
			} else if id, isID := arg.(*ast.Ident); isID {
				if v, ok := w.Use(id).(*types.Var); ok {
					if isParam(f.Root(), v) {
						okv = true // checked at that function's callers
					} else {
						for _, st := range f.Sites(selStoreVar(v)) {
							as, ok := st.(*ast.AssignStmt)
							if !ok {
								continue
							}
							if cv, isC := w.constInt(as.Rhs[0]); isC && cv == 0 {
								for _, g := range w.Guards(f, as) {
									if w.fieldOf(g.Cond) == ro && g.Val {
										okv = true
									}
								}
							}
						}
						why = "flags variable is never set to O_RDONLY under ReadOnly"
					}
				}
			}
			r.Check(okv, f, k.key("open flags select read-only under ReadOnly ("+fname+")", w, call), call, why)
		}
	}
	checkFlags("badger.logFile.open", 1)
	checkFlags("badger.DB.openMemTable", 1)
	gf := w.F("badger.Options.getFileFlags")
	okg := false
	gf.walk(func(n ast.Node) bool {
		if as, ok := n.(*ast.AssignStmt); ok && len(as.Rhs) == 1 && w.mentions(as.Rhs[0], w.Obj("os.O_RDONLY")) {
			for _, g := range w.Guards(gf, as) {
				if w.fieldOf(g.Cond) == ro && g.Val {
					okg = true
				}
			}
		}
		return true
	})
	r.Check(okg, gf, "getFileFlags yields O_RDONLY under ReadOnly", nil, "getFileFlags no longer selects O_RDONLY for read-only")
}

// onlyReachedWhenDead: every call path into f (up to depth) passes a call site that is dead in the mode.
func onlyReachedWhenDead(w *World, f *Fn, mode modeSpec, depth int) bool {
	if depth == 0 {
		return false
	}
	sites := w.CG().CallSitesOf(f)
	if len(sites) == 0 {
		return false
	}
	for _, cs := range sites {
		if cs.Kind == "ref" {
			continue
		}
		dead := false
		for _, g := range w.Guards(cs.Caller, cs.Node) {
			if mode.dead(w, cs.Caller, g) {
				dead = true
			}
		}
		if !dead && !onlyReachedWhenDead(w, cs.Caller, mode, depth-1) {
			return false
		}
	}
	return true
}

func ruleR07_1(c *Check) {
	w := c.W
	r := c.Rule("R07.1", "E1", 9, "DB.close order: value GC stopped → writers stopped (closers.writes.SignalAndWait) → close(writeCh) → non-empty memtable handed to flushChan and appended to imm → stopMemoryFlush → stopCompactions → vlog.Close → lc.close → directory lock release → manifest/registry close → directory syncs",
		"closing the value log or the tables before the last memtable is flushed loses or corrupts the tail of the data; releasing the directory lock earlier lets another process open a database that is still being written")
	f := w.F("badger.DB.close")
	closers := func(field string) Sel {
		return selPred("closers."+field+".SignalAndWait", func(w *World, fn *Fn, n ast.Node) bool {
			call, ok := n.(*ast.CallExpr)
			if !ok {
				return false
			}
			s, ok := unparen(call.Fun).(*ast.SelectorExpr)
			return ok && (s.Sel.Name == "SignalAndWait") && w.fieldOf(s.X) == w.Field("badger.closers."+field)
		})
	}
	writes := closers("writes")
	closeCh := selClose(w.Field("badger.DB.writeCh"))
	hand := selSend(w.Field("badger.DB.flushChan"))
	stopFlush := selCallName(w, "badger.DB.stopMemoryFlush")
	stopComp := selCallName(w, "badger.DB.stopCompactions")
	vclose := selCallName(w, "badger.valueLog.Close")
	lclose := selCallName(w, "badger.levelsController.close")
	release := selCallName(w, "badger.directoryLockGuard.release")
	sdir := selCallName(w, "badger.DB.syncDir")
	chainSel := []struct {
		what string
		b, a Sel
	}{
		{"write channel closed after the writers stopped", closeCh, writes},
		{"memtable handed to the flusher after the writers stopped", hand, writes},
		{"flusher stopped after the write channel was closed", stopFlush, closeCh},
		{"compactions stopped after the flusher", stopComp, stopFlush},
		{"value log closed after flusher and compactors stopped", vclose, stopComp},
		{"tables closed after the value log", lclose, vclose},
		{"directory lock released after the tables were closed", release, lclose},
		{"directory lock released after the value log was closed", release, vclose},
		{"directories synced after the locks were released", sdir, release},
	}
	noGuard := Excuse{Cond: func(e ast.Expr) bool {
		be, ok := e.(*ast.BinaryExpr)
		return ok && be.Op == token.NEQ && isNil(be.Y) && (w.fieldOf(be.X) == w.Field("badger.DB.dirLockGuard") || w.fieldOf(be.X) == w.Field("badger.DB.valueDirGuard"))
	}, Val: false}
	for _, x := range chainSel {
		n := r.DomAll(f, x.what, x.b, 1, x.a, 1, noGuard)
		r.Exists(n >= 1, f, "site present: "+x.what, nil, "DB.close no longer contains "+x.b.Key)
	}
	// GC stopped first (when it exists)
	r.DomAll(f, "writers stopped after value GC", writes, 0, closers("valueGC"), 0, Excuse{Cond: func(e ast.Expr) bool {
		be, ok := e.(*ast.BinaryExpr)
		return ok && be.Op == token.NEQ && w.fieldOf(be.X) == w.Field("badger.closers.valueGC")
	}, Val: false})
	// the hand-over appends to imm and clears mt under DB.lock
	for _, o := range f.SitesDeep(hand) {
		r.Check(o.SiteFn.HeldAt(o.Node)[types.Object(w.Field("badger.DB.lock"))] == 2, o.SiteFn, "hand-over under DB.lock", o.Node, "flushChan send outside DB.lock")
	}
	// stopMemoryFlush closes flushChan and waits
	sm := w.F("badger.DB.stopMemoryFlush")
	r.DomAll(sm, "wait for the flusher after closing flushChan", selPred("memtable.SignalAndWait", func(w *World, fn *Fn, n ast.Node) bool {
		call, ok := n.(*ast.CallExpr)
		if !ok {
			return false
		}
		s, ok := unparen(call.Fun).(*ast.SelectorExpr)
		return ok && s.Sel.Name == "SignalAndWait" && w.fieldOf(s.X) == w.Field("badger.closers.memtable")
	}), 0, selClose(w.Field("badger.DB.flushChan")), 0)
}

func propC07(c *Check) {
	ruleR07_1(c)
	ruleR07_2(c)
	ruleR08_4(c)
	ruleR11_1(c)
	// a re-open reads what the previous session wrote with the previous session's settings
	ruleR19_4(c) // filter presence comes from the table file, not from today's options
	ruleR23_5(c) // data-key ids survive a re-open without reuse
}

// ---- C35 ----

func ruleR35_1(c *Check) {
	w := c.W
	r := c.Rule("R35.1", "E1+E6", 6, "Open: unless InMemory or BypassLockGuard, acquireDirectoryLock(opt.Dir, …, opt.ReadOnly) dominates openOrCreateManifestFile, OpenKeyRegistry, openMemTables, newLevelsController and vlog.open; the value directory is locked as well when its absolute path differs",
		"touching MANIFEST, WAL or tables before holding the lock lets two writers interleave on the same files")
	f := w.F("badger.Open")
	acq := selCallName(w, "badger.acquireDirectoryLock")
	inMem := w.Field("badger.Options.InMemory")
	byp := w.Field("badger.Options.BypassLockGuard")
	ex := []Excuse{excuseField(w, inMem, true), excuseField(w, byp, true)}
	for _, name := range []string{"badger.openOrCreateManifestFile", "badger.OpenKeyRegistry", "badger.DB.openMemTables", "badger.newLevelsController", "badger.valueLog.open"} {
		n := r.DomAll(f, "lock held before "+name, selCallName(w, name), 0, acq, 0, ex...)
		r.Exists(n >= 1, f, "site present: "+name, nil, "Open no longer calls "+name)
	}
	sites := f.Sites(acq)
	r.Exists(len(sites) == 2, f, "Dir and ValueDir locked", nil, "expected two acquireDirectoryLock calls")
	dir, vdir, ro := w.Field("badger.Options.Dir"), w.Field("badger.Options.ValueDir"), w.Field("badger.Options.ReadOnly")
	seenDir, seenV := false, false
	for _, s := range sites {
		call := s.(*ast.CallExpr)
		r.Check(w.fieldOf(call.Args[2]) == ro, f, "lock mode follows opt.ReadOnly", s, "third argument is "+short(w, call.Args[2]))
		switch w.fieldOf(call.Args[0]) {
		case dir:
			seenDir = true
		case vdir:
			seenV = true
			okv := false
			for _, g := range w.Guards(f, call) {
				if be, ok := g.Cond.(*ast.BinaryExpr); ok && be.Op == token.NEQ && g.Val {
					okv = true
				}
			}
			r.Check(okv, f, "value directory locked when it differs", s, "ValueDir lock not under the path comparison")
		}
	}
	r.Check(seenDir && seenV, f, "both directories covered", nil, "Dir or ValueDir is not locked")
}

func ruleR35_2(c *Check) {
	w := c.W
	r := c.Rule("R35.2", "E6", 3, "acquireDirectoryLock: flock with LOCK_EX|LOCK_NB, replaced by LOCK_SH|LOCK_NB only under readOnly; a failing Flock returns an error",
		"a shared lock for a writer (or ignoring the flock error) admits a second writer")
	f := w.F("badger.acquireDirectoryLock")
	const ux = "golang.org/x/sys/unix"
	ex, sh, nb := w.ObjIn(ux, "LOCK_EX"), w.ObjIn(ux, "LOCK_SH"), w.ObjIn(ux, "LOCK_NB")
	var opts *types.Var
	for _, s := range f.Sites(selCall(w.ObjIn(ux, "Flock"))) {
		if id, ok := unparen(s.(*ast.CallExpr).Args[1]).(*ast.Ident); ok {
			opts, _ = w.Use(id).(*types.Var)
		}
		r.Check(w.errIsFatal(f, s.(*ast.CallExpr)), f, "a failing flock fails the open", s, "the error of Flock can be ignored")
	}
	if opts == nil {
		r.Check(false, f, "flock options variable", nil, "cannot find the options passed to Flock")
		return
	}
	okEx, okSh := false, false
	for _, s := range f.Sites(selStoreVar(opts)) {
		as := s.(*ast.AssignStmt)
		rhs := as.Rhs[0]
		gs := w.Guards(f, as)
		underRO := false
		for _, g := range gs {
			if id, ok := g.Cond.(*ast.Ident); ok && g.Val && !g.Implicit {
				if v, ok := w.Use(id).(*types.Var); ok && isParam(f, v) {
					underRO = true
				}
			}
		}
		switch {
		case w.mentions(rhs, ex) && w.mentions(rhs, nb) && !underRO:
			okEx = true
		case w.mentions(rhs, sh) && w.mentions(rhs, nb) && underRO:
			okSh = true
		default:
			r.Check(false, f, "flock mode", s, "lock options "+short(w, rhs)+" assigned on an unexpected path")
		}
	}
	r.Check(okEx, f, "exclusive non-blocking lock by default", nil, "default options are not LOCK_EX|LOCK_NB")
	r.Check(okSh, f, "shared lock only for read-only", nil, "LOCK_SH is not confined to the readOnly branch")
	// the lock lives as long as the descriptor: the success return hands the locked descriptor to the
	// guard and does not close it; release() closes it on every path
	var fd *types.Var
	for _, s := range f.Sites(selCall(w.ObjIn(ux, "Flock"))) {
		ast.Inspect(s.(*ast.CallExpr).Args[0], func(n ast.Node) bool {
			if id, ok := n.(*ast.Ident); ok && fd == nil {
				if v, ok := w.Use(id).(*types.Var); ok && !v.IsField() && namedOf(v.Type()) != nil && namedOf(v.Type()).Name() == "File" {
					fd = v
				}
			}
			return true
		})
	}
	r.Check(fd != nil, f, "locked descriptor identified", nil, "cannot find the *os.File passed to Flock")
	if fd != nil {
		for _, e := range f.successExits() {
			rs := e.Node.(*ast.ReturnStmt)
			r.Check(w.mentions(rs.Results[0], fd), f, "the guard keeps the locked descriptor", rs, "the success return does not hand the flocked descriptor to the guard (the lock is lost when the file is collected)")
		}
		closes := selPred("f.Close()", func(w *World, fn *Fn, n ast.Node) bool {
			call, ok := n.(*ast.CallExpr)
			if !ok || !isCallNamed(w, call, "Close") {
				return false
			}
			id, ok := unparen(recvOf(call)).(*ast.Ident)
			return ok && w.Use(id) == types.Object(fd)
		})
		for _, s := range f.Sites(closes) {
			okErr := false
			for _, g := range w.Guards(f, s) {
				if w.errNonNil(g.Cond, g.Val) {
					okErr = true
				}
			}
			r.Check(okErr, f, "the descriptor is closed only when acquiring failed", s, "the locked descriptor is closed on a path that goes on to succeed: the lock is released at once")
		}
	}
	rl := w.F("badger.directoryLockGuard.release")
	gf := w.Field("badger.directoryLockGuard.f")
	r.ExitsNeed(rl, "descriptor closed (lock released)", selPred("guard.f.Close()", func(w *World, fn *Fn, n ast.Node) bool {
		call, ok := n.(*ast.CallExpr)
		return ok && isCallNamed(w, call, "Close") && recvOf(call) != nil && w.fieldOf(recvOf(call)) == gf
	}), 0, exitAll)
}

func ruleR35_3(c *Check) {
	w := c.W
	r := c.Rule("R35.3", "E1", 4, "Open releases the acquired locks on error exits (deferred release, disarmed by setting the guard variables to nil only right before the success return); DB.close releases both guards",
		"a lock that survives a failed Open blocks every later open of the directory from this process; a lock not released at Close blocks the next writer")
	f := w.F("badger.Open")
	rel := w.Func("badger.directoryLockGuard.release")
	// deferred literals that release
	n := 0
	var guards []*types.Var
	for _, l := range f.Lits {
		if _, ok := l.Host.(*ast.DeferStmt); !ok {
			continue
		}
		for _, s := range l.Sites(selCall(rel)) {
			n++
			if id, ok := unparen(recvOf(s.(*ast.CallExpr))).(*ast.Ident); ok {
				if v, ok := w.Use(id).(*types.Var); ok {
					guards = append(guards, v)
				}
			}
		}
	}
	r.Check(n == 2, f, "both locks released by deferred functions", nil, "expected two deferred release() calls in Open")
	// disarming stores (guard = nil) only directly before the final success return
	for _, gv := range guards {
		for _, s := range f.Sites(selStoreVar(gv)) {
			as, ok := s.(*ast.AssignStmt)
			if !ok || as.Tok == token.DEFINE {
				continue
			}
			if !isNil(as.Rhs[0]) {
				continue // the acquisition itself
			}
			res := f.Followed(Occ{V: f.G().VertexOf(as), Node: as}, nil, exitAll)
			// after disarming, only success exits may follow
			bad := false
			g := f.G()
			p := g.pathAvoiding([]int{g.VertexOf(as)}, func(v int) bool {
				_, isRet := g.V[v].N.(*ast.ReturnStmt)
				return isRet && g.ErrExit[v]
			}, nil, false)
			if p != nil {
				bad = true
			}
			_ = res
			r.Check(!bad, f, "lock guard "+gv.Name()+" disarmed only on the success path", as, "an error return is reachable after the guard was set to nil")
		}
	}
	cl := w.F("badger.DB.close")
	r.Exists(len(cl.Sites(selCall(rel))) == 2, cl, "close releases both guards", nil, "expected two release() calls in DB.close")
}

func propC35(c *Check) {
	ruleR35_1(c)
	ruleR35_2(c)
	ruleR35_3(c)
}

// ---- C37 ----

func ruleR37_1(c *Check) {
	w := c.W
	r := c.Rule("R37.1", "E3+E6", 12, "in-memory touches no files: every call site of a file-system primitive (open, create, read dir, write, truncate, sync, rename, remove, mmap) reachable from Open, the write path, flush, compaction, StreamWriter, DropAll/DropPrefix, Sync and close is, on every call path, under a test that fails when InMemory (Options.InMemory or a flag derived from it)",
		"in-memory mode is used without a directory: any file access panics, fails or silently writes to the current directory")
	roots := rootsByName(w, "badger.Open", "badger.DB.close", "badger.DB.writeRequests", "badger.DB.flushMemtable", "badger.levelsController.runCompactor",
		"badger.levelsController.doCompact", "badger.StreamWriter.Prepare", "badger.StreamWriter.Write", "badger.StreamWriter.Flush", "badger.DB.DropAll", "badger.DB.DropPrefix",
		"badger.DB.Sync", "badger.DB.View", "badger.Txn.Get", "badger.Txn.NewIterator", "badger.Item.Value", "badger.DB.RunValueLogGC", "badger.DB.Backup", "badger.DB.Load")
	noFd := "in-memory tables wrap their buffer in a z.MmapFile without descriptor (verified: OpenInMemoryTable builds it with Data only); ristretto's Delete/Close/Sync return at once when Fd == nil"
	exc := map[string]condException{
		"table.Table.DecrRef|z.MmapFile.Delete":                 {reason: noFd},
		"badger.levelHandler.close|z.MmapFile.Close":            {reason: noFd},
		"badger.valueLog.deleteLogFile|z.MmapFile.Delete":       {reason: "deletes only files queued by a GC rewrite or DropAll of value-log files; there is no value log in memory mode", unless: []string{"badger.valueLog.rewrite"}},
		"badger.discardStats.Update|z.MmapFile.Truncate":        {reason: "reached only through deleteLogFile (see above) or updateDiscardStats, which returns under InMemory", unless: []string{"badger.valueLog.rewrite"}},
	}
	// verify the no-descriptor premise
	oim := w.F("table.OpenInMemoryTable")
	okNoFd := false
	oim.walk(func(n ast.Node) bool {
		if cl, ok := n.(*ast.CompositeLit); ok && isNamedType(w.TypeOf(cl), "MmapFile") {
			okNoFd = true
			for _, el := range cl.Elts {
				if kv, ok := el.(*ast.KeyValueExpr); ok && kv.Key.(*ast.Ident).Name == "Fd" && !isNil(kv.Value) {
					okNoFd = false
				}
			}
		}
		return true
	})
	r.Check(okNoFd, oim, "in-memory tables have no file descriptor", nil, "OpenInMemoryTable no longer builds a descriptor-less MmapFile")
	mode := inMemoryMode(w)
	imFld := w.Field("badger.Options.InMemory")
	sw := w.Field("badger.Options.SyncWrites")
	if forcedOption(w, sw, false, imFld) {
		mode.forced = map[*types.Var]bool{sw: false}
	}
	n := confinement(c, r, mode, roots, func(p primitive) bool { return true }, exc)
	r.Exists(n >= 8, nil, "file primitive sites examined", nil, "too few primitive sites found: the primitive table no longer matches the tree")
}

func ruleR37_2(c *Check) {
	w := c.W
	r := c.Rule("R37.2", "E6", 3, "Open forces ValueThreshold = MaxInt32 and SyncWrites = false under InMemory; checkAndSetOptions rejects Dir/ValueDir with InMemory",
		"a value pointer in in-memory mode points into a value log that does not exist")
	f := w.F("badger.Open")
	inMem := w.Field("badger.Options.InMemory")
	under := func(n ast.Node) bool {
		for _, g := range w.Guards(f, n) {
			if w.fieldOf(g.Cond) == inMem && g.Val {
				return true
			}
		}
		return false
	}
	okT, okS := false, false
	for _, s := range f.Sites(selStore(w.Field("badger.Options.ValueThreshold"))) {
		if under(s) && w.mentions(s.(*ast.AssignStmt).Rhs[0], w.Obj("math.MaxInt32")) {
			okT = true
		}
	}
	for _, s := range f.Sites(selStore(w.Field("badger.Options.SyncWrites"))) {
		if tv := w.Info.Types[s.(*ast.AssignStmt).Rhs[0]]; under(s) && tv.Value != nil && tv.Value.String() == "false" {
			okS = true
		}
	}
	r.Check(okT, f, "values never go to a value log in memory mode", nil, "ValueThreshold is not forced to MaxInt32 under InMemory")
	r.Check(okS, f, "no sync in memory mode", nil, "SyncWrites is not forced off under InMemory")
	co := w.F("badger.checkAndSetOptions")
	okD := false
	co.walk(func(n ast.Node) bool {
		if is, ok := n.(*ast.IfStmt); ok && w.mentions(is.Cond, inMem) && (w.mentions(is.Cond, w.Field("badger.Options.Dir")) || w.mentions(is.Cond, w.Field("badger.Options.ValueDir"))) {
			okD = w.terminates(is.Body.List)
		}
		return true
	})
	r.Check(okD, co, "directories rejected with InMemory", nil, "checkAndSetOptions no longer rejects Dir/ValueDir in memory mode")
}

func propC37(c *Check) {
	ruleR37_1(c)
	ruleR37_2(c)
	// same results as on disk: the mode-independent part of DropAll (id space restart ⇒ caches cleared)
	ruleR29_4(c)
	// in-memory mode has no value log: every value is stored inline, whatever meta it came with
	// (entries loaded from a backup of an on-disk DB carry the pointer bit)
	ruleR06_2(c)
}
