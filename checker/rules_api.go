package main

// C23 (encryption), C27 (WriteBatch), C30 (sequences), C31 (merge operator), C32 (subscribers).

import (
	"go/ast"
	"go/token"
	"go/types"
)

func init() {
	register("C23", "Decides structural clauses of encryption at rest: (R23.1) every IV used to encrypt is either freshly generated in the same function activation (table blocks and index, key-registry sanity text, data keys) or derived from the record's file offset and the file's random base IV (log records); no generated IV is stored in a struct field for reuse (except the per-key DataKey.Iv); (R23.2) writer and reader test the same condition at sibling sites and the plaintext write of a log record is only in the not-encrypted branch; (R23.3) the registry's sanity text is verified (ErrEncryptionKeyMismatch) before anything is read or written, and stored data keys are encrypted before marshalling and restored afterwards; (R23.4) data keys are never removed from the registry and files find their key by the recorded key id. Does NOT decide 'no plaintext byte in any file', keystream overlap, or the rotate command.", propC23)
	register("C27", "Decides structural clauses of WriteBatch: (R27.1) inside one internal transaction the later call wins; (R27.2) on ErrTxnTooBig the batch commits and retries the same operation once on the fresh transaction, making a second failure permanent; (R27.3) Flush commits the last transaction, waits for all callbacks and reports the first error; every new internal transaction inherits the batch's commit timestamp; (R27.4) all mutations happen under the batch lock; (R28.1) a write refused with ErrTxnTooBig leaves the transaction untouched, which is what makes commit-and-retry sound. Does NOT decide final contents for arbitrary operation sequences.", propC27)
	register("C30", "Decides structural clauses of sequences: (R30.1) the lease state of a Sequence is never assigned inside a transaction closure whose commit outcome is not yet known; (R30.2) Next hands out seq.next only when it is below the lease or a lease update succeeded on that path; (R30.3) next/leased are accessed only under seq.lock; (R30.4) the lease is read and written in one SSI transaction, so concurrent leases on one key conflict. Does NOT decide crash behaviour (C08/C10 for the lease record) or uniqueness as a fact.", propC30)
	register("C31", "Decides structural clauses of the merge operator: (R31.1=R13.1) merge operands are exempt from every compaction drop; (R31.2) Add writes with the merge bit; the background merge writes the fold back at the version of the newest operand with the discard-earlier-versions bit and without the merge bit, under the operator's lock, which Get takes shared; (R31.3) precedence rules shared with C21/C01/C12 (the write-back has the same internal key as the newest operand and must shadow it). Does NOT decide the fold value.", propC31)
	register("C32", "Decides structural clauses of publication: (R32.1) publisher.sendUpdates is called only by the single writer (DB.writeRequests), after the memtable was written and before the acknowledgement, so publication order is application order = commit order (R03.1, R03.4); (R32.2) publishUpdates walks requests and entries in slice order under the publisher lock and delivers per subscriber through one channel; (R32.3) the KV carries the user key, version, value and expiry of the entry. Later rules (see the rule list): R32.4 matching on the user key and the trie's descent with ignored positions, R32.5 blocking delivery and pruning. Does NOT decide exactly-once as a history property.", propC32)
}

// ---- C23 ----

func ruleR23_1(c *Check) {
	w := c.W
	r := c.Rule("R23.1", "E3", 6, "IV provenance: every IV argument of y.XORBlock / XORBlockAllocate / XORBlockStream on an encrypting path is the result of y.GenerateIV() called in the same function, or logFile.generateIV(offset); decrypting paths take it from the stored bytes or the same derivation; the result of GenerateIV is never stored in a struct field other than DataKey.Iv",
		"CTR mode with a repeated (key, IV) pair reveals the XOR of two plaintexts")
	xors := []types.Object{w.Func("y.XORBlock"), w.Func("y.XORBlockAllocate"), w.Func("y.XORBlockStream")}
	gen := w.Func("y.GenerateIV")
	giv := w.Func("badger.logFile.generateIV")
	var k keyer
	n := 0
	for _, o := range allSites(w, "", selCall(xors...)) {
		if shortPkg(o.SiteFn.Pkg) == "y" {
			continue
		}
		n++
		call := o.Node.(*ast.CallExpr)
		iv := call.Args[len(call.Args)-1]
		f := o.SiteFn
		org := w.Origin(f, iv)
		ok := false
		why := "IV is " + short(w, org)
		switch {
		case w.isCallTo(org, gen), w.isCallTo(org, giv):
			ok = true
		case w.someDefMentions(f, iv, gen):
			ok = true
		default:
			// decrypting with stored bytes: slice of the data / DataKey.Iv / buffer read from the file
			switch f.Root().Name {
			case "table.Table.decrypt", "badger.validRegistry", "badger.keyRegistryIterator.next":
				ok = true
			case "badger.storeDataKey":
				ok = w.fieldOf(org) == w.Field("pb.DataKey.Iv")
			}
		}
		r.Check(ok, f, k.key("IV is fresh, offset-derived or read back", w, call), call, why)
	}
	r.Exists(n >= 6, nil, "cipher call sites", nil, "expected the table, log and registry cipher sites")
	// no GenerateIV result stored in a field (other than DataKey.Iv)
	for _, o := range allSites(w, "", selCall(gen)) {
		f := o.SiteFn
		as, ok := w.parentOf(o.Node).(*ast.AssignStmt)
		if !ok {
			continue
		}
		for _, l := range as.Lhs {
			if fld := w.fieldOf(l); fld != nil {
				r.Check(false, f, k.key("generated IV kept in a field", w, as), as, "IV stored in field "+fld.Name()+" (reuse across encryptions)")
			}
		}
		// the local holding it must not be assigned to a field either
		if id, ok := as.Lhs[0].(*ast.Ident); ok {
			if v, ok := w.Use(id).(*types.Var); ok {
				f.walk(func(n ast.Node) bool {
					switch x := n.(type) {
					case *ast.AssignStmt:
						for i, rhs := range x.Rhs {
							if rid, ok := unparen(rhs).(*ast.Ident); ok && w.Use(rid) == types.Object(v) && i < len(x.Lhs) {
								if fld := w.fieldOf(x.Lhs[i]); fld != nil {
									r.Check(false, f, k.key("generated IV kept in a field", w, x), x, "IV stored in field "+fld.Name())
								}
							}
						}
					case *ast.KeyValueExpr:
						if rid, ok := unparen(x.Value).(*ast.Ident); ok && w.Use(rid) == types.Object(v) {
							if kid, ok := x.Key.(*ast.Ident); ok {
								if fld, ok := w.Use(kid).(*types.Var); ok && fld.IsField() {
									r.Check(fld == w.Field("pb.DataKey.Iv"), f, k.key("generated IV stored only as a data key's own IV", w, x), x, "IV stored in field "+fld.Name())
								}
							}
						}
					}
					return true
				})
			}
		}
	}
	// baseIV of a log file comes from crypto/rand in bootstrap
	bs := w.F("badger.logFile.bootstrap")
	okRand := false
	bs.walk(func(n ast.Node) bool {
		if call, ok := n.(*ast.CallExpr); ok {
			if fn, ok := w.Callee(call).(*types.Func); ok && fn.Pkg() != nil && fn.Pkg().Path() == "crypto/rand" && fn.Name() == "Read" {
				okRand = true
			}
		}
		return true
	})
	r.Check(okRand, bs, "log base IV is random", nil, "bootstrap no longer fills the base IV from crypto/rand")
}

func ruleR23_2(c *Check) {
	w := c.W
	r := c.Rule("R23.2", "E6", 8, "guard agreement: logFile.encodeEntry, decodeEntry, valueLog.Read and safeRead.Entry branch on encryptionEnabled(); Builder block/index encryption is under shouldEncrypt() and Table.block / readTableIndex decrypt under shouldDecrypt(); both predicates are `data key != nil`; in encodeEntry the plaintext writes of key and value are only in the else arm",
		"encrypting on one side only makes data unreadable; a plaintext write outside the else arm puts user bytes on disk")
	ee := w.Func("badger.logFile.encryptionEnabled")
	under := func(f *Fn, n ast.Node, pred types.Object) int {
		for _, g := range w.Guards(f, n) {
			if w.isCallTo(g.Cond, pred) {
				if g.Val {
					return 1
				}
				return 0
			}
		}
		return -1
	}
	// cipher sites under the predicate
	type site struct {
		fn   string
		sel  Sel
		pred types.Object
	}
	xs := selCall(w.Func("y.XORBlock"), w.Func("y.XORBlockAllocate"), w.Func("y.XORBlockStream"))
	sites := []site{
		{"badger.logFile.encodeEntry", xs, ee},
		{"badger.logFile.decodeEntry", selCallName(w, "badger.logFile.decryptKV"), ee},
		{"badger.valueLog.Read", selCallName(w, "badger.logFile.decryptKV"), ee},
		{"badger.safeRead.Entry", selCallName(w, "badger.logFile.decryptKV"), ee},
		{"table.Builder.handleBlock", selCallName(w, "table.Builder.encrypt"), w.Func("table.Builder.shouldEncrypt")},
		{"table.Builder.Done", selCallName(w, "table.Builder.encrypt"), w.Func("table.Builder.shouldEncrypt")},
		{"table.Table.block", selCallName(w, "table.Table.decrypt"), w.Func("table.Table.shouldDecrypt")},
		{"table.Table.readTableIndex", selCallName(w, "table.Table.decrypt"), w.Func("table.Table.shouldDecrypt")},
	}
	for _, s := range sites {
		f := w.F(s.fn)
		ss := f.SitesDeep(s.sel)
		r.Exists(len(ss) >= 1, f, "cipher site present", nil, s.fn+" no longer encrypts/decrypts")
		for _, o := range ss {
			r.Check(under(o.SiteFn, o.Node, s.pred) == 1, o.SiteFn, "cipher applied exactly under "+s.pred.Name()+"()", o.Node, "cipher call is not under "+s.pred.Name()+"()")
		}
	}
	// plaintext writes in encodeEntry only in the else arm
	f := w.F("badger.logFile.encodeEntry")
	key, val := w.Field("badger.Entry.Key"), w.Field("badger.Entry.Value")
	f.walk(func(n ast.Node) bool {
		call, ok := n.(*ast.CallExpr)
		if !ok {
			return true
		}
		s, ok := unparen(call.Fun).(*ast.SelectorExpr)
		if !ok || s.Sel.Name != "Write" || len(call.Args) != 1 {
			return true
		}
		if fld := w.fieldOf(call.Args[0]); fld == key || fld == val {
			r.Check(under(f, call, ee) == 0, f, "plaintext "+fld.Name()+" written only when encryption is off", call, "e."+fld.Name()+" is written outside the not-encrypted branch")
		}
		return true
	})
	// predicates are nil tests of the data key
	for _, name := range []string{"badger.logFile.encryptionEnabled", "table.Builder.shouldEncrypt", "table.Table.shouldDecrypt"} {
		p := w.F(name)
		ok := false
		p.walk(func(n ast.Node) bool {
			if be, isB := n.(*ast.BinaryExpr); isB && be.Op == token.NEQ && isNil(be.Y) {
				if fld := w.fieldOf(be.X); fld != nil && (fld.Name() == "dataKey" || fld.Name() == "DataKey") {
					ok = true
				}
			}
			return true
		})
		r.Check(ok, p, "predicate is `data key != nil`", nil, name+" is no longer a nil test of the data key")
	}
}

func ruleR23_3(c *Check) {
	w := c.W
	r := c.Rule("R23.3", "E1", 4, "readKeyRegistry obtains its iterator through newKeyRegistryIterator, which runs validRegistry (mismatch ⇒ ErrEncryptionKeyMismatch) before any data key is read; OpenKeyRegistry returns that error without writing; storeDataKey XORs the key material before proto.Marshal and restores it on every exit",
		"opening with a wrong key must fail before anything is decrypted with it or rewritten; a data key marshalled in plaintext puts it on disk")
	vr := w.F("badger.validRegistry")
	okM := false
	vr.walk(func(n ast.Node) bool {
		if rs, ok := n.(*ast.ReturnStmt); ok && len(rs.Results) == 1 {
			if id, ok := unparen(rs.Results[0]).(*ast.Ident); ok && w.Use(id) == w.Obj("badger.ErrEncryptionKeyMismatch") {
				for _, g := range w.Guards(vr, rs) {
					if call, ok := g.Cond.(*ast.CallExpr); ok && !g.Val && w.Callee(call) == types.Object(w.Func("bytes.Equal")) {
						okM = true
					}
				}
			}
		}
		return true
	})
	r.Check(okM, vr, "sanity text mismatch yields ErrEncryptionKeyMismatch", nil, "validRegistry no longer compares the decrypted sanity text")
	ni := w.F("badger.newKeyRegistryIterator")
	r.Check(len(ni.Sites(selCallName(w, "badger.validRegistry"))) == 1, ni, "iterator construction validates the registry", nil, "newKeyRegistryIterator no longer calls validRegistry")
	rk := w.F("badger.readKeyRegistry")
	for _, s := range rk.Sites(selCallName(w, "badger.newKeyRegistryIterator")) {
		r.Check(w.errIsFatal(rk, s.(*ast.CallExpr)), rk, "a failed validation aborts reading", s, "the error of newKeyRegistryIterator can be ignored")
	}
	r.DomAll(rk, "data keys read after validation", selCallName(w, "badger.keyRegistryIterator.next"), 0, selCallName(w, "badger.newKeyRegistryIterator"), 0)
	ok := w.F("badger.OpenKeyRegistry")
	for _, s := range ok.Sites(selCallName(w, "badger.readKeyRegistry")) {
		r.Check(w.errIsFatal(ok, s.(*ast.CallExpr)), ok, "OpenKeyRegistry fails on a registry error", s, "the error of readKeyRegistry can be ignored")
	}
	// storeDataKey
	sd := w.F("badger.storeDataKey")
	xor := sd.LitVar("xor")
	callXor := selCallFn(xor)
	mar := selCall(w.Func("proto.Marshal"))
	r.DomAll(sd, "key material encrypted before it is marshalled", mar, 0, callXor, 0)
	r.FollowAll(sd, "key material restored after marshalling", mar, 0, callXor, 0, exitAll)
}

func ruleR23_4(c *Check) {
	w := c.W
	r := c.Rule("R23.4", "E3", 3, "nothing deletes from KeyRegistry.dataKeys; tables are opened with the data key looked up by the MANIFEST's KeyID and log files with the key id stored in their header",
		"after rotation old files must stay readable with their own key")
	dk := w.Field("badger.KeyRegistry.dataKeys")
	for _, o := range allSites(w, "badger", selPred("delete(dataKeys)", func(w *World, f *Fn, n ast.Node) bool {
		call, ok := n.(*ast.CallExpr)
		if !ok || len(call.Args) != 2 {
			return false
		}
		id, ok := unparen(call.Fun).(*ast.Ident)
		return ok && id.Name == "delete" && w.fieldOf(call.Args[0]) == dk
	})) {
		r.Check(false, o.SiteFn, "data key removed", o.Node, "a data key is deleted from the registry")
	}
	r.Check(true, nil, "no deletion from KeyRegistry.dataKeys", nil, "")
	nl := w.F("badger.newLevelsController")
	okT := false
	for _, o := range nl.SitesDeep(selCallName(w, "badger.KeyRegistry.DataKey")) {
		if w.mentions(o.Node.(*ast.CallExpr).Args[0], w.Field("badger.TableManifest.KeyID")) {
			okT = true
		}
	}
	r.Check(okT, nl, "tables opened with the key named in the MANIFEST", nil, "newLevelsController no longer looks the data key up by TableManifest.KeyID")
	lo := w.F("badger.logFile.open")
	okL := false
	for _, s := range lo.Sites(selCallName(w, "badger.KeyRegistry.DataKey")) {
		arg := w.Origin(lo, s.(*ast.CallExpr).Args[0])
		if w.isCallTo(arg, w.Func("binary.bigEndian.Uint64")) {
			okL = true
		}
	}
	r.Check(okL, lo, "log files opened with the key id from their header", nil, "logFile.open no longer reads the key id from the file header")
}

func ruleR23_5(c *Check) {
	w := c.W
	r := c.Rule("R23.5", "E5+E2", 5, "data-key ids are never reused: while reading the registry KeyRegistry.nextKeyID is kept as the running maximum of the ids read (the registry file is rewritten in map order, not id order); a new data key takes the id nextKeyID+1 — the increment, the id given to the key and the store into dataKeys happen in one hold of the registry's write lock — and every store into dataKeys is keyed by the id of the key stored",
		"a reused id overwrites an older data key: every table and log file written under it becomes unreadable at the next open")
	nk := w.Field("badger.KeyRegistry.nextKeyID")
	dks := w.Field("badger.KeyRegistry.dataKeys")
	kid := w.Field("pb.DataKey.KeyId")
	rd := w.F("badger.readKeyRegistry")
	var stores []ast.Node
	for _, s := range rd.SitesDeep(selStore(nk)) {
		stores = append(stores, s.Site)
	}
	isNK := func(e ast.Expr) bool { _, isSel := unparen(e).(*ast.SelectorExpr); return isSel && w.fieldOf(e) == nk }
	isKid := func(e ast.Expr) bool { _, isSel := unparen(e).(*ast.SelectorExpr); return isSel && w.fieldOf(e) == kid }
	n := 0
	var k keyer
	for _, s := range stores {
		as, ok := s.(*ast.AssignStmt)
		if !ok || len(as.Rhs) != 1 || !isKid(as.Rhs[0]) {
			r.Check(false, rd, k.key("nextKeyID taken from a key id read", w, s), s, "nextKeyID is assigned something other than a data key's id while reading the registry")
			continue
		}
		n++
		op, g := w.guardRel(w.Guards(w.fnOf(s), s), isKid, isNK, false)
		r.Check(g != nil && (op == token.GTR || op == token.GEQ), rd, k.key("nextKeyID is the running maximum of the ids read", w, s), s, "nextKeyID is overwritten with the id of the key just read without `id > nextKeyID`: after a registry rewrite (map order) it can end below an existing id, and the next rotation reuses that id")
	}
	r.Exists(n >= 1, rd, "nextKeyID maintained while reading", nil, "readKeyRegistry does not raise nextKeyID from the ids it reads")
	// stores into dataKeys are keyed by the stored key's id
	for _, o := range allSites(w, "badger", selStore(dks)) {
		as, ok := o.Node.(*ast.AssignStmt)
		if !ok || len(as.Lhs) != 1 || len(as.Rhs) != 1 {
			continue
		}
		ix, isIx := unparen(as.Lhs[0]).(*ast.IndexExpr)
		if !isIx {
			continue // the map itself being (re)initialised
		}
		idx := w.Origin(o.SiteFn, ix.Index)
		okKey := isKid(idx) || isNK(idx)
		if isNK(idx) {
			// keyed by nextKeyID: the stored key must have been given that id (KeyId: kr.nextKeyID) after an increment in the same critical section
			mu := embeddedMutex(w, "badger.KeyRegistry")
			incs := o.SiteFn.Root().Sites(selStore(nk))
			okInc := false
			for _, inc := range incs {
				if _, isInc := inc.(*ast.IncDecStmt); isInc || w.mentions(inc, nk) {
					okInc = true
					if mu != nil {
						o.SiteFn.Root().sameCS(r, "id allocated and key stored in one hold of the registry lock", inc, o.Node, mu)
					}
				}
			}
			r.Check(okInc, o.SiteFn, k.key("a new data key gets a fresh id", w, o.Node), o.Node, "a data key is stored under nextKeyID without nextKeyID being advanced first")
		}
		r.Check(okKey, o.SiteFn, k.key("dataKeys keyed by the key's own id", w, o.Node), o.Node, "a data key is stored under "+short(w, ix.Index)+", which is not its KeyId")
	}
}

// sameCS adapter: both nodes in one critical section of lock (write mode).
func (f *Fn) sameCS(r *RuleInfo, what string, a, b ast.Node, lock types.Object) {
	r.SameCS(f, what, a, b, lock, 2)
}

// R23.6: with an encryption key configured LatestDataKey never answers "no key".
func ruleR23_6(c *Check) {
	w := c.W
	r := c.Rule("R23.6", "E6+E5", 2, "KeyRegistry.LatestDataKey returns nil (= write in plaintext) only when no encryption key is configured: the cached data key is handed out only if it exists (comma-ok lookup in dataKeys, or a key-count / key-id test) besides being young enough; every other success return comes from the key just generated or, read-only, from the stored map",
		"the age test alone is true on a fresh registry when the rotation period exceeds the time since the Unix epoch (lastCreated is 0): the lookup of data key 0 yields nil, which every writer takes as 'encryption disabled' — user keys and values go to disk in plaintext although an encryption key is configured")
	f := w.F("badger.KeyRegistry.LatestDataKey")
	dataKeys := w.Field("badger.KeyRegistry.dataKeys")
	encKey := w.Field("badger.KeyRegistryOptions.EncryptionKey")
	rot := w.Field("badger.KeyRegistryOptions.EncryptionKeyRotationDuration")
	var k keyer
	n := 0
	f.walkDeep(func(own *Fn, x ast.Node) bool {
		rs, ok := x.(*ast.ReturnStmt)
		if !ok || len(rs.Results) != 2 {
			return true
		}
		gs := w.Guards(own, rs)
		// literal nil key
		if id, isId := unparen(rs.Results[0]).(*ast.Ident); isId && id.Name == "nil" {
			if own == f {
				// the error result decides: nil key with nil error must be the "no encryption key" case
				if eid, isE := unparen(rs.Results[1]).(*ast.Ident); isE && eid.Name == "nil" {
					n++
					noKey := false
					for _, g := range gs {
						if op, ok2 := w.cmpRoles(g.Cond, g.Val, w.lenOf(w.isField(encKey)), w.isConst(0)); ok2 && (op == token.EQL || op == token.LEQ) {
							noKey = true
						}
					}
					r.Check(noKey, f, k.key("nil key only without an encryption key", w, rs), rs, "LatestDataKey returns (nil, nil) although an encryption key may be configured")
				}
			}
			return true
		}
		// a key read from the map under the age test must be known to exist
		aged := false
		for _, g := range gs {
			if w.mentions(g.Cond, rot) {
				aged = true
			}
			if be, isB := g.Cond.(*ast.BinaryExpr); isB {
				if w.mentions(w.from(be.X), rot) || w.mentions(w.from(be.Y), rot) {
					aged = true
				}
			}
		}
		fromMap := false
		var okVar types.Object
		org := w.Origin(own, rs.Results[0])
		if ix, isIx := unparen(org).(*ast.IndexExpr); isIx && w.fieldOf(ix.X) == dataKeys {
			fromMap = true
		}
		// comma-ok form: `dk, ok := kr.dataKeys[id]` defines the returned variable
		if id, isId := unparen(rs.Results[0]).(*ast.Ident); isId {
			own.Root().walkDeep(func(g *Fn, m ast.Node) bool {
				as, isAs := m.(*ast.AssignStmt)
				if !isAs || len(as.Lhs) != 2 || len(as.Rhs) != 1 {
					return true
				}
				l0, is0 := as.Lhs[0].(*ast.Ident)
				l1, is1 := as.Lhs[1].(*ast.Ident)
				if !is0 || !is1 || (w.Use(l0) != w.Use(id) && w.Info.Defs[l0] != w.Use(id)) {
					return true
				}
				if ix, isIx := unparen(as.Rhs[0]).(*ast.IndexExpr); isIx && w.fieldOf(ix.X) == dataKeys {
					fromMap = true
					okVar = w.Info.Defs[l1]
					if okVar == nil {
						okVar = w.Use(l1)
					}
				}
				return true
			})
		}
		if !fromMap || !aged {
			return true
		}
		n++
		exists := false
		for _, g := range gs {
			if id, isId := g.Cond.(*ast.Ident); isId && g.Val && okVar != nil && w.Use(id) == okVar {
				exists = true
			}
			if op, ok2 := w.cmpRoles(g.Cond, g.Val, w.isField(w.Field("badger.KeyRegistry.nextKeyID")), w.isConst(0)); ok2 && (op == token.GTR || op == token.NEQ) {
				exists = true
			}
			if op, ok2 := w.cmpRoles(g.Cond, g.Val, w.lenOf(w.isField(dataKeys)), w.isConst(0)); ok2 && (op == token.GTR || op == token.NEQ) {
				exists = true
			}
		}
		r.Check(exists, own, k.key("cached data key handed out only if it exists", w, rs), rs, "the data key looked up in dataKeys is returned under the age test alone: on a fresh registry with a rotation period longer than the time since 1970 this is the nil key 0 and nothing is encrypted")
		return true
	})
	r.Exists(n >= 2, f, "key hand-out sites", nil, "expected the no-encryption return and the cached-key return of LatestDataKey")
}

func propC23(c *Check) {
	ruleR23_6(c)
	ruleR23_5(c)
	ruleR23_1(c)
	ruleR23_2(c)
	ruleR23_3(c)
	ruleR23_4(c)
	ruleR16_2(c)
	ruleR29_4(c) // only encrypted tables read their index through the id-keyed cache: it is cleared when ids restart
}

// ---- C27 ----

func ruleR27_2(c *Check) {
	w := c.W
	r := c.Rule("R27.2", "E1", 4, "WriteBatch.handleEntry and WriteBatch.Delete: when the transaction reports ErrTxnTooBig they call commit() and then issue the same operation again on the new transaction; any other result of the first attempt is returned as is; a failure of the second attempt is stored in wb.err",
		"without the retry the operation that overflowed the transaction is silently dropped")
	tooBig := w.Obj("badger.ErrTxnTooBig")
	for _, spec := range []struct{ fn, op string }{{"badger.WriteBatch.handleEntry", "badger.Txn.SetEntry"}, {"badger.WriteBatch.Delete", "badger.Txn.Delete"}} {
		f := w.F(spec.fn)
		ops := f.Sites(selCallName(w, spec.op))
		r.Check(len(ops) == 2, f, "operation attempted twice (first try, retry)", nil, "expected two calls of "+spec.op)
		if len(ops) != 2 {
			continue
		}
		commit := selCallName(w, "badger.WriteBatch.commit")
		r.Order(f.Between(Occ{V: f.G().VertexOf(ops[0]), Node: ops[0]}, Occ{V: f.G().VertexOf(ops[1]), Node: ops[1]}, f.Occs(commit, 0)), f, "commit between the first attempt and the retry", ops[1], "the retry is reachable without committing the full transaction")
		// first attempt: `err != ErrTxnTooBig → return err`
		is, _ := w.enclosingStmt(ops[0]).(*ast.IfStmt)
		okv := false
		if is != nil {
			if be, ok := unparen(is.Cond).(*ast.BinaryExpr); ok && be.Op == token.NEQ {
				if id, ok := unparen(be.Y).(*ast.Ident); ok && w.Use(id) == tooBig && w.terminates(is.Body.List) {
					okv = true
				}
			}
		}
		r.Check(okv, f, "only ErrTxnTooBig triggers the split", ops[0], "first attempt is not followed by `err != ErrTxnTooBig → return err`")
		// same operand on both attempts
		a0, a1 := ops[0].(*ast.CallExpr).Args[0], ops[1].(*ast.CallExpr).Args[0]
		r.Check(w.norm(a0, nil) == w.norm(a1, nil), f, "retry issues the same operation", ops[1], "retry argument differs from the first attempt")
		// failure of the retry is made permanent
		is2, _ := w.enclosingStmt(ops[1]).(*ast.IfStmt)
		okE := false
		if is2 != nil {
			ast.Inspect(is2.Body, func(n ast.Node) bool {
				if call, ok := n.(*ast.CallExpr); ok {
					if s, ok := unparen(call.Fun).(*ast.SelectorExpr); ok && s.Sel.Name == "Store" && w.fieldOf(s.X) == w.Field("badger.WriteBatch.err") {
						okE = true
					}
				}
				return true
			})
		}
		r.Check(okE, f, "a failed retry is recorded in wb.err", ops[1], "second failure is not stored")
	}
}

func ruleR27_3(c *Check) {
	w := c.W
	r := c.Rule("R27.3", "E1", 5, "WriteBatch.Flush: commit() → (unlock) → throttle.Finish() → wb.Error(); callback stores the first error and always releases the throttle; commit() hands the current transaction to CommitWith, starts a new one with the batch's managed flag and assigns it wb.commitTs",
		"returning before the callbacks ran reports success for writes that later fail; a new internal transaction without the commit timestamp writes at timestamp 0 / fails the managed precheck")
	f := w.F("badger.WriteBatch.Flush")
	fin := selPred("throttle.Finish", func(w *World, fn *Fn, n ast.Node) bool {
		call, ok := n.(*ast.CallExpr)
		if !ok {
			return false
		}
		s, ok := unparen(call.Fun).(*ast.SelectorExpr)
		return ok && s.Sel.Name == "Finish" && w.fieldOf(s.X) == w.Field("badger.WriteBatch.throttle")
	})
	commit := selCallName(w, "badger.WriteBatch.commit")
	r.DomAll(f, "callbacks awaited after the last commit", fin, 0, commit, 0)
	r.ExitsNeed(f, "throttle.Finish", fin, 0, exitSuccess)
	r.ExitsNeed(f, "commit", commit, 0, exitAll)
	cb := w.F("badger.WriteBatch.callback")
	okD := false
	for _, s := range cb.Sites(selPred("throttle.Done", func(w *World, fn *Fn, n ast.Node) bool {
		call, ok := n.(*ast.CallExpr)
		if !ok {
			return false
		}
		s, ok := unparen(call.Fun).(*ast.SelectorExpr)
		return ok && s.Sel.Name == "Done" && w.fieldOf(s.X) == w.Field("badger.WriteBatch.throttle")
	})) {
		if _, isDefer := w.parentOf(s).(*ast.DeferStmt); isDefer {
			okD = true
		}
	}
	r.Check(okD, cb, "callback always releases the throttle", nil, "throttle.Done is not deferred in callback")
	cm := w.F("badger.WriteBatch.commit")
	cw := selCallName(w, "badger.Txn.CommitWith")
	nt := selCallName(w, "badger.DB.newTransaction")
	txn := w.Field("badger.WriteBatch.txn")
	cts := w.Field("badger.Txn.commitTs")
	r.DomAll(cm, "new transaction started after the current one was handed to CommitWith", selStore(txn), 0, cw, 0)
	okTs := false
	for _, s := range cm.Sites(selStore(cts)) {
		as := s.(*ast.AssignStmt)
		if w.fieldOf(as.Rhs[0]) == w.Field("badger.WriteBatch.commitTs") {
			okTs = true
			res := cm.Dominated(Occ{V: cm.G().VertexOf(s), Node: s}, cm.Occs(selStore(txn), 0))
			r.Order(res, cm, "commit timestamp assigned to the new transaction", s, "commitTs assigned before the new transaction exists")
		}
	}
	r.Check(okTs, cm, "new internal transaction inherits wb.commitTs", nil, "commit() no longer sets txn.commitTs = wb.commitTs")
	for _, s := range cm.Sites(nt) {
		call := s.(*ast.CallExpr)
		r.Check(w.fieldOf(call.Args[1]) == w.Field("badger.WriteBatch.isManaged"), cm, "new internal transaction keeps the batch's mode", s, "newTransaction argument is "+short(w, call.Args[1]))
	}
	// CommitWith's callback is wb.callback
	for _, s := range cm.Sites(cw) {
		arg := s.(*ast.CallExpr).Args[0]
		sel, ok := unparen(arg).(*ast.SelectorExpr)
		r.Check(ok && w.Use(sel.Sel) == types.Object(w.Func("badger.WriteBatch.callback")), cm, "commit reports through wb.callback", s, "CommitWith callback is "+short(w, arg))
	}
}

func ruleR27_4(c *Check) {
	w := c.W
	r := c.Rule("R27.4", "E2", 4, "WriteBatch.txn is read and replaced only while the batch mutex is held (public entry points take it; handleEntry and commit are called with it held)",
		"two goroutines sharing a batch would otherwise write into a transaction that is concurrently being committed")
	mu := w.Field("badger.WriteBatch.Mutex")
	txn := w.Field("badger.WriteBatch.txn")
	var k keyer
	for _, o := range allSites(w, "badger", selUse(txn)) {
		root := o.SiteFn.Root().Name
		if root == "badger.DB.newWriteBatch" || root == "badger.DB.NewWriteBatchAt" {
			continue // construction: not yet shared
		}
		var trail []string
		ok := o.SiteFn.HeldDeep(o.Node, mu, 2, 5, &trail)
		r.Check(ok, o.SiteFn, k.key("wb.txn under the batch lock", w, o.Node), o.Node, joinTrail(trail))
	}
}

func propC27(c *Check) {
	ruleR27_1(c)
	ruleR27_2(c)
	ruleR27_3(c)
	ruleR27_4(c)
	ruleR28_1(c)
	ruleR36_2(c)
	ruleR01_3(c) // the same key@version written by two internal transactions of a batch lands in two L0 tables: the newer table wins
}

// ---- C30 ----

func ruleR30_1(c *Check) {
	w := c.W
	r := c.Rule("R30.1", "E3+E6", 2, "no store to a field of the Sequence (next, leased) inside a function literal passed to DB.Update (or nested in one): the lease state is assigned only after Update returned nil",
		"the closure runs before the commit outcome is known; after ErrConflict the object would keep a lease that was never stored and hand out numbers another Sequence also owns")
	next, leased := w.Field("badger.Sequence.next"), w.Field("badger.Sequence.leased")
	upd := w.Func("badger.DB.Update")
	n := 0
	for _, name := range []string{"badger.Sequence.updateLease", "badger.Sequence.Release", "badger.Sequence.Next"} {
		f := w.F(name)
		for _, o := range f.SitesDeep(selStore(next, leased)) {
			n++
			inClosure := false
			for g := o.SiteFn; g != nil && g.Lit != nil; g = g.Parent {
				if call, ok := w.parentOf(g.Lit).(*ast.CallExpr); ok && w.Callee(call) == types.Object(upd) {
					inClosure = true
				}
			}
			r.Check(!inClosure, f, "lease state assigned outside the transaction closure", o.Node, "Sequence field assigned inside the db.Update closure, before the commit outcome is known")
			if !inClosure && o.SiteFn == f && name != "badger.Sequence.Next" {
				r.Check(w.errNilGuard(f, o.Node, upd), f, "lease state assigned only after Update returned nil", o.Node, "assignment reachable when Update failed")
			}
		}
	}
	r.Exists(n >= 3, nil, "lease state stores", nil, "expected stores to Sequence.next / leased")
}

func ruleR30_2(c *Check) {
	w := c.W
	r := c.Rule("R30.2", "E1+E5", 3, "Sequence.Next returns seq.next (and increments it) only when next < leased held, or updateLease returned nil on that path; the test is `next >= leased → updateLease`",
		"handing out a number at or beyond the lease hands out a number the next lease holder will hand out again after a restart")
	f := w.F("badger.Sequence.Next")
	next, leased := w.Field("badger.Sequence.next"), w.Field("badger.Sequence.leased")
	ul := w.Func("badger.Sequence.updateLease")
	okTest := false
	for _, s := range f.Sites(selCall(ul)) {
		if op, _ := w.guardRel(w.Guards(f, s), w.isField(next), w.isField(leased), false); op == token.GEQ {
			okTest = true
		}
		r.Check(w.errIsFatal(f, s.(*ast.CallExpr)), f, "a failed lease update hands out nothing", s, "the error of updateLease can be ignored")
	}
	r.Check(okTest, f, "lease renewed when next >= leased", nil, "Next no longer tests `seq.next >= seq.leased` before using the lease")
	// the increment is after the test
	for _, s := range f.Sites(selStore(next)) {
		var tests []ast.Node
		f.walk(func(n ast.Node) bool {
			if is, ok := n.(*ast.IfStmt); ok {
				if _, ok := w.cmpRoles(is.Cond, true, w.isField(next), w.isField(leased)); ok {
					tests = append(tests, is.Cond)
				}
			}
			return true
		})
		res := f.Dominated(Occ{V: f.G().VertexOf(s), Node: s}, occsOf(f, tests))
		r.Order(res, f, "number handed out only after the lease test", s, "seq.next advanced without checking the lease")
	}
}

func ruleR30_3(c *Check) {
	w := c.W
	r := c.Rule("R30.3", "E2", 5, "Sequence.next and Sequence.leased are accessed only with seq.lock held; updateLease is called only with it held (GetSequence, the constructor, is the exception)",
		"two goroutines sharing a Sequence would hand out the same number")
	lock := w.Field("badger.Sequence.lock")
	var k keyer
	for _, o := range allSites(w, "badger", selUse(w.Field("badger.Sequence.next"), w.Field("badger.Sequence.leased"))) {
		var trail []string
		ok := o.SiteFn.HeldDeep(o.Node, lock, 2, 2, &trail)
		if !ok {
			// constructor path: updateLease called from GetSequence before the object is shared
			onlyCtor := true
			for _, t := range trail {
				if !containsStr(t, "GetSequence") && !containsStr(t, "updateLease") {
					onlyCtor = false
				}
			}
			if onlyCtor && o.SiteFn.Root().Name == "badger.Sequence.updateLease" {
				ok = ctorOrLocked(w, lock)
			}
		}
		r.Check(ok, o.SiteFn, k.key("lease state under seq.lock", w, o.Node), o.Node, joinTrail(trail))
	}
	// the lease transaction itself runs inside the critical section: in every Sequence method the
	// db.Update call (read stored lease, write new one) and the stores of next/leased that depend on it
	// are in ONE hold of seq.lock — a snapshot under the lock followed by an unlocked transaction lets
	// Next hand out numbers from a lease that Release is giving back at that moment
	upd := w.Func("badger.DB.Update")
	for _, name := range []string{"badger.Sequence.Release", "badger.Sequence.updateLease", "badger.Sequence.Next"} {
		f := w.F(name)
		for _, s := range f.Sites(selCall(upd)) {
			held := f.HeldAt(s)[lock] == 2
			if !held && name == "badger.Sequence.updateLease" {
				held = ctorOrLocked(w, lock) // runs under its callers' lock
			}
			r.Check(held, f, "lease transaction runs under seq.lock", s, "db.Update is called without seq.lock held: Next can run between the snapshot of next/leased and the store of the result")
			for _, st := range f.Sites(selStore(w.Field("badger.Sequence.next"), w.Field("badger.Sequence.leased"))) {
				if name == "badger.Sequence.updateLease" {
					continue
				}
				if ok, _ := f.releasedBetween(s, st, lock); ok {
					r.Check(false, f, k.key("result stored in the same critical section as the transaction", w, st), st, "seq.lock is released between the lease transaction and the store of its result")
				}
			}
		}
	}
}

func containsStr(s, sub string) bool {
	for i := 0; i+len(sub) <= len(s); i++ {
		if s[i:i+len(sub)] == sub {
			return true
		}
	}
	return false
}

// ctorOrLocked: every call site of updateLease holds the lock, except the one in GetSequence.
func ctorOrLocked(w *World, lock types.Object) bool {
	ul := w.F("badger.Sequence.updateLease")
	for _, cs := range w.CG().CallSitesOf(ul) {
		if cs.Caller.Name == "badger.DB.GetSequence" {
			continue
		}
		if cs.Caller.HeldAt(cs.Node)[lock] != 2 {
			return false
		}
	}
	return true
}

func ruleR30_4(c *Check) {
	w := c.W
	r := c.Rule("R30.4", "E1", 2, "updateLease reads the stored lease with txn.Get and writes the new one with txn.SetEntry inside one db.Update transaction, and the new lease is the stored value plus the bandwidth",
		"reading outside the writing transaction removes the SSI conflict between two concurrent lease updates")
	f := w.F("badger.Sequence.updateLease")
	var lit *Fn
	for _, l := range f.Lits {
		if call, ok := w.parentOf(l.Lit).(*ast.CallExpr); ok && w.Callee(call) == types.Object(w.Func("badger.DB.Update")) {
			lit = l
		}
	}
	if lit == nil {
		r.Check(false, f, "lease updated in a db.Update transaction", nil, "updateLease no longer uses db.Update")
		return
	}
	get := lit.Sites(selCallName(w, "badger.Txn.Get"))
	set := lit.Sites(selCallName(w, "badger.Txn.SetEntry"))
	r.Check(len(get) == 1 && len(set) == 1, lit, "read and write in the same transaction", nil, "expected one txn.Get and one txn.SetEntry in the closure")
	r.DomAll(lit, "lease written after it was read", selCallName(w, "badger.Txn.SetEntry"), 0, selCallName(w, "badger.Txn.Get"), 0)
	okBw := false
	lit.walk(func(n ast.Node) bool {
		if be, ok := n.(*ast.BinaryExpr); ok && be.Op == token.ADD && w.mentions(be, w.Field("badger.Sequence.bandwidth")) {
			okBw = true
		}
		return true
	})
	r.Check(okBw, lit, "new lease = stored value + bandwidth", nil, "lease no longer computed from the bandwidth")
}

// R30.5: the lease arithmetic, followed through the locals of updateLease and Release.
func ruleR30_5(c *Check) {
	w := c.W
	r := c.Rule("R30.5", "E4+E5", 8, "lease arithmetic: updateLease publishes next = the stored lease (0 only when the key is not found) and leased = next + bandwidth, the very value it wrote with SetEntry; Release writes seq.next back only when the stored lease still equals this object's lease, and lowers seq.leased to seq.next only after that transaction committed; GetSequence refuses a zero bandwidth and is the only writer of Sequence.bandwidth",
		"starting below the stored lease, or publishing a lease larger than the one written, hands out numbers that the next lease holder (or this key after a restart) hands out again; an unconditional Release lowers the stored lease below numbers another Sequence object has handed out; with bandwidth 0 Next returns the number at the lease boundary, which is not covered by any stored lease")
	f := w.F("badger.Sequence.updateLease")
	nextF, leasedF, bwF := w.Field("badger.Sequence.next"), w.Field("badger.Sequence.leased"), w.Field("badger.Sequence.bandwidth")
	update := w.Func("badger.DB.Update")
	updLit := func(g *Fn) *Fn {
		for _, l := range g.Lits {
			if call, ok := w.parentOf(l.Lit).(*ast.CallExpr); ok && w.Callee(call) == types.Object(update) {
				return l
			}
		}
		return nil
	}
	lit := updLit(f)
	if lit == nil {
		panic(anchorError{"db.Update closure of Sequence.updateLease"})
	}
	localOf := func(g *Fn, e ast.Expr) *types.Var {
		if id, ok := unparen(e).(*ast.Ident); ok {
			if v, ok := w.Use(id).(*types.Var); ok && !v.IsField() {
				return v
			}
		}
		return nil
	}
	// published values: seq.next, seq.leased = N, L
	var N, L *types.Var
	for _, s := range f.Sites(selStore(nextF, leasedF)) {
		as, ok := s.(*ast.AssignStmt)
		if !ok || len(as.Lhs) != len(as.Rhs) {
			continue
		}
		for i, l := range as.Lhs {
			switch w.fieldOf(l) {
			case nextF:
				N = localOf(f, as.Rhs[i])
			case leasedF:
				L = localOf(f, as.Rhs[i])
			}
		}
	}
	r.Check(N != nil && L != nil, f, "lease published from locals computed in the transaction", nil, "seq.next / seq.leased are not assigned from locals of updateLease")
	if N == nil || L == nil {
		return
	}
	isN := func(e ast.Expr) bool { return localOf(f, e) == N }
	isDecoded := func(g *Fn, e ast.Expr) bool {
		// binary.BigEndian.Uint64(v), possibly through a local assigned only that
		e = unparen(e)
		if v := localOf(g, e); v != nil {
			n, ok := 0, true
			for _, o := range g.Root().SitesDeep(selStoreVar(v)) {
				as, isAs := o.Node.(*ast.AssignStmt)
				if !isAs || len(as.Rhs) != 1 {
					ok = false
					continue
				}
				n++
				call, isCall := unparen(as.Rhs[0]).(*ast.CallExpr)
				if !isCall || w.Callee(call) == nil || w.Callee(call).Name() != "Uint64" {
					ok = false
				}
			}
			return ok && n >= 1
		}
		call, isCall := e.(*ast.CallExpr)
		return isCall && w.Callee(call) != nil && w.Callee(call).Name() == "Uint64"
	}
	var k keyer
	// stores to N inside the closure
	nStores := 0
	for _, o := range lit.SitesDeep(selStoreVar(N)) {
		as, ok := o.Node.(*ast.AssignStmt)
		if !ok || len(as.Rhs) != 1 {
			continue
		}
		nStores++
		if v, isC := w.constInt(as.Rhs[0]); isC {
			nf := false
			for _, g := range w.Guards(o.SiteFn, as) {
				if eqOf(g, true, func(e ast.Expr) bool { id, ok := e.(*ast.Ident); return ok && w.Use(id) == w.Obj("badger.ErrKeyNotFound") }, func(ast.Expr) bool { return true }) {
					nf = true
				}
			}
			r.Check(v == 0 && nf, o.SiteFn, k.key("sequence starts at 0 only when no lease is stored", w, as), as, "next is set to a constant outside the ErrKeyNotFound case")
			continue
		}
		r.Check(isDecoded(o.SiteFn, as.Rhs[0]), o.SiteFn, k.key("next = the stored lease", w, as), as, "next is assigned "+short(w, as.Rhs[0])+", not the decoded stored lease")
	}
	r.Exists(nStores >= 2, lit, "next taken from the store", nil, "expected the not-found and the stored-lease assignments of next")
	// the written value and the published lease
	isLease := func(g *Fn, e ast.Expr) bool {
		be, ok := unparen(w.Origin(g, e)).(*ast.BinaryExpr)
		if !ok || be.Op != token.ADD {
			return false
		}
		return (isN(be.X) && w.fieldOf(be.Y) == bwF) || (isN(be.Y) && w.fieldOf(be.X) == bwF)
	}
	for _, o := range lit.SitesDeep(selStoreVar(L)) {
		as, ok := o.Node.(*ast.AssignStmt)
		if !ok || len(as.Rhs) != 1 {
			continue
		}
		r.Check(isLease(o.SiteFn, as.Rhs[0]), o.SiteFn, k.key("published lease = next + bandwidth", w, as), as, "leased is assigned "+short(w, as.Rhs[0]))
		// and it is assigned only after the SetEntry succeeded
		if o.SiteFn == lit {
			r.DomAll(lit, "lease published only after it was written", selNode(as), 0, selCallName(w, "badger.Txn.SetEntry"), 0)
		}
	}
	put := 0
	for _, s := range lit.Sites(selPred("PutUint64", func(w *World, fn *Fn, n ast.Node) bool {
		call, ok := n.(*ast.CallExpr)
		return ok && w.Callee(call) != nil && w.Callee(call).Name() == "PutUint64" && len(call.Args) == 2
	})) {
		put++
		call := s.(*ast.CallExpr)
		r.Check(isLease(lit, call.Args[1]), lit, "written lease = next + bandwidth", s, "the value written is "+short(w, call.Args[1]))
	}
	r.Exists(put == 1, lit, "lease encoded once", nil, "expected one PutUint64 in the lease transaction")
	// Release
	rel := w.F("badger.Sequence.Release")
	rl := updLit(rel)
	if rl == nil {
		panic(anchorError{"db.Update closure of Sequence.Release"})
	}
	sets := rl.Sites(selCallName(w, "badger.Txn.SetEntry"))
	r.Exists(len(sets) == 1, rl, "Release writes the lease back", nil, "expected one SetEntry in Release")
	for _, s := range sets {
		okEq := false
		for _, g := range w.Guards(rl, s) {
			if eqOf(g, true, func(e ast.Expr) bool { return isDecoded(rl, e) }, w.isField(leasedF)) {
				okEq = true
			}
		}
		r.Check(okEq, rl, "write-back only when the stored lease is still this object's lease", s, "SetEntry in Release is not guarded by stored == seq.leased")
	}
	for _, s := range rl.Sites(selPred("PutUint64", func(w *World, fn *Fn, n ast.Node) bool {
		call, ok := n.(*ast.CallExpr)
		return ok && w.Callee(call) != nil && w.Callee(call).Name() == "PutUint64" && len(call.Args) == 2
	})) {
		call := s.(*ast.CallExpr)
		r.Check(w.fieldOf(w.Origin(rl, call.Args[1])) == nextF, rl, "Release writes back seq.next", s, "the value written is "+short(w, call.Args[1]))
	}
	for _, s := range rel.Sites(selStore(leasedF, nextF)) {
		as, ok := s.(*ast.AssignStmt)
		okv := ok && len(as.Lhs) == 1 && len(as.Rhs) == 1 && w.fieldOf(as.Lhs[0]) == leasedF && w.fieldOf(as.Rhs[0]) == nextF
		r.Check(okv && w.errNilGuard(rel, s, update), rel, "lease lowered to next only after the write-back committed", s, "Release changes the in-memory lease otherwise than `seq.leased = seq.next` after a successful Update")
	}
	// GetSequence
	gsq := w.F("badger.DB.GetSequence")
	var bwParam *types.Var
	ps := gsq.Obj.Type().(*types.Signature).Params()
	for i := 0; i < ps.Len(); i++ {
		if b, ok := ps.At(i).Type().Underlying().(*types.Basic); ok && b.Kind() == types.Uint64 {
			bwParam = ps.At(i)
		}
	}
	rejected := false
	if bwParam != nil {
		for _, e := range gsq.allExits() {
			rs, ok := e.Node.(*ast.ReturnStmt)
			if !ok {
				continue
			}
			if op, g := w.guardRel(w.Guards(gsq, rs), func(e ast.Expr) bool { return localOf(gsq, e) == bwParam }, w.isConst(0), true); g != nil && (op == token.EQL || op == token.LEQ) {
				if len(rs.Results) == 2 {
					if id, ok := unparen(rs.Results[1]).(*ast.Ident); !ok || id.Name != "nil" {
						rejected = true
					}
				}
			}
		}
	}
	r.Check(rejected, gsq, "zero bandwidth refused", nil, "GetSequence no longer returns an error for bandwidth == 0")
	for _, o := range allStores(w, bwF) {
		r.Check(false, o.SiteFn, "bandwidth fixed at construction", o.Node, "Sequence.bandwidth is assigned after construction")
	}
}

func propC30(c *Check) {
	ruleR30_1(c)
	ruleR30_2(c)
	ruleR30_3(c)
	ruleR30_4(c)
	ruleR30_5(c)
	// the lease is read back with an ordinary Get: a window in which the key is in no level makes
	// updateLease take "not found" for "no lease yet" and restart the sequence at 0
	ruleR12_4(c)
}

// ---- C31 ----

func ruleR31_2(c *Check) {
	w := c.W
	r := c.Rule("R31.2", "E4", 6, "MergeOperator.Add writes NewEntry(key, val).withMergeBit(); compact writes back KeyWithTs(op.key, version) where version is the `latest` returned by iterateAndMerge, with meta bitDiscardEarlierVersions and no merge bit, via batchSetAsync, holding the operator's write lock; Get holds its read lock; iterateAndMerge folds f(older, accumulated) from newest to oldest and stops at a deleted/expired or discard-earlier version",
		"a write-back above the newest operand could overtake a concurrent Add; one without the discard bit makes Get fold the already-folded operands again")
	add := w.F("badger.MergeOperator.Add")
	r.Check(len(add.SitesDeep(selCallName(w, "badger.Entry.withMergeBit"))) == 1, add, "Add marks its entry as a merge operand", nil, "Add no longer calls withMergeBit")
	cp := w.F("badger.MergeOperator.compact")
	mu := w.Field("badger.MergeOperator.RWMutex")
	im := cp.Sites(selCallName(w, "badger.MergeOperator.iterateAndMerge"))
	r.Exists(len(im) >= 1, cp, "fold computed", nil, "compact no longer calls iterateAndMerge")
	var version types.Object
	for _, s := range im {
		if as, ok := w.parentOf(s).(*ast.AssignStmt); ok && len(as.Lhs) == 3 {
			version = w.Use(as.Lhs[1].(*ast.Ident))
		}
		r.Check(cp.HeldAt(s)[mu] == 2, cp, "fold computed under the operator's write lock", s, "iterateAndMerge called without op.Lock")
	}
	okKey, okMeta, noMerge := false, false, true
	cp.walk(func(n ast.Node) bool {
		kv, ok := n.(*ast.KeyValueExpr)
		if !ok {
			return true
		}
		id, ok := kv.Key.(*ast.Ident)
		if !ok {
			return true
		}
		switch w.Use(id) {
		case types.Object(w.Field("badger.Entry.Key")):
			if call, ok := unparen(kv.Value).(*ast.CallExpr); ok && w.Callee(call) == types.Object(w.Func("y.KeyWithTs")) {
				if vid, ok := unparen(call.Args[1]).(*ast.Ident); ok && version != nil && w.Use(vid) == version && w.fieldOf(call.Args[0]) == w.Field("badger.MergeOperator.key") {
					okKey = true
				}
			}
		case types.Object(w.Field("badger.Entry.meta")):
			okMeta = w.mentions(kv.Value, w.Obj("badger.bitDiscardEarlierVersions"))
			if w.mentions(kv.Value, w.Obj("badger.bitMergeEntry")) {
				noMerge = false
			}
		}
		return true
	})
	r.Check(okKey, cp, "write-back at the version of the newest operand", nil, "write-back key is not KeyWithTs(op.key, latest)")
	r.Check(okMeta && noMerge, cp, "write-back discards earlier versions and is not a merge operand", nil, "write-back meta is not exactly bitDiscardEarlierVersions")
	for _, s := range cp.Sites(selCallName(w, "badger.DB.batchSetAsync")) {
		r.Check(cp.HeldAt(s)[mu] == 2, cp, "write-back issued under the operator's write lock", s, "batchSetAsync called without op.Lock")
	}
	g := w.F("badger.MergeOperator.Get")
	for _, o := range g.SitesDeep(selCallName(w, "badger.MergeOperator.iterateAndMerge")) {
		held := g.HeldAt(w.enclosingStmt(o.SiteFn.Lit))[mu]
		if o.SiteFn == g {
			held = g.HeldAt(o.Node)[mu]
		}
		r.Check(held >= 1, g, "Get folds under the operator's read lock", o.Node, "iterateAndMerge called without op.RLock")
	}
	// fold direction and stopping
	it := w.F("badger.MergeOperator.iterateAndMerge")
	fFld := w.Field("badger.MergeOperator.f")
	okFold := false
	it.walkDeep(func(own *Fn, n ast.Node) bool {
		if call, ok := n.(*ast.CallExpr); ok && w.fieldOf(call.Fun) == fFld && len(call.Args) == 2 {
			// f(oldVal, newVal): second argument is the accumulator, result assigned to it
			if as, ok := w.parentOf(call).(*ast.AssignStmt); ok && len(as.Lhs) == 1 {
				if l, ok := as.Lhs[0].(*ast.Ident); ok {
					if a, ok := unparen(call.Args[1]).(*ast.Ident); ok && w.Use(a) == w.Use(l) {
						okFold = true
					}
				}
			}
		}
		return true
	})
	r.Check(okFold, it, "fold is f(older, accumulated)", nil, "merge function no longer called as newVal = f(oldVal, newVal)")
	stops := 0
	it.walk(func(n ast.Node) bool {
		if is, ok := n.(*ast.IfStmt); ok && len(is.Body.List) == 1 {
			if b, ok := is.Body.List[0].(*ast.BranchStmt); ok && b.Tok == token.BREAK {
				if isCallNamed(w, is.Cond, "IsDeletedOrExpired") || isCallNamed(w, is.Cond, "DiscardEarlierVersions") {
					stops++
				}
			}
		}
		return true
	})
	r.Check(stops == 2, it, "fold stops at a deleted/expired version and at a discard-earlier version", nil, "expected both stopping conditions")
	// all versions, key iterator
	r.Check(len(it.Sites(selCallName(w, "badger.Txn.NewKeyIterator"))) == 1, it, "fold iterates all versions of the key", nil, "iterateAndMerge no longer uses NewKeyIterator")
}

func propC31(c *Check) {
	ruleR13_1(c)
	ruleR31_2(c)
	ruleR21_1(c)
	ruleR01_3(c)
	ruleR12_3(c)
	ruleR15_4(c) // a GC rewrite keeps the merge bit of the operands it moves
	ruleR06_2(c) // so does the write path for operands whose value goes to the value log (all meta bits carried)
	ruleR05_4(c) // the fold reads the versions of exactly its key (key iterator: equality, not prefix)
}

// ---- C32 ----

func ruleR32_1(c *Check) {
	w := c.W
	r := c.Rule("R32.1", "E3+E1", 3, "publisher.sendUpdates is called only from DB.writeRequests, after the writeToLSM loop and before the success acknowledgement done(nil)",
		"publishing before the write is applied lets a subscriber react to data a read does not see yet; publishing from anywhere but the single writer breaks commit order")
	su := w.F("badger.publisher.sendUpdates")
	wr := w.F("badger.DB.writeRequests")
	for _, cs := range w.CG().CallSitesOf(su) {
		r.Check(cs.Caller == wr, cs.Caller, "sendUpdates called by the single writer only", cs.Node, "sendUpdates called from "+cs.Caller.Name)
	}
	sel := selCallName(w, "badger.publisher.sendUpdates")
	done := wr.LitVar("done")
	okAck := selPred("done(nil)", func(w *World, fn *Fn, n ast.Node) bool {
		call, ok := n.(*ast.CallExpr)
		return ok && w.calleeFn(fn, call) == done && len(call.Args) == 1 && isNil(call.Args[0])
	})
	r.NeverAfterAll(wr, "no memtable write after publication", sel, 0, selCallName(w, "badger.DB.writeToLSM"), 0)
	r.DomAll(wr, "acknowledgement after publication", okAck, 0, sel, 0)
	r.DomAll(wr, "publication after the value log write", sel, 0, selCallName(w, "badger.valueLog.write"), 0)
}

func ruleR32_2(c *Check) {
	w := c.W
	r := c.Rule("R32.2", "E2", 4, "publishUpdates ranges over requests and, inside, over each request's entries in slice order, holding the publisher mutex; batches are appended per subscriber and sent on that subscriber's single channel; the listener hands batches over in the order received from pubCh",
		"any reordering between the writer and the subscriber channel breaks commit-order delivery")
	f := w.F("badger.publisher.publishUpdates")
	mu := w.Field("badger.publisher.Mutex")
	var outer, inner *ast.RangeStmt
	f.walk(func(n ast.Node) bool {
		if rs, ok := n.(*ast.RangeStmt); ok {
			if w.fieldOf(rs.X) == w.Field("badger.request.Entries") {
				inner = rs
			} else if outer == nil {
				if id, ok := unparen(rs.X).(*ast.Ident); ok {
					if v, ok := w.Use(id).(*types.Var); ok && isParam(f, v) {
						outer = rs
					}
				}
			}
		}
		return true
	})
	r.Check(outer != nil && inner != nil && outer.Pos() < inner.Pos() && inner.End() <= outer.End(), f, "requests then entries, in slice order", nil, "publishUpdates no longer walks reqs and req.Entries with nested range loops")
	if inner != nil {
		r.Check(f.HeldAt(inner.X)[mu] == 2, f, "matching and batching under the publisher lock", inner, "publisher lock not held")
	}
	sc := w.Field("badger.subscriber.sendCh")
	for _, s := range f.Sites(selSend(sc)) {
		r.Check(f.HeldAt(s)[mu] == 2, f, "delivery under the publisher lock", s, "send outside the publisher lock (two publishUpdates could interleave)")
	}
	r.Exists(len(f.Sites(selSend(sc))) == 1, f, "one delivery site", nil, "expected one send on subscriber.sendCh")
	// only listenForUpdates calls publishUpdates, from one goroutine
	for _, cs := range w.CG().CallSitesOf(f) {
		r.Check(cs.Caller.Root().Name == "badger.publisher.listenForUpdates", cs.Caller, "publishUpdates called by the listener only", cs.Node, "publishUpdates called from "+cs.Caller.Name)
	}
	l := w.F("badger.publisher.listenForUpdates")
	n := 0
	for _, cs := range w.CG().CallSitesOf(l) {
		n++
		r.Check(cs.Async && !insideLoop(w, cs.Caller, cs.Node), cs.Caller, "one listener goroutine", cs.Node, "listenForUpdates started from a loop or synchronously in "+cs.Caller.Name)
	}
	r.Exists(n == 1, l, "listener started once", nil, "expected one start of listenForUpdates")
}

func ruleR32_3(c *Check) {
	w := c.W
	r := c.Rule("R32.3", "E4", 4, "the published KV carries Key = ParseKey(entry key), Version = ParseTs(entry key), Value = copy of the entry value, ExpiresAt = entry.ExpiresAt",
		"subscribers must see the user key and the commit version, not the internal key")
	f := w.F("badger.publisher.publishUpdates")
	want := map[string]func(ast.Expr) bool{
		"Key":       func(e ast.Expr) bool { return w.isCallTo(e, w.Func("y.ParseKey")) },
		"Version":   func(e ast.Expr) bool { return w.isCallTo(e, w.Func("y.ParseTs")) },
		"Value":     func(e ast.Expr) bool { return w.mentions(e, w.Field("badger.Entry.Value")) },
		"ExpiresAt": func(e ast.Expr) bool { return w.fieldOf(e) == w.Field("badger.Entry.ExpiresAt") },
	}
	got := map[string]bool{}
	f.walkInl(func(_ *Fn, n ast.Node) bool {
		cl, ok := n.(*ast.CompositeLit)
		if !ok || !isNamedType(w.TypeOf(cl), "KV") {
			return true
		}
		for _, el := range cl.Elts {
			kv := el.(*ast.KeyValueExpr)
			name := kv.Key.(*ast.Ident).Name
			if p, ok := want[name]; ok {
				got[name] = p(kv.Value)
			}
		}
		return true
	})
	for name := range want {
		r.Check(got[name], f, "KV."+name+" from the entry", nil, "published KV."+name+" is not derived from the entry as required")
	}
}

func ruleR32_4(c *Check) {
	w := c.W
	r := c.Rule("R32.4", "E4+E3", 8, "subscriptions are matched on the user key: publishUpdates looks up Trie.Get(ParseKey(entry key)), the key it also publishes; newSubscriber registers every match of the subscriber under its id (AddMatch) while holding the publisher mutex and deleteSubscriber/cleanSubscribers remove exactly those; in the trie, fix descends through the ignore child for an ignored position and through children[byte] otherwise, creating missing nodes when adding, and records the id at the node the pattern ends in; get collects the ids of every node on its path (a pattern is a prefix), returns when the key is used up, and follows both the ignore child and children[key[0]] with the rest of the key",
		"matching on the internal key lets the eight version bytes take part: a pattern longer than the user key (ending in 0xFF bytes, or with ignored positions past the key) receives keys it does not match")
	pu := w.F("badger.publisher.publishUpdates")
	get := w.Func("trie.Trie.Get")
	pk := w.Func("y.ParseKey")
	ekey := w.Field("badger.Entry.Key")
	sites := pu.Sites(selCall(get))
	r.Exists(len(sites) == 1, pu, "one index lookup per entry", nil, "expected one Trie.Get call in publishUpdates")
	for _, s := range sites {
		arg := w.Origin(pu, s.(*ast.CallExpr).Args[0])
		call, ok := unparen(arg).(*ast.CallExpr)
		okArg := ok && w.Callee(call) == types.Object(pk) && len(call.Args) == 1 && w.fieldOf(w.Origin(pu, call.Args[0])) == ekey
		if !okArg && ok && w.Callee(call) == types.Object(pk) {
			// ParseKey of a copy of the entry key
			okArg = w.mentions(w.Origin(pu, call.Args[0]), ekey)
		}
		r.Check(okArg, pu, "patterns are matched against the user key", s, "Trie.Get is given "+short(w, s.(*ast.CallExpr).Args[0])+", not ParseKey(entry key): the version suffix takes part in the match")
	}
	// registration and removal
	ns := w.F("badger.publisher.newSubscriber")
	mu := embeddedMutex(w, "badger.publisher")
	add, del := w.Func("trie.Trie.AddMatch"), w.Func("trie.Trie.DeleteMatch")
	for _, s := range ns.Sites(selCall(add)) {
		okLoop := false
		for p := w.parentOf(s); p != nil; p = w.parentOf(p) {
			if rs, ok := p.(*ast.RangeStmt); ok {
				if id, ok := unparen(rs.X).(*ast.Ident); ok {
					if v, ok := w.Use(id).(*types.Var); ok && isParam(ns, v) {
						okLoop = true
					}
				}
			}
		}
		r.Check(okLoop, ns, "every match of the subscription is registered", s, "AddMatch is not called for each of the matches passed to newSubscriber")
		if mu != nil {
			r.Check(ns.HeldAt(s)[mu] == 2, ns, "index updated under the publisher mutex", s, "AddMatch without the publisher mutex")
		}
		r.Check(w.errIsFatal(ns, s.(*ast.CallExpr)), ns, "a match that cannot be registered fails the subscription", s, "the error of AddMatch is ignored")
	}
	r.Exists(len(ns.Sites(selCall(add))) >= 1, ns, "matches registered", nil, "newSubscriber does not call AddMatch")
	for _, name := range []string{"badger.publisher.deleteSubscriber", "badger.publisher.cleanSubscribers"} {
		f := w.F(name)
		okDel := false
		for _, s := range f.Sites(selCall(del)) {
			for p := w.parentOf(s); p != nil; p = w.parentOf(p) {
				if rs, ok := p.(*ast.RangeStmt); ok && w.fieldOf(rs.X) == w.Field("badger.subscriber.matches") {
					okDel = true
				}
			}
		}
		r.Check(okDel, f, "every match of the subscriber is removed", nil, name+" does not call DeleteMatch for each of the subscriber's matches")
	}
	// the trie
	fx := w.F("trie.Trie.fix")
	gt := w.F("trie.Trie.get")
	ign, chl, ids := w.Field("trie.node.ignore"), w.Field("trie.node.children"), w.Field("trie.node.ids")
	// fix: ignore child under ignore[idx], children[byt] otherwise
	okIgn, okChl := false, false
	for _, s := range fx.Sites(selUse(ign)) {
		for _, g := range w.Guards(fx, s) {
			if ix, ok := unparen(g.Cond).(*ast.IndexExpr); ok && !g.Implicit {
				if _, isBool := w.TypeOf(ix).Underlying().(*types.Basic); isBool && g.Val {
					okIgn = true
				}
			}
		}
	}
	for _, s := range fx.Sites(selUse(chl)) {
		for _, g := range w.Guards(fx, s) {
			if ix, ok := unparen(g.Cond).(*ast.IndexExpr); ok && !g.Implicit && !g.Val {
				_ = ix
				okChl = true
			}
		}
	}
	r.Check(okIgn && okChl, fx, "an ignored position descends through the ignore child, any other through children[byte]", nil, "Trie.fix does not choose between node.ignore and node.children by the ignore table")
	// creation only when adding: a newNode() under `child == nil` and not under op == del
	for _, s := range fx.Sites(selCallName(w, "trie.newNode")) {
		isDel := HasGuard(w.Guards(fx, s), true, func(e ast.Expr) bool {
			be, ok := unparen(e).(*ast.BinaryExpr)
			return ok && be.Op == token.EQL && w.mentions(be, w.Obj("trie.del"))
		})
		r.Check(isDel == nil, fx, "nodes are created only when adding", s, "a delete creates trie nodes")
	}
	okEnd := false
	for _, s := range fx.Sites(selStore(ids)) {
		if !insideLoop(w, fx, s) {
			okEnd = true
		}
	}
	r.Check(okEnd, fx, "the id is recorded at the node the pattern ends in", nil, "Trie.fix stores ids inside the descent loop (or not at all)")
	// get: ids of every node collected before the key is consumed; both children followed with key[1:]
	idsRead := false
	gt.walk(func(n ast.Node) bool {
		if rs, ok := n.(*ast.RangeStmt); ok && w.fieldOf(rs.X) == ids {
			// not dependent on the key (an assertion on the node itself may precede it)
			dep := false
			for _, g := range w.Guards(gt, rs) {
				ast.Inspect(g.Cond, func(m ast.Node) bool {
					if id, ok := m.(*ast.Ident); ok {
						if v, ok := w.Use(id).(*types.Var); ok && isParam(gt, v) && isByteSlice(v.Type()) {
							dep = true
						}
					}
					return true
				})
			}
			idsRead = !dep
		}
		return true
	})
	r.Check(idsRead, gt, "ids of every node on the path are collected unconditionally", nil, "Trie.get does not collect node.ids of the current node before looking at the key")
	rec := gt.Sites(selCallFn(gt))
	viaIgn, viaChl := false, false
	for _, s := range rec {
		call := s.(*ast.CallExpr)
		if len(call.Args) != 2 {
			continue
		}
		rest := false
		if se, ok := unparen(call.Args[1]).(*ast.SliceExpr); ok && se.Low != nil && se.High == nil {
			if v, isC := w.constInt(se.Low); isC && v == 1 {
				rest = true
			}
		}
		a0 := w.Origin(gt, call.Args[0])
		switch {
		case w.fieldOf(a0) == ign && rest:
			viaIgn = true
		case w.fieldOf(a0) == chl && rest:
			if ix, ok := unparen(a0).(*ast.IndexExpr); ok {
				if kx, ok := unparen(ix.Index).(*ast.IndexExpr); ok {
					if v, isC := w.constInt(kx.Index); isC && v == 0 {
						viaChl = true
					}
				}
			}
		}
	}
	r.Check(viaIgn && viaChl, gt, "both the ignore child and children[key[0]] are followed with key[1:]", nil, "Trie.get does not recurse through node.ignore and node.children[key[0]] with the rest of the key")
	// the two recursive descents are independent (not else-branches of one another)
	for _, s := range rec {
		a0 := w.Origin(gt, s.(*ast.CallExpr).Args[0])
		other := chl
		if w.fieldOf(a0) == chl {
			other = ign
		}
		bad := false
		for _, g := range w.Guards(gt, s) {
			if !g.Lifted && w.mentions(g.Cond, other) {
				bad = true
			}
		}
		r.Check(!bad, gt, "neither descent depends on the other child", s, "one child is followed depending on the presence of the other")
	}
}

func ruleR32_5(c *Check) {
	w := c.W
	r := c.Rule("R32.5", "E6+E4", 6, "nothing matching is dropped: publishUpdates delivers a subscriber's batch with a plain (blocking) send on its channel, conditional only on the subscriber being active; every entry of every request with a non-empty id set contributes its KV to the batch of each id; in the pattern index a node is pruned (removeEmpty/isEmpty) only when it has no children, no ids and no ignore child — every field of the node that an insertion can populate is tested",
		"a send that can be skipped when the channel is full, or a node pruned while an ignore-path still hangs below it, silently stops deliveries to a live subscriber")
	pu := w.F("badger.publisher.publishUpdates")
	sc := w.Field("badger.subscriber.sendCh")
	sends := pu.Sites(selSend(sc))
	r.Exists(len(sends) >= 1, pu, "delivery site", nil, "no send on subscriber.sendCh in publishUpdates")
	active := w.Field("badger.subscriber.active")
	var k keyer
	for _, s := range sends {
		_, blocking := w.blockingOp(pu, s)
		r.Check(blocking, pu, k.key("a batch is delivered, not offered", w, s), s, "the send on the subscriber's channel is an arm of a select with a default: when the channel is full the batch is dropped")
		for _, g := range w.Guards(pu, s) {
			if g.Implicit || g.Lifted {
				continue
			}
			if _, isFor := g.At.(*ast.ForStmt); isFor {
				continue
			}
			r.Check(w.mentions(g.Cond, active), pu, k.key("delivery depends only on the subscriber being active", w, s), s, "the delivery is conditional on "+short(w, g.Cond))
		}
	}
	// every id of a matching entry gets the KV
	okIds := false
	pu.walk(func(n ast.Node) bool {
		rs, ok := n.(*ast.RangeStmt)
		if !ok {
			return true
		}
		if id, ok := unparen(rs.X).(*ast.Ident); ok {
			if v, ok := w.Use(id).(*types.Var); ok {
				for _, d := range w.DefsOf(pu, v) {
					if w.isCallTo(d, w.Func("trie.Trie.Get")) {
						// body appends to the per-id batch
						ast.Inspect(rs.Body, func(m ast.Node) bool {
							if as, ok := m.(*ast.AssignStmt); ok && w.fieldOf(as.Lhs[0]) == w.Field("pb.KVList.Kv") {
								okIds = len(w.Guards(pu, as)) == len(w.Guards(pu, rs))
							}
							return true
						})
					}
				}
			}
		}
		return true
	})
	r.Check(okIds, pu, "the KV goes into the batch of every matching subscriber", nil, "publishUpdates does not append the KV for each id returned by the index")
	// pruning
	ie := w.F("trie.node.isEmpty")
	nodeT, _ := w.Obj("trie.node").(*types.TypeName)
	if nodeT != nil {
		st := nodeT.Type().Underlying().(*types.Struct)
		body, _ := w.tinyBody(ie.Obj)
		for i := 0; i < st.NumFields(); i++ {
			fld := st.Field(i)
			// fields an insertion populates: maps, slices and node pointers
			switch fld.Type().Underlying().(type) {
			case *types.Map, *types.Slice, *types.Pointer:
			default:
				continue
			}
			okF := false
			var src ast.Node = ie.Body
			if body != nil {
				src = body
			}
			ast.Inspect(src, func(m ast.Node) bool {
				if se, ok := m.(*ast.SelectorExpr); ok && w.fieldOf(se) == fld {
					okF = true
				}
				return true
			})
			r.Check(okF, ie, "a node holding "+fld.Name()+" is not empty", nil, "node.isEmpty does not look at node."+fld.Name()+": removeEmpty prunes nodes that still carry it")
		}
		if body != nil {
			// a conjunction: empty only if ALL are empty
			conj := true
			ast.Inspect(body, func(m ast.Node) bool {
				if be, ok := m.(*ast.BinaryExpr); ok && be.Op == token.LOR {
					conj = false
				}
				return true
			})
			r.Check(conj, ie, "empty means all parts empty", nil, "node.isEmpty is true when only some part of the node is empty")
		}
	}
	re := w.F("trie.removeEmpty")
	for _, s := range re.Sites(selStore(w.Field("trie.node.ignore"))) {
		g := HasGuard(w.Guards(re, s), true, func(e ast.Expr) bool {
			return w.isCallTo(w.Origin(re, e), w.Func("trie.removeEmpty")) || (func() bool { id, ok := unparen(e).(*ast.Ident); return ok && id != nil && len(w.DefsOf(re, func() *types.Var { v, _ := w.Use(id).(*types.Var); return v }())) > 0 })()
		})
		r.Check(g != nil, re, "an ignore child is dropped only when it is empty", s, "node.ignore is cleared without the child having been found empty")
	}
}

// embeddedMutex: the sync.Mutex embedded in a named struct (field object), nil if none.
func embeddedMutex(w *World, typeName string) *types.Var {
	tn, ok := w.Obj(typeName).(*types.TypeName)
	if !ok {
		return nil
	}
	st, ok := tn.Type().Underlying().(*types.Struct)
	if !ok {
		return nil
	}
	for i := 0; i < st.NumFields(); i++ {
		f := st.Field(i)
		if f.Embedded() && (f.Type().String() == "sync.Mutex" || f.Type().String() == "sync.RWMutex") {
			return f
		}
	}
	return nil
}

func propC32(c *Check) {
	ruleR32_1(c)
	ruleR32_2(c)
	ruleR32_3(c)
	ruleR32_4(c)
	ruleR32_5(c)
	ruleR03_1(c)
	ruleR03_4(c)
	ruleR29_5(c)
}
