package main

// Error-identity flow (R09.8): the torn-tail classifiers of the replay code recognise the end of
// the readable data by comparing an error with io.EOF / io.ErrUnexpectedEOF / errTruncate using
// `==`. That only works if the error produced by the read primitive arrives unchanged: a
// function on the way that wraps it (fmt.Errorf("…%w", err), y.Wrap, errors.Wrap) turns a torn
// tail into a hard error and Open fails.

import (
	"go/ast"
	"go/token"
	"go/types"
	"strings"
)

type errFlow struct {
	w          *World
	readMemo   map[*Fn]int // 0 unknown, 1 in progress/false, 2 true
	isSentinel func(ast.Expr) bool
}

type errRet struct {
	e  ast.Expr
	at ast.Node
}

// isStdRead: a call into the standard library that reads from a stream (its error can be io.EOF
// or io.ErrUnexpectedEOF), or an interface method call named Read*.
func (ef *errFlow) isStdRead(call *ast.CallExpr) bool {
	fn, ok := ef.w.Callee(call).(*types.Func)
	if !ok || fn.Pkg() == nil {
		return false
	}
	if !strings.HasPrefix(fn.Name(), "Read") {
		return false
	}
	switch fn.Pkg().Path() {
	case "io", "bufio", "encoding/binary", "os", "bytes":
		return true
	}
	if sig, ok := fn.Type().(*types.Signature); ok && sig.Recv() != nil {
		if _, isIface := sig.Recv().Type().Underlying().(*types.Interface); isIface {
			return true
		}
	}
	return false
}

// errResultIndex: index of the (last) error-typed result of f, or -1.
func errResultIndex(f *Fn) int {
	if f == nil || f.Type == nil || f.Type.Results == nil {
		return -1
	}
	idx, n := -1, 0
	for _, fld := range f.Type.Results.List {
		k := len(fld.Names)
		if k == 0 {
			k = 1
		}
		if tv, ok := f.W.Info.Types[fld.Type]; ok && isErrorType(tv.Type) {
			idx = n + k - 1
		}
		n += k
	}
	return idx
}

// errExprs: the expressions that can flow into the error result at the returns of f.
func (ef *errFlow) errExprs(f *Fn) []errRet {
	idx := errResultIndex(f)
	if idx < 0 {
		return nil
	}
	var out []errRet
	f.walk(func(n ast.Node) bool {
		rs, ok := n.(*ast.ReturnStmt)
		if !ok {
			return true
		}
		switch {
		case len(rs.Results) > idx:
			out = append(out, errRet{rs.Results[idx], rs})
		case len(rs.Results) == 1:
			out = append(out, errRet{rs.Results[0], rs}) // return g() forwarding a tuple
		}
		return true
	})
	return out
}

// defs resolves an error expression to the expressions that define it (through locals, all
// definitions, flow-insensitively).
// Only the definitions that reach `at` (the statement or expression where e is used) count: an
// `err` variable reused for several calls is resolved to the call whose result is still in it.
func (ef *errFlow) defs(f *Fn, e ast.Expr, at ast.Node, depth int) []ast.Expr {
	e = unparen(e)
	id, ok := e.(*ast.Ident)
	if !ok || depth >= 4 {
		return []ast.Expr{e}
	}
	v, ok := ef.w.Use(id).(*types.Var)
	if !ok || v.IsField() || v.Pkg() == nil || v.Parent() == v.Pkg().Scope() {
		return []ast.Expr{e}
	}
	var out []ast.Expr
	for _, s := range f.Root().SitesDeep(selStoreVar(v)) {
		as, ok := s.Node.(*ast.AssignStmt)
		if !ok || !ef.reaches(f, as, at, v) {
			continue
		}
		var rhs ast.Expr
		for i, l := range as.Lhs {
			if lid, ok := l.(*ast.Ident); ok && ef.w.Use(lid) == types.Object(v) {
				if len(as.Rhs) == len(as.Lhs) {
					rhs = as.Rhs[i]
				} else if len(as.Rhs) == 1 {
					rhs = as.Rhs[0]
				}
			}
		}
		if rhs == nil || unparen(rhs) == e {
			continue
		}
		out = append(out, ef.defs(s.SiteFn, rhs, as, depth+1)...)
	}
	return out
}

// reaches: some path from the definition to the use passes no other definition of v.
// Definitions and uses in different function bodies (closures) are treated as reaching.
func (ef *errFlow) reaches(fn *Fn, def ast.Node, use ast.Node, v types.Object) bool {
	if use == nil || ef.w.fnOf(def) != fn || ef.w.fnOf(use) != fn {
		return true
	}
	g := fn.G()
	dv, uv := g.VertexOf(def), g.VertexOf(use)
	if dv < 0 || uv < 0 {
		return true
	}
	if dv == uv {
		return def.Pos() <= use.Pos()
	}
	avoid := map[int]bool{}
	for _, s := range fn.Sites(selStoreVar(v)) {
		if sv := g.VertexOf(s); sv >= 0 && sv != dv && sv != uv {
			avoid[sv] = true
		}
	}
	return g.pathAvoiding([]int{dv}, func(x int) bool { return x == uv }, avoid, false) != nil
}

// classified: the node is control-dependent on the error having been compared with a sentinel
// and found different (`if err != io.EOF { return wrap(err) }`): the function sorted the
// end-of-data case out itself, what it wraps there is another error.
func (ef *errFlow) classified(f *Fn, n ast.Node, isSentinel func(ast.Expr) bool) bool {
	for _, g := range ef.w.Guards(f, n) {
		be, ok := g.Cond.(*ast.BinaryExpr)
		if !ok || (be.Op != token.EQL && be.Op != token.NEQ) {
			continue
		}
		if !isSentinel(be.X) && !isSentinel(be.Y) {
			continue
		}
		if (be.Op == token.NEQ) == g.Val {
			return true
		}
	}
	return false
}

// mayReturnReadError: some error returned by f derives from a stream read.
func (ef *errFlow) mayReturnReadError(f *Fn) bool {
	if f == nil {
		return false
	}
	switch ef.readMemo[f] {
	case 1:
		return false
	case 2:
		return true
	}
	ef.readMemo[f] = 1
	for _, e := range ef.errExprs(f) {
		for _, d := range ef.defs(f, e.e, e.at, 0) {
			if ef.readDerived(f, d) {
				ef.readMemo[f] = 2
				return true
			}
		}
	}
	return false
}

// readDerived: the (resolved) expression is a stream read, a call of a module function that may
// return a read error, or a wrapper call around such a value.
func (ef *errFlow) readDerived(f *Fn, d ast.Expr) bool {
	call, ok := unparen(d).(*ast.CallExpr)
	if !ok {
		return false
	}
	if ef.isStdRead(call) {
		return true
	}
	if g := ef.w.calleeFn(f, call); g != nil && ef.mayReturnReadError(g) {
		return true
	}
	for _, a := range call.Args {
		if tv, ok := ef.w.Info.Types[a]; ok && isErrorType(tv.Type) {
			for _, d2 := range ef.defs(f, a, call, 0) {
				if d2 != d && ef.readDerived(f, d2) {
					return true
				}
			}
		}
	}
	return false
}

// wraps: d is a call that takes an error value derived from a read and returns another error.
func (ef *errFlow) wraps(f *Fn, d ast.Expr) (bool, string) {
	call, ok := unparen(d).(*ast.CallExpr)
	if !ok {
		return false, ""
	}
	tv, ok := ef.w.Info.Types[call]
	if !ok {
		return false, ""
	}
	returnsErr := isErrorType(tv.Type)
	if tup, isTup := tv.Type.(*types.Tuple); isTup && tup.Len() > 0 {
		returnsErr = isErrorType(tup.At(tup.Len() - 1).Type())
	}
	if !returnsErr {
		return false, ""
	}
	// a helper of the module that hands its error argument back unchanged, or maps it to a
	// sentinel (`if err == io.EOF { err = errTruncate }; return err`), is not a wrap
	if g := ef.w.calleeFn(f, call); g != nil && g.Decl != nil {
		through := true
		for _, e := range ef.errExprs(g) {
			for _, d := range ef.defs(g, e.e, e.at, 0) {
				switch x := unparen(d).(type) {
				case *ast.Ident:
					// parameter, nil, or a package-level sentinel
					_ = x
				case *ast.SelectorExpr:
					if v, ok := ef.w.Use(x.Sel).(*types.Var); !ok || v.IsField() {
						through = false
					}
				default:
					through = false
				}
			}
		}
		if through {
			return false, ""
		}
	}
	for _, a := range call.Args {
		if atv, ok := ef.w.Info.Types[a]; ok && isErrorType(atv.Type) {
			for _, d2 := range ef.defs(f, a, call, 0) {
				if ef.readDerived(f, d2) {
					return true, short(ef.w, call)
				}
			}
		}
	}
	return false, ""
}

// checkTransparent walks the error flow backwards from f's returns and reports wrapping calls.
func (ef *errFlow) checkTransparent(f *Fn, seen map[*Fn]bool, report func(g *Fn, at ast.Node, what string)) int {
	if f == nil || seen[f] {
		return 0
	}
	seen[f] = true
	n := 0
	for _, e := range ef.errExprs(f) {
		for _, d := range ef.defs(f, e.e, e.at, 0) {
			call, ok := unparen(d).(*ast.CallExpr)
			if !ok {
				continue
			}
			n++
			if yes, what := ef.wraps(f, d); yes && !ef.classified(ef.w.fnOf(call), call, ef.isSentinel) {
				report(f, call, what)
				continue
			}
			if g := ef.w.calleeFn(f, call); g != nil {
				n += ef.checkTransparent(g, seen, report)
			}
		}
	}
	return n
}

func ruleR09_8(c *Check) {
	w := c.W
	r := c.Rule("R09.8", "E3+E4", 6, "errors that a replay loop classifies by identity (`err == io.EOF`, `== io.ErrUnexpectedEOF`, `== errTruncate`) arrive unwrapped: following the compared error backwards through the module functions that produced it (locals, returns, callees), no function passes a value that derives from a stream read to an error-wrapping call (fmt.Errorf, y.Wrap, errors.Wrap, …); covers logFile.iterate → safeRead.Entry → header.DecodeFrom → hashReader, ReplayManifestFile, the key-registry iterator and DB.Load",
		"a wrapped io.EOF no longer equals io.EOF: the torn tail of the newest WAL, value log or MANIFEST is reported as a hard error and Open fails after a crash")
	ef := &errFlow{w: w, readMemo: map[*Fn]int{}}
	defer func() { ef.isSentinel = nil }()
	sentinels := map[types.Object]bool{w.Obj("io.EOF"): true, w.Obj("io.ErrUnexpectedEOF"): true, w.Obj("badger.errTruncate"): true}
	isSentinel := func(e ast.Expr) bool {
		switch x := unparen(e).(type) {
		case *ast.Ident:
			return sentinels[w.Use(x)]
		case *ast.SelectorExpr:
			return sentinels[w.Use(x.Sel)]
		}
		return false
	}
	ef.isSentinel = isSentinel
	var k keyer
	sites := 0
	for _, f := range w.Fns {
		if isCmdPkg(f) || f.Body == nil {
			continue
		}
		f.walk(func(n ast.Node) bool {
			be, ok := n.(*ast.BinaryExpr)
			if !ok || (be.Op != token.EQL && be.Op != token.NEQ) {
				return true
			}
			var ev ast.Expr
			switch {
			case isSentinel(be.Y):
				ev = be.X
			case isSentinel(be.X):
				ev = be.Y
			default:
				return true
			}
			sites++
			seen := map[*Fn]bool{}
			bad := 0
			for _, d := range ef.defs(f, ev, be, 0) {
				call, ok := unparen(d).(*ast.CallExpr)
				if !ok {
					continue
				}
				if yes, what := ef.wraps(f, d); yes && !ef.classified(w.fnOf(call), call, isSentinel) {
					bad++
					r.Check(false, f, k.key("compared error arrives unwrapped", w, call), call, "the error compared with a sentinel at "+w.Position(be.Pos())+" was wrapped by "+what)
					continue
				}
				if g := w.calleeFn(f, call); g != nil {
					ef.checkTransparent(g, seen, func(g *Fn, at ast.Node, what string) {
						bad++
						r.Check(false, g, k.key("read error returned unwrapped", w, at), at, "a stream-read error is wrapped by "+what+" and later compared by identity at "+w.Position(be.Pos())+" ("+f.Name+"): a torn tail is no longer recognised")
					})
				}
			}
			if bad == 0 {
				r.Check(true, f, k.key("identity comparison fed by unwrapped errors", w, be), be, "")
			}
			return true
		})
	}
	r.Exists(sites >= 6, nil, "identity comparisons with EOF sentinels", nil, "expected the classifiers of logFile.iterate, safeRead.Entry and ReplayManifestFile")
}
