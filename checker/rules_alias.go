package main

import (
	"go/ast"
	"go/token"
	"go/types"
)

// R12.6: nobody writes into the backing array of levelHandler.tables except under the level's write lock.
func ruleR12_6(c *Check) {
	w := c.W
	r := c.Rule("R12.6", "E3+E2", 6, "the backing array of levelHandler.tables is shared by every reader holding the level's read lock: an element store, append, copy-into, in-place sort or a call that does one of these through a parameter (followed three calls deep, local closures included) on levelHandler.tables or on a slice of it happens only while the level's write lock is held",
		"an iterator or Get that filters the level's table list in place (instead of on a copy) reorders or duplicates tables for every later reader: keys are skipped, returned twice or out of order")
	tables := w.Field("badger.levelHandler.tables")
	mu := w.Field("badger.levelHandler.RWMutex")
	aa := newAliasAnalysis(w)
	seed := func(e ast.Expr) bool {
		_, isSel := e.(*ast.SelectorExpr)
		return isSel && w.fieldOf(e) == tables
	}
	var k keyer
	users, writes := 0, 0
	for _, f := range w.Fns {
		if f.Parent != nil || shortPkg(f.Pkg) != "badger" || isCmdPkg(f) || f.Body == nil {
			continue
		}
		if len(f.SitesDeep(selUse(tables))) == 0 {
			continue
		}
		users++
		for _, wr := range aa.writesThrough(f, seed, 3) {
			writes++
			held := wr.fn.HeldAt(wr.node)[mu] == 2
			r.Check(held, wr.fn, k.key("shared table list written only under the write lock", w, wr.node), wr.node, "levelHandler.tables (or a slice sharing its backing array) is modified without the level's write lock: "+wr.how)
		}
		r.Check(true, f, "uses of levelHandler.tables examined in "+f.Name, nil, "")
	}
	r.Exists(users >= 6, w.F("badger.levelHandler.appendIterators"), "functions using levelHandler.tables", nil, "expected the level handler's readers and writers")
	// positive control: the analysis sees the owner's own in-place operations (sort in replaceTables / addTable append)
	r.Exists(writes >= 1, w.F("badger.levelHandler.replaceTables"), "in-place writes by owners are seen", nil, "the alias analysis found no write at all, not even the owners': it is not looking at the code")
}

// R05.5: each visible key exactly once.
func ruleR05_5(c *Check) {
	w := c.W
	r := c.Rule("R05.5", "E1+E6", 10, "Iterator.parseItem advances the underlying iterator on every path before it returns (an entry is never parsed twice); going forward without AllVersions an entry whose user key equals lastKey is skipped and lastKey is set from the current key before the deleted/expired test (a deleted newest version must still hide the older ones); going in reverse the look-ahead goes back to FILL only for the same user key at a version <= readTs; under AllVersions the entry is filled before and regardless of the duplicate and deleted tests; Iterator.Seek clears lastKey and drains the prefetched items before it repositions; Next takes the prefetched items in the order parseItem produced them (FIFO list)",
		"a path that returns without advancing yields the same entry again; a lastKey updated only for live versions lets an older version of a deleted key reappear; a stale lastKey after Seek hides the key sought")
	pi := w.F("badger.Iterator.parseItem")
	iitr := w.Field("badger.Iterator.iitr")
	// the merge iterator variable (mi := it.iitr) or the field itself
	isMI := func(e ast.Expr) bool { return w.fieldFrom(e) == iitr }
	next := selPred("mi.Next()", func(w *World, f *Fn, n ast.Node) bool {
		call, ok := n.(*ast.CallExpr)
		if !ok || !isCallNamed(w, call, "Next") {
			return false
		}
		rc := recvOf(call)
		return rc != nil && isMI(rc)
	})
	r.Exists(len(pi.Sites(next)) >= 4, pi, "advance sites", nil, "expected the underlying iterator to be advanced on each skip path and after a fill")
	r.ExitsNeed(pi, "underlying iterator advanced", next, 0, exitAll)
	lastKey := w.Field("badger.Iterator.lastKey")
	rev := w.Field("badger.IteratorOptions.Reverse")
	allv := w.Field("badger.IteratorOptions.AllVersions")
	sameKey := w.Func("y.SameKey")
	ide := w.Func("badger.isDeletedOrExpired")
	// forward dedupe: a `mi.Next(); return false` under SameKey(lastKey, key), itself under !Reverse and !AllVersions
	okDedupe := false
	for _, s := range pi.Sites(next) {
		gs := w.Guards(pi, s)
		same := HasGuard(gs, true, func(e ast.Expr) bool {
			call, ok := unparen(e).(*ast.CallExpr)
			return ok && w.Callee(call) == types.Object(sameKey) && (w.fieldOf(call.Args[0]) == lastKey || w.fieldOf(call.Args[1]) == lastKey)
		})
		if same == nil {
			continue
		}
		fwd := HasGuard(gs, false, func(e ast.Expr) bool { return w.fieldOf(e) == rev })
		notAll := HasGuard(gs, false, func(e ast.Expr) bool { return w.fieldOf(e) == allv })
		okDedupe = fwd != nil && notAll != nil
		r.Check(okDedupe, pi, "duplicate-key skip applies going forward without AllVersions", s, "the SameKey(lastKey, key) skip is not under !Reverse and !AllVersions")
	}
	r.Check(okDedupe, pi, "forward iteration skips further versions of the key just seen", nil, "no skip under SameKey(it.lastKey, key)")
	// lastKey set before the deleted/expired test going forward
	stores := pi.Sites(selStore(lastKey))
	r.Exists(len(stores) == 1, pi, "lastKey updated", nil, "expected one store to Iterator.lastKey in parseItem")
	for _, s := range stores {
		fwd := HasGuard(w.Guards(pi, s), false, func(e ast.Expr) bool { return w.fieldOf(e) == rev })
		r.Check(fwd != nil && w.mentions(s, w.Func("y.SafeCopy")) || fwd != nil && isCallNamed(w, s.(*ast.AssignStmt).Rhs[0], "Copy"), pi, "lastKey is a copy of the current key, tracked going forward", s, "lastKey is not copied from the current key under !Reverse")
		// it must not depend on the entry being live
		dead := HasGuard(w.Guards(pi, s), false, func(e ast.Expr) bool { return w.isCallTo(e, ide) })
		r.Check(dead == nil, pi, "lastKey updated whether or not the version is live", s, "lastKey is updated only for live versions: an older version of a deleted key is returned")
	}
	r.DomAll(pi, "lastKey updated before the deleted/expired test (forward)", selCall(ide), 0, selStore(lastKey), 0, excuseField(w, rev, true))
	// reverse look-ahead: goto FILL only for the same user key
	gotos := 0
	pi.walk(func(n ast.Node) bool {
		b, ok := n.(*ast.BranchStmt)
		if !ok || b.Tok != token.GOTO {
			return true
		}
		gotos++
		gs := w.Guards(pi, b)
		eq := HasGuard(gs, true, func(e ast.Expr) bool {
			call, ok := unparen(e).(*ast.CallExpr)
			if !ok || len(call.Args) != 2 {
				return false
			}
			fn, _ := w.Callee(call).(*types.Func)
			if fn == nil || fn.Name() != "Equal" {
				return false
			}
			a, b := w.from(call.Args[0]), w.from(call.Args[1])
			pk := func(x ast.Expr) bool { return isCallNamed(w, x, "ParseKey") }
			ik := func(x ast.Expr) bool { return w.fieldOf(x) == w.Field("badger.Item.key") }
			return (pk(a) && ik(b)) || (pk(b) && ik(a)) || (ik(call.Args[0]) || ik(call.Args[1]))
		})
		isRev := HasGuard(gs, true, func(e ast.Expr) bool { return w.fieldOf(e) == rev })
		implicitRev := false
		for _, g := range gs {
			// `if !Reverse || !mi.Valid() { return }` leaves Reverse && Valid
			if w.fieldOf(g.Cond) == rev && g.Val {
				implicitRev = true
			}
		}
		r.Check(eq != nil && (isRev != nil || implicitRev), pi, "reverse look-ahead continues only on the same user key", b, "goto FILL is not under bytes.Equal(ParseKey(next key), item.key) in reverse mode")
		// … and for EVERY such version: whether the newer version is live, deleted or expired is decided
		// at FILL (a dead newest version must hide the older one just filled), not before the jump
		for _, g := range gs {
			if g.Implicit || g.Lifted {
				continue
			}
			if eq == nil {
				break // already reported above
			}
			if g == *eq {
				continue
			}
			if call, ok := unparen(g.Cond).(*ast.CallExpr); ok {
				if fn, _ := w.Callee(call).(*types.Func); fn != nil && fn.Name() == "Equal" {
					continue
				}
			}
			if _, ok := w.cmpRoles(g.Cond, g.Val, func(e ast.Expr) bool { return w.isCallTo(e, w.Func("y.ParseTs")) }, func(e ast.Expr) bool { return w.fieldOf(e) == w.Field("badger.Iterator.readTs") }); ok {
				continue
			}
			if w.fieldOf(g.Cond) == rev {
				continue
			}
			r.Check(false, pi, "every newer version of the same key at or below readTs is re-examined", b, "the reverse look-ahead also depends on "+short(w, g.Cond)+": a newer version that fails it (e.g. an expired one) no longer hides the older version already filled")
		}
		return true
	})
	r.Exists(gotos == 1, pi, "reverse look-ahead present", nil, "expected one `goto FILL`")
	// AllVersions: filled regardless of duplicate / deleted tests
	fillSel := selCallName(w, "badger.Iterator.fill")
	nAll := 0
	for _, s := range pi.Sites(fillSel) {
		gs := w.Guards(pi, s)
		if HasGuard(gs, true, func(e ast.Expr) bool { return w.fieldOf(e) == allv }) == nil {
			continue
		}
		nAll++
		bad := false
		for _, g := range gs {
			if w.mentions(g.Cond, lastKey) || w.isCallTo(g.Cond, ide) || w.mentions(g.Cond, ide) {
				bad = true
			}
		}
		r.Check(!bad, pi, "AllVersions returns every version, deleted or not, duplicate key or not", s, "the AllVersions fill depends on the duplicate-key or deleted/expired test")
	}
	r.Exists(nAll == 1, pi, "AllVersions branch fills", nil, "expected one fill under opt.AllVersions")
	// Seek: lastKey cleared and prefetched items drained before repositioning
	sk := w.F("badger.Iterator.Seek")
	repos := selPred("iitr.Seek/Rewind", func(w *World, f *Fn, n ast.Node) bool {
		call, ok := n.(*ast.CallExpr)
		if !ok || !(isCallNamed(w, call, "Seek") || isCallNamed(w, call, "Rewind")) {
			return false
		}
		rc := recvOf(call)
		return rc != nil && isMI(rc)
	})
	r.Exists(len(sk.Sites(repos)) >= 2, sk, "reposition sites", nil, "expected iitr.Rewind and iitr.Seek in Iterator.Seek")
	r.DomAll(sk, "lastKey cleared before repositioning", repos, 0, selStore(lastKey), 0)
	dataFld := w.Field("badger.Iterator.data")
	drain := selPred("it.data.pop()", func(w *World, f *Fn, n ast.Node) bool {
		call, ok := n.(*ast.CallExpr)
		if !ok || !isCallNamed(w, call, "pop") {
			return false
		}
		rc := recvOf(call)
		return rc != nil && w.fieldOf(rc) == dataFld
	})
	r.DomAll(sk, "prefetched items drained before repositioning", repos, 0, drain, 0)
	r.DomAll(sk, "prefetch after repositioning", selCallName(w, "badger.Iterator.prefetch"), 0, repos, 0)
	// FIFO list
	push, pop := w.F("badger.list.push"), w.F("badger.list.pop")
	head, tail := w.Field("badger.list.head"), w.Field("badger.list.tail")
	okPush := false
	for _, s := range push.Sites(selStore(w.Field("badger.Item.next"))) {
		if as, ok := s.(*ast.AssignStmt); ok && len(as.Lhs) == 1 {
			if se, ok := unparen(as.Lhs[0]).(*ast.SelectorExpr); ok && w.fieldOf(se.X) == tail {
				okPush = true
			}
		}
	}
	okPop := false
	for _, s := range pop.Sites(selReturn()) {
		rs := s.(*ast.ReturnStmt)
		if len(rs.Results) == 1 && !isNil(rs.Results[0]) && w.fieldFrom(rs.Results[0]) == head {
			okPop = true
		}
	}
	r.Check(okPush && okPop, push, "prefetched items are queued at the tail and taken from the head", nil, "list.push does not append at the tail or list.pop does not take the head")
}

// R05.4: single-key iterators.
func ruleR05_4(c *Check) {
	w := c.W
	r := c.Rule("R05.4", "E6", 5, "Txn.NewKeyIterator sets Prefix to the key, prefixIsKey and AllVersions; Iterator.Valid, when prefixIsKey is set, accepts an item only if its key equals the prefix (bytes.Equal), and falls back to HasPrefix only when it is not set; ValidForPrefix includes Valid",
		"with only a prefix test a key iterator runs on into every longer key that starts with its key")
	nk := w.F("badger.Txn.NewKeyIterator")
	pik := w.Field("badger.IteratorOptions.prefixIsKey")
	pfx := w.Field("badger.IteratorOptions.Prefix")
	av := w.Field("badger.IteratorOptions.AllVersions")
	isTrue := func(e ast.Expr) bool {
		tv := w.Info.Types[e]
		return tv.Value != nil && tv.Value.String() == "true"
	}
	var keyParam types.Object
	if nk.Decl.Type.Params != nil && len(nk.Decl.Type.Params.List) > 0 && len(nk.Decl.Type.Params.List[0].Names) > 0 {
		keyParam = w.Info.Defs[nk.Decl.Type.Params.List[0].Names[0]]
	}
	okP, okK, okA := false, false, false
	nk.walk(func(n ast.Node) bool {
		as, ok := n.(*ast.AssignStmt)
		if !ok || len(as.Lhs) != len(as.Rhs) {
			return true
		}
		for i, l := range as.Lhs {
			switch w.fieldOf(l) {
			case pfx:
				id, isId := unparen(as.Rhs[i]).(*ast.Ident)
				okP = isId && w.Use(id) == keyParam
			case pik:
				okK = isTrue(as.Rhs[i])
			case av:
				okA = isTrue(as.Rhs[i])
			}
		}
		return true
	})
	r.Check(okP, nk, "Prefix = key", nil, "NewKeyIterator does not set opt.Prefix to its key")
	r.Check(okK, nk, "prefixIsKey = true", nil, "NewKeyIterator does not set opt.prefixIsKey")
	r.Check(okA, nk, "AllVersions = true", nil, "NewKeyIterator does not set opt.AllVersions")
	r.ExitsNeed(nk, "NewIterator with the modified options", selCallName(w, "badger.Txn.NewIterator"), 0, exitAll)
	// Valid
	vf := w.F("badger.Iterator.Valid")
	itemKey := w.Field("badger.Item.key")
	eq, hp := w.Func("bytes.Equal"), w.Func("bytes.HasPrefix")
	sawEq := false
	for _, s := range vf.Sites(selReturn()) {
		rs := s.(*ast.ReturnStmt)
		if len(rs.Results) != 1 {
			continue
		}
		pk := 0 // +1: under prefixIsKey, -1: under !prefixIsKey
		for _, g := range w.Guards(vf, rs) {
			c := unparen(g.Cond)
			neg := false
			if u, ok := c.(*ast.UnaryExpr); ok && u.Op == token.NOT {
				c, neg = unparen(u.X), true
			}
			if w.fieldOf(w.from(c)) == pik {
				if g.Val != neg {
					pk = 1
				} else {
					pk = -1
				}
			}
		}
		res := w.from(rs.Results[0])
		call, isCall := unparen(res).(*ast.CallExpr)
		if !isCall {
			continue
		}
		args2 := func() bool {
			if len(call.Args) != 2 {
				return false
			}
			a, b := w.fieldOf(w.from(call.Args[0])), w.fieldOf(w.from(call.Args[1]))
			return (a == itemKey && b == pfx) || (a == pfx && b == itemKey)
		}
		switch w.Callee(call) {
		case types.Object(eq):
			r.Check(pk == 1 && args2(), vf, "equality with the key under prefixIsKey", rs, "bytes.Equal result is not the item key against opt.Prefix under prefixIsKey")
			sawEq = sawEq || (pk == 1 && args2())
		case types.Object(hp):
			r.Check(pk == -1, vf, "prefix test only when prefixIsKey is not set", rs, "Iterator.Valid accepts any key with the prefix although prefixIsKey may be set")
		}
	}
	r.Check(sawEq, vf, "Valid compares for equality when prefixIsKey is set", nil, "Iterator.Valid has no bytes.Equal(item.key, opt.Prefix) branch for key iterators")
	vp := w.F("badger.Iterator.ValidForPrefix")
	r.Exists(len(vp.Sites(selCallName(w, "badger.Iterator.Valid"))) >= 1, vp, "ValidForPrefix includes Valid", nil, "ValidForPrefix does not call Valid")
}
