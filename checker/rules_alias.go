package main

import (
	"go/ast"
	"go/token"
	"go/types"
)

// R12.6: nobody writes into the backing array of levelHandler.tables except under the level's write lock.
func ruleR12_6(c *Check) {
	w := c.W
	r := c.Rule("R12.6", "E3+E2", 6, "the backing array of levelHandler.tables is shared by every reader holding the level's read lock: an element store, append, copy-into, in-place sort or a call that does one of these through a parameter (followed three calls deep, local closures included) on levelHandler.tables or on a slice of it happens only while the level's write lock is held",
		"an iterator or Get that filters the level's table list in place (instead of on a copy) reorders or duplicates tables for every later reader: keys are skipped, returned twice or out of order")
	tables := w.Field("badger.levelHandler.tables")
	mu := w.Field("badger.levelHandler.RWMutex")
	aa := newAliasAnalysis(w)
	seed := func(e ast.Expr) bool {
		_, isSel := e.(*ast.SelectorExpr)
		return isSel && w.fieldOf(e) == tables
	}
	var k keyer
	users, writes := 0, 0
	for _, f := range w.Fns {
		if f.Parent != nil || shortPkg(f.Pkg) != "badger" || isCmdPkg(f) || f.Body == nil {
			continue
		}
		if len(f.SitesDeep(selUse(tables))) == 0 {
			continue
		}
		users++
		for _, wr := range aa.writesThrough(f, seed, 3) {
			writes++
			held := wr.fn.HeldAt(wr.node)[mu] == 2
			r.Check(held, wr.fn, k.key("shared table list written only under the write lock", w, wr.node), wr.node, "levelHandler.tables (or a slice sharing its backing array) is modified without the level's write lock: "+wr.how)
		}
		r.Check(true, f, "uses of levelHandler.tables examined in "+f.Name, nil, "")
	}
	r.Exists(users >= 6, w.F("badger.levelHandler.appendIterators"), "functions using levelHandler.tables", nil, "expected the level handler's readers and writers")
	// positive control: the analysis sees the owner's own in-place operations (sort in replaceTables / addTable append)
	r.Exists(writes >= 1, w.F("badger.levelHandler.replaceTables"), "in-place writes by owners are seen", nil, "the alias analysis found no write at all, not even the owners': it is not looking at the code")
}

// R05.4: single-key iterators.
func ruleR05_4(c *Check) {
	w := c.W
	r := c.Rule("R05.4", "E6", 5, "Txn.NewKeyIterator sets Prefix to the key, prefixIsKey and AllVersions; Iterator.Valid, when prefixIsKey is set, accepts an item only if its key equals the prefix (bytes.Equal), and falls back to HasPrefix only when it is not set; ValidForPrefix includes Valid",
		"with only a prefix test a key iterator runs on into every longer key that starts with its key")
	nk := w.F("badger.Txn.NewKeyIterator")
	pik := w.Field("badger.IteratorOptions.prefixIsKey")
	pfx := w.Field("badger.IteratorOptions.Prefix")
	av := w.Field("badger.IteratorOptions.AllVersions")
	isTrue := func(e ast.Expr) bool {
		tv := w.Info.Types[e]
		return tv.Value != nil && tv.Value.String() == "true"
	}
	var keyParam types.Object
	if nk.Decl.Type.Params != nil && len(nk.Decl.Type.Params.List) > 0 && len(nk.Decl.Type.Params.List[0].Names) > 0 {
		keyParam = w.Info.Defs[nk.Decl.Type.Params.List[0].Names[0]]
	}
	okP, okK, okA := false, false, false
	nk.walk(func(n ast.Node) bool {
		as, ok := n.(*ast.AssignStmt)
		if !ok || len(as.Lhs) != len(as.Rhs) {
			return true
		}
		for i, l := range as.Lhs {
			switch w.fieldOf(l) {
			case pfx:
				id, isId := unparen(as.Rhs[i]).(*ast.Ident)
				okP = isId && w.Use(id) == keyParam
			case pik:
				okK = isTrue(as.Rhs[i])
			case av:
				okA = isTrue(as.Rhs[i])
			}
		}
		return true
	})
	r.Check(okP, nk, "Prefix = key", nil, "NewKeyIterator does not set opt.Prefix to its key")
	r.Check(okK, nk, "prefixIsKey = true", nil, "NewKeyIterator does not set opt.prefixIsKey")
	r.Check(okA, nk, "AllVersions = true", nil, "NewKeyIterator does not set opt.AllVersions")
	r.ExitsNeed(nk, "NewIterator with the modified options", selCallName(w, "badger.Txn.NewIterator"), 0, exitAll)
	// Valid
	vf := w.F("badger.Iterator.Valid")
	itemKey := w.Field("badger.Item.key")
	eq, hp := w.Func("bytes.Equal"), w.Func("bytes.HasPrefix")
	sawEq := false
	for _, s := range vf.Sites(selReturn()) {
		rs := s.(*ast.ReturnStmt)
		if len(rs.Results) != 1 {
			continue
		}
		pk := 0 // +1: under prefixIsKey, -1: under !prefixIsKey
		for _, g := range w.Guards(vf, rs) {
			c := unparen(g.Cond)
			neg := false
			if u, ok := c.(*ast.UnaryExpr); ok && u.Op == token.NOT {
				c, neg = unparen(u.X), true
			}
			if w.fieldOf(w.from(c)) == pik {
				if g.Val != neg {
					pk = 1
				} else {
					pk = -1
				}
			}
		}
		res := w.from(rs.Results[0])
		call, isCall := unparen(res).(*ast.CallExpr)
		if !isCall {
			continue
		}
		args2 := func() bool {
			if len(call.Args) != 2 {
				return false
			}
			a, b := w.fieldOf(w.from(call.Args[0])), w.fieldOf(w.from(call.Args[1]))
			return (a == itemKey && b == pfx) || (a == pfx && b == itemKey)
		}
		switch w.Callee(call) {
		case types.Object(eq):
			r.Check(pk == 1 && args2(), vf, "equality with the key under prefixIsKey", rs, "bytes.Equal result is not the item key against opt.Prefix under prefixIsKey")
			sawEq = sawEq || (pk == 1 && args2())
		case types.Object(hp):
			r.Check(pk == -1, vf, "prefix test only when prefixIsKey is not set", rs, "Iterator.Valid accepts any key with the prefix although prefixIsKey may be set")
		}
	}
	r.Check(sawEq, vf, "Valid compares for equality when prefixIsKey is set", nil, "Iterator.Valid has no bytes.Equal(item.key, opt.Prefix) branch for key iterators")
	vp := w.F("badger.Iterator.ValidForPrefix")
	r.Exists(len(vp.Sites(selCallName(w, "badger.Iterator.Valid"))) == 1, vp, "ValidForPrefix includes Valid", nil, "ValidForPrefix does not call Valid")
}
