package main

// C03 (commit protocol) and C04 (own pending writes).

import (
	"go/ast"
	"go/token"
	"go/types"
	"strconv"
	"strings"
)

// NoPathAvoiding: from no occurrence of `from` is an occurrence of `to` reachable
// without passing an occurrence of `via`.
func (r *RuleInfo) NoPathAvoiding(f *Fn, what string, from, to, via Sel) int {
	g := f.G()
	tos := f.Occs(to, 1)
	vias := f.Occs(via, 1)
	avoid := map[int]bool{}
	for _, v := range vias {
		if v.V >= 0 && !v.Async && !v.Deferred {
			avoid[v.V] = true
		}
	}
	goal := map[int]bool{}
	for _, t := range tos {
		if t.V >= 0 {
			goal[t.V] = true
		}
	}
	var k keyer
	n := 0
	for _, a := range f.Occs(from, 1) {
		if a.V < 0 {
			continue
		}
		n++
		p := g.pathAvoiding([]int{a.V}, func(v int) bool { return goal[v] }, avoid, false)
		res := OrderResult{OK: p == nil}
		if p != nil {
			res.Path = g.describePath(append([]int{a.V}, p...))
			res.Why = "path bypasses " + via.Key
		}
		r.Order(res, f, k.key(what, f.W, a.Node), a.Node, what)
	}
	return n
}

func ruleR03_1(c *Check) {
	w := c.W
	r := c.Rule("R03.1", "E2", 1, "Txn.commitAndSend: oracle.newCommitTs and DB.sendToWriteCh happen in one hold of oracle.writeChLock",
		"otherwise two commits can reach the write channel in the opposite order of their timestamps; the later one is applied and acknowledged first and a reader that starts in between sees a gap that is filled afterwards (non-prefix visibility, non-monotone WAL order)")
	f := w.F("badger.Txn.commitAndSend")
	lock := w.Field("badger.oracle.writeChLock")
	nct := f.Sites(selCall(w.Func("badger.oracle.newCommitTs")))
	snd := f.Sites(selCall(w.Func("badger.DB.sendToWriteCh")))
	r.Exists(len(nct) == 1 && len(snd) == 1, f, "one newCommitTs and one sendToWriteCh", nil, "expected exactly one call of each")
	for _, a := range nct {
		for _, b := range snd {
			r.SameCS(f, "newCommitTs and sendToWriteCh under writeChLock", a, b, lock, 2)
		}
	}
}

func ruleR03_2(c *Check) {
	w := c.W
	r := c.Rule("R03.2", "E2", 3, "every store to oracle.nextTxnTs and every txnMark.Begin holds the oracle mutex",
		"an unlocked allocation can hand the same commit timestamp to two transactions or let a reader's timestamp race the allocation")
	mu := oracleMu(w)
	next := w.Field("badger.oracle.nextTxnTs")
	exc := map[string]string{
		"badger.Open":               "single-threaded: no committer goroutine is started before the oracle is initialised (R11.1 checks the order)",
		"badger.DB.Load":            "documented as exclusive: no concurrent writers during Load",
		"badger.StreamWriter.Flush": "fresh oracle not yet shared; writes are blocked by prepareToDrop until Flush returns",
	}
	for k, v := range exc {
		r.Except(k, v)
	}
	var k keyer
	for _, o := range allStores(w, next) {
		excepted := false
		for _, root := range w.rootsVia(o.SiteFn) {
			if _, ok := exc[root]; ok {
				excepted = true
			}
		}
		if excepted {
			continue
		}
		// outside initialisation the counter only moves forward: a timestamp handed out once is never
		// handed out again (a "returned" timestamp would be reused by the next commit while the old
		// one is already marked done: readers at that timestamp do not wait for the new commit)
		fwd := false
		switch st := o.Node.(type) {
		case *ast.IncDecStmt:
			fwd = st.Tok == token.INC
		case *ast.AssignStmt:
			if st.Tok == token.ADD_ASSIGN && len(st.Rhs) == 1 {
				v, isC := w.constInt(st.Rhs[0])
				fwd = isC && v > 0
			} else if st.Tok == token.ASSIGN && len(st.Rhs) == 1 {
				a, b, okl := w.linear(o.SiteFn, st.Rhs[0], w.isField(next), 0)
				fwd = okl && a == 1 && b > 0
			}
		}
		r.Check(fwd, o.SiteFn, k.key("nextTxnTs only moves forward", w, o.Node), o.Node, "oracle.nextTxnTs is assigned something other than an increment: a commit timestamp can be handed out twice")
		var trail []string
		ok := o.SiteFn.HeldDeep(o.Node, mu, 2, 2, &trail)
		r.Check(ok, o.SiteFn, k.key("nextTxnTs stored under oracle mutex", w, o.Node), o.Node, joinTrail(trail))
	}
	begin := w.Func("y.WaterMark.Begin")
	for _, o := range allSites(w, "badger", selCallOn(begin, w.Field("badger.oracle.txnMark"))) {
		var trail []string
		ok := o.SiteFn.HeldDeep(o.Node, mu, 2, 2, &trail)
		r.Check(ok, o.SiteFn, k.key("txnMark.Begin under oracle mutex", w, o.Node), o.Node, joinTrail(trail))
	}
	// Begin is called with the timestamp just allocated, in the same critical section as the increment
	f := w.F("badger.oracle.newCommitTs")
	for _, b := range f.Sites(selCallOn(begin, w.Field("badger.oracle.txnMark"))) {
		for _, st := range f.Sites(selStore(next)) {
			r.SameCS(f, "nextTxnTs increment and txnMark.Begin in one critical section", st, b, mu, 2)
		}
		arg := b.(*ast.CallExpr).Args[0]
		r.Check(w.someDefMentions(f, arg, next), f, "txnMark.Begin argument is the allocated timestamp", b, "argument is "+short(w, arg))
	}
}

func ruleR03_3(c *Check) {
	w := c.W
	r := c.Rule("R03.3", "E1", 5, "after a successful newCommitTs every exit of commitAndSend either calls doneCommit or returns the completion closure; inside the closure req.Wait() precedes doneCommit; Commit and CommitWith run the closure on every path that obtained it",
		"a commit timestamp that is begun but never done stalls every later reader forever (WaitForMark); doneCommit before the write is applied lets a reader at that timestamp miss the commit")
	f := w.F("badger.Txn.commitAndSend")
	doneCommit := w.Func("badger.oracle.doneCommit")
	ret := f.LitVar("ret")
	wait := w.Func("badger.request.Wait")
	// inside the closure: Wait before doneCommit, doneCommit on every exit
	r.DomAll(ret, "doneCommit after req.Wait", selCall(doneCommit), 0, selCall(wait), 0)
	r.ExitsNeed(ret, "doneCommit", selCall(doneCommit), 0, exitAll)
	// in commitAndSend: after sendToWriteCh, every exit passes doneCommit or returns the closure
	retVar := ret.Bound
	returnsClosure := selPred("return ret", func(w *World, fn *Fn, n ast.Node) bool {
		rs, ok := n.(*ast.ReturnStmt)
		if !ok || len(rs.Results) == 0 {
			return false
		}
		if lit, isLit := unparen(rs.Results[0]).(*ast.FuncLit); isLit {
			return lit == ret.Lit
		}
		id, ok := unparen(rs.Results[0]).(*ast.Ident)
		return ok && retVar != nil && w.Use(id) == types.Object(retVar)
	})
	conflictRet := selPred("conflict return", func(w *World, fn *Fn, n ast.Node) bool {
		rs, ok := n.(*ast.ReturnStmt)
		if !ok {
			return false
		}
		for _, e := range rs.Results {
			if id, ok := unparen(e).(*ast.Ident); ok && w.Use(id) == w.Obj("badger.ErrConflict") {
				return true
			}
		}
		return false
	})
	r.FollowAll(f, "commit ts released or handed to the closure", selCall(w.Func("badger.oracle.newCommitTs")), 0,
		selOr(selCall(doneCommit), returnsClosure, conflictRet), 0, exitAll)
	// Commit / CommitWith use the closure
	for _, name := range []string{"badger.Txn.Commit", "badger.Txn.CommitWith"} {
		g := w.F(name)
		cas := g.Sites(selCall(w.Func("badger.Txn.commitAndSend")))
		r.Exists(len(cas) == 1, g, "calls commitAndSend once", nil, "expected one call")
		for _, call := range cas {
			as, ok := w.parentOf(call).(*ast.AssignStmt)
			if !ok || len(as.Lhs) != 2 {
				r.Check(false, g, "closure captured", call, "result of commitAndSend not assigned")
				continue
			}
			id, _ := as.Lhs[0].(*ast.Ident)
			cb, _ := w.Use(id).(*types.Var)
			uses := selPred("uses closure", func(w *World, fn *Fn, n ast.Node) bool {
				switch x := n.(type) {
				case *ast.CallExpr: // txnCb()
					if fid, ok := unparen(x.Fun).(*ast.Ident); ok && w.Use(fid) == types.Object(cb) {
						return true
					}
				case *ast.KeyValueExpr: // &txnCb{commit: commitCb}
					if vid, ok := unparen(x.Value).(*ast.Ident); ok && w.Use(vid) == types.Object(cb) {
						return true
					}
				}
				return false
			})
			r.FollowAll(g, "completion closure is run", selNode(call), 0, uses, 0, exitSuccess, excuseErrOf(w, call.(*ast.CallExpr)))
		}
	}
	// runTxnCallback invokes cb.commit when set
	rt := w.F("badger.runTxnCallback")
	commitFld := w.Field("badger.txnCb.commit")
	called := false
	rt.walk(func(n ast.Node) bool {
		if call, ok := n.(*ast.CallExpr); ok && w.fieldOf(call.Fun) == commitFld {
			called = true
		}
		return true
	})
	r.Check(called, rt, "runTxnCallback runs cb.commit", nil, "cb.commit is never called")
}

func ruleR03_4(c *Check) {
	w := c.W
	r := c.Rule("R03.4", "E7+E1", 4, "DB.doWrites: the pending token channel has capacity 1; between any two starts of the writeRequests closure a token is sent; the closure takes the token back only after DB.writeRequests returned",
		"two concurrent writeRequests interleave value-log/WAL appends and memtable application: commit order, transaction framing and subscriber order all break")
	f := w.F("badger.DB.doWrites")
	wr := f.LitVar("writeRequests")
	// capacity of the channel the closure receives from
	var ch types.Object
	wr.walk(func(n ast.Node) bool {
		if u, ok := n.(*ast.UnaryExpr); ok && u.Op == token.ARROW {
			ch = chanObj(w, u.X)
		}
		return true
	})
	if ch == nil {
		r.Check(false, wr, "closure releases a token", nil, "the writeRequests closure receives from no channel")
		return
	}
	v, _ := ch.(*types.Var)
	capOK := false
	var capAt ast.Node
	if v != nil {
		for _, d := range w.DefsOf(f, v) {
			if mk, ok := unparen(d).(*ast.CallExpr); ok && len(mk.Args) == 2 {
				if id, ok := unparen(mk.Fun).(*ast.Ident); ok && id.Name == "make" {
					capAt = mk
					if n, ok := w.constInt(mk.Args[1]); ok && n == 1 {
						capOK = true
					}
				}
			}
		}
	}
	r.Check(capOK, f, "token channel capacity is 1", capAt, "pending channel is not make(chan …, 1)")
	callWR := selCallFn(wr)
	send := selSend(ch)
	n := r.DomAll(f, "writeRequests start", callWR, 0, send, 0)
	r.Exists(n >= 2, f, "both starts of writeRequests seen", nil, "expected the asynchronous and the final synchronous start")
	r.NoPathAvoiding(f, "a second writeRequests starts without a new token", callWR, callWR, send)
	// inside the closure: receive after db.writeRequests
	r.DomAll(wr, "token released", selRecv(ch), 0, selCall(w.Func("badger.DB.writeRequests")), 0)
	// nobody else calls DB.writeRequests concurrently: callers are doWrites' closure and the drain in prepareToDrop (writes blocked)
	for _, cs := range w.CG().CallSitesOf(w.F("badger.DB.writeRequests")) {
		ok := cs.Caller == wr || cs.Caller.Root().Name == "badger.DB.prepareToDrop"
		r.Check(ok, cs.Caller, "caller of DB.writeRequests", cs.Node, "DB.writeRequests also called from "+cs.Caller.Name)
	}
}

func ruleR03_5(c *Check) {
	w := c.W
	r := c.Rule("R03.5", "E1+E6", 3, "commitAndSend framing: under keepTogether every queued entry gets bitTxn; the bitFinTxn entry is appended after all entries, keyed KeyWithTs(txnKey, commitTs) with value FormatUint(commitTs)",
		"replay applies a transaction only when it sees its end marker with the matching timestamp; a missing bit or marker makes recovery apply part of a transaction or drop it")
	f := w.F("badger.Txn.commitAndSend")
	pe := f.LitVar("processEntry")
	bitTxn := w.Obj("badger.bitTxn")
	bitFin := w.Obj("badger.bitFinTxn")
	meta := w.Field("badger.Entry.meta")
	// processEntry ors bitTxn into e.meta under keepTogether
	found := false
	pe.walk(func(n ast.Node) bool {
		as, ok := n.(*ast.AssignStmt)
		if !ok || len(as.Lhs) != 1 || w.fieldOf(as.Lhs[0]) != meta {
			return true
		}
		if as.Tok == token.OR_ASSIGN && w.mentions(as.Rhs[0], bitTxn) {
			found = true
			gs := w.Guards(pe, as)
			okg := len(gs) == 1 && gs[0].Val
			if okg {
				// the framing flag: a boolean local of commitAndSend (the same one that guards the end marker)
				id, isID := gs[0].Cond.(*ast.Ident)
				okg = false
				if isID {
					if v, isV := w.Use(id).(*types.Var); isV && !v.IsField() && types.Identical(v.Type(), types.Typ[types.Bool]) {
						okg = true
					}
				}
			}
			r.Check(okg, pe, "bitTxn set exactly under keepTogether", as, "bitTxn assignment guarded by other conditions")
		}
		return true
	})
	r.Exists(found, pe, "bitTxn set", nil, "processEntry does not set bitTxn")
	// every entry appended to `entries` goes through processEntry or is the fin marker
	var finLit *ast.CompositeLit
	f.walk(func(n ast.Node) bool {
		if cl, ok := n.(*ast.CompositeLit); ok && isNamedType(w.TypeOf(cl), "Entry") {
			for _, el := range cl.Elts {
				if kv, ok := el.(*ast.KeyValueExpr); ok && w.mentions(kv.Value, bitFin) {
					finLit = cl
				}
			}
		}
		return true
	})
	if finLit == nil {
		r.Check(false, f, "fin marker built", nil, "no Entry literal with bitFinTxn")
		return
	}
	kwt := w.Func("y.KeyWithTs")
	txnKey := w.Obj("badger.txnKey")
	var commitTs types.Object
	for _, s := range f.Sites(selCall(w.Func("badger.oracle.newCommitTs"))) {
		if as, ok := w.parentOf(s).(*ast.AssignStmt); ok {
			if id, ok := as.Lhs[0].(*ast.Ident); ok {
				commitTs = w.Use(id)
			}
		}
	}
	for _, el := range finLit.Elts {
		kv := el.(*ast.KeyValueExpr)
		name := kv.Key.(*ast.Ident).Name
		switch name {
		case "Key":
			call, ok := unparen(kv.Value).(*ast.CallExpr)
			okv := ok && w.Callee(call) == kwt && len(call.Args) == 2 && w.mentions(call.Args[0], txnKey) && commitTs != nil && w.mentions(call.Args[1], commitTs)
			r.Check(okv, f, "fin marker key is KeyWithTs(txnKey, commitTs)", kv, "key is "+short(w, kv.Value))
		case "Value":
			okv := commitTs != nil && w.mentions(kv.Value, commitTs) && w.mentions(kv.Value, w.Obj("strconv.FormatUint"))
			r.Check(okv, f, "fin marker value is the decimal commitTs", kv, "value is "+short(w, kv.Value))
		}
	}
	// the marker is appended after every processEntry call, under keepTogether
	finAppend := selPred("append fin", func(w *World, fn *Fn, n ast.Node) bool {
		call, ok := n.(*ast.CallExpr)
		if !ok || len(call.Args) != 2 {
			return false
		}
		id, ok := unparen(call.Fun).(*ast.Ident)
		if !ok || id.Name != "append" {
			return false
		}
		o := w.Origin(fn, call.Args[1])
		if u, ok := o.(*ast.UnaryExpr); ok {
			o = unparen(u.X)
		}
		return o == ast.Expr(finLit)
	})
	fa := f.Sites(finAppend)
	r.Exists(len(fa) == 1, f, "fin marker appended once", nil, "expected one append of the fin marker")
	r.NeverAfterAll(f, "no entry queued after the fin marker", finAppend, 0, selCallFn(pe), 0)
	r.NeverAfterAll(f, "no entry queued after the request was sent", selCall(w.Func("badger.DB.sendToWriteCh")), 0, selCallFn(pe), 0)
}

func ruleR03_6(c *Check) {
	w := c.W
	r := c.Rule("R03.6", "E1", 4, "DB.writeRequests: the success acknowledgement done(nil) is dominated by vlog.write and by writeToLSM; every error return is preceded by done(err); vlog.write precedes every writeToLSM (R08.5); request.Wait returns the error stored by done",
		"acknowledging before the write is applied (or not at all) breaks durability of acknowledged commits and hangs committers")
	f := w.F("badger.DB.writeRequests")
	done := f.LitVar("done")
	callDone := selCallFn(done)
	vw := selCall(w.Func("badger.valueLog.write"))
	lsm := selCall(w.Func("badger.DB.writeToLSM"))
	okAck := selPred("done(nil)", func(w *World, fn *Fn, n ast.Node) bool {
		call, ok := n.(*ast.CallExpr)
		return ok && w.calleeFn(fn, call) == done && len(call.Args) == 1 && isNil(call.Args[0])
	})
	n := r.DomAll(f, "done(nil)", okAck, 0, vw, 0)
	r.Exists(n == 1, f, "one success acknowledgement", nil, "expected exactly one done(nil)")
	// after the last writeToLSM… : done(nil) must not be reachable before the loop ran: no path from done(nil) to writeToLSM
	r.NeverAfterAll(f, "no memtable write after the acknowledgement", okAck, 0, lsm, 0)
	r.NeverAfterAll(f, "no value-log write after the acknowledgement", okAck, 0, vw, 0)
	r.DomAll(f, "writeToLSM", lsm, 0, vw, 0)
	// every return after vlog.write is preceded by a done(...) call
	retAfter := selPred("return", func(w *World, fn *Fn, n ast.Node) bool {
		rs, ok := n.(*ast.ReturnStmt)
		if !ok {
			return false
		}
		// the early `len(reqs)==0` return has nothing to acknowledge
		for _, g := range w.Guards(fn, rs) {
			if eqOf(g, true, func(e ast.Expr) bool { return true }, w.isConst(0)) {
				return false
			}
		}
		return true
	})
	r.DomAll(f, "acknowledge before return", retAfter, 0, callDone, 0)
	// done stores the error and releases the waiter for every request
	errFld := w.Field("badger.request.Err")
	r.Exists(len(done.Sites(selStore(errFld))) >= 1, done, "done stores request.Err", nil, "done does not set r.Err")
	r.DomAll(done, "Wg.Done after Err stored", selPred("Wg.Done", func(w *World, fn *Fn, n ast.Node) bool {
		call, ok := n.(*ast.CallExpr)
		if !ok {
			return false
		}
		s, ok := unparen(call.Fun).(*ast.SelectorExpr)
		return ok && s.Sel.Name == "Done" && w.fieldOf(s.X) == w.Field("badger.request.Wg")
	}), 0, selStore(errFld), 0)
}

func ruleR03_7(c *Check) {
	w := c.W
	r := c.Rule("R03.7", "E1", 1, "DB.sendToWriteCh tests blockWrites (and returns ErrBlockedWrites) before the send on writeCh; the size check also precedes it",
		"a write enqueued while writes are blocked lands after DropAll/DropPrefix/Close drained the channel: lost or applied to the wrong generation")
	f := w.F("badger.DB.sendToWriteCh")
	bw := w.Field("badger.DB.blockWrites")
	wc := w.Field("badger.DB.writeCh")
	n := r.DomAll(f, "send on writeCh", selSend(wc), 0, selUse(bw), 0)
	r.Exists(n == 1, f, "one send on writeCh", nil, "expected one send")
	// the blockWrites test leads to an error return
	errBlocked := w.Obj("badger.ErrBlockedWrites")
	okv := false
	f.walk(func(n ast.Node) bool {
		rs, ok := n.(*ast.ReturnStmt)
		if !ok {
			return true
		}
		for _, e := range rs.Results {
			if id, ok := unparen(e).(*ast.Ident); ok && w.Use(id) == errBlocked {
				for _, g := range w.Guards(f, rs) {
					if w.mentions(g.Cond, bw) && g.Val {
						okv = true
					}
				}
			}
		}
		return true
	})
	r.Check(okv, f, "blocked writes are refused", nil, "no `return ErrBlockedWrites` guarded by the blockWrites test")
	// all sends on writeCh in the package are in sendToWriteCh
	for _, o := range allSites(w, "badger", selSend(wc)) {
		r.Check(o.SiteFn == f, o.SiteFn, "only sendToWriteCh enqueues", o.Node, "send on writeCh outside sendToWriteCh")
	}
}

func propC03(c *Check) {
	ruleR03_1(c)
	ruleR03_2(c)
	ruleR03_3(c)
	ruleR03_4(c)
	ruleR03_5(c)
	ruleR03_6(c)
	ruleR03_7(c)
	// readers are fenced from half-applied commits by the wait in oracle.readTs
	ruleR01_1(c)
	// a request (transaction) is written to one WAL
	ruleR08_9(c)
}

// ---- C04 ----

func ruleR04_1(c *Check) {
	w := c.W
	r := c.Rule("R04.1", "E1", 3, "Txn.Get consults pendingWrites before addReadKey and db.get (update transactions), and applies isDeletedOrExpired to the pending entry before serving it",
		"going to the DB first returns the committed value instead of the transaction's own write; serving a pending delete as a value resurrects it inside the transaction")
	f := w.F("badger.Txn.Get")
	pw := w.Field("badger.Txn.pendingWrites")
	upd := w.Field("badger.Txn.update")
	lookups := selUse(pw)
	r.DomAll(f, "db.get", selCall(w.Func("badger.DB.get")), 0, lookups, 0, excuseField(w, upd, false))
	r.DomAll(f, "addReadKey", selCall(w.Func("badger.Txn.addReadKey")), 0, lookups, 0)
	// the return that serves the pending entry is preceded by the delete/expiry test on that entry
	ide := w.Func("badger.isDeletedOrExpired")
	var hit *ast.IfStmt
	f.walk(func(n ast.Node) bool {
		if is, ok := n.(*ast.IfStmt); ok && is.Init != nil && w.mentions(is.Init, pw) {
			hit = is
		}
		return true
	})
	if hit == nil {
		r.Check(false, f, "pending entry branch", nil, "no `if e, has := txn.pendingWrites[...]` branch")
		return
	}
	var served []ast.Node
	var tests []ast.Node
	ast.Inspect(hit.Body, func(n ast.Node) bool {
		switch x := n.(type) {
		case *ast.ReturnStmt:
			if len(x.Results) == 2 && isNil(x.Results[1]) {
				served = append(served, x)
			}
		case *ast.CallExpr:
			if w.Callee(x) == ide {
				tests = append(tests, x)
			}
		}
		return true
	})
	r.Exists(len(served) == 1, f, "pending entry served", hit, "pending branch has no success return")
	for _, s := range served {
		res := f.Dominated(Occ{V: f.G().VertexOf(s), Node: s}, occsOf(f, tests), excuseField(w, upd, false))
		r.Order(res, f, "pending entry tested for delete/expiry before it is served", s, "pending entry served without isDeletedOrExpired")
	}
	// the test's not-found result
	for _, t := range tests {
		call := t.(*ast.CallExpr)
		okArgs := len(call.Args) == 2 && w.fieldOf(call.Args[0]) == w.Field("badger.Entry.meta") && w.fieldOf(call.Args[1]) == w.Field("badger.Entry.ExpiresAt")
		r.Check(okArgs, f, "delete/expiry test uses the pending entry's meta and ExpiresAt", t, "arguments are "+short(w, t))
	}
}

func occsOf(f *Fn, nodes []ast.Node) []Occ {
	var out []Occ
	for _, n := range nodes {
		out = append(out, Occ{V: f.G().VertexOf(n), Node: n, Site: n, SiteFn: f})
	}
	return out
}

func ruleR04_2(c *Check) {
	w := c.W
	r := c.Rule("R04.2", "E1", 4, "Txn.NewIterator appends the pending-writes iterator to the merge inputs before the memtable iterators and before lc.appendIterators (earlier input wins ties, R21.1); pendingWritesIterator.Key and Value report readTs as version",
		"if stored data precedes the overlay the iterator returns the committed version of a key the transaction has overwritten or deleted")
	f := w.F("badger.Txn.NewIterator")
	npw := w.Func("badger.Txn.newPendingWritesIterator")
	appendArgFrom := func(pred func(e ast.Expr) bool) Sel {
		return selPred("append-iters", func(w *World, fn *Fn, n ast.Node) bool {
			call, ok := n.(*ast.CallExpr)
			if !ok || len(call.Args) != 2 {
				return false
			}
			id, ok := unparen(call.Fun).(*ast.Ident)
			if !ok || id.Name != "append" {
				return false
			}
			return pred(call.Args[1])
		})
	}
	pend := appendArgFrom(func(e ast.Expr) bool { return w.isCallTo(w.Origin(f, e), npw) })
	mem := appendArgFrom(func(e ast.Expr) bool {
		call, ok := unparen(e).(*ast.CallExpr)
		return ok && w.Callee(call) == w.Func("skl.Skiplist.NewUniIterator")
	})
	lvl := selCall(w.Func("badger.levelsController.appendIterators"))
	r.Exists(len(f.Sites(pend)) >= 1, f, "pending iterator appended", nil, "NewIterator does not append the pending-writes iterator")
	r.NeverAfterAll(f, "pending iterator not appended after a memtable iterator", mem, 0, pend, 0)
	r.NeverAfterAll(f, "pending iterator not appended after level iterators", lvl, 0, pend, 0)
	r.NeverAfterAll(f, "memtable iterators not appended after level iterators", lvl, 0, mem, 0)
	// all iterator sources are passed to NewMergeIterator as one slice built in that order
	nmi := f.Sites(selCall(w.Func("table.NewMergeIterator")))
	r.Exists(len(nmi) == 1, f, "one merge iterator", nil, "expected one NewMergeIterator call")
	for _, s := range nmi {
		res := f.Dominated(Occ{V: f.G().VertexOf(s), Node: s}, f.Occs(lvl, 0))
		r.Order(res, f, "merge iterator built after all inputs", s, "NewMergeIterator before appendIterators")
	}
	// version reported by the overlay
	rd := w.Field("badger.pendingWritesIterator.readTs")
	k := w.F("badger.pendingWritesIterator.Key")
	for _, s := range k.Sites(selCall(w.Func("y.KeyWithTs"))) {
		call := s.(*ast.CallExpr)
		r.Check(w.fieldOf(call.Args[1]) == rd, k, "overlay key carries readTs", s, "version argument is "+short(w, call.Args[1]))
	}
	// and pendingWritesIterator.readTs comes from txn.readTs
	np := w.F("badger.Txn.newPendingWritesIterator")
	np.walk(func(n ast.Node) bool {
		if kv, ok := n.(*ast.KeyValueExpr); ok {
			if id, ok := kv.Key.(*ast.Ident); ok && w.Use(id) == types.Object(rd) {
				r.Check(w.fieldOf(kv.Value) == w.Field("badger.Txn.readTs"), np, "overlay readTs from Txn.readTs", kv, "initialised from "+short(w, kv.Value))
			}
		}
		return true
	})
}

func ruleR04_3(c *Check) {
	w := c.W
	r := c.Rule("R04.3", "E3", 4, "Txn.pendingWrites and Txn.duplicateWrites are touched only through the receiver of a Txn method (the owning transaction itself) or on the transaction being constructed in newTransaction; entries are handed to the write path (sendToWriteCh) only by commitAndSend",
		"isolation: nothing but the owning transaction sees uncommitted writes, and nothing but Commit publishes them")
	pw, dw := w.Field("badger.Txn.pendingWrites"), w.Field("badger.Txn.duplicateWrites")
	txnT := w.Obj("badger.Txn")
	var k keyer
	for _, o := range allSites(w, "badger", selUse(pw, dw)) {
		root := o.SiteFn.Root()
		base := unparen(o.Node.(*ast.SelectorExpr).X)
		id, isId := base.(*ast.Ident)
		ok := false
		if isId {
			v, _ := w.Use(id).(*types.Var)
			switch {
			case v == nil:
			case root.Decl != nil && root.Decl.Recv != nil && len(root.Decl.Recv.List) == 1 && len(root.Decl.Recv.List[0].Names) == 1 &&
				w.Info.Defs[root.Decl.Recv.List[0].Names[0]] == types.Object(v) && namedOf(v.Type()) == txnT:
				ok = true // the method's own receiver
			case root.Name == "badger.DB.newTransaction":
				// the transaction under construction: a local defined from a composite literal
				for _, d := range w.DefsOf(root, v) {
					if ue, isU := unparen(d).(*ast.UnaryExpr); isU {
						if _, isLit := ue.X.(*ast.CompositeLit); isLit {
							ok = true
						}
					}
				}
			}
		}
		r.Check(ok, o.SiteFn, k.key("pending writes touched through the owner only, in "+root.Name, w, o.Node), o.Node, "Txn."+o.Node.(*ast.SelectorExpr).Sel.Name+" is reached through `"+types.ExprString(base)+"`, which is not the owning transaction's receiver")
	}
	// only commitAndSend publishes: the callers of sendToWriteCh that belong to Txn
	for _, o := range allSites(w, "badger", selCall(w.Func("badger.DB.sendToWriteCh"))) {
		root := o.SiteFn.Root()
		if root.Decl != nil && root.Decl.Recv != nil && strings.HasPrefix(root.Name, "badger.Txn.") {
			r.Check(root.Name == "badger.Txn.commitAndSend", o.SiteFn, "transaction entries published by commitAndSend only", o.Node, "Txn method "+root.Name+" sends entries to the write channel")
		}
	}
}

func namedOf(t types.Type) types.Object {
	if p, ok := t.(*types.Pointer); ok {
		t = p.Elem()
	}
	if n, ok := t.(*types.Named); ok {
		return n.Obj()
	}
	return nil
}

func ruleR04_4(c *Check) {
	w := c.W
	r := c.Rule("R04.4", "E5", 4, "the overlay iterator is ordered like the iterators it is merged with: newPendingWritesIterator sorts the pending entries ascending by key, descending when reversed; Seek positions at the first entry >= the target going forward and <= going backward, on the user key (ParseKey) of the internal target; Value reports the pending entry's value, meta, user meta and expiry",
		"an overlay sorted the other way (or sought with the opposite comparison) makes the merge iterator skip or misplace the transaction's own writes")
	np := w.F("badger.Txn.newPendingWritesIterator")
	// the sort.Slice less function: cmp < 0 forward, cmp > 0 reversed
	okF, okR := false, false
	np.walkDeep(func(own *Fn, n ast.Node) bool {
		rs, ok := n.(*ast.ReturnStmt)
		if !ok || len(rs.Results) != 1 || own == np {
			return true
		}
		// oriented as Compare(entries[<first parameter of less>].Key, …) op 0
		var first types.Object
		if own.Lit != nil && len(own.Lit.Type.Params.List) > 0 && len(own.Lit.Type.Params.List[0].Names) > 0 {
			first = w.Info.Defs[own.Lit.Type.Params.List[0].Names[0]]
		}
		op, _, ok := w.threeWay(rs.Results[0], true, func(e ast.Expr) bool { return first != nil && w.mentions(e, first) }, w.Func("bytes.Compare"), w.Func("y.CompareKeys"))
		if !ok {
			return true
		}
		rev := -1
		for _, g := range w.Guards(own, rs) {
			if id, ok := unparen(g.Cond).(*ast.Ident); ok {
				if pv, ok := w.Use(id).(*types.Var); ok && isParam(np, pv) {
					if g.Val {
						rev = 1
					} else {
						rev = 0
					}
				}
			}
		}
		if rev <= 0 && op == token.LSS {
			okF = true // ascending when not reversed (or always: then the reversal must be explicit, below)
		}
		if rev == 1 && op == token.GTR {
			okR = true
		}
		return true
	})
	if !okR {
		// alternative: sorted ascending, then mirrored under `reversed` (x[len-1-i] = e, or a Reverse call)
		np.walkDeep(func(own *Fn, n ast.Node) bool {
			underRev := false
			for _, g := range w.Guards(own, n) {
				if id, ok := unparen(g.Cond).(*ast.Ident); ok && g.Val {
					if pv, ok := w.Use(id).(*types.Var); ok && isParam(np, pv) {
						underRev = true
					}
				}
			}
			if !underRev {
				return true
			}
			switch x := n.(type) {
			case *ast.AssignStmt:
				for _, l := range x.Lhs {
					if ix, ok := unparen(l).(*ast.IndexExpr); ok {
						// index of the form <something> - i with i a variable: a mirrored position
						if be, ok := unparen(ix.Index).(*ast.BinaryExpr); ok && be.Op == token.SUB {
							if id, ok := unparen(be.Y).(*ast.Ident); ok {
								if _, isVar := w.Use(id).(*types.Var); isVar {
									okR = true
								}
							}
						}
					}
				}
			case *ast.CallExpr:
				if fn, ok := w.Callee(x).(*types.Func); ok && fn.Name() == "Reverse" {
					okR = true
				}
			}
			return true
		})
	}
	r.Check(okF, np, "pending entries ascending when iterating forward", nil, "forward order of the overlay is not `cmp < 0`")
	r.Check(okR, np, "pending entries descending when iterating in reverse", nil, "reverse order of the overlay is not `cmp > 0`")
	sk := w.F("badger.pendingWritesIterator.Seek")
	r.Check(len(sk.Sites(selCallName(w, "y.ParseKey"))) == 1, sk, "overlay seeks on the user key", nil, "pendingWritesIterator.Seek no longer strips the version from its target")
	okSF, okSR := false, false
	revFld := w.Field("badger.pendingWritesIterator.reversed")
	keyFld := w.Field("badger.Entry.Key")
	sk.walkDeep(func(own *Fn, n ast.Node) bool {
		rs, ok := n.(*ast.ReturnStmt)
		if !ok || len(rs.Results) != 1 || own == sk {
			return true
		}
		// oriented as Compare(entries[idx].Key, target) op 0
		op, _, ok := w.threeWay(rs.Results[0], true, func(e ast.Expr) bool { return w.fieldOf(w.from(e)) == keyFld }, w.Func("bytes.Compare"), w.Func("y.CompareKeys"))
		if !ok {
			return true
		}
		rev := -1
		for _, g := range w.Guards(own, rs) {
			if w.fieldOf(unparen(g.Cond)) == revFld {
				if g.Val {
					rev = 1
				} else {
					rev = 0
				}
			}
		}
		if rev == 0 && op == token.GEQ {
			okSF = true
		}
		if rev == 1 && op == token.LEQ {
			okSR = true
		}
		return true
	})
	r.Check(okSF, sk, "forward seek lands on the first entry >= target", nil, "forward seek predicate is not `cmp >= 0`")
	r.Check(okSR, sk, "reverse seek lands on the first entry <= target", nil, "reverse seek predicate is not `cmp <= 0`")
	// Value copies the pending entry's fields
	vf := w.F("badger.pendingWritesIterator.Value")
	want := map[string]*types.Var{"Value": w.Field("badger.Entry.Value"), "Meta": w.Field("badger.Entry.meta"), "UserMeta": w.Field("badger.Entry.UserMeta"), "ExpiresAt": w.Field("badger.Entry.ExpiresAt")}
	got := map[string]bool{}
	vf.walk(func(n ast.Node) bool {
		if kv, ok := n.(*ast.KeyValueExpr); ok {
			if id, ok := kv.Key.(*ast.Ident); ok {
				if fld, ok := want[id.Name]; ok && w.fieldOf(kv.Value) == fld {
					got[id.Name] = true
				}
			}
		}
		return true
	})
	for name := range want {
		r.Check(got[name], vf, "overlay value carries the pending entry's "+name, nil, "pendingWritesIterator.Value does not copy "+name)
	}
}

func ruleR04_5(c *Check) {
	w := c.W
	r := c.Rule("R04.5", "E3", 2, "a transaction's pending writes live in Txn.pendingWrites and Txn.duplicateWrites only: any other Txn field that can hold entries (a cache derived from them) is written by Txn.modify on the path that stores the new entry, so that it cannot outlive an overwrite or delete of a pending key; the overlay iterator is built from pendingWrites itself",
		"an overlay built from a copy that modify does not refresh shows the old value of a key rewritten in the transaction, keeps showing a key it deleted, or hides a re-created one")
	txnT := w.Obj("badger.Txn").(*types.TypeName)
	entryT := w.Obj("badger.Entry")
	st := txnT.Type().Underlying().(*types.Struct)
	pw, dw := w.Field("badger.Txn.pendingWrites"), w.Field("badger.Txn.duplicateWrites")
	holdsEntries := func(t types.Type) bool {
		found := false
		var visit func(t types.Type, d int)
		visit = func(t types.Type, d int) {
			if d > 4 || found {
				return
			}
			switch x := t.(type) {
			case *types.Pointer:
				visit(x.Elem(), d+1)
			case *types.Slice:
				visit(x.Elem(), d+1)
			case *types.Array:
				visit(x.Elem(), d+1)
			case *types.Map:
				visit(x.Key(), d+1)
				visit(x.Elem(), d+1)
			case *types.Named:
				if x.Obj() == entryT {
					found = true
				}
			}
		}
		visit(t, 0)
		return found
	}
	mod := w.F("badger.Txn.modify")
	n := 0
	for i := 0; i < st.NumFields(); i++ {
		fld := st.Field(i)
		if !holdsEntries(fld.Type()) {
			continue
		}
		n++
		if fld == pw || fld == dw {
			r.Check(true, mod, "entry-holding field "+fld.Name(), nil, "")
			continue
		}
		// a derived copy: refreshed (stored) in modify whenever pendingWrites is stored
		stores := mod.Sites(selStore(fld))
		ok := len(stores) > 0
		if ok {
			for _, s := range mod.Sites(selStore(pw)) {
				res := mod.Followed(Occ{V: mod.G().VertexOf(s), Node: s}, occsOf(mod, stores), exitSuccess)
				if !res.OK && !mod.Dominated(Occ{V: mod.G().VertexOf(s), Node: s}, occsOf(mod, stores)).OK {
					ok = false
				}
			}
		}
		r.Check(ok, mod, "entry-holding field Txn."+fld.Name()+" is kept in step with pendingWrites by modify", nil, "Txn."+fld.Name()+" can hold entries but Txn.modify does not update or invalidate it when it stores a pending write: readers of it see stale pending writes")
	}
	r.Exists(n >= 2, mod, "entry-holding fields of Txn", nil, "expected pendingWrites and duplicateWrites")
	// the overlay is built from pendingWrites in the call that creates it
	np := w.F("badger.Txn.newPendingWritesIterator")
	ranged := false
	np.walkDeep(func(own *Fn, n ast.Node) bool {
		if rs, ok := n.(*ast.RangeStmt); ok && w.fieldOf(rs.X) == pw {
			ranged = true
		}
		return true
	})
	r.Check(ranged, np, "overlay entries collected from pendingWrites", nil, "newPendingWritesIterator does not range over txn.pendingWrites")
}

// R04.6: every accepted write is recorded in the overlay, and stays there.
func ruleR04_6(c *Check) {
	w := c.W
	r := c.Rule("R04.6", "E1+E3", 3, "every accepted write is recorded: each success exit of Txn.modify is preceded by the store pendingWrites[string(e.Key)] = e of the entry being written (a delete is an entry like any other and shadows the snapshot); no key is removed from pendingWrites (builtin delete) and no element is stored into it outside Txn.modify",
		"a write that modify accepts but does not record, or a pending entry that is removed again, lets Get and iterators of the same transaction fall through to the snapshot: a key deleted after being set in the transaction shows its committed value")
	f := w.F("badger.Txn.modify")
	pw := w.Field("badger.Txn.pendingWrites")
	keyF := w.Field("badger.Entry.Key")
	var param *types.Var
	if ps := f.Obj.Type().(*types.Signature).Params(); ps.Len() == 1 {
		param = ps.At(0)
	}
	if param == nil {
		panic(anchorError{"Txn.modify(e *Entry)"})
	}
	// (the store may sit in a helper called only from modify: its parameter is followed back to
	// modify's own through Origin)
	isParamIn := func(fn *Fn, e ast.Expr) bool {
		id, ok := unparen(w.Origin(fn, e)).(*ast.Ident)
		return ok && w.Use(id) == types.Object(param)
	}
	rec := selPred("pendingWrites[string(e.Key)] = e", func(w *World, fn *Fn, n ast.Node) bool {
		as, ok := n.(*ast.AssignStmt)
		if !ok || len(as.Lhs) != 1 || len(as.Rhs) != 1 || !isParamIn(fn, as.Rhs[0]) {
			return false
		}
		ix, ok := unparen(as.Lhs[0]).(*ast.IndexExpr)
		if !ok || w.fieldOf(ix.X) != pw {
			return false
		}
		// the index is the entry's own key (string conversion of e.Key, possibly through a local)
		idx := w.Origin(fn, ix.Index)
		if call, ok := unparen(idx).(*ast.CallExpr); ok && len(call.Args) == 1 {
			idx = call.Args[0]
		}
		if w.fieldOf(idx) != keyF {
			return false
		}
		if se, ok := unparen(idx).(*ast.SelectorExpr); ok {
			return isParamIn(fn, se.X)
		}
		return false
	})
	n := r.ExitsNeed(f, "entry recorded in pendingWrites", rec, 1, exitSuccess)
	r.Exists(n >= 1 && len(f.SitesInl(rec)) >= 1, f, "recording store", nil, "Txn.modify has no store pendingWrites[string(e.Key)] = e")
	// element stores and removals elsewhere
	for _, o := range allStores(w, pw) {
		as, ok := o.Node.(*ast.AssignStmt)
		if !ok {
			continue
		}
		for _, l := range as.Lhs {
			if ix, ok := unparen(l).(*ast.IndexExpr); ok && w.fieldOf(ix.X) == pw {
				inModify := o.SiteFn == f
				if cs := w.soleCallSite(o.SiteFn); cs != nil && cs.Caller != nil && cs.Caller.Root() == f {
					inModify = true // a helper whose only call site is in modify
				}
				r.Check(inModify, o.SiteFn, "pendingWrites elements stored only by Txn.modify", o.Node, "an element of pendingWrites is stored outside Txn.modify (no validation, no size accounting, no conflict key)")
			}
		}
	}
	removals := allSites(w, "badger", selPred("delete(pendingWrites, …)", func(w *World, fn *Fn, n ast.Node) bool {
		call, ok := n.(*ast.CallExpr)
		return ok && isBuiltin(w, call, "delete") && len(call.Args) == 2 && w.fieldOf(w.Origin(fn, call.Args[0])) == pw
	}))
	for _, o := range removals {
		r.Check(false, o.SiteFn, "no pending write is removed", o.Node, "a key is removed from pendingWrites: reads of this transaction fall through to the snapshot for it")
	}
	r.Check(true, f, "removals of pending writes in package badger: "+strconv.Itoa(len(removals)), nil, "")
}

func propC04(c *Check) {
	ruleR04_6(c)
	ruleR04_5(c)
	ruleR04_4(c)
	ruleR04_1(c)
	ruleR04_2(c)
	ruleR04_3(c)
	ruleR27_1(c)
}

// R27.1 is shared by C04 and C27.
func ruleR27_1(c *Check) {
	w := c.W
	r := c.Rule("R27.1", "E1", 2, "Txn.commitAndSend queues the entries of duplicateWrites (earlier calls for a key) before those of pendingWrites (latest call per key); modify moves an older entry to duplicateWrites only when versions differ",
		"the memtable and WAL replay apply a request's entries in order and a later entry with the same internal key overwrites: queuing the latest call first lets an earlier call win")
	f := w.F("badger.Txn.commitAndSend")
	pe := f.LitVar("processEntry")
	pw := w.Field("badger.Txn.pendingWrites")
	dw := w.Field("badger.Txn.duplicateWrites")
	inRange := func(fld *types.Var) Sel {
		return selPred("processEntry in range "+fld.Name(), func(w *World, fn *Fn, n ast.Node) bool {
			call, ok := n.(*ast.CallExpr)
			if !ok || w.calleeFn(fn, call) != pe {
				return false
			}
			for p := w.parentOf(n); p != nil; p = w.parentOf(p) {
				if rs, ok := p.(*ast.RangeStmt); ok {
					return w.fieldOf(rs.X) == fld
				}
			}
			return false
		})
	}
	r.Exists(len(f.Sites(inRange(pw))) == 1 && len(f.Sites(inRange(dw))) == 1, f, "both queues processed", nil, "expected one processEntry loop over pendingWrites and one over duplicateWrites")
	r.NeverAfterAll(f, "no duplicate (earlier) write queued after a latest write", inRange(pw), 0, inRange(dw), 0)
	// modify: duplicates only when versions differ
	m := w.F("badger.Txn.modify")
	ver := w.Field("badger.Entry.version")
	for _, s := range m.Sites(selStore(dw)) {
		okv := false
		for _, g := range w.Guards(m, s) {
			if eqOf(g, false, w.isField(ver), w.isField(ver)) {
				okv = true
			}
		}
		r.Check(okv, m, "older entry kept as duplicate only if versions differ", s, "append to duplicateWrites not guarded by a version inequality")
	}
}
