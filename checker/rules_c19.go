package main

func init() {
	register("C19", "placeholder", func(c *Check) {})
}
