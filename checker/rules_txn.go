package main

// Rules anchored in the transaction layer: C01–C04.

import (
	"go/ast"
	"go/token"
	"go/types"
)

func init() {
	register("C01", "Decides structural necessary conditions of snapshot reads: (R01.1) a read timestamp is taken and registered with the read watermark in one critical section of the oracle lock and the transaction waits for the commit watermark before it is returned; (R01.2) iterators and Get admit exactly the versions <= readTs; (R01.3) across memtables and levels the newest version wins and sources are consulted newest first; (R01.4) the read watermark is released only through the doneRead flag path. Does NOT decide that merged iteration yields the right version for every history, value-log reads, or interleavings beyond this protocol.", propC01)
	register("C02", "Decides structural necessary conditions of SSI conflict detection: (R02.1) conflict check, commit-timestamp allocation and registration of the write set happen in one critical section; (R02.2) polarity of the comparisons that ignore/prune committed transactions; (R02.3) every read path of an update transaction records the key fingerprint; (R02.4) every accepted write records the same fingerprint; (R02.5) a conflicting commit sends nothing to the write channel. Does NOT decide serializability of histories, fingerprint collisions, or managed-mode misuse.", propC02)
	register("C03", "Decides the commit protocol's ordering discipline: (R03.1) commit timestamp allocation and hand-off to the write channel in one hold of writeChLock; (R03.2) nextTxnTs/txnMark.Begin only under the oracle lock; (R03.3) every allocated commit timestamp is marked done on every path and only after the write was applied; (R03.4) a single writer at a time (capacity-1 token); (R03.5) transaction framing bits; (R03.6) acknowledgement only after value log and memtable were written; (R03.7) the write gate precedes the enqueue. Does NOT decide atomic visibility of one request's entries to concurrent readers (that is fenced by R01.1).", propC03)
	register("C04", "Decides that a read-write transaction consults its own pending writes first: (R04.1) Get looks in pendingWrites before recording a read or going to the DB and applies the delete/expiry test to the pending entry; (R04.2) the pending-writes iterator is the first input of the merge iterator and reports readTs as version; (R04.3) pendingWrites flows into the write path only via commitAndSend; plus R27.1 (later write wins). Does NOT decide overlay ordering for reverse/prefix iteration on arbitrary data.", propC04)
}

// ---- shared building blocks ----

func oracleMu(w *World) *types.Var { return w.Field("badger.oracle.Mutex") }

// ---- C01 ----

func ruleR01_1(c *Check) {
	w := c.W
	r := c.Rule("R01.1", "E1+E2", 4, "oracle.readTs: readTs is derived from nextTxnTs and registered with readMark.Begin in one critical section of the oracle mutex, and txnMark.WaitForMark precedes every return; every store to Txn.readTs takes its value from oracle.readTs (or the caller in managed mode)",
		"without the wait a reader can start at a timestamp whose commit is still being applied (torn snapshot); Begin outside the lock lets the discard watermark pass a reader that is about to start")
	f := w.F("badger.oracle.readTs")
	mu := oracleMu(w)
	next := w.Field("badger.oracle.nextTxnTs")
	begin := w.Func("y.WaterMark.Begin")
	wait := w.Func("y.WaterMark.WaitForMark")
	readMark := w.Field("badger.oracle.readMark")
	txnMark := w.Field("badger.oracle.txnMark")
	loads := f.Sites(selUse(next))
	begins := f.Sites(selCallOn(begin, readMark))
	r.Exists(len(loads) > 0, f, "reads nextTxnTs", nil, "oracle.readTs no longer reads nextTxnTs")
	r.Exists(len(begins) > 0, f, "readMark.Begin", nil, "oracle.readTs no longer calls readMark.Begin")
	for _, l := range loads {
		for _, b := range begins {
			r.SameCS(f, "nextTxnTs read and readMark.Begin in one critical section", l, b, mu, 2)
			// Begin's argument is the timestamp just read
			arg := w.Origin(f, b.(*ast.CallExpr).Args[0])
			r.Check(w.mentions(arg, next), f, "readMark.Begin argument derives from nextTxnTs", b, "argument of readMark.Begin is "+short(w, arg))
		}
	}
	r.ExitsNeed(f, "txnMark.WaitForMark", selCallOn(wait, txnMark), 0, exitAll)
	// the value waited for and returned is the one registered
	for _, wt := range f.Sites(selCallOn(wait, txnMark)) {
		call := wt.(*ast.CallExpr)
		// the wait cannot be abandoned: any error it returns (e.g. an expired context) must stop the
		// function, not be ignored — otherwise the timestamp is handed out while commits <= it are in flight
		r.Check(w.errIsFatal(f, call), f, "a failed or abandoned wait never yields a timestamp", wt, "the error of WaitForMark can be ignored (not passed to y.Check, returned or tested with plain `err != nil`): readTs returns while a commit at or below it may still be in flight")
		arg := w.Origin(f, call.Args[len(call.Args)-1])
		r.Check(w.mentions(arg, next), f, "WaitForMark waits for the timestamp read", wt, "WaitForMark argument is "+short(w, arg))
	}
	// provenance of Txn.readTs
	rts := w.Field("badger.Txn.readTs")
	readTsFn := w.Func("badger.oracle.readTs")
	for _, o := range allStores(w, rts) {
		as, ok := o.Node.(*ast.AssignStmt)
		if !ok {
			r.Check(false, o.SiteFn, "store to Txn.readTs", o.Node, "unexpected store form")
			continue
		}
		rhs := rhsFor(w, as, rts)
		okv := false
		why := "Txn.readTs assigned from " + short(w, rhs)
		if w.isCallTo(rhs, readTsFn) {
			okv = true
		} else if o.SiteFn.Name == "badger.Stream.produceKVs" {
			// stream producers read at the run's shared timestamp, a Stream field which Orchestrate takes
			// from a regular transaction (oracle.readTs) — checked in detail by R25.1
			if fld := w.fieldOf(rhs); fld != nil && isFieldOf(w, fld, "badger.Stream") {
				for _, st := range w.F("badger.Stream.Orchestrate").Sites(selStore(fld)) {
					if w.fieldOf(st.(*ast.AssignStmt).Rhs[0]) == rts {
						okv = true
					}
				}
			}
		} else if o.SiteFn.Name == "badger.DB.NewTransactionAt" {
			// managed mode: caller-chosen timestamp (R36.3); guarded by the managedTxns panic
			if id, ok := unparen(rhs).(*ast.Ident); ok {
				if v, ok := w.Use(id).(*types.Var); ok && isParam(o.SiteFn, v) {
					okv = true
				}
			}
		}
		r.Check(okv, o.SiteFn, "Txn.readTs provenance", o.Node, why)
	}
}

func isParam(f *Fn, v *types.Var) bool {
	if f.Obj == nil {
		return false
	}
	sig := f.Obj.Type().(*types.Signature)
	for i := 0; i < sig.Params().Len(); i++ {
		if sig.Params().At(i) == v {
			return true
		}
	}
	return false
}

// allStores lists assignments to a field anywhere in the repo's library packages.
func allStores(w *World, fld *types.Var) []Occ {
	var out []Occ
	sel := selStore(fld)
	for _, f := range w.Fns {
		if f.Pkg.PkgPath != fld.Pkg().Path() {
			continue
		}
		for _, n := range f.Sites(sel) {
			out = append(out, Occ{V: -1, Node: n, Site: n, SiteFn: f})
		}
	}
	return out
}

// allSites lists matches of sel in every function of the given package short name ("" = all repo packages).
func allSites(w *World, pkg string, sel Sel) []Occ {
	var out []Occ
	for _, f := range w.Fns {
		if pkg != "" && shortPkg(f.Pkg) != pkg {
			continue
		}
		if isCmdPkg(f) {
			continue
		}
		for _, n := range f.Sites(sel) {
			out = append(out, Occ{V: -1, Node: n, Site: n, SiteFn: f})
		}
	}
	return out
}

func isCmdPkg(f *Fn) bool {
	p := f.Pkg.PkgPath
	return len(p) > len(modPath) && (p[len(modPath):] == "/badger" || len(p) > len(modPath)+8 && p[len(modPath):len(modPath)+8] == "/badger/")
}

func rhsFor(w *World, as *ast.AssignStmt, fld *types.Var) ast.Expr {
	for i, l := range as.Lhs {
		if w.fieldOf(l) == fld {
			if len(as.Rhs) == len(as.Lhs) {
				return as.Rhs[i]
			}
			return as.Rhs[0]
		}
	}
	return as.Rhs[0]
}

// versionRole classifies comparison operands for visibility rules.
func versionRoles(w *World, f *Fn) RoleFn {
	parseTs := w.Func("y.ParseTs")
	itRead := w.Field("badger.Iterator.readTs")
	txRead := w.Field("badger.Txn.readTs")
	since := w.Field("badger.IteratorOptions.SinceTs")
	return func(e ast.Expr) string {
		o := w.Origin(f, e)
		if w.isCallTo(o, parseTs) {
			return "version"
		}
		if fv := w.fieldOf(o); fv != nil {
			switch fv {
			case itRead, txRead:
				return "readTs"
			case since:
				return "sinceTs"
			}
		}
		if v, ok := w.constInt(o); ok && v == 0 {
			return "zero"
		}
		return ""
	}
}

func ruleR01_2(c *Check) {
	w := c.W
	r := c.Rule("R01.2", "E5+E6", 4, "Iterator.parseItem admits exactly the versions <= readTs: every fill of an item is guarded by version <= readTs (the skip branch tests version > readTs, strictly) and the reverse-iteration retry is guarded by nextTs <= readTs; Iterator.readTs comes from Txn.readTs; Txn.Get seeks KeyWithTs(key, txn.readTs)",
		"a weaker test shows versions committed after the snapshot; a stronger one hides the newest commit at readTs itself (readTs = last committed timestamp)")
	f := w.F("badger.Iterator.parseItem")
	role := versionRoles(w, f)
	fill := w.Func("badger.Iterator.fill")
	var k keyer
	for _, s := range f.Sites(selCall(fill)) {
		rels := RelsOf(w.Guards(f, s))
		op, _ := FindRel(rels, role, "version", "readTs")
		r.Check(op == token.LEQ, f, k.key("fill guarded by version<=readTs", w, s), s, "relation between version and readTs at the fill site is '"+op.String()+"' (need <=)")
	}
	// goto FILL (reverse iteration) only for a candidate <= readTs
	f.walk(func(n ast.Node) bool {
		if b, ok := n.(*ast.BranchStmt); ok && b.Tok == token.GOTO {
			rels := RelsOf(w.Guards(f, b))
			op, _ := FindRel(rels, role, "version", "readTs")
			r.Check(op == token.LEQ, f, "reverse retry guarded by nextTs<=readTs", b, "relation is '"+op.String()+"'")
		}
		return true
	})
	// Iterator.readTs provenance
	itRead := w.Field("badger.Iterator.readTs")
	txRead := w.Field("badger.Txn.readTs")
	ni := w.F("badger.Txn.NewIterator")
	found := false
	ni.walk(func(n ast.Node) bool {
		if kv, ok := n.(*ast.KeyValueExpr); ok {
			if id, ok := kv.Key.(*ast.Ident); ok && w.Use(id) == types.Object(itRead) {
				found = true
				r.Check(w.fieldOf(kv.Value) == txRead, ni, "Iterator.readTs initialised from Txn.readTs", kv, "initialised from "+short(w, kv.Value))
			}
		}
		return true
	})
	r.Exists(found, ni, "Iterator.readTs initialised", nil, "NewIterator does not set Iterator.readTs")
	for _, o := range allStores(w, itRead) {
		r.Check(false, o.SiteFn, "store to Iterator.readTs", o.Node, "Iterator.readTs reassigned after construction")
	}
	// Txn.Get seek key
	g := w.F("badger.Txn.Get")
	dbget := w.Func("badger.DB.get")
	kwt := w.Func("y.KeyWithTs")
	for _, s := range g.Sites(selCall(dbget)) {
		arg := w.Origin(g, s.(*ast.CallExpr).Args[0])
		ok := false
		if call, isCall := arg.(*ast.CallExpr); isCall && w.Callee(call) == kwt && len(call.Args) == 2 {
			ok = w.fieldOf(w.Origin(g, call.Args[1])) == txRead
		}
		r.Check(ok, g, "db.get seeks KeyWithTs(key, txn.readTs)", s, "seek key is "+short(w, arg))
	}
}

// maxVsRule: in f, every assignment to the local candidate (a ValueStruct variable) inside a
// loop is guarded by cand.Version < new.Version, and early returns by Version == ParseTs(key).
func ruleR01_3(c *Check) {
	w := c.W
	r := c.Rule("R01.3", "E1+E5", 8, "newest version wins across sources: DB.get, levelsController.get and levelHandler.get replace their candidate only when candidate.Version < found.Version (strict, so the earlier = newer source wins a tie) and return early only on an exact version match; the mutable memtable is consulted before immutable ones, levels in ascending order, L0 tables newest first",
		"with <= a later (older) source overwrites an equal-version entry of a newer source (merge write-backs and managed rewrites rely on the newer source winning); a wrong source order returns a stale version when an exact match exists in two places")
	version := w.Field("y.ValueStruct.Version")
	parseTs := w.Func("y.ParseTs")
	for _, name := range []string{"badger.DB.get", "badger.levelsController.get", "badger.levelHandler.get"} {
		f := w.F(name)
		// candidate variable: a local of type y.ValueStruct assigned inside a for/range body
		var k keyer
		f.walk(func(n ast.Node) bool {
			as, ok := n.(*ast.AssignStmt)
			if !ok || len(as.Lhs) != 1 {
				return true
			}
			id, ok := as.Lhs[0].(*ast.Ident)
			if !ok {
				return true
			}
			v, ok := w.Use(id).(*types.Var)
			if !ok || v.IsField() || !isNamedType(v.Type(), "ValueStruct") || as.Tok != token.ASSIGN {
				return true
			}
			if !insideLoop(w, f, as) {
				return true
			}
			role := func(e ast.Expr) string {
				e = unparen(e)
				if w.fieldOf(e) == version {
					if s, ok := e.(*ast.SelectorExpr); ok {
						if x, ok := unparen(s.X).(*ast.Ident); ok && w.Use(x) == types.Object(v) {
							return "cand"
						}
					}
					return "found"
				}
				if w.isCallTo(w.Origin(f, e), parseTs) {
					return "found"
				}
				return ""
			}
			op, _ := FindRel(RelsOf(w.Guards(f, as)), role, "cand", "found")
			r.Check(op == token.LSS, f, k.key("candidate replaced only if strictly newer", w, as), as, "guard relation cand.Version ? found.Version is '"+op.String()+"' (need <)")
			return true
		})
	}
	// early returns inside loops: exact version match only
	for _, name := range []string{"badger.DB.get", "badger.levelsController.get"} {
		f := w.F(name)
		var k keyer
		f.walk(func(n ast.Node) bool {
			ret, ok := n.(*ast.ReturnStmt)
			if !ok || !insideLoop(w, f, ret) || len(ret.Results) != 2 || !isNil(ret.Results[1]) {
				return true
			}
			role := func(e ast.Expr) string {
				if w.fieldOf(unparen(e)) == version {
					return "found"
				}
				if w.isCallTo(w.Origin(f, e), parseTs) {
					return "want"
				}
				return ""
			}
			op, _ := FindRel(RelsOf(w.Guards(f, ret)), role, "found", "want")
			r.Check(op == token.EQL, f, k.key("early return only on exact version", w, ret), ret, "early success return guarded by '"+op.String()+"'")
			return true
		})
	}
	// every source is consulted: the loops over memtables, levels and the tables of a level are not
	// left early (a value-log GC write-back puts an OLD version of a key into a NEWER memtable or
	// level, so the first source that has the key need not have its newest version)
	for _, name := range []string{"badger.DB.get", "badger.levelsController.get", "badger.levelHandler.get"} {
		f := w.F(name)
		var k keyer
		f.walk(func(n ast.Node) bool {
			b, ok := n.(*ast.BranchStmt)
			if !ok || (b.Tok != token.BREAK && b.Tok != token.GOTO) {
				return true
			}
			// a break that leaves a for/range loop of this function (not a switch/select inside it)
			for p := w.parentOf(b); p != nil; p = w.parentOf(p) {
				switch p.(type) {
				case *ast.SwitchStmt, *ast.TypeSwitchStmt, *ast.SelectStmt:
					if b.Label == nil {
						return true
					}
				case *ast.ForStmt, *ast.RangeStmt:
					r.Check(false, f, k.key("every source is consulted", w, b), b, "the search over the sources is left early: a later (older) source may hold a newer version of the key (value-log GC write-backs keep their original version)")
					return true
				case *ast.FuncLit, *ast.FuncDecl:
					return true
				}
			}
			return true
		})
		r.Check(true, f, "search loop examined for early exits", nil, "")
	}
	// DB.get: after the memtables the levels are always searched — a success return is the exact
	// match inside the loop or the result of lc.get (in managed mode, and after a GC write-back, a
	// memtable version need not be newer than what the levels hold)
	{
		f := w.F("badger.DB.get")
		lcget := w.Func("badger.levelsController.get")
		var k keyer
		for _, e := range f.allExits() {
			rs, ok := e.Node.(*ast.ReturnStmt)
			if !ok || len(rs.Results) == 0 {
				continue
			}
			if len(rs.Results) == 1 && w.isCallTo(rs.Results[0], lcget) {
				r.Check(true, f, k.key("levels searched after the memtables", w, rs), rs, "")
				continue
			}
			if len(rs.Results) == 2 && !isNil(rs.Results[1]) {
				continue // error return
			}
			if insideLoop(w, f, rs) {
				continue // the exact-match return, checked above
			}
			r.Check(false, f, k.key("levels searched after the memtables", w, rs), rs, "DB.get returns a memtable result without searching the levels: a version found in a memtable is not necessarily newer than what the levels hold (managed timestamps, GC write-backs)")
		}
	}
	// source order
	gm := w.F("badger.DB.getMemTables")
	mt, imm := w.Field("badger.DB.mt"), w.Field("badger.DB.imm")
	appendOf := func(fld *types.Var) Sel {
		return selPred("append:"+fld.Name(), func(w *World, f *Fn, n ast.Node) bool {
			c, ok := n.(*ast.CallExpr)
			if !ok || len(c.Args) < 2 {
				return false
			}
			if id, ok := unparen(c.Fun).(*ast.Ident); !ok || id.Name != "append" {
				return false
			}
			return w.fieldOf(c.Args[1]) == fld
		})
	}
	r.Exists(len(gm.Sites(appendOf(mt))) > 0, gm, "mutable memtable is a source", nil, "getMemTables no longer returns db.mt")
	r.NeverAfterAll(gm, "mutable memtable never appended after an immutable one", appendOf(imm), 0, appendOf(mt), 0)
	// immutables newest first: index expression counts down from the end (last-i)
	gm.walk(func(n ast.Node) bool {
		c, ok := n.(*ast.CallExpr)
		if !ok || !appendOf(imm).Match(w, gm, c) {
			return true
		}
		ix, ok := unparen(c.Args[1]).(*ast.IndexExpr)
		okv := false
		if ok {
			if b, ok := unparen(w.Origin(gm, ix.Index)).(*ast.BinaryExpr); ok && b.Op == token.SUB {
				okv = true
			}
			// or the loop itself counts down: for i := len(imm)-1; i >= 0; i--
			if id, ok := unparen(ix.Index).(*ast.Ident); ok {
				for p := w.parentOf(c); p != nil; p = w.parentOf(p) {
					if fs, ok := p.(*ast.ForStmt); ok {
						if inc, ok := fs.Post.(*ast.IncDecStmt); ok && inc.Tok == token.DEC {
							if pid, ok := unparen(inc.X).(*ast.Ident); ok && w.Use(pid) == w.Use(id) {
								okv = true
							}
						}
						break
					}
					if _, ok := p.(*ast.RangeStmt); ok {
						break
					}
				}
			}
		}
		r.Check(okv, gm, "immutable memtables taken newest first", c, "index expression is "+short(w, c.Args[1]))
		return false
	})
	lg := w.F("badger.levelsController.get")
	levels := w.Field("badger.levelsController.levels")
	hget := w.Func("badger.levelHandler.get")
	for _, s := range lg.Sites(selCall(hget)) {
		okv := false
		for p := w.parentOf(s); p != nil; p = w.parentOf(p) {
			if rs, ok := p.(*ast.RangeStmt); ok && w.fieldOf(rs.X) == levels {
				okv = true
			}
			// or an index loop counting up whose handler is levels[i]
			if fs, ok := p.(*ast.ForStmt); ok && !okv {
				if inc, ok := fs.Post.(*ast.IncDecStmt); ok && inc.Tok == token.INC {
					if rc := recvOf(s.(*ast.CallExpr)); rc != nil {
						if ix, ok := unparen(w.Origin(lg, rc)).(*ast.IndexExpr); ok && w.fieldOf(ix.X) == levels {
							iid, ok1 := unparen(ix.Index).(*ast.Ident)
							pid, ok2 := unparen(inc.X).(*ast.Ident)
							if ok1 && ok2 && w.Use(iid) == w.Use(pid) {
								okv = true
							}
						}
					}
				}
			}
		}
		r.Check(okv, lg, "levels visited in ascending order", s, "levelHandler.get is not called from a forward range over levelsController.levels")
	}
	// L0 newest first in getTableForKey: the L0 branch walks s.tables from the end
	gt := w.F("badger.levelHandler.getTableForKey")
	tables := w.Field("badger.levelHandler.tables")
	okv, at := false, ast.Node(nil)
	gt.walk(func(n ast.Node) bool {
		fs, ok := n.(*ast.ForStmt)
		if !ok {
			return true
		}
		at = fs
		if inc, ok := fs.Post.(*ast.IncDecStmt); ok && inc.Tok == token.DEC && fs.Init != nil && w.mentions(fs.Init, tables) {
			okv = true
		}
		return true
	})
	r.Check(okv, gt, "L0 tables consulted newest first", at, "level-0 loop does not count down over levelHandler.tables")
}

func isNamedType(t types.Type, name string) bool {
	if p, ok := t.(*types.Pointer); ok {
		t = p.Elem()
	}
	n, ok := t.(*types.Named)
	return ok && n.Obj().Name() == name
}

func insideLoop(w *World, f *Fn, n ast.Node) bool {
	for p := w.parentOf(n); p != nil && p != ast.Node(f.Body); p = w.parentOf(p) {
		switch p.(type) {
		case *ast.ForStmt, *ast.RangeStmt:
			return true
		case *ast.FuncLit:
			return false
		}
	}
	return false
}

func ruleR01_4(c *Check) {
	w := c.W
	r := c.Rule("R01.4", "E3+E6", 3, "readMark.Done is reachable only through oracle.doneRead, guarded by the Txn.doneRead flag which is set before the call; doneRead is called only from Txn.Discard and oracle.newCommitTs (and Open's initialisation of the watermark)",
		"a second Done for the same reader lets the read watermark (hence the discard watermark and conflict-history pruning) pass a transaction that is still open")
	done := w.Func("y.WaterMark.Done")
	readMark := w.Field("badger.oracle.readMark")
	flag := w.Field("badger.Txn.doneRead")
	for _, o := range allSites(w, "badger", selCallOn(done, readMark)) {
		place := o.SiteFn.Name
		// a helper that has its only call site in Open / StreamWriter.Flush is part of that place
		for _, rn := range w.rootsVia(o.SiteFn) {
			if rn == "badger.Open" || rn == "badger.StreamWriter.Flush" {
				place = rn
			}
		}
		switch place {
		case "badger.oracle.doneRead":
			gs := w.Guards(o.SiteFn, o.Node)
			g := HasGuard(gs, false, func(e ast.Expr) bool { return w.fieldOf(e) == flag })
			r.Check(g != nil, o.SiteFn, "readMark.Done guarded by !txn.doneRead", o.Node, "readMark.Done is not under the doneRead flag test")
			r.DomAll(o.SiteFn, "flag set before readMark.Done", selNode(o.Node), 0, selStore(flag), 0)
		case "badger.Open", "badger.StreamWriter.Flush":
			r.Exists(true, o.SiteFn, "watermark initialisation", o.Node, "")
		default:
			r.Check(false, o.SiteFn, "readMark.Done outside oracle.doneRead", o.Node, "readMark.Done called from "+o.SiteFn.Name)
		}
	}
	dr := w.F("badger.oracle.doneRead")
	for _, cs := range w.CG().CallSitesOf(dr) {
		ok := cs.Caller.Name == "badger.Txn.Discard" || cs.Caller.Name == "badger.oracle.newCommitTs"
		r.Check(ok, cs.Caller, "caller of oracle.doneRead", cs.Node, "oracle.doneRead called from "+cs.Caller.Name)
	}
}

// R01.5: what a reader looks at is pinned while it looks.
func ruleR01_5(c *Check) {
	w := c.W
	r := c.Rule("R01.5", "E2+E1", 14, "readers pin what they read: a table taken from levelHandler.tables is referenced (Table.IncrRef, Table.NewIterator, NewConcatIterator, appendIteratorsReversed) while the level's lock is held; Table.NewIterator and NewConcatIterator take a reference on every table they are given and the iterators' Close gives it back; getTableForKey hands back a release function for exactly the tables it pinned and levelHandler.get runs it on every exit; DB.getMemTables references db.mt and every immutable memtable under DB.lock, returns the matching release, and every caller runs it on all exits",
		"a compaction or flush that finishes while a read is in progress drops the last reference of a table or memtable: its file is unlinked and its mapping (or arena) released under the reader, which then reads freed memory or misses the data")
	tblInc, tblDec := w.Func("table.Table.IncrRef"), w.Func("table.Table.DecrRef")
	newIt := w.Func("table.Table.NewIterator")
	newConcat := w.Func("table.NewConcatIterator")
	air := w.Func("badger.appendIteratorsReversed")
	lhMu := embeddedMutex(w, "badger.levelHandler")
	tablesF := w.Field("badger.levelHandler.tables")
	var k keyer
	// (1) references on level tables are taken under the level lock
	n := 0
	for _, f := range w.Fns {
		if shortPkg(f.Pkg) != "badger" || isCmdPkg(f) || f.Body == nil {
			continue
		}
		root := f.Root()
		if root.Obj == nil {
			continue
		}
		sig, _ := root.Obj.Type().(*types.Signature)
		if sig == nil || sig.Recv() == nil || !namedIs(sig.Recv().Type(), modPath, "levelHandler") {
			continue
		}
		// functions of levelHandler that read s.tables and let tables out
		if len(f.Sites(selUse(tablesF))) == 0 {
			continue
		}
		f := f
		f.walk(func(x ast.Node) bool {
			call, ok := x.(*ast.CallExpr)
			if !ok {
				return true
			}
			switch w.Callee(call) {
			case types.Object(tblInc), types.Object(newIt), types.Object(newConcat), types.Object(air):
			default:
				return true
			}
			switch root.Name {
			case "badger.levelHandler.replaceTables", "badger.levelHandler.addTable", "badger.levelHandler.tryAddLevel0Table", "badger.levelHandler.initTables":
				// writers: they hold the write lock or run before the level is shared (R12.6 covers the list itself)
			}
			n++
			var trail []string
			okv := lhMu != nil && f.HeldDeep(call, lhMu, 1, 1, &trail)
			if root.Name == "badger.levelHandler.initTables" {
				okv = true // Open: the level is not shared yet
			}
			r.Check(okv, f, k.key("table referenced while the level lock is held", w, call), call, "a table of levelHandler.tables is referenced without the level's lock: a concurrent compaction can drop its last reference first ("+joinTrail(trail)+")")
			return true
		})
	}
	r.Exists(n >= 5, nil, "reference sites in levelHandler", nil, "expected the pin sites of getTableForKey, appendIterators and the table-list writers")
	// (2) the iterator constructors take, and Close returns, the reference
	ni := w.F("table.Table.NewIterator")
	r.ExitsNeed(ni, "NewIterator references its table", selCall(tblInc), 0, exitAll)
	ic := w.F("table.Iterator.Close")
	r.ExitsNeed(ic, "Iterator.Close releases its table", selCall(tblDec), 0, exitAll)
	nc := w.F("table.NewConcatIterator")
	okLoop := false
	nc.walk(func(x ast.Node) bool {
		call, ok := x.(*ast.CallExpr)
		if !ok || w.Callee(call) != types.Object(tblInc) {
			return true
		}
		for p := w.parentOf(call); p != nil; p = w.parentOf(p) {
			switch l := p.(type) {
			case *ast.RangeStmt:
				if id, ok := unparen(l.X).(*ast.Ident); ok {
					if v, ok := w.Use(id).(*types.Var); ok && isParam(nc, v) {
						okLoop = len(w.Guards(nc, call)) == 0 || onlyLoopGuards(w, nc, call)
					}
				}
			case *ast.ForStmt:
				okLoop = onlyLoopGuards(w, nc, call)
			}
		}
		return true
	})
	r.Check(okLoop, nc, "NewConcatIterator references every table it is given", nil, "NewConcatIterator does not IncrRef each table unconditionally")
	cc := w.F("table.ConcatIterator.Close")
	r.Check(len(cc.Sites(selCall(tblDec))) >= 1, cc, "ConcatIterator.Close releases its tables", nil, "ConcatIterator.Close no longer calls DecrRef")
	// (3) getTableForKey / get
	gt := w.F("badger.levelHandler.getTableForKey")
	for _, e := range gt.allExits() {
		rs, ok := e.Node.(*ast.ReturnStmt)
		if !ok || len(rs.Results) != 2 {
			continue
		}
		if id, isId := unparen(rs.Results[0]).(*ast.Ident); isId && id.Name == "nil" {
			continue
		}
		rel := unparen(rs.Results[1])
		okRel := false
		switch x := rel.(type) {
		case *ast.FuncLit:
			if lit := w.ByLit[x]; lit != nil && len(lit.Sites(selCall(tblDec))) >= 1 {
				okRel = true
			}
		case *ast.SelectorExpr:
			okRel = w.Use(x.Sel) == types.Object(tblDec)
		}
		r.Check(okRel, gt, k.key("pinned tables come with their release", w, rs), rs, "getTableForKey returns tables without a function that releases them")
	}
	// every table put into a result (append(out, t) or []*table.Table{t}) is referenced in the same block
	enclosingBlock := func(n ast.Node) ast.Node {
		for p := w.parentOf(n); p != nil; p = w.parentOf(p) {
			if _, ok := p.(*ast.BlockStmt); ok {
				return p
			}
		}
		return nil
	}
	pinnedHere := func(f *Fn, at ast.Node, elem ast.Expr, inc types.Object) bool {
		want := types.ExprString(unparen(w.Origin(f, elem)))
		want2 := types.ExprString(unparen(elem))
		for _, s := range f.Sites(selCall(inc)) {
			rc := recvOf(s.(*ast.CallExpr))
			if rc == nil || enclosingBlock(s) != enclosingBlock(at) {
				continue
			}
			if got := types.ExprString(unparen(rc)); got == want || got == want2 || types.ExprString(unparen(w.Origin(f, rc))) == want {
				return true
			}
		}
		return false
	}
	handed := 0
	gt.walk(func(x ast.Node) bool {
		switch e := x.(type) {
		case *ast.CallExpr:
			if isBuiltin(w, e, "append") && len(e.Args) == 2 && !e.Ellipsis.IsValid() {
				handed++
				r.Check(pinnedHere(gt, e, e.Args[1], tblInc), gt, k.key("every table handed out is referenced", w, e), e, "table "+short(w, e.Args[1])+" is handed out without IncrRef in the same block")
			}
		case *ast.CompositeLit:
			if tv, ok := w.Info.Types[e]; ok {
				if sl, isSl := tv.Type.Underlying().(*types.Slice); isSl && namedIs(sl.Elem(), modPath+"/table", "Table") {
					for _, el := range e.Elts {
						handed++
						r.Check(pinnedHere(gt, e, el, tblInc), gt, k.key("every table handed out is referenced", w, e), e, "table "+short(w, el)+" is handed out without IncrRef in the same block")
					}
				}
			}
		}
		return true
	})
	r.Exists(handed >= 2, gt, "tables handed out", nil, "expected the L0 list and the single-table result of getTableForKey")
	lg := w.F("badger.levelHandler.get")
	var decr *types.Var
	lg.walk(func(x ast.Node) bool {
		if as, ok := x.(*ast.AssignStmt); ok && len(as.Lhs) == 2 && len(as.Rhs) == 1 && w.isCallTo(as.Rhs[0], w.Func("badger.levelHandler.getTableForKey")) {
			if id, ok := as.Lhs[1].(*ast.Ident); ok {
				decr, _ = w.Use(id).(*types.Var)
			}
		}
		return true
	})
	callsVar := func(v *types.Var) Sel {
		return selPred("call of the release function", func(w *World, fn *Fn, n ast.Node) bool {
			call, ok := n.(*ast.CallExpr)
			if !ok {
				return false
			}
			id, ok := unparen(call.Fun).(*ast.Ident)
			return ok && v != nil && w.Use(id) == types.Object(v)
		})
	}
	r.Check(decr != nil, lg, "levelHandler.get keeps the release function", nil, "the release function returned by getTableForKey is discarded")
	if decr != nil {
		r.ExitsNeed(lg, "tables released", callsVar(decr), 0, exitAll)
	}
	// (4) memtables
	gm := w.F("badger.DB.getMemTables")
	dbl := types.Object(w.Field("badger.DB.lock"))
	mInc := w.Func("badger.memTable.IncrRef")
	m := 0
	for _, s := range gm.Sites(selCall(mInc)) {
		m++
		r.Check(gm.HeldAt(s)[dbl] >= 1, gm, k.key("memtable referenced under DB.lock", w, s), s, "memtable referenced without DB.lock: the flusher can release it first")
	}
	r.Exists(m >= 2, gm, "memtable references", nil, "expected IncrRef of db.mt and of the immutable memtables")
	for _, s := range gm.Sites(selPred("append to the result", func(w *World, fn *Fn, n ast.Node) bool {
		call, ok := n.(*ast.CallExpr)
		return ok && isBuiltin(w, call, "append") && len(call.Args) == 2
	})) {
		call := s.(*ast.CallExpr)
		// the appended memtable is referenced in the same block (same guards)
		r.Check(pinnedHere(gm, call, call.Args[1], mInc), gm, k.key("every memtable handed out is referenced", w, s), s, "memtable "+short(w, call.Args[1])+" is handed out without IncrRef in the same block")
	}
	for _, cs := range w.CG().CallSitesOf(gm) {
		caller := cs.Caller
		call, ok := cs.Node.(*ast.CallExpr)
		if !ok || caller == nil {
			continue
		}
		as, ok := w.parentOf(call).(*ast.AssignStmt)
		var rel *types.Var
		if ok && len(as.Lhs) == 2 {
			if id, ok := as.Lhs[1].(*ast.Ident); ok {
				rel, _ = w.Use(id).(*types.Var)
			}
		}
		r.Check(rel != nil, caller, k.key("caller keeps the memtable release function", w, call), call, "the release function of getMemTables is discarded")
		if rel != nil {
			r.FollowAll(caller, "memtables released after getMemTables", selNode(call), 0, callsVar(rel), 0, exitAll)
		}
	}
}

func propC01(c *Check) {
	ruleR01_1(c)
	ruleR01_2(c)
	ruleR01_3(c)
	ruleR01_4(c)
	ruleR01_5(c)
	// "no matter which compactions or value-log GC runs happen": what a GC write-back carries and
	// which L0 tables a compaction may take (round-2 seeds broke the snapshot through them)
	ruleR15_4(c)
	ruleR12_1(c)
	// iterators: within L0 the newer table precedes the older one in the merge (ties on identical
	// key+version — a value-log GC write-back — must resolve to the newer copy)
	ruleR12_3(c)
}

// ---- C02 ----

func ruleR02_1(c *Check) {
	w := c.W
	r := c.Rule("R02.1", "E2", 4, "oracle.newCommitTs: hasConflict, the read and increment of nextTxnTs, txnMark.Begin and the append to committedTxns are in one critical section of the oracle mutex; hasConflict and cleanupCommittedTransactions are only called with it held",
		"a gap between the check and the allocation lets two conflicting transactions both pass the check (write skew)")
	f := w.F("badger.oracle.newCommitTs")
	mu := oracleMu(w)
	hc := w.Func("badger.oracle.hasConflict")
	next := w.Field("badger.oracle.nextTxnTs")
	committed := w.Field("badger.oracle.committedTxns")
	checks := f.Sites(selCall(hc))
	r.Exists(len(checks) == 1, f, "calls hasConflict once", nil, "expected exactly one hasConflict call")
	for _, ch := range checks {
		for _, st := range f.Sites(selStore(next)) {
			r.SameCS(f, "hasConflict and nextTxnTs increment in one critical section", ch, st, mu, 2)
		}
		for _, st := range f.Sites(selStore(committed)) {
			r.SameCS(f, "hasConflict and committedTxns append in one critical section", ch, st, mu, 2)
		}
	}
	for _, name := range []string{"badger.oracle.hasConflict", "badger.oracle.cleanupCommittedTransactions"} {
		t := w.F(name)
		for _, cs := range w.CG().CallSitesOf(t) {
			var trail []string
			ok := cs.Caller.HeldDeep(cs.Node, mu, 2, 2, &trail)
			msg := ""
			if !ok {
				msg = "oracle mutex not held: " + joinTrail(trail)
			}
			r.Check(ok, cs.Caller, "calls "+t.Obj.Name()+" with oracle mutex held", cs.Node, msg)
		}
	}
	// every access to committedTxns holds the lock
	for _, o := range allSites(w, "badger", selUse(committed)) {
		var trail []string
		ok := o.SiteFn.HeldDeep(o.Node, mu, 2, 2, &trail)
		r.Check(ok, o.SiteFn, "committedTxns accessed under oracle mutex", o.Node, joinTrail(trail))
	}
}

func joinTrail(t []string) string {
	s := ""
	for i, x := range t {
		if i > 0 {
			s += "; "
		}
		s += x
	}
	return s
}

func ruleR02_2(c *Check) {
	w := c.W
	r := c.Rule("R02.2", "E5", 2, "hasConflict ignores a committed transaction iff committedTxn.ts <= txn.readTs; cleanupCommittedTransactions prunes iff txn.ts <= maxReadTs where maxReadTs is readMark.DoneUntil() (discardTs when managed)",
		"ignoring ts == readTs+1.. misses a concurrent writer; pruning above the oldest open reader forgets a write that reader must still conflict with")
	ts := w.Field("badger.committedTxn.ts")
	txRead := w.Field("badger.Txn.readTs")
	f := w.F("badger.oracle.hasConflict")
	// the scan over the committed-transaction log is exhaustive: the loop over committedTxns is left
	// early only by `return true`. (The log is NOT sorted by timestamp in managed mode, so stopping at the
	// first non-concurrent entry skips concurrent ones.)
	committed := w.Field("badger.oracle.committedTxns")
	var scan ast.Stmt
	f.walk(func(n ast.Node) bool {
		switch x := n.(type) {
		case *ast.RangeStmt:
			if w.fieldOf(x.X) == committed {
				scan = x
			}
		case *ast.ForStmt:
			if scan == nil && (x.Init != nil && w.mentions(x.Init, committed) || x.Cond != nil && w.mentions(x.Cond, committed)) {
				scan = x
			}
		}
		return true
	})
	if scan == nil {
		panic(anchorError{"loop over oracle.committedTxns in hasConflict"})
	}
	exhaustive := true
	var at ast.Node
	ast.Inspect(scan, func(n ast.Node) bool {
		switch x := n.(type) {
		case *ast.BranchStmt:
			if x.Tok == token.BREAK || x.Tok == token.GOTO {
				// a break belongs to the scan unless an inner loop encloses it
				inner := false
				for p := w.parentOf(x); p != nil && p != ast.Node(scan); p = w.parentOf(p) {
					switch p.(type) {
					case *ast.ForStmt, *ast.RangeStmt, *ast.SwitchStmt, *ast.SelectStmt:
						inner = true
					}
				}
				if !inner {
					exhaustive, at = false, x
				}
			}
		case *ast.ReturnStmt:
			if len(x.Results) == 1 {
				if tv := w.Info.Types[x.Results[0]]; tv.Value == nil || tv.Value.String() != "true" {
					exhaustive, at = false, x
				}
			}
		}
		return true
	})
	r.Check(exhaustive, f, "every committed transaction in the log is examined", at, "the scan over committedTxns can stop before the end of the log (break / return false inside the loop): entries are not ordered by timestamp in managed mode, so a concurrent writer behind the stopping point is missed")
	if fs, ok := scan.(*ast.ForStmt); ok {
		// an index loop must cover the whole slice: start 0 (or len-1) and step 1 — accept only a plain full walk
		full := false
		if init, ok := fs.Init.(*ast.AssignStmt); ok && len(init.Rhs) == 1 {
			if v, ok := w.constInt(init.Rhs[0]); ok && v == 0 {
				full = true
			}
			if be, ok := unparen(init.Rhs[0]).(*ast.BinaryExpr); ok && be.Op == token.SUB && w.mentions(be.X, committed) {
				if v, ok := w.constInt(be.Y); ok && v == 1 {
					full = true
				}
			}
		}
		r.Check(full, f, "index scan starts at an end of the log", fs, "the scan does not start at the first or the last entry")
	}
	// the `continue` that skips a committed txn
	f.walk(func(n ast.Node) bool {
		b, ok := n.(*ast.BranchStmt)
		if !ok || b.Tok != token.CONTINUE {
			return true
		}
		role := func(e ast.Expr) string {
			switch w.fieldOf(w.Origin(f, e)) {
			case ts:
				return "cts"
			case txRead:
				return "readTs"
			}
			return ""
		}
		op, _ := FindRel(RelsOf(w.Guards(f, b)), role, "cts", "readTs")
		r.Check(op == token.LEQ || op == token.LSS, f, "skip committed txn only if ts<=readTs", b, "skip guarded by cts '"+op.String()+"' readTs")
		return true
	})
	g := w.F("badger.oracle.cleanupCommittedTransactions")
	doneUntil := w.Func("y.WaterMark.DoneUntil")
	discardTs := w.Field("badger.oracle.discardTs")
	g.walk(func(n ast.Node) bool {
		b, ok := n.(*ast.BranchStmt)
		if !ok || b.Tok != token.CONTINUE {
			return true
		}
		role := func(e ast.Expr) string {
			if w.fieldOf(unparen(e)) == ts {
				return "cts"
			}
			if id, ok := unparen(e).(*ast.Ident); ok {
				if v, ok := w.Use(id).(*types.Var); ok && !v.IsField() {
					defs := w.DefsOf(g, v)
					good := len(defs) > 0
					for _, d := range defs {
						if !(w.isCallTo(d, doneUntil) || w.fieldOf(d) == discardTs) {
							good = false
						}
					}
					if good {
						return "maxRead"
					}
				}
			}
			return ""
		}
		op, _ := FindRel(RelsOf(w.Guards(g, b)), role, "cts", "maxRead")
		r.Check(op == token.LEQ || op == token.LSS, g, "prune only ts<=maxReadTs", b, "prune guarded by cts '"+op.String()+"' maxReadTs (maxReadTs must come from readMark.DoneUntil or discardTs)")
		return true
	})
}

func ruleR02_3(c *Check) {
	w := c.W
	r := c.Rule("R02.3", "E1", 3, "every read of an update transaction records the key: Txn.Get calls addReadKey before db.get; Iterator.Item calls addReadKey before returning the item; Iterator.Seek calls it for a non-empty key before seeking",
		"an unrecorded read is invisible to hasConflict, so a concurrent committed write to that key does not abort the reader (lost serializability)")
	ark := w.Func("badger.Txn.addReadKey")
	get := w.F("badger.Txn.Get")
	upd := w.Field("badger.Txn.update")
	r.DomAll(get, "db.get", selCall(w.Func("badger.DB.get")), 0, selCall(ark), 0, excuseField(w, upd, false))
	item := w.F("badger.Iterator.Item")
	r.ExitsNeed(item, "addReadKey", selCall(ark), 0, exitAll)
	seek := w.F("badger.Iterator.Seek")
	iitr := w.Field("badger.Iterator.iitr")
	seekCalls := selPred("iitr.Seek/Rewind", func(w *World, f *Fn, n ast.Node) bool {
		c, ok := n.(*ast.CallExpr)
		if !ok {
			return false
		}
		s, ok := unparen(c.Fun).(*ast.SelectorExpr)
		return ok && (s.Sel.Name == "Seek") && w.fieldOf(s.X) == iitr
	})
	r.DomAll(seek, "iitr.Seek", seekCalls, 0, selCall(ark), 0, excuseExpr(func(e ast.Expr) bool { return isLenPositive(w, e) }, false))
	// addReadKey records under the update flag only, with the reads lock
	a := w.F("badger.Txn.addReadKey")
	reads := w.Field("badger.Txn.reads")
	lock := w.Field("badger.Txn.readsLock")
	for _, s := range a.Sites(selStore(reads)) {
		r.Check(a.HeldAt(s)[lock] == 2, a, "reads appended under readsLock", s, "readsLock not held")
	}
}

func ruleR02_4(c *Check) {
	w := c.W
	r := c.Rule("R02.4", "E1+E4", 3, "Txn.modify records the write fingerprint in conflictKeys before every success return (under DetectConflicts), with the same hash function applied to the user key as addReadKey uses",
		"a write missing from conflictKeys (or hashed differently from reads) is never found by hasConflict")
	f := w.F("badger.Txn.modify")
	ck := w.Field("badger.Txn.conflictKeys")
	stores := f.Sites(selStore(ck))
	r.Exists(len(stores) > 0, f, "stores conflictKeys", nil, "modify never stores conflictKeys")
	detect := w.Field("badger.Options.DetectConflicts")
	for _, s := range stores {
		gs := w.Guards(f, s)
		var extra []string
		for _, g := range gs {
			if g.Implicit {
				continue
			}
			if w.fieldOf(g.Cond) == detect && g.Val {
				continue
			}
			extra = append(extra, short(w, g.Cond))
		}
		r.Check(len(extra) == 0, f, "conflictKeys store conditional only on DetectConflicts", s, "additional conditions: "+joinTrail(extra))
	}
	// success exits must pass the store or be in the !DetectConflicts world: we require the
	// if-statement holding the store to dominate the success returns
	var hosts []ast.Node
	for _, s := range stores {
		for p := w.parentOf(s); p != nil; p = w.parentOf(p) {
			if is, ok := p.(*ast.IfStmt); ok && w.fieldOf(is.Cond) == detect {
				hosts = append(hosts, is.Cond)
			}
		}
	}
	r.ExitsNeed(f, "DetectConflicts block", selNode(hosts...), 0, exitSuccess)
	// same hash callee on both sides, applied to the key
	hashOf := func(fn *Fn, fld *types.Var) types.Object {
		var callee types.Object
		for _, s := range fn.Sites(selStore(fld)) {
			ast.Inspect(s, func(n ast.Node) bool {
				// the fingerprint function: func([]byte) uint64 applied in the statement itself or in the
				// definition of a local the statement uses
				isHash := func(e ast.Expr) types.Object {
					if call, ok := unparen(e).(*ast.CallExpr); ok {
						if o, isF := w.Callee(call).(*types.Func); isF && sigIs(o, []string{"[]byte"}, []string{"uint64"}) {
							return o
						}
					}
					return nil
				}
				switch x := n.(type) {
				case *ast.CallExpr:
					if o := isHash(x); o != nil && callee == nil {
						callee = o
					}
				case *ast.Ident:
					if v, ok := w.Use(x).(*types.Var); ok && !v.IsField() {
						for _, d := range w.DefsOf(fn, v) {
							if o := isHash(d); o != nil && callee == nil {
								callee = o
							}
						}
					}
				}
				return true
			})
		}
		return callee
	}
	hw := hashOf(f, ck)
	hr := hashOf(w.F("badger.Txn.addReadKey"), w.Field("badger.Txn.reads"))
	r.Check(hw != nil && hw == hr, f, "read and write fingerprints use the same hash", nil, "write side uses "+objName(hw)+", read side "+objName(hr))
}

func objName(o types.Object) string {
	if o == nil {
		return "<none>"
	}
	if o.Pkg() != nil {
		return o.Pkg().Name() + "." + o.Name()
	}
	return o.Name()
}

func ruleR02_5(c *Check) {
	w := c.W
	r := c.Rule("R02.5", "E1", 1, "in Txn.commitAndSend no path from the conflict branch reaches sendToWriteCh, and sendToWriteCh is dominated by newCommitTs",
		"a rejected transaction must leave no trace")
	f := w.F("badger.Txn.commitAndSend")
	send := selCall(w.Func("badger.DB.sendToWriteCh"))
	nct := selCall(w.Func("badger.oracle.newCommitTs"))
	r.DomAll(f, "sendToWriteCh", send, 0, nct, 0)
	// returns of ErrConflict never followed by a send (trivially true for returns) and the conflict test dominates the send
	errConflict := w.Obj("badger.ErrConflict")
	n := 0
	f.walk(func(x ast.Node) bool {
		ret, ok := x.(*ast.ReturnStmt)
		if !ok {
			return true
		}
		for _, e := range ret.Results {
			if id, ok := unparen(e).(*ast.Ident); ok && w.Use(id) == errConflict {
				n++
				// guard of this return is the conflict flag produced by newCommitTs
				gs := w.Guards(f, ret)
				ok2 := false
				for _, g := range gs {
					if id, ok := g.Cond.(*ast.Ident); ok && g.Val {
						if v, ok := w.Use(id).(*types.Var); ok {
							for _, d := range w.DefsOf(f, v) {
								if w.isCallTo(d, w.Func("badger.oracle.newCommitTs")) {
									ok2 = true
								}
							}
						}
					}
				}
				r.Check(ok2, f, "ErrConflict returned on the conflict flag of newCommitTs", ret, "return ErrConflict is not guarded by newCommitTs's conflict result")
			}
		}
		return true
	})
	// the send must be unreachable when conflict is true: the conflict test is an early exit before it
	for _, s := range f.Sites(send) {
		gs := w.Guards(f, s)
		ok2 := false
		for _, g := range gs {
			if id, ok := g.Cond.(*ast.Ident); ok && !g.Val {
				if v, ok := w.Use(id).(*types.Var); ok {
					for _, d := range w.DefsOf(f, v) {
						if w.isCallTo(d, w.Func("badger.oracle.newCommitTs")) {
							ok2 = true
						}
					}
				}
			}
		}
		r.Check(ok2, f, "send only when no conflict", s, "sendToWriteCh is not under the negated conflict flag")
	}
}

func propC02(c *Check) {
	ruleR02_1(c)
	ruleR02_2(c)
	ruleR02_3(c)
	ruleR02_4(c)
	ruleR02_5(c)
}
