package main

// R14.7: the key-range algebra compaction picking rests on.

import (
	"go/ast"
	"go/token"
	"go/types"
)

// runningExtreme checks, in f, that the variable/field selected by isAcc is a running minimum
// (want LSS) or maximum (want GTR) of candidates selected by isCand under three-way comparison:
// every store acc = cand is guarded by Compare(cand, acc) <want> 0, that comparison being the
// only explicit condition the store depends on besides the ones accepted by okOther (e.g. an
// "accumulator still empty" disjunct), and in particular not the failure of a sibling update.
func runningExtreme(r *RuleInfo, f *Fn, what string, stores []ast.Node, isAcc, isCand func(ast.Expr) bool, want token.Token, okOther func(g Guard) bool) int {
	w := f.W
	ck := w.Func("y.CompareKeys")
	var k keyer
	n := 0
	for _, s := range stores {
		as, ok := s.(*ast.AssignStmt)
		if !ok || len(as.Rhs) != 1 || !isCand(as.Rhs[0]) {
			continue
		}
		n++
		good := false
		clean := true
		for _, g := range w.Guards(f, s) {
			if g.Implicit || g.Lifted {
				continue
			}
			if _, isFor := g.At.(*ast.ForStmt); isFor {
				continue
			}
			// the condition may be a disjunction `acc empty || Compare(cand, acc) < 0`
			matched := false
			for _, d := range flatten(g.Cond, token.LOR) {
				if op, call, ok := w.threeWay(d, g.Val, isCand, ck, w.Func("bytes.Compare")); ok && op == want {
					other := call.Args[0]
					if isCand(other) {
						other = call.Args[1]
					}
					if isAcc(other) {
						matched = true
					}
				}
			}
			if matched && g.Val {
				good = true
				continue
			}
			if okOther != nil && okOther(g) {
				continue
			}
			clean = false
		}
		r.Check(good && clean, f, k.key(what, w, s), s, "the update is not guarded by exactly `Compare(candidate, current) "+want.String()+" 0` (it also depends on another condition, e.g. sits in the else-branch of the other bound's update)")
	}
	return n
}

func ruleR14_7(c *Check) {
	w := c.W
	r := c.Rule("R14.7", "E5", 12, "key-range algebra: getKeyRange returns the hull of its tables — the running smallest key and the running biggest key are updated independently over all tables — widened to all versions of both boundary keys (R14.3); keyRange.extend takes the smaller left and the larger right independently; keyRange.overlapsWith answers false only when one range lies strictly before the other (r.left > dst.right or r.right < dst.left) and true for an infinite range; levelCompactStatus.overlapsWith is true if any registered range overlaps; compareAndAdd refuses when either level has an overlapping registered range and otherwise registers both ranges and every input table, under the status lock; delete removes exactly those",
		"a range that is too narrow lets a second compaction (or the choice of bottom tables) miss tables that overlap: two tables of one level end up with overlapping key ranges and Open's level validation fails")
	gk := w.F("badger.getKeyRange")
	smallestCall := func(e ast.Expr) bool { return isCallNamed(w, w.from(e), "Smallest") }
	biggestCall := func(e ast.Expr) bool { return isCallNamed(w, w.from(e), "Biggest") }
	// the two accumulators: locals first defined from tables[0].Smallest()/Biggest()
	var accS, accB *types.Var
	gk.walk(func(n ast.Node) bool {
		as, ok := n.(*ast.AssignStmt)
		if !ok || as.Tok != token.DEFINE || len(as.Lhs) != 1 || len(as.Rhs) != 1 {
			return true
		}
		id, _ := as.Lhs[0].(*ast.Ident)
		if id == nil {
			return true
		}
		v, _ := w.Use(id).(*types.Var)
		switch {
		case isCallNamed(w, as.Rhs[0], "Smallest") && accS == nil:
			accS = v
		case isCallNamed(w, as.Rhs[0], "Biggest") && accB == nil:
			accB = v
		}
		return true
	})
	if accS == nil || accB == nil {
		panic(anchorError{"running smallest/biggest in getKeyRange"})
	}
	isVar := func(v *types.Var) func(ast.Expr) bool {
		return func(e ast.Expr) bool { id, ok := unparen(e).(*ast.Ident); return ok && w.Use(id) == types.Object(v) }
	}
	nonDefine := func(v *types.Var) []ast.Node {
		var out []ast.Node
		for _, s := range gk.Sites(selStoreVar(v)) {
			if as, ok := s.(*ast.AssignStmt); ok && as.Tok != token.DEFINE {
				out = append(out, s)
			}
		}
		return out
	}
	// careful: inside the guard the candidate is a call expression, not a local — do not look through locals for the accumulator
	candS := func(e ast.Expr) bool { _, isId := unparen(e).(*ast.Ident); return !isId && smallestCall(e) }
	candB := func(e ast.Expr) bool { _, isId := unparen(e).(*ast.Ident); return !isId && biggestCall(e) }
	nS := runningExtreme(r, gk, "running smallest key", nonDefine(accS), isVar(accS), candS, token.LSS, nil)
	nB := runningExtreme(r, gk, "running biggest key", nonDefine(accB), isVar(accB), candB, token.GTR, nil)
	r.Check(nS == 1 && nB == 1, gk, "one update each for the smallest and the biggest key", nil, "expected `smallest = t.Smallest()` and `biggest = t.Biggest()` updates in the loop")
	// the loop covers every remaining table
	okLoop := false
	gk.walk(func(n ast.Node) bool {
		switch fs := n.(type) {
		case *ast.ForStmt:
			if as, ok := fs.Init.(*ast.AssignStmt); ok && len(as.Rhs) == 1 && fs.Cond != nil {
				start, isC := w.constInt(as.Rhs[0])
				lv, _ := as.Lhs[0].(*ast.Ident)
				if isC && start <= 1 && lv != nil {
					op, ok := w.cmpRoles(fs.Cond, true, func(e ast.Expr) bool { id, ok := unparen(e).(*ast.Ident); return ok && w.Use(id) == w.Use(lv) },
						func(e ast.Expr) bool { c, ok := unparen(e).(*ast.CallExpr); return ok && isBuiltin(w, c, "len") })
					okLoop = ok && op == token.LSS
				}
			}
		case *ast.RangeStmt:
			okLoop = true
		}
		return true
	})
	r.Check(okLoop, gk, "every table contributes to the range", nil, "the loop in getKeyRange does not run over all (remaining) tables")
	// extend
	ex := w.F("badger.keyRange.extend")
	left, right := w.Field("badger.keyRange.left"), w.Field("badger.keyRange.right")
	var recv, param types.Object
	if ex.Decl.Recv != nil && len(ex.Decl.Recv.List[0].Names) == 1 {
		recv = w.Info.Defs[ex.Decl.Recv.List[0].Names[0]]
	}
	if ps := ex.Decl.Type.Params; ps != nil && len(ps.List) == 1 && len(ps.List[0].Names) == 1 {
		param = w.Info.Defs[ps.List[0].Names[0]]
	}
	fieldOn := func(fld *types.Var, base types.Object) func(ast.Expr) bool {
		return func(e ast.Expr) bool {
			se, ok := unparen(e).(*ast.SelectorExpr)
			if !ok || w.fieldOf(se) != fld {
				return false
			}
			id := baseIdent(se.X)
			return id != nil && w.Use(id) == base
		}
	}
	emptyAcc := func(fld *types.Var) func(g Guard) bool {
		return func(g Guard) bool {
			// `len(r.left) == 0 || …` is handled as a disjunct by runningExtreme when the whole condition holds;
			// a separate guard mentioning only emptiness of the accumulator is acceptable too
			return w.mentions(g.Cond, fld) && !w.mentions(g.Cond, w.Func("y.CompareKeys"))
		}
	}
	storesOf := func(fld *types.Var) []ast.Node {
		var out []ast.Node
		for _, s := range ex.Sites(selStore(fld)) {
			if as, ok := s.(*ast.AssignStmt); ok && len(as.Lhs) == 1 && fieldOn(fld, recv)(as.Lhs[0]) {
				out = append(out, s)
			}
		}
		return out
	}
	nL := runningExtreme(r, ex, "extend: smaller left bound", storesOf(left), fieldOn(left, recv), fieldOn(left, param), token.LSS, emptyAcc(left))
	nR := runningExtreme(r, ex, "extend: larger right bound", storesOf(right), fieldOn(right, recv), fieldOn(right, param), token.GTR, emptyAcc(right))
	r.Check(nL == 1 && nR == 1, ex, "extend updates left and right", nil, "expected one update of r.left and one of r.right in keyRange.extend")
	// overlapsWith
	ov := w.F("badger.keyRange.overlapsWith")
	var orecv, oparam types.Object
	if ov.Decl.Recv != nil && len(ov.Decl.Recv.List[0].Names) == 1 {
		orecv = w.Info.Defs[ov.Decl.Recv.List[0].Names[0]]
	}
	if ps := ov.Decl.Type.Params; ps != nil && len(ps.List) == 1 && len(ps.List[0].Names) == 1 {
		oparam = w.Info.Defs[ps.List[0].Names[0]]
	}
	fo := func(fld *types.Var, base types.Object) func(ast.Expr) bool {
		return func(e ast.Expr) bool {
			se, ok := unparen(e).(*ast.SelectorExpr)
			if !ok || w.fieldOf(se) != fld {
				return false
			}
			id := baseIdent(se.X)
			return id != nil && w.Use(id) == base
		}
	}
	ck := w.Func("y.CompareKeys")
	before, after, infTrue := false, false, false
	var k keyer
	for _, s := range ov.Sites(selReturn()) {
		rs := s.(*ast.ReturnStmt)
		if len(rs.Results) != 1 {
			continue
		}
		tv := w.Info.Types[rs.Results[0]]
		if tv.Value == nil {
			continue
		}
		val := tv.Value.String() == "true"
		// what the guards of this return say about the two boundary comparisons
		relA, relB := token.ILLEGAL, token.ILLEGAL // r.left ? dst.right ; r.right ? dst.left
		underInf := false
		for _, g := range w.Guards(ov, rs) {
			if op, call, ok := w.threeWay(g.Cond, g.Val, fo(left, orecv), ck); ok && fo(right, oparam)(otherArg(call, fo(left, orecv))) {
				if relA == token.ILLEGAL || op == token.GTR {
					relA = op
				}
			}
			if op, call, ok := w.threeWay(g.Cond, g.Val, fo(right, orecv), ck); ok && fo(left, oparam)(otherArg(call, fo(right, orecv))) {
				if relB == token.ILLEGAL || op == token.LSS {
					relB = op
				}
			}
			if w.mentions(g.Cond, w.Field("badger.keyRange.inf")) && g.Val && !g.Implicit {
				underInf = true
			}
		}
		if underInf {
			r.Check(val, ov, k.key("an infinite range overlaps everything", w, rs), rs, "overlapsWith answers false for an infinite range")
			infTrue = infTrue || val
			continue
		}
		if !val && (relA != token.ILLEGAL || relB != token.ILLEGAL) {
			// "no overlap" must rest on one of: this range starts after the other ends, or ends before it starts
			okA, okB := relA == token.GTR, relB == token.LSS
			r.Check(okA || okB, ov, k.key("no overlap only when one range lies strictly beyond the other", w, rs), rs, "overlapsWith answers false under r.left "+relA.String()+" dst.right / r.right "+relB.String()+" dst.left")
			after = after || okA
			before = before || okB
		}
	}
	r.Check(before && after && infTrue, ov, "overlap test: disjoint only if strictly before or strictly after; inf overlaps", nil, "keyRange.overlapsWith lacks one of: r.left > dst.right ⇒ false, r.right < dst.left ⇒ false, inf ⇒ true")
	// the final answer (none of the above) is true
	if n := len(ov.Body.List); n > 0 {
		rs, ok := ov.Body.List[n-1].(*ast.ReturnStmt)
		okLast := false
		if ok && len(rs.Results) == 1 {
			tv := w.Info.Types[rs.Results[0]]
			okLast = tv.Value != nil && tv.Value.String() == "true"
		}
		r.Check(okLast, ov, "ranges that are neither before nor after one another overlap", nil, "keyRange.overlapsWith does not end with `return true`")
	}
	// levelCompactStatus.overlapsWith: any
	lo := w.F("badger.levelCompactStatus.overlapsWith")
	okAny := false
	for _, s := range lo.Sites(selReturn()) {
		rs := s.(*ast.ReturnStmt)
		tv := w.Info.Types[rs.Results[0]]
		if tv.Value != nil && tv.Value.String() == "true" && insideLoop(w, lo, rs) {
			g := HasGuard(w.Guards(lo, rs), true, func(e ast.Expr) bool { return w.isCallTo(e, w.Func("badger.keyRange.overlapsWith")) })
			okAny = g != nil
		}
	}
	r.Check(okAny, lo, "a level is busy if any registered range overlaps", nil, "levelCompactStatus.overlapsWith does not return true on the first overlapping range")
	// compareAndAdd
	ca := w.F("badger.compactStatus.compareAndAdd")
	mu := embeddedMutex(w, "badger.compactStatus")
	thisR, nextR := w.Field("badger.compactDef.thisRange"), w.Field("badger.compactDef.nextRange")
	lov := w.Func("badger.levelCompactStatus.overlapsWith")
	refused := map[*types.Var]bool{}
	for _, s := range ca.Sites(selReturn()) {
		rs := s.(*ast.ReturnStmt)
		tv := w.Info.Types[rs.Results[0]]
		if tv.Value == nil || tv.Value.String() != "false" {
			continue
		}
		for _, g := range w.Guards(ca, rs) {
			if call, ok := unparen(g.Cond).(*ast.CallExpr); ok && g.Val && !g.Implicit && w.Callee(call) == types.Object(lov) && len(call.Args) == 1 {
				refused[w.fieldOf(call.Args[0])] = true
			}
		}
	}
	r.Check(refused[thisR] && refused[nextR], ca, "a pick is refused when either range overlaps a running compaction", nil, "compareAndAdd does not test both thisRange and nextRange against the registered ranges")
	ranges := w.Field("badger.levelCompactStatus.ranges")
	regd := map[*types.Var]bool{}
	for _, s := range ca.Sites(selStore(ranges)) {
		if mu != nil {
			r.Check(ca.HeldAt(s)[mu] == 2, ca, "ranges registered under the status lock", s, "registration without the compactStatus lock")
		}
		for _, f := range []*types.Var{thisR, nextR} {
			if w.mentions(s, f) {
				regd[f] = true
			}
		}
		// registration only after both tests passed: the refusing returns dominate it
		for _, t := range ca.Sites(selCall(lov)) {
			r.DomAll(ca, "registration after both overlap tests", selNode(s), 0, selNode(t), 0)
		}
		// … and passed unconditionally: the conditions under which the registration runs entail
		// (propositionally) that neither level has an overlapping registered range — a test that is
		// skipped for some picks (no bottom tables, a particular level) leaves those picks unchecked
		atom := func(e ast.Expr) string {
			if call, ok := unparen(e).(*ast.CallExpr); ok && w.Callee(call) == types.Object(lov) && len(call.Args) == 1 {
				switch w.fieldOf(call.Args[0]) {
				case thisR:
					return "T"
				case nextR:
					return "N"
				}
			}
			return ""
		}
		seenT, seenN := false, false
		gs := w.Guards(ca, s)
		for _, g := range gs {
			ast.Inspect(g.Cond, func(n ast.Node) bool {
				if e, ok := n.(ast.Expr); ok {
					switch atom(e) {
					case "T":
						seenT = true
					case "N":
						seenN = true
					}
				}
				return true
			})
		}
		okU := seenT && seenN && w.guardsImply(gs, atom, func(env map[string]bool) bool { return !env["T"] && !env["N"] })
		r.Check(okU, ca, "registration only when neither level overlaps a running compaction, for every pick", s, "the conditions the registration runs under do not entail !thisLevel.overlapsWith(thisRange) && !nextLevel.overlapsWith(nextRange): some picks are registered without one of the tests")
	}
	r.Check(regd[thisR] && regd[nextR], ca, "both ranges are registered", nil, "compareAndAdd does not append thisRange and nextRange to the levels' registered ranges")
	okTables := false
	for _, s := range ca.Sites(selStore(w.Field("badger.compactStatus.tables"))) {
		for p := w.parentOf(s); p != nil; p = w.parentOf(p) {
			if rs, ok := p.(*ast.RangeStmt); ok && w.mentions(rs.X, w.Field("badger.compactDef.top")) && w.mentions(rs.X, w.Field("badger.compactDef.bot")) {
				okTables = true
			}
		}
	}
	r.Check(okTables, ca, "every input table is marked as being compacted", nil, "compareAndAdd does not record the ids of top and bot tables")
	// delete removes the same ranges
	dl := w.F("badger.compactStatus.delete")
	rem := w.Func("badger.levelCompactStatus.remove")
	removed := map[*types.Var]bool{}
	for _, s := range dl.Sites(selCall(rem)) {
		removed[w.fieldOf(s.(*ast.CallExpr).Args[0])] = true
	}
	r.Check(removed[thisR] && removed[nextR], dl, "a finished compaction unregisters both ranges", nil, "compactStatus.delete does not remove thisRange and nextRange")
}

// otherArg: the argument of a two-argument call that does not satisfy isFirst.
func otherArg(call *ast.CallExpr, isFirst func(ast.Expr) bool) ast.Expr {
	if call == nil || len(call.Args) != 2 {
		return nil
	}
	if isFirst(call.Args[0]) {
		return call.Args[1]
	}
	return call.Args[0]
}
