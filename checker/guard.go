package main

// E6 "guard": structural control dependence — the branch conditions a site is
// nested under, plus early-exit guards of preceding siblings — and E5 "cmp":
// normalised relations asserted by those conditions.

import (
	"go/ast"
	"go/token"
	"go/types"
)

type Guard struct {
	Cond     ast.Expr
	Val      bool     // Cond evaluates to Val whenever the site executes
	Implicit bool     // derived from an early exit (`if C { return }`) or an assertion preceding the site
	At       ast.Node // statement that contributes the guard
	Fn       *Fn      // function the condition is written in (differs from the site's function for lifted guards)
	Lifted   bool     // holds at the single static call site of the helper the site sits in
}

func (w *World) parentOf(n ast.Node) ast.Node {
	if w.parents == nil {
		w.parents = map[ast.Node]ast.Node{}
		for _, p := range w.All {
			if len(p.Syntax) == 0 {
				continue
			}
			if _, ok := w.ByShort[shortPkg(p)]; !ok {
				continue
			}
			for _, f := range p.Syntax {
				var stack []ast.Node
				ast.Inspect(f, func(x ast.Node) bool {
					if x == nil {
						stack = stack[:len(stack)-1]
						return true
					}
					if len(stack) > 0 {
						w.parents[x] = stack[len(stack)-1]
					}
					stack = append(stack, x)
					return true
				})
			}
		}
	}
	return w.parents[n]
}

// terminates: the statement list never falls through to what follows it.
func (w *World) terminates(list []ast.Stmt) bool {
	if len(list) == 0 {
		return false
	}
	switch s := list[len(list)-1].(type) {
	case *ast.ReturnStmt:
		return true
	case *ast.BranchStmt:
		return s.Tok != token.FALLTHROUGH
	case *ast.ExprStmt:
		if c, ok := s.X.(*ast.CallExpr); ok {
			return w.noReturn(c)
		}
	case *ast.BlockStmt:
		return w.terminates(s.List)
	case *ast.IfStmt:
		if s.Else == nil {
			return false
		}
		var el []ast.Stmt
		switch e := s.Else.(type) {
		case *ast.BlockStmt:
			el = e.List
		default:
			el = []ast.Stmt{e}
		}
		return w.terminates(s.Body.List) && w.terminates(el)
	}
	return false
}

func (w *World) siblingGuards(list []ast.Stmt, child ast.Node, out *[]Guard) {
	for _, s := range list {
		if s == child {
			break
		}
		if s.End() > child.Pos() {
			break
		}
		switch x := s.(type) {
		case *ast.IfStmt:
			if x.Else == nil && w.terminates(x.Body.List) {
				*out = append(*out, Guard{Cond: x.Cond, Val: false, Implicit: true, At: x})
			}
		case *ast.ExprStmt:
			if c, ok := x.X.(*ast.CallExpr); ok && len(c.Args) > 0 {
				if fn, ok := w.Callee(c).(*types.Func); ok && fn.Pkg() != nil && fn.Pkg().Path() == modPath+"/y" &&
					(fn.Name() == "AssertTrue" || fn.Name() == "AssertTruef") {
					*out = append(*out, Guard{Cond: c.Args[0], Val: true, Implicit: true, At: x})
				}
			}
		}
	}
}

// Guards lists the conditions that hold whenever node n of function f runs
// (conjunctions are split, negations pushed into Val).
func (w *World) Guards(f *Fn, n ast.Node) []Guard {
	return w.guardsLifted(f, n, 3)
}

// guardsLifted adds, for a site in an unexported helper with exactly one static, synchronous
// call site, the guards of that call site (an extracted helper inherits the conditions its
// only caller runs it under).
func (w *World) guardsLifted(f *Fn, n ast.Node, depth int) []Guard {
	out := w.guardsLocal(f, n)
	for i := range out {
		if out[i].Fn == nil {
			out[i].Fn = f
		}
	}
	if f == nil || depth <= 0 || f.Decl == nil || f.Obj == nil || f.Obj.Exported() {
		return out
	}
	in := w.CG().In[f]
	if len(in) != 1 || in[0].Kind != "static" || in[0].Async || in[0].Deferred || in[0].Caller == nil || in[0].Caller == f {
		return out
	}
	for _, g := range w.guardsLifted(in[0].Caller, in[0].Node, depth-1) {
		g.Lifted = true
		out = append(out, g)
	}
	return out
}

func (w *World) guardsLocal(f *Fn, n ast.Node) []Guard {
	var raw []Guard
	child := n
	for {
		par := w.parentOf(child)
		if par == nil {
			break
		}
		switch p := par.(type) {
		case *ast.IfStmt:
			if child == ast.Node(p.Body) {
				raw = append(raw, Guard{Cond: p.Cond, Val: true, At: p})
			} else if p.Else != nil && child == ast.Node(p.Else) {
				raw = append(raw, Guard{Cond: p.Cond, Val: false, At: p})
			}
		case *ast.ForStmt:
			if child == ast.Node(p.Body) && p.Cond != nil {
				raw = append(raw, Guard{Cond: p.Cond, Val: true, At: p})
			}
		case *ast.CaseClause:
			inBody := false
			for _, s := range p.Body {
				if s == child {
					inBody = true
				}
			}
			if inBody {
				w.siblingGuards(p.Body, child, &raw)
				// the switch statement is two levels up: CaseClause -> BlockStmt -> SwitchStmt
				if blk, ok := w.parentOf(p).(*ast.BlockStmt); ok {
					if sw, ok := w.parentOf(blk).(*ast.SwitchStmt); ok {
						mk := func(e ast.Expr) ast.Expr {
							if sw.Tag == nil {
								return e
							}
							return &ast.BinaryExpr{X: sw.Tag, Op: token.EQL, Y: e, OpPos: e.Pos()}
						}
						if len(p.List) == 1 {
							raw = append(raw, Guard{Cond: mk(p.List[0]), Val: true, At: p})
						}
						// earlier clauses did not match (tagless or tagged alike); default: none matched
						for _, cs := range blk.List {
							cc := cs.(*ast.CaseClause)
							if cc == p {
								if p.List != nil {
									break
								}
								continue
							}
							if p.List != nil && cc.Pos() > p.Pos() {
								break
							}
							for _, e := range cc.List {
								raw = append(raw, Guard{Cond: mk(e), Val: false, At: cc})
							}
						}
					}
				}
			}
		case *ast.CommClause:
			w.siblingGuards(p.Body, child, &raw)
		case *ast.BlockStmt:
			w.siblingGuards(p.List, child, &raw)
		}
		if f != nil {
			if par == ast.Node(f.Body) {
				break
			}
		}
		if _, ok := par.(*ast.FuncLit); ok {
			break
		}
		if _, ok := par.(*ast.FuncDecl); ok {
			break
		}
		child = par
	}
	var out []Guard
	var split func(g Guard)
	depth := 0
	split = func(g Guard) {
		switch x := unparen(g.Cond).(type) {
		case *ast.BinaryExpr:
			if (x.Op == token.LAND && g.Val) || (x.Op == token.LOR && !g.Val) {
				split(Guard{Cond: x.X, Val: g.Val, Implicit: g.Implicit, At: g.At})
				split(Guard{Cond: x.Y, Val: g.Val, Implicit: g.Implicit, At: g.At})
				return
			}
		case *ast.UnaryExpr:
			if x.Op == token.NOT {
				split(Guard{Cond: x.X, Val: !g.Val, Implicit: g.Implicit, At: g.At})
				return
			}
		case *ast.Ident:
			// a named condition (`tooBig := a && b; if tooBig {…}`): a local bool defined once by a
			// boolean expression stands for that expression
			if depth < 3 {
				if v, ok := w.Use(x).(*types.Var); ok && !v.IsField() && v.Pkg() != nil && v.Parent() != v.Pkg().Scope() {
					if b, isB := v.Type().Underlying().(*types.Basic); isB && b.Kind() == types.Bool && f != nil {
						if defs := w.DefsOf(f, v); len(defs) == 1 {
							switch d := unparen(defs[0]).(type) {
							case *ast.BinaryExpr:
								if d.Op == token.LAND || d.Op == token.LOR || negOp(d.Op) != token.ILLEGAL {
									out = append(out, g) // the name itself stays a guard too
									depth++
									split(Guard{Cond: d, Val: g.Val, Implicit: g.Implicit, At: g.At})
									depth--
									return
								}
							case *ast.UnaryExpr:
								if d.Op == token.NOT {
									out = append(out, g)
									depth++
									split(Guard{Cond: d, Val: g.Val, Implicit: g.Implicit, At: g.At})
									depth--
									return
								}
							}
						}
					}
				}
			}
		}
		g.Cond = unparen(g.Cond)
		out = append(out, g)
	}
	for _, g := range raw {
		split(g)
	}
	return out
}

// ---- E5: relations ----

func negOp(op token.Token) token.Token {
	switch op {
	case token.LSS:
		return token.GEQ
	case token.LEQ:
		return token.GTR
	case token.GTR:
		return token.LEQ
	case token.GEQ:
		return token.LSS
	case token.EQL:
		return token.NEQ
	case token.NEQ:
		return token.EQL
	}
	return token.ILLEGAL
}

func swapOp(op token.Token) token.Token {
	switch op {
	case token.LSS:
		return token.GTR
	case token.LEQ:
		return token.GEQ
	case token.GTR:
		return token.LSS
	case token.GEQ:
		return token.LEQ
	}
	return op
}

// Rel is "L Op R holds".
type Rel struct {
	L, R ast.Expr
	Op   token.Token
	G    Guard
}

// RelsOf extracts the comparison relations asserted by a guard set.
func RelsOf(gs []Guard) []Rel {
	var out []Rel
	for _, g := range gs {
		b, ok := g.Cond.(*ast.BinaryExpr)
		if !ok {
			continue
		}
		op := b.Op
		if negOp(op) == token.ILLEGAL {
			continue
		}
		if !g.Val {
			op = negOp(op)
		}
		out = append(out, Rel{L: b.X, R: b.Y, Op: op, G: g})
	}
	return out
}

// RoleFn classifies an operand; "" means unknown.
type RoleFn func(e ast.Expr) string

// FindRel looks for a relation between an operand of role a and one of role b
// and returns the operator normalised as "a op b".
func FindRel(rels []Rel, role RoleFn, a, b string) (token.Token, *Rel) {
	for i := range rels {
		r := &rels[i]
		rl, rr := role(r.L), role(r.R)
		if rl == a && rr == b {
			return r.Op, r
		}
		if rl == b && rr == a {
			return swapOp(r.Op), r
		}
	}
	return token.ILLEGAL, nil
}

// HasGuard: is there a guard whose condition satisfies pred with the given value?
func HasGuard(gs []Guard, val bool, pred func(ast.Expr) bool) *Guard {
	for i := range gs {
		if gs[i].Val == val && pred(gs[i].Cond) {
			return &gs[i]
		}
	}
	return nil
}

// ---- local definitions ----

// DefsOf returns the expressions assigned to local variable v anywhere in the
// root function of f (tuple assignments from a call yield the call).
func (w *World) DefsOf(f *Fn, v *types.Var) []ast.Expr {
	var out []ast.Expr
	root := f.Root()
	ast.Inspect(root.Body, func(n ast.Node) bool {
		switch s := n.(type) {
		case *ast.AssignStmt:
			for i, l := range s.Lhs {
				id, ok := l.(*ast.Ident)
				if !ok || w.Use(id) != types.Object(v) {
					continue
				}
				if len(s.Rhs) == len(s.Lhs) {
					out = append(out, s.Rhs[i])
				} else if len(s.Rhs) == 1 {
					out = append(out, s.Rhs[0])
				}
			}
		case *ast.ValueSpec:
			for i, id := range s.Names {
				if w.Use(id) != types.Object(v) {
					continue
				}
				if len(s.Values) == len(s.Names) {
					out = append(out, s.Values[i])
				} else if len(s.Values) == 1 {
					out = append(out, s.Values[0])
				}
			}
		case *ast.RangeStmt:
			for _, l := range []ast.Expr{s.Key, s.Value} {
				if id, ok := l.(*ast.Ident); ok && w.Use(id) == types.Object(v) {
					out = append(out, s.X)
				}
			}
		}
		return true
	})
	return out
}

// Origin follows conversions, parentheses and single-definition locals back to
// the expression that produces the value.
func (w *World) Origin(f *Fn, e ast.Expr) ast.Expr {
	for i := 0; i < 8; i++ {
		e = unparen(e)
		switch x := e.(type) {
		case *ast.CallExpr:
			// conversion T(x)
			if tv, ok := w.Info.Types[x.Fun]; ok && tv.IsType() && len(x.Args) == 1 {
				e = x.Args[0]
				continue
			}
			return e
		case *ast.Ident:
			v, ok := w.Use(x).(*types.Var)
			if !ok || v.IsField() || v.Pkg() == nil || v.Parent() == v.Pkg().Scope() {
				return e
			}
			defs := w.DefsOf(f, v)
			if len(defs) == 0 {
				// a parameter of an extracted helper (unexported, one static synchronous call site):
				// continue with the argument it is called with
				if arg, caller := w.soleArgument(f, v); arg != nil {
					e, f = arg, caller
					continue
				}
			}
			if len(defs) != 1 {
				return e
			}
			e = defs[0]
			continue
		}
		return e
	}
	return e
}

// eqHolds: the guard asserts an equality (isEq) or an inequality (!isEq) between x and y,
// whichever way it is spelled (`a == b` taken, `a != b` not taken, …); ok=false otherwise.
func eqHolds(g Guard) (x, y ast.Expr, isEq bool, ok bool) {
	be, isB := unparen(g.Cond).(*ast.BinaryExpr)
	if !isB || (be.Op != token.EQL && be.Op != token.NEQ) {
		return nil, nil, false, false
	}
	return be.X, be.Y, (be.Op == token.EQL) == g.Val, true
}

// eqOf: the guard asserts equality (want=true) or inequality (want=false) between an operand
// satisfying a and one satisfying b, in either order.
func eqOf(g Guard, want bool, a, b func(ast.Expr) bool) bool {
	x, y, isEq, ok := eqHolds(g)
	if !ok || isEq != want {
		return false
	}
	return (a(unparen(x)) && b(unparen(y))) || (a(unparen(y)) && b(unparen(x)))
}

// guardsImply decides propositionally whether the conjunction of the guards entails `goal`:
// the guards' conditions are read as formulas over !, &&, || whose leaves are atoms; atomOf
// names the atoms the caller cares about ("" = an uninterpreted atom, keyed by its text, or by
// its position when it contains a call); every assignment of the atoms that satisfies all
// guards must satisfy goal. Uninterpreted atoms are free, so the answer errs towards "no".
func (w *World) guardsImply(gs []Guard, atomOf func(ast.Expr) string, goal func(env map[string]bool) bool) bool {
	names := map[string]bool{}
	var order []string
	name := func(e ast.Expr) string {
		e = unparen(e)
		if s := atomOf(e); s != "" {
			return s
		}
		hasCall := false
		ast.Inspect(e, func(n ast.Node) bool {
			if _, ok := n.(*ast.CallExpr); ok {
				hasCall = true
			}
			return true
		})
		if hasCall {
			return "@" + w.Position(e.Pos())
		}
		return "$" + types.ExprString(e)
	}
	var collect func(e ast.Expr)
	collect = func(e ast.Expr) {
		e = unparen(e)
		switch x := e.(type) {
		case *ast.BinaryExpr:
			if x.Op == token.LAND || x.Op == token.LOR {
				collect(x.X)
				collect(x.Y)
				return
			}
		case *ast.UnaryExpr:
			if x.Op == token.NOT {
				collect(x.X)
				return
			}
		}
		if n := name(e); !names[n] {
			names[n] = true
			order = append(order, n)
		}
	}
	for _, g := range gs {
		collect(g.Cond)
	}
	if len(order) > 16 {
		return false
	}
	var eval func(e ast.Expr, env map[string]bool) bool
	eval = func(e ast.Expr, env map[string]bool) bool {
		e = unparen(e)
		switch x := e.(type) {
		case *ast.BinaryExpr:
			if x.Op == token.LAND {
				return eval(x.X, env) && eval(x.Y, env)
			}
			if x.Op == token.LOR {
				return eval(x.X, env) || eval(x.Y, env)
			}
		case *ast.UnaryExpr:
			if x.Op == token.NOT {
				return !eval(x.X, env)
			}
		}
		return env[name(e)]
	}
	for m := 0; m < 1<<len(order); m++ {
		env := map[string]bool{}
		for i, n := range order {
			env[n] = m&(1<<i) != 0
		}
		sat := true
		for _, g := range gs {
			if eval(g.Cond, env) != g.Val {
				sat = false
				break
			}
		}
		if sat && !goal(env) {
			return false
		}
	}
	return true
}

// rootsVia: the name of f's declared root and, while that root is an unexported helper with a
// sole call site, of the roots of its callers (an extracted helper is part of its only caller):
// rules that except or allow a *place* ("Open", "StreamWriter.Flush") accept a helper of that place.
func (w *World) rootsVia(f *Fn) []string {
	var out []string
	for i := 0; f != nil && i < 4; i++ {
		root := f.Root()
		out = append(out, root.Name)
		cs := w.soleCallSite(root)
		if cs == nil {
			break
		}
		f = cs.Caller
	}
	return out
}

// soleCallSite: the only call site of an unexported, declared function (static, synchronous); nil otherwise.
func (w *World) soleCallSite(f *Fn) *CallSite {
	if f == nil {
		return nil
	}
	f = f.Root()
	if f.Decl == nil || f.Obj == nil || f.Obj.Exported() {
		return nil
	}
	in := w.CG().In[f]
	if len(in) != 1 || in[0].Kind != "static" || in[0].Async || in[0].Deferred || in[0].Caller == nil || in[0].Caller.Root() == f {
		return nil
	}
	if _, ok := in[0].Node.(*ast.CallExpr); !ok {
		return nil
	}
	return in[0]
}

// soleArgument: v is a parameter (or the receiver) of f's declared root, which has a sole call
// site: the argument expression (or receiver expression) there, and the calling function.
func (w *World) soleArgument(f *Fn, v *types.Var) (ast.Expr, *Fn) {
	// a parameter of a local closure (bound to a variable) that is called at exactly one place
	for g := f; g != nil && g.Lit != nil; g = g.Parent {
		if g.Type == nil || g.Type.Params == nil {
			continue
		}
		i, idx := 0, -1
		for _, fl := range g.Type.Params.List {
			if _, variadic := fl.Type.(*ast.Ellipsis); variadic {
				idx = -1
				break
			}
			for _, name := range fl.Names {
				if w.Info.Defs[name] == types.Object(v) {
					idx = i
				}
				i++
			}
			if len(fl.Names) == 0 {
				i++
			}
		}
		if idx < 0 {
			continue
		}
		var only *CallSite
		n := 0
		for _, in := range w.CG().In[g] {
			if _, isCall := in.Node.(*ast.CallExpr); isCall {
				n++
				only = in
			} else {
				n += 2 // referenced otherwise (stored, passed on): not a sole synchronous call
			}
		}
		if n != 1 || only.Async || only.Deferred || only.Caller == nil {
			return nil, nil
		}
		call := only.Node.(*ast.CallExpr)
		if idx < len(call.Args) && len(call.Args) == i {
			return call.Args[idx], only.Caller
		}
		return nil, nil
	}
	cs := w.soleCallSite(f)
	if cs == nil {
		return nil, nil
	}
	root := f.Root()
	call := cs.Node.(*ast.CallExpr)
	if root.Decl.Recv != nil && len(root.Decl.Recv.List) == 1 && len(root.Decl.Recv.List[0].Names) == 1 && w.Info.Defs[root.Decl.Recv.List[0].Names[0]] == types.Object(v) {
		if se, ok := unparen(call.Fun).(*ast.SelectorExpr); ok {
			return se.X, cs.Caller
		}
		return nil, nil
	}
	i := 0
	if root.Decl.Type.Params == nil {
		return nil, nil
	}
	for _, fl := range root.Decl.Type.Params.List {
		if _, variadic := fl.Type.(*ast.Ellipsis); variadic {
			return nil, nil
		}
		for _, name := range fl.Names {
			if w.Info.Defs[name] == types.Object(v) {
				if i < len(call.Args) && len(call.Args) == root.Decl.Type.Params.NumFields() {
					return call.Args[i], cs.Caller
				}
				return nil, nil
			}
			i++
		}
		if len(fl.Names) == 0 {
			i++
		}
	}
	return nil, nil
}

// walkInl visits f's body, nested literals, and the bodies of helpers that have their sole call
// site in what is visited (an extracted helper is part of its only caller), two levels deep.
func (f *Fn) walkInl(visit func(own *Fn, n ast.Node) bool) {
	var rec func(g *Fn, depth int)
	rec = func(g *Fn, depth int) {
		g.walkDeep(func(own *Fn, n ast.Node) bool {
			if !visit(own, n) {
				return false
			}
			if call, ok := n.(*ast.CallExpr); ok && depth > 0 {
				if callee := f.W.calleeFn(own, call); callee != nil && callee.Decl != nil {
					if cs := f.W.soleCallSite(callee); cs != nil && cs.Node == ast.Node(call) {
						rec(callee, depth-1)
					}
				}
			}
			return true
		})
	}
	rec(f, 2)
}

// SitesInl: the sites of sel in f, its literals and the helpers that have their sole call site there.
func (f *Fn) SitesInl(sel Sel) []Occ {
	var out []Occ
	f.walkInl(func(own *Fn, n ast.Node) bool {
		if sel.Match(f.W, own, n) {
			out = append(out, Occ{V: -1, Node: n, Site: n, SiteFn: own})
		}
		return true
	})
	return out
}

// orForwarded: obj itself plus, when obj is a one-statement function that only forwards to another
// function (`func (i *Iterator) seek(k []byte) { i.seekFrom(k, origin) }`), that function — a
// caller that inlines the forwarder still does what the rule asks for.
func (w *World) orForwarded(obj types.Object) []types.Object {
	out := []types.Object{obj}
	fn, ok := obj.(*types.Func)
	if !ok {
		return out
	}
	f := w.ByObj[fn]
	if f == nil || f.Body == nil || len(f.Body.List) != 1 {
		return out
	}
	var call *ast.CallExpr
	switch s := f.Body.List[0].(type) {
	case *ast.ExprStmt:
		call, _ = s.X.(*ast.CallExpr)
	case *ast.ReturnStmt:
		if len(s.Results) == 1 {
			call, _ = unparen(s.Results[0]).(*ast.CallExpr)
		}
	}
	if call != nil {
		if o := w.Callee(call); o != nil {
			out = append(out, o)
		}
	}
	return out
}

// isCallTo: e is a call whose resolved callee is obj.
func (w *World) isCallTo(e ast.Expr, obj types.Object) bool {
	if obj == nil || e == nil {
		return false
	}
	if c, ok := unparen(e).(*ast.CallExpr); ok && w.Callee(c) == obj {
		return true
	}
	// through a single-definition local (`x := f(); … x …`) or a conversion
	if e.Pos().IsValid() {
		if c, ok := w.from(e).(*ast.CallExpr); ok && w.Callee(c) == obj {
			return true
		}
	}
	// the body of a one-line helper written out in place (`lf.dataKey != nil` for lf.encryptionEnabled())
	return w.isInlined(e, obj)
}

// tinyBody: the result expression of a method or function whose body is a single `return X`.
func (w *World) tinyBody(obj types.Object) (ast.Expr, *Fn) {
	fn, ok := obj.(*types.Func)
	if !ok {
		return nil, nil
	}
	f := w.ByObj[fn]
	if f == nil || f.Decl == nil || f.Body == nil || len(f.Body.List) != 1 {
		return nil, nil
	}
	rs, ok := f.Body.List[0].(*ast.ReturnStmt)
	if !ok || len(rs.Results) != 1 {
		return nil, nil
	}
	return rs.Results[0], f
}

// isInlined: e is, up to the name of the receiver, the single result expression of obj (a
// parameterless one-line method).
func (w *World) isInlined(e ast.Expr, obj types.Object) bool {
	body, f := w.tinyBody(obj)
	if body == nil || f.Decl.Recv == nil || len(f.Decl.Recv.List) != 1 || len(f.Decl.Recv.List[0].Names) != 1 || f.Decl.Type.Params.NumFields() != 0 {
		return false
	}
	recv := w.Info.Defs[f.Decl.Recv.List[0].Names[0]]
	if recv == nil {
		return false
	}
	rolesB := map[types.Object]string{recv: "$recv"}
	// in e: every variable of the receiver's type plays the receiver
	rolesE := map[types.Object]string{}
	rt := namedOf(recv.Type())
	ast.Inspect(e, func(n ast.Node) bool {
		if id, ok := n.(*ast.Ident); ok {
			if v, ok := w.Use(id).(*types.Var); ok && !v.IsField() && rt != nil && namedOf(v.Type()) == rt {
				rolesE[v] = "$recv"
			}
		}
		return true
	})
	if len(rolesE) != 1 {
		return false
	}
	return w.norm(unparen(e), rolesE) == w.norm(body, rolesB)
}

// fieldFrom: the field an expression's value comes from, looking through single-definition locals.
func (w *World) fieldFrom(e ast.Expr) *types.Var {
	if v := w.fieldOf(e); v != nil {
		return v
	}
	if e != nil && e.Pos().IsValid() {
		return w.fieldOf(w.from(e))
	}
	return nil
}

// mentions: expression contains a use of obj (field or variable or func).
func (w *World) mentions(e ast.Node, obj types.Object) bool {
	found := false
	ast.Inspect(e, func(n ast.Node) bool {
		if found {
			return false
		}
		switch x := n.(type) {
		case *ast.Ident:
			if w.Use(x) == obj {
				found = true
			}
		case *ast.SelectorExpr:
			if sel := w.Info.Selections[x]; sel != nil && sel.Obj() == obj {
				found = true
			}
		}
		return true
	})
	return found
}

// fnOf returns the function body (declaration or literal) that contains node n.
func (w *World) fnOf(n ast.Node) *Fn {
	for p := n; p != nil; p = w.parentOf(p) {
		switch x := p.(type) {
		case *ast.FuncLit:
			return w.ByLit[x]
		case *ast.FuncDecl:
			if w.declIndex == nil {
				w.declIndex = map[*ast.FuncDecl]*Fn{}
				for _, f := range w.Fns {
					if f.Decl != nil {
						w.declIndex[f.Decl] = f
					}
				}
			}
			return w.declIndex[x]
		}
	}
	return nil
}

// from follows parentheses, conversions and single-definition locals of the enclosing function.
func (w *World) from(e ast.Expr) ast.Expr {
	if f := w.fnOf(e); f != nil {
		return w.Origin(f, e)
	}
	return unparen(e)
}

// cmpRoles: the operator asserted (given that cond evaluates to val) between the operand
// satisfying isA and the operand satisfying isB, oriented as "A op B". Operands are looked at
// through single-definition locals.
func (w *World) cmpRoles(cond ast.Expr, val bool, isA, isB func(ast.Expr) bool) (token.Token, bool) {
	be, ok := unparen(cond).(*ast.BinaryExpr)
	if !ok || negOp(be.Op) == token.ILLEGAL {
		return token.ILLEGAL, false
	}
	op := be.Op
	if !val {
		op = negOp(op)
	}
	x, y := w.from(be.X), w.from(be.Y)
	match := func(p func(ast.Expr) bool, raw, org ast.Expr) bool { return p(unparen(raw)) || p(org) }
	if match(isA, be.X, x) && match(isB, be.Y, y) {
		return op, true
	}
	if match(isA, be.Y, y) && match(isB, be.X, x) {
		return swapOp(op), true
	}
	return token.ILLEGAL, false
}

// guardRel searches a guard set for a comparison between A and B and returns it oriented "A op B".
func (w *World) guardRel(gs []Guard, isA, isB func(ast.Expr) bool, skipImplicit bool) (token.Token, *Guard) {
	for i := range gs {
		if skipImplicit && gs[i].Implicit {
			continue
		}
		if op, ok := w.cmpRoles(gs[i].Cond, gs[i].Val, isA, isB); ok {
			return op, &gs[i]
		}
	}
	return token.ILLEGAL, nil
}

func (w *World) isField(f *types.Var) func(ast.Expr) bool {
	return func(e ast.Expr) bool { return w.fieldOf(e) == f }
}

func (w *World) isConst(v int64) func(ast.Expr) bool {
	return func(e ast.Expr) bool { c, ok := w.constInt(e); return ok && c == v }
}

func (w *World) isCallOf(obj types.Object) func(ast.Expr) bool {
	return func(e ast.Expr) bool { c, ok := unparen(e).(*ast.CallExpr); return ok && w.Callee(c) == obj }
}

// threeWay: cond (evaluating to val) asserts "cmpFn(first, other) op 0", where cmpFn is a
// three-way comparison (bytes.Compare, y.CompareKeys) one of whose two arguments satisfies
// isFirst. The operator is oriented so that `first` is the left argument, whatever the
// order of the call's arguments or of the comparison with zero in the source.
func (w *World) threeWay(cond ast.Expr, val bool, isFirst func(ast.Expr) bool, cmpFns ...types.Object) (token.Token, *ast.CallExpr, bool) {
	be, ok := unparen(cond).(*ast.BinaryExpr)
	if !ok {
		return token.ILLEGAL, nil, false
	}
	isCmp := func(e ast.Expr) bool {
		c, ok := unparen(e).(*ast.CallExpr)
		if !ok || len(c.Args) != 2 {
			return false
		}
		for _, o := range cmpFns {
			if w.Callee(c) == o {
				return true
			}
		}
		return false
	}
	op, ok := w.cmpRoles(cond, val, isCmp, w.isConst(0))
	if !ok {
		return token.ILLEGAL, nil, false
	}
	var call *ast.CallExpr
	for _, e := range []ast.Expr{be.X, be.Y} {
		if isCmp(e) {
			call = unparen(e).(*ast.CallExpr)
		} else if o := w.from(e); isCmp(o) {
			call = unparen(o).(*ast.CallExpr)
		}
	}
	if call == nil {
		return token.ILLEGAL, nil, false
	}
	a0, a1 := isFirst(call.Args[0]), isFirst(call.Args[1])
	switch {
	case a0 && !a1:
		return op, call, true
	case a1 && !a0:
		return swapOp(op), call, true
	}
	return token.ILLEGAL, call, false
}
