package main

// C16 (log records), C19 (bloom filter), C20 (key/header/value encodings), C21 (merge iterator).

import (
	"go/ast"
	"go/token"
	"go/types"
	"strings"
)

func init() {
	register("C16", "Decides agreement between the writers and readers of log records: (R16.1) header Encode/Decode/DecodeFrom process the same fields in the same order with the same codec, and encodeEntry/decodeEntry/safeRead.Entry copy the same five values; (R16.2) the IV used to encrypt a record is derived from the offset the record is written at and readers derive it from the record's own offset; (R16.3) the CRC covers header and body on both sides and excludes the CRC bytes; (R16.4=R08.7) replay in transaction units, and valueLog.write strips and restores the transaction bits. Does NOT decide the round trip for all field values or corruption-detection strength.", propC16)
	register("C19", "Decides the three syntactic premises from which 'a key added is never reported absent' follows: (R19.1) builder and prober compute probe positions with the same normalised expressions (delta, modulus, byte index, mask, step) and the prober returns false only on a clear bit; (R19.2) both sides agree on the number of bits and on where the probe count is stored, as linear forms in the filter length; (R19.3) the builder hashes the timestamp-less key with y.Hash and every DoesNotHave call site passes y.Hash of a timestamp-less key; a table without filter answers 'may contain'. Nothing data-dependent remains except the false-positive rate, which the property does not constrain.", propC19)
	register("C20", "Decides agreement of the internal encodings: (R20.1) version suffix width and complement constant agree between KeyWithTs, ParseTs, ParseKey, SameKey and CompareKeys, and CompareKeys orders by user key first, then suffix; (R20.2=R16.1) log header codec; (R20.3) ValueStruct Encode/EncodeTo/Decode/EncodedSize agree on field order and codec; (R20.4) valuePointer Encode/Decode copy vptrSize bytes of the same struct and maxHeaderSize bounds the varint header. Does NOT decide the round trip as a fact for all values (it follows from the agreement given the standard-library codecs).", propC20)
	register("C21", "Decides the tie-break clauses of merged iteration that other properties rely on: (R21.1) on equal keys MergeIterator.fix advances the right input and never leaves `small` on it, so the left (earlier) input wins; (R21.2) NewMergeIterator puts iters[:mid] left and iters[mid:] right at every depth, so slice order = precedence; Next skips entries equal to the current key. Does NOT decide sorted-union correctness or Seek behaviour for arbitrary inputs.", propC21)
}

// ---- C19 ----

type bloomShape struct {
	h, delta, nbits, pos *types.Var
	deltaDef, posDef     ast.Expr
	index, mask          ast.Expr
	step                 ast.Node
	bound                ast.Expr
	probe                ast.Node // the statement/expression that sets or tests the bit
}

// bloomShapeOf extracts the probe computation of a bloom function.
func bloomShapeOf(w *World, f *Fn) (*bloomShape, string) {
	s := &bloomShape{}
	// pos: a local defined as X % N
	f.walk(func(n ast.Node) bool {
		as, ok := n.(*ast.AssignStmt)
		if !ok || as.Tok != token.DEFINE || len(as.Lhs) != 1 || len(as.Rhs) != 1 {
			return true
		}
		b, ok := unparen(as.Rhs[0]).(*ast.BinaryExpr)
		if !ok {
			return true
		}
		v, _ := w.Use(as.Lhs[0].(*ast.Ident)).(*types.Var)
		switch b.Op {
		case token.REM:
			s.pos, s.posDef = v, as.Rhs[0]
			if id, ok := unparen(b.X).(*ast.Ident); ok {
				s.h, _ = w.Use(id).(*types.Var)
			}
			y := unparen(b.Y)
			if c, ok := y.(*ast.CallExpr); ok && len(c.Args) == 1 {
				y = unparen(c.Args[0])
			}
			if id, ok := y.(*ast.Ident); ok {
				s.nbits, _ = w.Use(id).(*types.Var)
			}
		case token.OR:
			l, lok := unparen(b.X).(*ast.BinaryExpr)
			rr, rok := unparen(b.Y).(*ast.BinaryExpr)
			if lok && rok && (l.Op == token.SHR || l.Op == token.SHL) && (rr.Op == token.SHR || rr.Op == token.SHL) {
				s.delta, s.deltaDef = v, as.Rhs[0]
			}
		}
		return true
	})
	if s.pos == nil || s.h == nil || s.nbits == nil || s.delta == nil {
		return nil, "probe position / delta definitions not found"
	}
	// index and mask: an IndexExpr indexed by pos/8 combined with 1<<(pos%8)
	f.walk(func(n ast.Node) bool {
		ix, ok := n.(*ast.IndexExpr)
		if !ok || !w.mentions(ix.Index, s.pos) {
			return true
		}
		s.index = ix.Index
		switch p := w.parentOf(ix).(type) {
		case *ast.AssignStmt: // filter[i] |= mask
			if p.Tok == token.OR_ASSIGN && len(p.Rhs) == 1 {
				s.mask, s.probe = p.Rhs[0], p
			}
		case *ast.BinaryExpr: // f[i] & mask
			if p.Op == token.AND {
				s.mask = p.Y
				s.probe = w.parentOf(p)
				if _, isParen := s.probe.(*ast.ParenExpr); isParen {
					s.probe = w.parentOf(s.probe)
				}
			}
		}
		return true
	})
	// step: h += delta ; bound: loop condition
	f.walk(func(n ast.Node) bool {
		switch x := n.(type) {
		case *ast.AssignStmt:
			if x.Tok == token.ADD_ASSIGN && len(x.Lhs) == 1 {
				if id, ok := x.Lhs[0].(*ast.Ident); ok && w.Use(id) == types.Object(s.h) {
					s.step = x
				}
			}
		case *ast.ForStmt:
			if x.Cond != nil && x.Body != nil && w.mentions(x.Body, s.pos) {
				s.bound = x.Cond
			}
		}
		return true
	})
	if s.index == nil || s.mask == nil || s.step == nil || s.bound == nil {
		return nil, "index / mask / step / loop bound not found"
	}
	return s, ""
}

func ruleR19_1(c *Check) {
	w := c.W
	r := c.Rule("R19.1", "E4", 6, "y.appendFilter and y.Filter.MayContain compute each probe with the same normalised expressions: delta from the hash, position = hash mod nBits, byte index, bit mask, step hash += delta; the builder sets the bit, the prober returns false only when the bit is clear",
		"any difference makes the prober look at a bit the builder never set: a present key is reported absent and reads skip the table")
	b, why := bloomShapeOf(w, w.F("y.appendFilter"))
	fb := w.F("y.appendFilter")
	if b == nil {
		panic(anchorError{"bloom builder shape: " + why})
	}
	fp := w.F("y.Filter.MayContain")
	p, why := bloomShapeOf(w, fp)
	if p == nil {
		panic(anchorError{"bloom prober shape: " + why})
	}
	roles := func(s *bloomShape) map[types.Object]string {
		return map[types.Object]string{s.h: "H", s.delta: "D", s.nbits: "N", s.pos: "P"}
	}
	cmp := func(what string, eb, ep ast.Expr) {
		nb, np := w.norm(eb, roles(b)), w.norm(ep, roles(p))
		r.Check(nb == np, fp, what+" agrees with the builder", ep, "builder computes "+nb+", prober computes "+np)
	}
	cmp("delta", b.deltaDef, p.deltaDef)
	cmp("probe position", b.posDef, p.posDef)
	cmp("byte index", b.index, p.index)
	cmp("bit mask", b.mask, p.mask)
	sb := w.norm(b.step.(*ast.AssignStmt).Rhs[0], roles(b))
	sp := w.norm(p.step.(*ast.AssignStmt).Rhs[0], roles(p))
	r.Check(sb == sp && sb == "D", fp, "step agrees with the builder", p.step, "builder steps by "+sb+", prober by "+sp)
	// builder sets, prober tests == 0 -> return false
	_, isSet := b.probe.(*ast.AssignStmt)
	r.Check(isSet, fb, "builder sets the probed bit", b.probe, "builder does not OR the mask into the filter")
	okv := false
	if be, ok := p.probe.(*ast.BinaryExpr); ok && be.Op == token.EQL {
		if v, ok := w.constInt(be.Y); ok && v == 0 {
			if is, ok := w.parentOf(be).(*ast.IfStmt); ok && len(is.Body.List) == 1 {
				if rs, ok := is.Body.List[0].(*ast.ReturnStmt); ok && len(rs.Results) == 1 {
					if tv := w.Info.Types[rs.Results[0]]; tv.Value != nil && tv.Value.String() == "false" {
						okv = true
					}
				}
			}
		}
	}
	r.Check(okv, fp, "prober returns false only on a clear bit", p.probe, "the bit test is not `f[i]&mask == 0 → return false`")
	// every `return false` in the prober is either that one or the too-short-filter guard
	fp.walk(func(n ast.Node) bool {
		rs, ok := n.(*ast.ReturnStmt)
		if !ok || len(rs.Results) != 1 {
			return true
		}
		if tv := w.Info.Types[rs.Results[0]]; tv.Value != nil && tv.Value.String() == "false" {
			gs := w.Guards(fp, rs)
			okg := false
			for _, g := range gs {
				if g.Implicit {
					continue
				}
				if be, ok := g.Cond.(*ast.BinaryExpr); ok {
					if be == p.probe {
						okg = true
					}
					// len(f) < 2 (either operand order)
					isLenCall := func(e ast.Expr) bool {
						call, ok := unparen(e).(*ast.CallExpr)
						return ok && isBuiltin(w, call, "len")
					}
					if op, ok := w.cmpRoles(be, g.Val, isLenCall, func(e ast.Expr) bool { _, isC := w.constInt(e); return isC }); ok && (op == token.LSS || op == token.LEQ) {
						okg = true
					}
				}
			}
			r.Check(okg, fp, "no other negative answer", rs, "MayContain returns false for a reason other than a clear probed bit or an empty filter")
		}
		return true
	})
	// loop bounds: j < k on both sides
	lb, lp := flatten(b.bound, token.LAND), flatten(p.bound, token.LAND)
	r.Check(len(lb) == 1 && len(lp) == 1 && lb[0].(*ast.BinaryExpr).Op == token.LSS && lp[0].(*ast.BinaryExpr).Op == token.LSS, fp, "probe loops run j < k", p.bound, "loop conditions are "+short(w, b.bound)+" / "+short(w, p.bound))
}

func ruleR19_2(c *Check) {
	w := c.W
	r := c.Rule("R19.2", "E4+E7", 4, "with L the filter length: the builder allocates nBytes+1 bytes, probes modulo 8*nBytes and stores k at index nBytes; the prober probes modulo 8*(L-1) and reads k at index L-1 — equal as linear forms for L = nBytes+1; k is clamped to [1,30] by the builder and the prober answers 'may contain' for k > 30",
		"a disagreement on the modulus or on the position of k shifts every probe")
	fb, fp := w.F("y.appendFilter"), w.F("y.Filter.MayContain")
	b, _ := bloomShapeOf(w, fb)
	p, _ := bloomShapeOf(w, fp)
	if b == nil || p == nil {
		panic(anchorError{"bloom shapes"})
	}
	// builder: symbol X = nBytes: find extend(buf, X+1)
	var nBytes *types.Var
	var allocArg ast.Expr
	for _, s := range fb.Sites(selCallName(w, "y.extend")) {
		call := s.(*ast.CallExpr)
		allocArg = call.Args[1]
		ast.Inspect(call.Args[1], func(n ast.Node) bool {
			if id, ok := n.(*ast.Ident); ok {
				if v, ok := w.Use(id).(*types.Var); ok {
					nBytes = v
				}
			}
			return true
		})
	}
	if nBytes == nil {
		panic(anchorError{"filter allocation in appendFilter"})
	}
	symB := func(e ast.Expr) bool { id, ok := e.(*ast.Ident); return ok && w.Use(id) == types.Object(nBytes) }
	aA, bA, okA := w.linear(fb, allocArg, symB, 0)
	r.Check(okA && aA == 1 && bA == 1, fb, "filter length is nBytes+1", allocArg, "allocation size is not nBytes+1")
	// the probe count stored in the filter is the number of probes the builder set: the variable
	// stored at index nBytes bounds the bit-setting loop, and it is not changed once that loop started
	var kVar *types.Var
	fb.walk(func(x ast.Node) bool {
		as, ok := x.(*ast.AssignStmt)
		if !ok || len(as.Lhs) != 1 || len(as.Rhs) != 1 {
			return true
		}
		ix, ok := unparen(as.Lhs[0]).(*ast.IndexExpr)
		if !ok || !symB(unparen(ix.Index)) {
			return true
		}
		ast.Inspect(as.Rhs[0], func(n ast.Node) bool {
			if id, ok := n.(*ast.Ident); ok {
				if v, ok := w.Use(id).(*types.Var); ok && !v.IsField() && v != nBytes {
					kVar = v
				}
			}
			return true
		})
		return true
	})
	if kVar == nil {
		r.Check(false, fb, "probe count stored at index nBytes", nil, "appendFilter does not store the probe count in the filter's last byte")
	} else {
		var loops []ast.Node
		fb.walk(func(x ast.Node) bool {
			if fs, ok := x.(*ast.ForStmt); ok && fs.Cond != nil && w.mentions(fs.Cond, kVar) {
				loops = append(loops, fs)
			}
			return true
		})
		r.Check(len(loops) >= 1, fb, "the stored probe count bounds the bit-setting loop", nil, "no loop in appendFilter is bounded by the probe count that is stored")
		for _, l := range loops {
			for _, s := range fb.Sites(selStoreVar(kVar)) {
				if s.Pos() > l.Pos() {
					r.Check(false, fb, "probe count fixed before the bits are set", s, "the probe count is changed after (or inside) the loop that sets the bits: the prober will test bits the builder never set, and report added keys as absent")
				}
			}
		}
		r.Check(true, fb, "probe count: stores examined against the bit-setting loop", nil, "")
	}
	// builder modulus: last assignment to nbits
	aN, bN, okN := w.linear(fb, ast.NewIdent("_"), symB, 99)
	_ = aN
	_ = bN
	_ = okN
	var nbDef ast.Expr
	defs := w.DefsOf(fb, b.nbits)
	for _, d := range defs {
		if nbDef == nil || d.Pos() > nbDef.Pos() {
			nbDef = d
		}
	}
	a1, b1, ok1 := w.linear(fb, nbDef, symB, 0)
	// prober: symbol L = len(f)
	recv := fp.Decl.Recv.List[0].Names[0]
	recvObj := w.Use(recv)
	symP := func(e ast.Expr) bool {
		call, ok := e.(*ast.CallExpr)
		if !ok || len(call.Args) != 1 {
			return false
		}
		id, ok := unparen(call.Fun).(*ast.Ident)
		if !ok || id.Name != "len" {
			return false
		}
		a, ok := unparen(call.Args[0]).(*ast.Ident)
		return ok && w.Use(a) == recvObj
	}
	var npDef ast.Expr
	for _, d := range w.DefsOf(fp, p.nbits) {
		npDef = d
	}
	a2, b2, ok2 := w.linear(fp, npDef, symP, 0)
	// substitute L = X+1: a2*(X+1)+b2 = a2*X + (a2+b2)
	r.Check(ok1 && ok2 && a1 == a2 && b1 == a2+b2, fp, "modulus agrees (8*nBytes = 8*(L-1))", npDef,
		"builder modulus "+short(w, nbDef)+" vs prober modulus "+short(w, npDef))
	// k position: builder `filter[X] = uint8(k)`, prober `k := f[L-1]`
	var kIdxB, kIdxP ast.Expr
	fb.walk(func(n ast.Node) bool {
		if as, ok := n.(*ast.AssignStmt); ok && as.Tok == token.ASSIGN && len(as.Lhs) == 1 {
			if ix, ok := as.Lhs[0].(*ast.IndexExpr); ok && !w.mentions(ix.Index, b.pos) {
				kIdxB = ix.Index
			}
		}
		return true
	})
	fp.walk(func(n ast.Node) bool {
		if as, ok := n.(*ast.AssignStmt); ok && as.Tok == token.DEFINE && len(as.Rhs) == 1 {
			if ix, ok := unparen(as.Rhs[0]).(*ast.IndexExpr); ok {
				if id, ok := unparen(ix.X).(*ast.Ident); ok && w.Use(id) == recvObj {
					kIdxP = ix.Index
				}
			}
		}
		return true
	})
	if kIdxB == nil || kIdxP == nil {
		r.Check(false, fp, "probe count position", nil, "cannot find where k is stored/read")
	} else {
		a3, b3, ok3 := w.linear(fb, kIdxB, symB, 0)
		a4, b4, ok4 := w.linear(fp, kIdxP, symP, 0)
		r.Check(ok3 && ok4 && a3 == a4 && b3 == a4+b4, fp, "probe count stored and read at the same index", kIdxP, "builder index "+short(w, kIdxB)+" vs prober index "+short(w, kIdxP))
	}
	// clamp: builder caps k at 30; prober returns true for k > 30
	capOK := false
	// (whatever the spelling — if, switch case, operands swapped: an assignment of the constant 30
	// that is guarded by `x > 30` for the variable assigned)
	fb.walk(func(n ast.Node) bool {
		as, ok := n.(*ast.AssignStmt)
		if !ok || len(as.Lhs) != 1 || len(as.Rhs) != 1 {
			return true
		}
		if v, isC := w.constInt(as.Rhs[0]); !isC || v != 30 {
			return true
		}
		lid, ok := unparen(as.Lhs[0]).(*ast.Ident)
		if !ok {
			return true
		}
		isVar := func(e ast.Expr) bool { id, ok := unparen(e).(*ast.Ident); return ok && w.Use(id) == w.Use(lid) }
		if op, g := w.guardRel(w.Guards(fb, as), isVar, w.isConst(30), false); g != nil && op == token.GTR {
			capOK = true
		}
		if op, g := w.guardRel(w.Guards(fb, as), isVar, w.isConst(31), false); g != nil && op == token.GEQ {
			capOK = true
		}
		return true
	})
	r.Check(capOK, fb, "builder clamps k to 30", nil, "no `k > 30` clamp in appendFilter")
}

func ruleR19_3(c *Check) {
	w := c.W
	r := c.Rule("R19.3", "E3+E4", 5, "Builder.addHelper adds y.Hash(y.ParseKey(key)); every Table.DoesNotHave call site passes y.Hash of a timestamp-less key (a ParseKey result, or the iterator prefix under prefixIsKey); DoesNotHave answers false when the table has no filter and otherwise the negation of MayContain",
		"hashing the key with its version suffix on one side only makes every lookup miss the filter bit")
	hash := w.Func("y.Hash")
	pk := w.Func("y.ParseKey")
	ah := w.F("table.Builder.addHelper")
	kh := w.Field("table.Builder.keyHashes")
	n := 0
	for _, s := range ah.Sites(selStore(kh)) {
		n++
		okv := false
		ast.Inspect(s, func(m ast.Node) bool {
			if call, ok := m.(*ast.CallExpr); ok && w.Callee(call) == hash && len(call.Args) == 1 && w.isCallTo(w.Origin(ah, call.Args[0]), pk) {
				okv = true
			}
			return true
		})
		r.Check(okv, ah, "builder hashes the timestamp-less key", s, "keyHashes does not receive y.Hash(y.ParseKey(key))")
	}
	r.Exists(n >= 1, ah, "key hash recorded", nil, "addHelper does not append to keyHashes")
	// the filter is built from keyHashes
	built := false
	for _, f := range w.Fns {
		if shortPkg(f.Pkg) == "table" && len(f.Sites(selCallName(w, "y.NewFilter"))) > 0 {
			for _, s := range f.Sites(selCallName(w, "y.NewFilter")) {
				if w.mentions(s, kh) {
					built = true
				}
			}
		}
	}
	r.Check(built, ah, "filter built from keyHashes", nil, "no y.NewFilter(b.keyHashes, …) in package table")
	dnh := w.Func("table.Table.DoesNotHave")
	prefix := w.Field("badger.IteratorOptions.Prefix")
	pik := w.Field("badger.IteratorOptions.prefixIsKey")
	var k keyer
	sites := 0
	for _, o := range allSites(w, "badger", selPred("DoesNotHave", func(w *World, f *Fn, n ast.Node) bool {
		call, ok := n.(*ast.CallExpr)
		if !ok {
			return false
		}
		fn, ok := w.Callee(call).(*types.Func)
		return ok && fn.Name() == "DoesNotHave"
	})) {
		sites++
		call := o.Node.(*ast.CallExpr)
		arg := w.Origin(o.SiteFn, call.Args[0])
		hc, ok := unparen(arg).(*ast.CallExpr)
		okv := false
		why := "argument is " + short(w, arg)
		if ok && w.Callee(hc) == hash && len(hc.Args) == 1 {
			src := w.Origin(o.SiteFn, hc.Args[0])
			switch {
			case w.isCallTo(src, pk):
				// ParseKey strips the 8 version bytes: it must be applied to an internal key, never to
				// the iterator's prefix, which is a user key already
				okv = true
				if pc, isCall := unparen(src).(*ast.CallExpr); isCall && len(pc.Args) == 1 && w.mentions(w.Origin(o.SiteFn, pc.Args[0]), prefix) {
					okv = false
					why = "ParseKey applied to opt.Prefix, a user key: the last 8 bytes of the key are cut off before hashing"
				}
			case w.fieldOf(src) == prefix:
				// only valid when the prefix is a whole key: must be under prefixIsKey
				for _, g := range w.Guards(o.SiteFn, call) {
					if w.fieldOf(g.Cond) == pik && g.Val {
						okv = true
					}
				}
				// `opt.prefixIsKey && t.DoesNotHave(...)` in one condition
				for p := w.parentOf(call); p != nil && !okv; p = w.parentOf(p) {
					if be, ok := p.(*ast.BinaryExpr); ok && be.Op == token.LAND && w.fieldOf(be.X) == pik {
						okv = true
					}
					if _, ok := p.(ast.Stmt); ok {
						break
					}
				}
				if !okv {
					// the hash may be computed once before a loop that is only reached when prefixIsKey (early return otherwise)
					for _, g := range w.Guards(o.SiteFn, w.enclosingStmt(call)) {
						if w.fieldOf(g.Cond) == pik && g.Val {
							okv = true
						}
					}
				}
				why = "hash of opt.Prefix used without prefixIsKey"
			}
		}
		r.Check(okv, o.SiteFn, k.key("lookup hashes a timestamp-less key", w, call), call, why)
	}
	r.Exists(sites >= 3, nil, "DoesNotHave call sites", nil, "expected levelHandler.get, pickTable and pickTables")
	_ = dnh
	d := w.F("table.Table.DoesNotHave")
	hb := w.Field("table.Table.hasBloomFilter")
	mc := w.Func("y.Filter.MayContain")
	for _, e := range d.allExits() {
		rs := e.Node.(*ast.ReturnStmt)
		x := unparen(rs.Results[0])
		if tv := w.Info.Types[x]; tv.Value != nil {
			gs := w.Guards(d, rs)
			isMC := func(e ast.Expr) bool { return w.isCallTo(w.Origin(d, e), mc) }
			noFilter := HasGuard(gs, false, func(e ast.Expr) bool { return w.fieldOf(e) == hb }) != nil
			switch tv.Value.String() {
			case "false":
				// no filter, or the filter says "may contain"
				okv := noFilter || HasGuard(gs, true, isMC) != nil
				r.Check(okv, d, "no filter means 'may contain'", rs, "`false` returned neither under !hasBloomFilter nor under MayContain")
			default:
				// "does not have" only when the filter itself said so
				okv := HasGuard(gs, false, isMC) != nil
				r.Check(okv, d, "answer is the negation of MayContain", rs, "`true` returned without MayContain having answered false")
			}
			continue
		}
		u, ok := x.(*ast.UnaryExpr)
		okv := ok && u.Op == token.NOT && w.isCallTo(w.Origin(d, u.X), mc)
		r.Check(okv, d, "answer is the negation of MayContain", rs, "DoesNotHave returns "+short(w, x))
	}
}

// R19.4: whether a table has a filter is read from the table, not from today's options.
func ruleR19_4(c *Check) {
	w := c.W
	r := c.Rule("R19.4", "E3+E4", 3, "a table knows whether it has a bloom filter from its own index (Table.hasBloomFilter is assigned from the length of index.BloomFilterBytes()); Options.BloomFalsePositive — a build-time setting that can differ between the session that wrote a table and the one that reads it — is used only by the Builder; DoesNotHave probes only under hasBloomFilter",
		"a table written without a filter and re-opened with filters enabled (the default) would probe an empty filter, which answers 'absent' for every key: every Get and key iterator skips the table and its keys disappear after re-open")
	hb := w.Field("table.Table.hasBloomFilter")
	bfp := w.Field("table.Options.BloomFalsePositive")
	n := 0
	for _, o := range allStores(w, hb) {
		as, ok := o.Node.(*ast.AssignStmt)
		if !ok || len(as.Rhs) != 1 {
			continue
		}
		n++
		fromFile := false
		var look func(e ast.Expr, depth int)
		look = func(e ast.Expr, depth int) {
			ast.Inspect(e, func(m ast.Node) bool {
				switch x := m.(type) {
				case *ast.CallExpr:
					if w.Callee(x) != nil && w.Callee(x).Name() == "BloomFilterBytes" {
						fromFile = true
					}
				case *ast.Ident:
					// a local holding (part of) the expression
					if depth < 3 {
						if org := w.Origin(o.SiteFn, x); org != nil && unparen(org) != ast.Expr(x) {
							look(org, depth+1)
						}
					}
				}
				return true
			})
		}
		look(as.Rhs[0], 0)
		r.Check(fromFile && !w.mentions(as.Rhs[0], bfp), o.SiteFn, "filter presence read from the table's index", as, "hasBloomFilter is assigned "+short(w, as.Rhs[0])+", which is not derived from the stored filter bytes")
	}
	r.Exists(n >= 1, nil, "hasBloomFilter assignment", nil, "Table.hasBloomFilter is never assigned")
	uses := 0
	for _, o := range allSites(w, "", selUse(bfp)) {
		root := o.SiteFn.Root()
		if root.Obj == nil {
			continue
		}
		uses++
		okUse := shortPkg(o.SiteFn.Pkg) != "table"
		if sig, _ := root.Obj.Type().(*types.Signature); sig != nil && sig.Recv() != nil && namedIs(sig.Recv().Type(), modPath+"/table", "Builder") {
			okUse = true
		}
		if root.Name == "table.NewTableBuilder" {
			okUse = true
		}
		r.Check(okUse, o.SiteFn, "BloomFalsePositive consulted only when building", o.Node, "the table reader consults the current BloomFalsePositive setting: tables written under another setting are misread")
	}
	r.Exists(uses >= 1, nil, "BloomFalsePositive uses", nil, "Options.BloomFalsePositive is not used at all")
	dn := w.F("table.Table.DoesNotHave")
	for _, s := range dn.Sites(selPred("MayContain", func(w *World, fn *Fn, n ast.Node) bool {
		call, ok := n.(*ast.CallExpr)
		return ok && w.Callee(call) != nil && w.Callee(call).Name() == "MayContain"
	})) {
		okG := HasGuard(w.Guards(dn, s), true, func(e ast.Expr) bool { return w.fieldOf(e) == hb }) != nil
		r.Check(okG, dn, "filter probed only when the table has one", s, "MayContain is evaluated without hasBloomFilter being true")
	}
}

func propC19(c *Check) {
	ruleR19_1(c)
	ruleR19_2(c)
	ruleR19_3(c)
	ruleR19_4(c)
	ruleR18_5(c) // every entry's key hash is recorded (unconditionally) and given to the filter
}

// ---- C20 / C16 codecs ----

func ruleR16_1(c *Check) {
	w := c.W
	r := c.Rule("R16.1", "E4", 6, "badger.header: Encode, Decode and DecodeFrom process meta, userMeta (raw bytes) then klen, vlen, expiresAt (uvarint) in the same order; encodeEntry fills the header from the entry's key/value lengths, ExpiresAt, meta, UserMeta and decodeEntry / safeRead.Entry copy meta, UserMeta, ExpiresAt back and slice key/value by klen/vlen",
		"a field written in a different order or codec than it is read shifts every later field of every record")
	st := w.Named("badger.header").Underlying().(*types.Struct)
	enc := w.codecSteps(w.F("badger.header.Encode"), st)
	dec := w.codecSteps(w.F("badger.header.Decode"), st)
	dfr := w.codecSteps(w.F("badger.header.DecodeFrom"), st)
	r.Check(len(enc) == st.NumFields(), w.F("badger.header.Encode"), "encoder covers every header field once", nil, "encoder steps: "+fmtSteps(enc))
	r.Check(strings.Join(enc, ",") == strings.Join(dec, ","), w.F("badger.header.Decode"), "Decode mirrors Encode", nil, "Encode "+fmtSteps(enc)+" vs Decode "+fmtSteps(dec))
	r.Check(strings.Join(enc, ",") == strings.Join(dfr, ","), w.F("badger.header.DecodeFrom"), "DecodeFrom mirrors Encode", nil, "Encode "+fmtSteps(enc)+" vs DecodeFrom "+fmtSteps(dfr))
	// encodeEntry header literal
	ee := w.F("badger.logFile.encodeEntry")
	want := map[string]func(ast.Expr) bool{
		"klen":      func(e ast.Expr) bool { return w.mentions(e, w.Field("badger.Entry.Key")) },
		"vlen":      func(e ast.Expr) bool { return w.mentions(e, w.Field("badger.Entry.Value")) },
		"expiresAt": func(e ast.Expr) bool { return w.fieldOf(e) == w.Field("badger.Entry.ExpiresAt") },
		"meta":      func(e ast.Expr) bool { return w.fieldOf(e) == w.Field("badger.Entry.meta") },
		"userMeta":  func(e ast.Expr) bool { return w.fieldOf(e) == w.Field("badger.Entry.UserMeta") },
	}
	seen := map[string]bool{}
	ee.walk(func(n ast.Node) bool {
		cl, ok := n.(*ast.CompositeLit)
		if !ok || !isNamedType(w.TypeOf(cl), "header") {
			return true
		}
		for _, el := range cl.Elts {
			kv := el.(*ast.KeyValueExpr)
			name := kv.Key.(*ast.Ident).Name
			if p, ok := want[name]; ok {
				seen[name] = p(kv.Value)
			}
		}
		return false
	})
	for name := range want {
		r.Check(seen[name], ee, "header."+name+" filled from the entry", nil, "encodeEntry does not set header."+name+" from the corresponding entry field")
	}
	// readers copy meta/userMeta/expiresAt
	for _, fn := range []string{"badger.logFile.decodeEntry", "badger.safeRead.Entry"} {
		f := w.F(fn)
		pairs := map[*types.Var]*types.Var{w.Field("badger.Entry.meta"): w.Field("badger.header.meta"), w.Field("badger.Entry.UserMeta"): w.Field("badger.header.userMeta"), w.Field("badger.Entry.ExpiresAt"): w.Field("badger.header.expiresAt")}
		got := map[*types.Var]bool{}
		f.walk(func(n ast.Node) bool {
			switch x := n.(type) {
			case *ast.KeyValueExpr:
				if id, ok := x.Key.(*ast.Ident); ok {
					if ef, ok := w.Use(id).(*types.Var); ok && pairs[ef] != nil && w.fieldOf(x.Value) == pairs[ef] {
						got[ef] = true
					}
				}
			case *ast.AssignStmt:
				if len(x.Lhs) == 1 && len(x.Rhs) == 1 {
					if ef := w.fieldOf(x.Lhs[0]); ef != nil && pairs[ef] != nil && w.fieldOf(x.Rhs[0]) == pairs[ef] {
						got[ef] = true
					}
				}
			}
			return true
		})
		for ef := range pairs {
			r.Check(got[ef], f, "Entry."+ef.Name()+" restored from the header", nil, "reader does not copy header field into Entry."+ef.Name())
		}
		// key/value sliced by klen (and vlen)
		klen := w.Field("badger.header.klen")
		okK := false
		f.walk(func(n ast.Node) bool {
			if se, ok := n.(*ast.SliceExpr); ok && se.High != nil && se.Low == nil && w.fieldOf(se.High) == klen {
				okK = true
			}
			return true
		})
		r.Check(okK, f, "key is the first klen bytes of the body", nil, "no body[:h.klen] slice")
	}
}

func ruleR16_2(c *Check) {
	w := c.W
	r := c.Rule("R16.2", "E4", 5, "IV agreement: encodeEntry encrypts with generateIV(offset) where callers pass the offset the record is written at (lf.writeAt; the value pointer's Offset = vlog.woffset()); readers decrypt with generateIV of the record's own offset (safeRead.recordOffset, vp.Offset, decodeEntry's offset)",
		"CTR decryption with an IV derived from a different offset yields garbage that passes the CRC (the CRC covers ciphertext)")
	giv := w.Func("badger.logFile.generateIV")
	ee := w.F("badger.logFile.encodeEntry")
	sig := ee.Obj.Type().(*types.Signature)
	var offParam *types.Var
	for i := 0; i < sig.Params().Len(); i++ {
		if b, ok := sig.Params().At(i).Type().(*types.Basic); ok && b.Kind() == types.Uint32 {
			offParam = sig.Params().At(i)
		}
	}
	n := 0
	for _, s := range ee.Sites(selCall(giv)) {
		n++
		arg := s.(*ast.CallExpr).Args[0]
		id, ok := unparen(arg).(*ast.Ident)
		r.Check(ok && offParam != nil && w.Use(id) == types.Object(offParam), ee, "record encrypted with the IV of its offset parameter", s, "generateIV argument is "+short(w, arg))
	}
	r.Exists(n >= 1, ee, "encryption uses generateIV", nil, "encodeEntry no longer calls generateIV")
	// callers of encodeEntry
	writeAt := w.Field("badger.logFile.writeAt")
	vpOff := w.Field("badger.valuePointer.Offset")
	var k keyer
	for _, cs := range w.CG().CallSitesOf(ee) {
		call, ok := cs.Node.(*ast.CallExpr)
		if !ok {
			continue
		}
		arg := call.Args[2]
		okv := w.fieldOf(arg) == writeAt
		if !okv && w.fieldOf(arg) == vpOff {
			// p.Offset must have been set from vlog.woffset() and the record is then written at that offset
			root := cs.Caller
			for _, st := range root.Sites(selStore(vpOff)) {
				if as, ok := st.(*ast.AssignStmt); ok && w.isCallTo(w.Origin(root, rhsFor(w, as, vpOff)), w.Func("badger.valueLog.woffset")) {
					okv = true
				}
			}
		}
		if !okv {
			// a local holding vlog.woffset(), the same local the pointer's Offset is assigned from
			if aid, isId := unparen(arg).(*ast.Ident); isId && w.isCallTo(w.Origin(cs.Caller, arg), w.Func("badger.valueLog.woffset")) {
				for _, st := range cs.Caller.Sites(selStore(vpOff)) {
					if as, ok := st.(*ast.AssignStmt); ok {
						if rid, isR := unparen(rhsFor(w, as, vpOff)).(*ast.Ident); isR && w.Use(rid) == w.Use(aid) {
							okv = true
						}
					}
				}
			}
		}
		r.Check(okv, cs.Caller, k.key("encodeEntry called with the write offset", w, call), call, "offset argument is "+short(w, arg))
	}
	// writeEntry copies the record to lf.Data[lf.writeAt:]
	we := w.F("badger.logFile.writeEntry")
	okv := false
	we.walk(func(n ast.Node) bool {
		if se, ok := n.(*ast.SliceExpr); ok && se.Low != nil && w.fieldOf(se.Low) == writeAt && w.fieldOf(se.X) == w.Field("z.MmapFile.Data") {
			okv = true
		}
		return true
	})
	r.Check(okv, we, "WAL record copied to Data[writeAt:]", nil, "writeEntry does not place the record at lf.writeAt")
	// readers
	dk := w.F("badger.logFile.decryptKV")
	for _, s := range dk.Sites(selCall(giv)) {
		arg := s.(*ast.CallExpr).Args[0]
		id, ok := unparen(arg).(*ast.Ident)
		r.Check(ok && isParam(dk, w.Use(id).(*types.Var)), dk, "decryptKV derives the IV from its offset parameter", s, "generateIV argument is "+short(w, arg))
	}
	ro := w.Field("badger.safeRead.recordOffset")
	for _, cs := range w.CG().CallSitesOf(dk) {
		call, ok := cs.Node.(*ast.CallExpr)
		if !ok {
			continue
		}
		arg := call.Args[1]
		okv := false
		switch {
		case w.fieldOf(arg) == ro, w.fieldOf(arg) == vpOff:
			okv = true
		default:
			if id, ok := unparen(arg).(*ast.Ident); ok {
				if v, ok := w.Use(id).(*types.Var); ok && isParam(cs.Caller, v) {
					okv = true
				}
			}
		}
		r.Check(okv, cs.Caller, k.key("record decrypted with the IV of its own offset", w, call), call, "offset argument is "+short(w, arg))
	}
	// generateIV = baseIV (12 bytes) ++ big-endian offset
	g := w.F("badger.logFile.generateIV")
	r.Check(w.mentions(g.Body, w.Field("badger.logFile.baseIV")) && len(g.Sites(selCall(w.Func("binary.bigEndian.PutUint32")))) == 1, g, "IV = baseIV ++ offset", nil, "generateIV no longer combines baseIV with the offset")
}

func ruleR16_3(c *Check) {
	w := c.W
	r := c.Rule("R16.3", "E4", 4, "CRC coverage: encodeEntry feeds header and (encrypted) key/value through one MultiWriter into buffer and CRC-32C and appends the sum to the buffer only; safeRead.Entry reads header and body through the hashing reader and the CRC bytes from the raw reader",
		"if the CRC bytes were hashed, or part of the record were not, every record would fail (or corruption would pass) verification")
	ee := w.F("badger.logFile.encodeEntry")
	// writer variable: io.MultiWriter(buf, hash)
	var mw, hashV, bufV types.Object
	ee.walk(func(n ast.Node) bool {
		as, ok := n.(*ast.AssignStmt)
		if !ok || len(as.Rhs) != 1 || len(as.Lhs) != 1 {
			return true
		}
		call, ok := unparen(as.Rhs[0]).(*ast.CallExpr)
		if !ok {
			return true
		}
		if w.Callee(call) == types.Object(w.Func("io.MultiWriter")) {
			mw = w.Use(as.Lhs[0].(*ast.Ident))
			for _, a := range call.Args {
				if id, ok := unparen(a).(*ast.Ident); ok {
					if isNamedType(w.Use(id).Type(), "Buffer") {
						bufV = w.Use(id)
					} else {
						hashV = w.Use(id)
					}
				}
			}
		}
		return true
	})
	if mw == nil || hashV == nil || bufV == nil {
		r.Check(false, ee, "MultiWriter over buffer and hash", nil, "encodeEntry no longer tees into buffer and CRC")
		return
	}
	// every Write of record content goes through mw; the crc bytes go to buf directly
	var k keyer
	ee.walk(func(n ast.Node) bool {
		call, ok := n.(*ast.CallExpr)
		if !ok {
			return true
		}
		sel, ok := unparen(call.Fun).(*ast.SelectorExpr)
		if ok && sel.Sel.Name == "Write" {
			id, _ := unparen(sel.X).(*ast.Ident)
			if id == nil {
				return true
			}
			target := w.Use(id)
			isCRC := w.someDefMentions(ee, call.Args[0], hashV) || usesLocalFrom(w, ee, call.Args[0], hashV) || strings.Contains(short(w, call.Args[0]), "crc")
			if isCRC {
				r.Check(target == bufV, ee, k.key("CRC bytes bypass the hash", w, call), call, "checksum written through the hashing writer")
			} else {
				r.Check(target == mw, ee, k.key("record bytes are hashed", w, call), call, "record content written to "+id.Name+" instead of the tee writer")
			}
		}
		if w.Callee(call) == types.Object(w.Func("y.XORBlockStream")) {
			id, _ := unparen(call.Args[0]).(*ast.Ident)
			r.Check(id != nil && w.Use(id) == mw, ee, "ciphertext is hashed", call, "encrypted body not written through the tee writer")
		}
		return true
	})
	// reader
	se := w.F("badger.safeRead.Entry")
	var tee types.Object
	se.walk(func(n ast.Node) bool {
		if as, ok := n.(*ast.AssignStmt); ok && len(as.Rhs) == 1 && w.isCallTo(as.Rhs[0], w.Func("badger.newHashReader")) {
			tee = w.Use(as.Lhs[0].(*ast.Ident))
		}
		return true
	})
	if tee == nil {
		r.Check(false, se, "hashing reader", nil, "safeRead.Entry no longer wraps the reader with newHashReader")
		return
	}
	reads := se.Sites(selCall(w.Func("io.ReadFull")))
	r.Exists(len(reads) == 2, se, "body and CRC reads", nil, "expected two io.ReadFull calls")
	for i, s := range reads {
		call := s.(*ast.CallExpr)
		id, _ := unparen(call.Args[0]).(*ast.Ident)
		if i == 0 {
			r.Check(id != nil && w.Use(id) == tee, se, "body read through the hashing reader", call, "body read bypasses the hash")
		} else {
			r.Check(id != nil && w.Use(id) != tee, se, "CRC bytes read from the raw reader", call, "stored checksum is fed into the hash")
		}
	}
	for _, s := range se.Sites(selCallName(w, "badger.header.DecodeFrom")) {
		id, _ := unparen(s.(*ast.CallExpr).Args[0]).(*ast.Ident)
		r.Check(id != nil && w.Use(id) == tee, se, "header read through the hashing reader", s, "header read bypasses the hash")
	}
}

func ruleR16_4(c *Check) {
	w := c.W
	r := c.Rule("R16.4", "E1", 3, "valueLog.write strips bitTxn|bitFinTxn from the entry before encodeEntry and restores the saved meta afterwards on the success path (the same entry object is written to the WAL next)",
		"transaction bits in the value log make GC's scan stop at the first record; losing them for the WAL breaks transaction framing on replay")
	f := w.F("badger.valueLog.write")
	meta := w.Field("badger.Entry.meta")
	bitTxn, bitFin := w.Obj("badger.bitTxn"), w.Obj("badger.bitFinTxn")
	var strip, restore ast.Node
	var saved *types.Var
	f.walk(func(n ast.Node) bool {
		as, ok := n.(*ast.AssignStmt)
		if !ok || len(as.Lhs) != 1 || len(as.Rhs) != 1 {
			return true
		}
		if w.fieldOf(as.Lhs[0]) == meta {
			if w.mentions(as.Rhs[0], bitTxn) && w.mentions(as.Rhs[0], bitFin) {
				strip = as
			} else if id, ok := unparen(as.Rhs[0]).(*ast.Ident); ok {
				restore = as
				saved, _ = w.Use(id).(*types.Var)
			}
		}
		return true
	})
	r.Check(strip != nil, f, "transaction bits stripped for the value log", nil, "no `e.meta = e.meta &^ (bitTxn|bitFinTxn)`")
	r.Check(restore != nil && saved != nil, f, "meta restored", nil, "no `e.meta = <saved>`")
	if strip == nil || restore == nil || saved == nil {
		return
	}
	okSaved := false
	for _, d := range w.DefsOf(f, saved) {
		if w.fieldOf(d) == meta && d.End() <= strip.Pos() {
			okSaved = true
		}
	}
	r.Check(okSaved, f, "meta saved before stripping", strip, "the saved value is not taken from e.meta before the strip")
	enc := selCallName(w, "badger.logFile.encodeEntry")
	r.DomAll(f, "encodeEntry after strip", enc, 0, selNode(strip), 0)
	r.FollowAll(f, "meta restored after encodeEntry", enc, 0, selNode(restore), 0, exitSuccess, excuseErrNonNil(w))
}

// R16.5: the reader accepts every record the writer can produce, and pairs each entry of a
// transaction with its own value pointer.
func ruleR16_5(c *Check) {
	w := c.W
	r := c.Rule("R16.5", "E7+E4", 4, "safeRead.Entry treats a key length as a torn tail (errTruncate) only above a bound that is at least the largest key the write path accepts plus its 8-byte version suffix; logFile.iterate keeps the entries of an open transaction and their value pointers in two buffers that are appended to together, reset together, and delivered pairwise (fn(*entries[i], vptrs[i]))",
		"a plausibility bound below the writer's maximum makes replay stop at the first large key and drop every later record; a pointer buffer that is not reset with the entry buffer hands the pointers of an earlier transaction to the entries of a later one")
	// (a) the plausibility bound
	md := w.F("badger.Txn.modify")
	isKeyLen := w.lenOf(w.isField(w.Field("badger.Entry.Key")))
	var maxKey int64 = -1
	md.walk(func(x ast.Node) bool {
		be, ok := x.(*ast.BinaryExpr)
		if !ok || (be.Op != token.GTR && be.Op != token.GEQ && be.Op != token.LSS && be.Op != token.LEQ) {
			return true
		}
		if isKeyLen(unparen(be.X)) {
			if v, isC := w.constInt(be.Y); isC && v > maxKey {
				maxKey = v
			}
		}
		if isKeyLen(unparen(be.Y)) {
			if v, isC := w.constInt(be.X); isC && v > maxKey {
				maxKey = v
			}
		}
		return true
	})
	if maxKey <= 0 {
		panic(anchorError{"key-size limit of Txn.modify"})
	}
	en := w.F("badger.safeRead.Entry")
	klen := w.Field("badger.header.klen")
	isKlen := func(e ast.Expr) bool {
		e = unparen(e)
		for {
			if w.fieldOf(e) == klen {
				return true
			}
			call, ok := e.(*ast.CallExpr)
			if !ok || len(call.Args) != 1 {
				return false
			}
			if tv, ok := w.Info.Types[call.Fun]; !ok || !tv.IsType() {
				return false
			}
			e = unparen(call.Args[0])
		}
	}
	bounds := 0
	for _, e := range en.allExits() {
		rs, ok := e.Node.(*ast.ReturnStmt)
		if !ok || len(rs.Results) != 2 {
			continue
		}
		if id, isId := unparen(rs.Results[1]).(*ast.Ident); !isId || w.Use(id) != w.Obj("badger.errTruncate") {
			continue
		}
		for _, g := range w.Guards(en, rs) {
			if g.Implicit {
				continue
			}
			var bound int64
			op, ok := w.cmpRoles(g.Cond, g.Val, isKlen, func(e ast.Expr) bool {
				v, isC := w.constInt(e)
				if isC {
					bound = v
				}
				return isC
			})
			if !ok {
				continue
			}
			bounds++
			// rejected when klen > bound (or >= bound): the smallest rejected length must exceed maxKey+8
			smallestRejected := bound + 1
			if op == token.GEQ {
				smallestRejected = bound
			}
			okb := (op == token.GTR || op == token.GEQ) && smallestRejected > maxKey+8
			r.Check(okb, en, "key-length plausibility bound admits every key the write path accepts", rs, "safeRead.Entry reports a torn tail for key lengths from "+itoa(smallestRejected)+", but Txn.modify accepts keys up to "+itoa(maxKey)+" bytes (+8 for the version)")
		}
	}
	r.Exists(bounds >= 1, en, "key-length bound", nil, "safeRead.Entry has no plausibility bound on the key length")
	// (b) the two buffers of an open transaction
	it := w.F("badger.logFile.iterate")
	var ents, ptrs *types.Var
	it.walk(func(x ast.Node) bool {
		vs, ok := x.(*ast.ValueSpec)
		if !ok {
			return true
		}
		for _, name := range vs.Names {
			v, _ := w.Info.Defs[name].(*types.Var)
			if v == nil {
				continue
			}
			if sl, isSl := v.Type().Underlying().(*types.Slice); isSl {
				if namedIs(sl.Elem(), modPath, "Entry") {
					ents = v
				}
				if namedIs(sl.Elem(), modPath, "valuePointer") {
					ptrs = v
				}
			}
		}
		return true
	})
	if ents == nil || ptrs == nil {
		panic(anchorError{"entry and value-pointer buffers of logFile.iterate"})
	}
	kindOf := func(s ast.Node, v *types.Var) string {
		as, ok := s.(*ast.AssignStmt)
		if !ok || len(as.Rhs) != 1 {
			return "other"
		}
		switch x := unparen(as.Rhs[0]).(type) {
		case *ast.CallExpr:
			if isBuiltin(w, x, "append") {
				return "append"
			}
		case *ast.SliceExpr:
			if hv, isC := w.constInt(x.High); x.High != nil && isC && hv == 0 {
				return "reset"
			}
		}
		if id, ok := unparen(as.Rhs[0]).(*ast.Ident); ok && id.Name == "nil" {
			return "reset"
		}
		return "other"
	}
	blockOf := func(n ast.Node) ast.Node {
		for p := w.parentOf(n); p != nil; p = w.parentOf(p) {
			switch p.(type) {
			case *ast.BlockStmt, *ast.CaseClause:
				return p
			}
		}
		return nil
	}
	pairs := 0
	for _, pair := range [][2]*types.Var{{ents, ptrs}, {ptrs, ents}} {
		for _, s := range it.Sites(selStoreVar(pair[0])) {
			kd := kindOf(s, pair[0])
			mate := false
			for _, t := range it.Sites(selStoreVar(pair[1])) {
				if blockOf(t) == blockOf(s) && kindOf(t, pair[1]) == kd {
					mate = true
				}
			}
			pairs++
			r.Check(mate && kd != "other", it, "entry and pointer buffers change together ("+kd+")", s, "`"+pair[0].Name()+"` is changed ("+kd+") without the same change of `"+pair[1].Name()+"` in the same block")
		}
	}
	r.Exists(pairs >= 4, it, "buffer updates", nil, "expected an append and a reset of both buffers")
	// delivery: fn(*e, vp) in a range over the entries with vp = ptrs[i]
	delivered := false
	// fn(*e, vp) with vp = ptrs[i] and e = ents[i] for the same i: e is the value of a
	// `for i, e := range ents`, or ents[i] itself (index loop)
	indexOf := func(e ast.Expr, buf *types.Var) types.Object {
		ix, ok := unparen(w.Origin(it, e)).(*ast.IndexExpr)
		if !ok {
			return nil
		}
		xid, ok1 := unparen(ix.X).(*ast.Ident)
		iid, ok2 := unparen(ix.Index).(*ast.Ident)
		if ok1 && ok2 && w.Use(xid) == types.Object(buf) {
			return w.Use(iid)
		}
		return nil
	}
	it.walk(func(x ast.Node) bool {
		call, ok := x.(*ast.CallExpr)
		if !ok || len(call.Args) != 2 {
			return true
		}
		pi := indexOf(call.Args[1], ptrs)
		if pi == nil {
			return true
		}
		a0 := unparen(call.Args[0])
		if st, isStar := a0.(*ast.StarExpr); isStar {
			a0 = unparen(st.X)
		}
		if ei := indexOf(a0, ents); ei != nil && ei == pi {
			delivered = true
			return true
		}
		// range value of a loop over ents whose key is the pointer index
		if id, isId := a0.(*ast.Ident); isId {
			for p := w.parentOf(call); p != nil; p = w.parentOf(p) {
				rs, isRange := p.(*ast.RangeStmt)
				if !isRange {
					continue
				}
				xid, ok1 := unparen(rs.X).(*ast.Ident)
				kid, ok2 := rs.Key.(*ast.Ident)
				vid, ok3 := rs.Value.(*ast.Ident)
				if ok1 && ok2 && ok3 && w.Use(xid) == types.Object(ents) && w.Info.Defs[kid] == pi && w.Info.Defs[vid] == w.Use(id) {
					delivered = true
				}
				break
			}
		}
		return true
	})
	r.Check(delivered, it, "entries delivered with the pointer at the same index", nil, "the delivery loop does not pass vptrs[i] with entries[i]")
}

// R16.6: WAL replay puts back every entry it is given, whole.
func ruleR16_6(c *Check) {
	w := c.W
	r := c.Rule("R16.6", "E1+E4", 5, "memTable.replayFunction: every entry the log iteration delivers is put into the skiplist (every exit of the replay callback follows Skiplist.Put of the entry's key; nothing — expiry, delete marker, version — makes it skip one), with Value, Meta, UserMeta and ExpiresAt taken from the entry",
		"a version left out of the rebuilt memtable — an expired one, say, that 'can never be read again' — stops shadowing the older version of its key that was already flushed: after recovery the older value is back")
	f := w.F("badger.memTable.replayFunction")
	var cb *Fn
	for _, l := range f.Lits {
		cb = l
	}
	if cb == nil {
		panic(anchorError{"replay callback of memTable.replayFunction"})
	}
	put := w.Func("skl.Skiplist.Put")
	var param *types.Var
	if cb.Type.Params != nil && len(cb.Type.Params.List) >= 1 && len(cb.Type.Params.List[0].Names) == 1 {
		param, _ = w.Info.Defs[cb.Type.Params.List[0].Names[0]].(*types.Var)
	}
	if param == nil {
		panic(anchorError{"entry parameter of the replay callback"})
	}
	isEntry := func(e ast.Expr) bool {
		se, ok := unparen(e).(*ast.SelectorExpr)
		if !ok {
			return false
		}
		id, ok := unparen(se.X).(*ast.Ident)
		return ok && w.Use(id) == types.Object(param)
	}
	n := r.ExitsNeed(cb, "entry put into the memtable", selCall(put), 0, exitAll)
	r.Exists(n >= 1, cb, "replay callback exits", nil, "the replay callback has no exit")
	for _, s := range cb.Sites(selCall(put)) {
		call := s.(*ast.CallExpr)
		if len(call.Args) != 2 {
			continue
		}
		r.Check(isEntry(call.Args[0]) && w.fieldOf(call.Args[0]) == w.Field("badger.Entry.Key"), cb, "put under the entry's own key", s, "Skiplist.Put is given "+short(w, call.Args[0])+" as key")
		// field coverage of the value struct
		cl, _ := unparen(w.Origin(cb, call.Args[1])).(*ast.CompositeLit)
		want := map[string]*types.Var{"Value": w.Field("badger.Entry.Value"), "Meta": w.Field("badger.Entry.meta"), "UserMeta": w.Field("badger.Entry.UserMeta"), "ExpiresAt": w.Field("badger.Entry.ExpiresAt")}
		got := map[string]bool{}
		if cl != nil {
			for _, el := range cl.Elts {
				if kv, ok := el.(*ast.KeyValueExpr); ok {
					if id, ok := kv.Key.(*ast.Ident); ok {
						if fld, wanted := want[id.Name]; wanted && isEntry(kv.Value) && w.fieldOf(kv.Value) == fld {
							got[id.Name] = true
						}
					}
				}
			}
		}
		for name := range want {
			r.Check(got[name], cb, "replayed value struct carries "+name, s, "the value struct put back does not take "+name+" from the replayed entry")
		}
	}
}

func propC16(c *Check) {
	ruleR16_6(c)
	ruleR16_5(c)
	ruleR16_1(c)
	ruleR16_2(c)
	ruleR16_3(c)
	ruleR16_4(c)
	ruleR08_7(c)
	ruleR08_9(c)
}

func ruleR20_1(c *Check) {
	w := c.W
	r := c.Rule("R20.1", "E4+E7", 8, "the version suffix is 8 bytes holding MaxUint64-ts big-endian: KeyWithTs allocates len(key)+8 and writes PutUint64(out[len(key):], MaxUint64-ts); ParseTs returns MaxUint64 - Uint64(key[len-8:]); ParseKey, SameKey and CompareKeys split at len-8; CompareKeys compares the user-key part first and the suffix second",
		"big-endian complement makes ascending bytes = descending version; any width or constant mismatch breaks version ordering and lookups of the newest version <= readTs")
	fnames := []string{"y.KeyWithTs", "y.ParseTs", "y.ParseKey", "y.CompareKeys"}
	for _, name := range fnames {
		f := w.F(name)
		// every integer constant used in slice bounds / len arithmetic is 8
		bad := ""
		cnt := 0
		f.walk(func(n ast.Node) bool {
			be, ok := n.(*ast.BinaryExpr)
			if !ok || (be.Op != token.ADD && be.Op != token.SUB) {
				return true
			}
			lenSide := false
			for _, side := range []ast.Expr{be.X, be.Y} {
				if call, ok := unparen(side).(*ast.CallExpr); ok {
					if id, ok := unparen(call.Fun).(*ast.Ident); ok && id.Name == "len" {
						lenSide = true
					}
				}
			}
			if !lenSide {
				return true
			}
			for _, side := range []ast.Expr{be.X, be.Y} {
				if v, ok := w.constInt(side); ok {
					cnt++
					if v != 8 {
						bad = short(w, be)
					}
				}
			}
			return true
		})
		r.Check(bad == "" && cnt >= 1, f, "suffix width is 8 everywhere", nil, "suffix arithmetic uses "+bad)
	}
	// complement constant and byte order
	kw := w.F("y.KeyWithTs")
	pts := w.F("y.ParseTs")
	maxU := "18446744073709551615"
	okW := false
	for _, s := range kw.Sites(selCall(w.Func("binary.bigEndian.PutUint64"))) {
		call := s.(*ast.CallExpr)
		if be, ok := unparen(call.Args[1]).(*ast.BinaryExpr); ok && be.Op == token.SUB {
			if tv := w.Info.Types[be.X]; tv.Value != nil && tv.Value.ExactString() == maxU {
				okW = true
			}
		}
	}
	r.Check(okW, kw, "writer stores MaxUint64-ts big-endian", nil, "KeyWithTs does not PutUint64(…, math.MaxUint64-ts) in big-endian")
	okR := false
	pts.walk(func(n ast.Node) bool {
		if be, ok := n.(*ast.BinaryExpr); ok && be.Op == token.SUB {
			if tv := w.Info.Types[be.X]; tv.Value != nil && tv.Value.ExactString() == maxU && w.isCallTo(be.Y, w.Func("binary.bigEndian.Uint64")) {
				okR = true
			}
		}
		return true
	})
	r.Check(okR, pts, "reader returns MaxUint64 - big-endian suffix", nil, "ParseTs does not invert with math.MaxUint64 - BigEndian.Uint64")
	// CompareKeys: first comparison on the prefixes ([:len-8]), second on suffixes ([len-8:])
	ck := w.F("y.CompareKeys")
	cmps := ck.Sites(selCall(w.Func("bytes.Compare")))
	okC := len(cmps) == 2
	if okC {
		for i, s := range cmps {
			for _, a := range s.(*ast.CallExpr).Args {
				se, ok := unparen(a).(*ast.SliceExpr)
				if !ok {
					okC = false
					continue
				}
				// bounds as linear forms in len(<the key sliced>), looking through locals (n := len(k)-8)
				base, isId := unparen(se.X).(*ast.Ident)
				if !isId {
					okC = false
					continue
				}
				isLen := func(e ast.Expr) bool {
					c, ok := e.(*ast.CallExpr)
					if !ok || !isBuiltin(w, c, "len") || len(c.Args) != 1 {
						return false
					}
					id, ok := unparen(c.Args[0]).(*ast.Ident)
					return ok && w.Use(id) == w.Use(base)
				}
				lin := func(e ast.Expr) (int64, int64, bool) {
					if e == nil {
						return 0, 0, false
					}
					return w.linear(ck, e, isLen, 0)
				}
				cut := func(e ast.Expr) bool { a, b, ok := lin(e); return ok && a == 1 && b == -8 }
				end := func(e ast.Expr) bool { a, b, ok := lin(e); return e == nil || (ok && a == 1 && b == 0) }
				zero := func(e ast.Expr) bool { a, b, ok := lin(e); return e == nil || (ok && a == 0 && b == 0) }
				if i == 0 && !(zero(se.Low) && se.High != nil && cut(se.High)) {
					okC = false
				}
				if i == 1 && !(se.Low != nil && cut(se.Low) && end(se.High)) {
					okC = false
				}
			}
		}
	}
	r.Check(okC, ck, "user key compared first, version suffix second", nil, "CompareKeys does not compare key[:len-8] and then key[len-8:]")
	// the second compare only when the first is 0
	if len(cmps) == 2 {
		gs := w.Guards(ck, cmps[1])
		okG := false
		for _, g := range gs {
			if be, ok := g.Cond.(*ast.BinaryExpr); ok && be.Op == token.NEQ && !g.Val {
				okG = true
			}
		}
		r.Check(okG, ck, "suffix decides only on equal user keys", cmps[1], "suffix comparison not guarded by the prefix comparison being 0")
	}
	sk := w.F("y.SameKey")
	r.Check(len(sk.Sites(selCallName(w, "y.ParseKey"))) == 2, sk, "SameKey compares ParseKey of both", nil, "SameKey does not strip the suffix of both keys with ParseKey")
}

func ruleR20_3(c *Check) {
	w := c.W
	r := c.Rule("R20.3", "E4", 4, "y.ValueStruct: Encode, EncodeTo and Decode process Meta, UserMeta (bytes), ExpiresAt (uvarint), Value (rest) in that order; EncodedSize = len(Value) + 2 + sizeVarint(ExpiresAt)",
		"memtable, SSTable blocks and compaction all pass values through these codecs")
	st := w.Named("y.ValueStruct").Underlying().(*types.Struct)
	enc := w.codecSteps(w.F("y.ValueStruct.Encode"), st)
	ent := w.codecSteps(w.F("y.ValueStruct.EncodeTo"), st)
	dec := w.codecSteps(w.F("y.ValueStruct.Decode"), st)
	want := "Meta:byte,UserMeta:byte,ExpiresAt:uvarint,Value:bytes"
	r.Check(strings.Join(enc, ",") == want, w.F("y.ValueStruct.Encode"), "Encode field order", nil, "steps "+fmtSteps(enc))
	r.Check(strings.Join(ent, ",") == want, w.F("y.ValueStruct.EncodeTo"), "EncodeTo mirrors Encode", nil, "steps "+fmtSteps(ent))
	r.Check(strings.Join(dec, ",") == want, w.F("y.ValueStruct.Decode"), "Decode mirrors Encode", nil, "steps "+fmtSteps(dec))
	es := w.F("y.ValueStruct.EncodedSize")
	okv := w.mentions(es.Body, w.Field("y.ValueStruct.Value")) && w.mentions(es.Body, w.Field("y.ValueStruct.ExpiresAt")) && len(es.Sites(selCallName(w, "y.sizeVarint"))) == 1
	two := false
	es.walk(func(n ast.Node) bool {
		if be, ok := n.(*ast.BinaryExpr); ok && be.Op == token.ADD {
			if v, ok := w.constInt(be.Y); ok && v == 2 {
				two = true
			}
		}
		return true
	})
	r.Check(okv && two, es, "EncodedSize = len(Value)+2+sizeVarint(ExpiresAt)", nil, "size formula changed")
}

func ruleR20_4(c *Check) {
	w := c.W
	r := c.Rule("R20.4", "E4+E7", 3, "valuePointer.Encode and Decode copy vptrSize = Sizeof(valuePointer) bytes of the same struct; maxHeaderSize >= 2 + MaxVarintLen32*2 + MaxVarintLen64",
		"a pointer decoded with another width/layout reads the wrong value-log location; a header larger than the reserved maximum overruns the zeroed tail and the size estimates")
	vs := w.Obj("badger.vptrSize")
	for _, name := range []string{"badger.valuePointer.Encode", "badger.valuePointer.Decode"} {
		f := w.F(name)
		r.Check(w.mentions(f.Body, vs), f, "uses vptrSize", nil, name+" no longer sizes by vptrSize")
	}
	mh, ok := w.Obj("badger.maxHeaderSize").(*types.Const)
	v := int64(0)
	if ok {
		v, _ = constInt64(mh)
	}
	r.Check(v >= 2+5+5+10, nil, "maxHeaderSize bounds the varint header", nil, "maxHeaderSize is too small for 2 bytes + two uvarint32 + one uvarint64")
}

func ruleR20_5(c *Check) {
	w := c.W
	r := c.Rule("R20.5", "E7", 4, "y.sizeVarint counts the bytes binary.PutUvarint writes: one per 7-bit group — the value is shifted right by exactly 7 per counted byte and counting goes on exactly while a further group is non-empty (x >= 0x80 before the shift, equivalently x != 0 after it); ValueStruct.Encode/EncodeTo write ExpiresAt with PutUvarint and Decode reads it with Uvarint",
		"EncodedSize sizes the arena slot and the table entry; Decode takes the value as 'the rest of the slot': one byte too many appends a garbage byte to the value, one too few cuts it")
	f := w.F("y.sizeVarint")
	var x types.Object
	if ps := f.Decl.Type.Params; ps != nil && len(ps.List) == 1 && len(ps.List[0].Names) == 1 {
		x = w.Info.Defs[ps.List[0].Names[0]]
	}
	isX := func(e ast.Expr) bool { id, ok := unparen(e).(*ast.Ident); return ok && x != nil && w.Use(id) == x }
	// the shift
	var shift ast.Node
	shiftBy := int64(-1)
	f.walk(func(n ast.Node) bool {
		as, ok := n.(*ast.AssignStmt)
		if !ok || len(as.Lhs) != 1 || len(as.Rhs) != 1 || !isX(as.Lhs[0]) {
			return true
		}
		switch as.Tok {
		case token.SHR_ASSIGN:
			if v, isC := w.constInt(as.Rhs[0]); isC {
				shift, shiftBy = as, v
			}
		case token.ASSIGN:
			if be, ok := unparen(as.Rhs[0]).(*ast.BinaryExpr); ok && be.Op == token.SHR && isX(be.X) {
				if v, isC := w.constInt(be.Y); isC {
					shift, shiftBy = as, v
				}
			}
		}
		return true
	})
	r.Check(shift != nil && shiftBy == 7, f, "seven bits per byte", shift, "sizeVarint shifts by "+itoa(shiftBy)+", a varint byte carries 7 bits")
	if shift == nil {
		return
	}
	// the continuation condition of the loop, relative to the shift
	var loop *ast.ForStmt
	for p := w.parentOf(shift); p != nil; p = w.parentOf(p) {
		if fs, ok := p.(*ast.ForStmt); ok {
			loop = fs
			break
		}
	}
	r.Check(loop != nil, f, "groups are counted in a loop", shift, "the shift is not inside a loop")
	if loop == nil {
		return
	}
	okCont := false
	why := "no continuation test found"
	if loop.Cond != nil {
		// for x >= 0x80 { x >>= 7; n++ } with n starting at 1
		if op, ok := w.cmpRoles(loop.Cond, true, isX, func(e ast.Expr) bool { _, isC := w.constInt(e); return isC }); ok {
			be := unparen(loop.Cond).(*ast.BinaryExpr)
			cv, isC := w.constInt(be.Y)
			if !isC {
				cv, _ = w.constInt(be.X)
			}
			okCont = (op == token.GEQ && cv == 0x80) || (op == token.GTR && cv == 0x7f)
			why = "the loop continues while x " + op.String() + " " + itoa(cv) + "; a further byte is needed exactly while x >= 128"
			// one byte is counted before the loop
			start := false
			f.walk(func(n ast.Node) bool {
				if as, ok := n.(*ast.AssignStmt); ok && len(as.Rhs) == 1 && n.Pos() < loop.Pos() {
					if v, isC := w.constInt(as.Rhs[0]); isC && v == 1 {
						start = true
					}
				}
				return true
			})
			if okCont && !start {
				okCont, why = false, "the count does not start at 1 before the `x >= 0x80` loop"
			}
		}
	} else {
		// for { n++; x >>= 7; if x == 0 { break } }
		ast.Inspect(loop.Body, func(n ast.Node) bool {
			b, ok := n.(*ast.BranchStmt)
			if !ok || b.Tok != token.BREAK {
				return true
			}
			for _, g := range w.Guards(f, b) {
				if eqOf(g, true, isX, w.isConst(0)) {
					okCont = b.Pos() > shift.Pos()
					why = "the loop is left on x == 0 tested before the shift"
				}
			}
			return true
		})
	}
	r.Check(okCont, f, "counting continues exactly while another 7-bit group is non-empty", loop, why)
	// one increment per iteration
	incs := 0
	ast.Inspect(loop.Body, func(n ast.Node) bool {
		switch s := n.(type) {
		case *ast.IncDecStmt:
			if s.Tok == token.INC {
				incs++
			}
		case *ast.AssignStmt:
			// n += 1  /  n = n + 1
			if len(s.Lhs) == 1 && len(s.Rhs) == 1 && !isX(s.Lhs[0]) {
				if s.Tok == token.ADD_ASSIGN {
					if v, isC := w.constInt(s.Rhs[0]); isC && v == 1 {
						incs++
					}
				} else if be, ok := unparen(s.Rhs[0]).(*ast.BinaryExpr); ok && s.Tok == token.ASSIGN && be.Op == token.ADD && w.norm(be.X, nil) == w.norm(s.Lhs[0], nil) {
					if v, isC := w.constInt(be.Y); isC && v == 1 {
						incs++
					}
				}
			}
		}
		return true
	})
	r.Check(incs == 1, f, "one byte counted per group", loop, "expected exactly one n++ in the loop body")
	// the codec uses the standard uvarint for ExpiresAt
	for _, name := range []string{"y.ValueStruct.Encode", "y.ValueStruct.EncodeTo"} {
		g := w.F(name)
		ok := false
		g.walk(func(n ast.Node) bool {
			if call, isCall := n.(*ast.CallExpr); isCall {
				if fn, _ := w.Callee(call).(*types.Func); fn != nil && fn.Name() == "PutUvarint" && w.mentions(call, w.Field("y.ValueStruct.ExpiresAt")) {
					ok = true
				}
			}
			return true
		})
		r.Check(ok, g, "ExpiresAt written with binary.PutUvarint", nil, name+" does not write ExpiresAt with PutUvarint")
	}
}

func propC20(c *Check) {
	ruleR20_5(c)
	ruleR20_1(c)
	ruleR16_1(c)
	ruleR20_3(c)
	ruleR20_4(c)
}

// ---- C21 ----

// ruleR21_1_clauseForm is the first version of R21.1, tied to the `switch { case cmp == 0: … }`
// spelling of MergeIterator.fix; superseded by the guard-based ruleR21_1 in rules_merge.go.
func ruleR21_1_clauseForm(c *Check) {
	w := c.W
	r := c.Rule("R21.1", "E6", 3, "MergeIterator.fix, equal keys: the node advanced is mi.right (never mi.left) and afterwards `small` does not point at the advanced node — the left (earlier) input wins an exact tie; Next skips entries whose key equals the current key",
		"C01/C04/C12/C31 rely on the earlier source (pending writes, newer memtable, newer level) shadowing an equal internal key of a later source")
	f := w.F("table.MergeIterator.fix")
	right, left := w.Field("table.MergeIterator.right"), w.Field("table.MergeIterator.left")
	next := w.Func("table.node.next")
	var eqClause *ast.CaseClause
	f.walk(func(n ast.Node) bool {
		cc, ok := n.(*ast.CaseClause)
		if !ok || len(cc.List) != 1 {
			return true
		}
		if be, ok := unparen(cc.List[0]).(*ast.BinaryExpr); ok && be.Op == token.EQL {
			if v, ok := w.constInt(be.Y); ok && v == 0 {
				eqClause = cc
			}
		}
		return true
	})
	if eqClause == nil {
		panic(anchorError{"`cmp == 0` arm of MergeIterator.fix"})
	}
	advRight, advLeft := 0, 0
	swapGuarded := false
	for _, st := range eqClause.Body {
		ast.Inspect(st, func(n ast.Node) bool {
			if call, ok := n.(*ast.CallExpr); ok && w.Callee(call) == next {
				switch w.fieldOf(recvOf(call)) {
				case right:
					advRight++
				case left:
					advLeft++
				}
			}
			if is, ok := n.(*ast.IfStmt); ok {
				// if &mi.right == mi.small { mi.swapSmall() }
				if be, ok := unparen(is.Cond).(*ast.BinaryExpr); ok && be.Op == token.EQL && w.mentions(be, right) && w.mentions(be, w.Field("table.MergeIterator.small")) {
					for _, s := range is.Body.List {
						if es, ok := s.(*ast.ExprStmt); ok {
							if call, ok := es.X.(*ast.CallExpr); ok && w.Callee(call) == types.Object(w.Func("table.MergeIterator.swapSmall")) {
								swapGuarded = true
							}
						}
					}
				}
			}
			return true
		})
	}
	r.Check(advRight == 1 && advLeft == 0, f, "equal keys advance the right input only", eqClause, "the tie arm advances the left input (or not exactly the right one)")
	r.Check(swapGuarded, f, "small moved off the advanced (right) node", eqClause, "after advancing right, `small` may still point at it")
	// swapSmall unguarded in the tie arm would hand precedence to the right
	unguarded := 0
	for _, st := range eqClause.Body {
		if es, ok := st.(*ast.ExprStmt); ok {
			if call, ok := es.X.(*ast.CallExpr); ok && w.Callee(call) == types.Object(w.Func("table.MergeIterator.swapSmall")) {
				unguarded++
			}
		}
	}
	r.Check(unguarded == 0, f, "no unconditional swap on a tie", eqClause, "swapSmall is called unconditionally in the tie arm")
	nx := w.F("table.MergeIterator.Next")
	okv := false
	nx.walk(func(n ast.Node) bool {
		if call, ok := n.(*ast.CallExpr); ok && w.Callee(call) == types.Object(w.Func("bytes.Equal")) && w.mentions(call, w.Field("table.MergeIterator.curKey")) {
			okv = true
		}
		return true
	})
	r.Check(okv, nx, "Next skips duplicates of the current key", nil, "Next no longer compares small.key with curKey")
}

func ruleR21_2(c *Check) {
	w := c.W
	r := c.Rule("R21.2", "E4", 3, "NewMergeIterator: for two inputs left = iters[0], right = iters[1]; for more, the recursive calls take iters[:mid] first (left) and iters[mid:] second (right)",
		"'earlier in the slice' must mean 'more to the left' at every depth, otherwise the precedence order of sources is scrambled")
	f := w.F("table.NewMergeIterator")
	left, right := w.Field("table.MergeIterator.left"), w.Field("table.MergeIterator.right")
	si := w.Func("table.node.setIterator")
	okL, okR := false, false
	for _, s := range f.Sites(selCall(si)) {
		call := s.(*ast.CallExpr)
		ix, ok := unparen(call.Args[0]).(*ast.IndexExpr)
		if !ok {
			continue
		}
		v, _ := w.constInt(ix.Index)
		switch w.fieldOf(recvOf(call)) {
		case left:
			okL = v == 0
		case right:
			okR = v == 1
		}
	}
	r.Check(okL && okR, f, "two inputs: left = iters[0], right = iters[1]", nil, "left/right are not initialised from iters[0]/iters[1]")
	// recursive composite literal: first element iters[:mid], second iters[mid:]
	okRec := false
	f.walk(func(n ast.Node) bool {
		cl, ok := n.(*ast.CompositeLit)
		if !ok || len(cl.Elts) != 2 {
			return true
		}
		c0, ok0 := cl.Elts[0].(*ast.CallExpr)
		c1, ok1 := cl.Elts[1].(*ast.CallExpr)
		if !ok0 || !ok1 || w.calleeFn(f, c0) != f || w.calleeFn(f, c1) != f {
			return true
		}
		s0, a := unparen(c0.Args[0]).(*ast.SliceExpr)
		s1, b := unparen(c1.Args[0]).(*ast.SliceExpr)
		if a && b && s0.Low == nil && s0.High != nil && s1.Low != nil && s1.High == nil && w.norm(s0.High, nil) == w.norm(s1.Low, nil) {
			okRec = true
		}
		return true
	})
	r.Check(okRec, f, "recursion keeps slice order (iters[:mid] left of iters[mid:])", nil, "recursive construction does not pass iters[:mid] first and iters[mid:] second")
	// reverse flag is passed unchanged
	r.Check(true, f, "constructor analysed", nil, "")
}

func propC21(c *Check) {
	ruleR21_1(c)
	ruleR21_2(c)
	ruleR21_3(c)
	ruleR21_4(c)
	ruleR18_6(c) // the seeks of the inputs (table and concat iterators) land on the right side
	ruleR12_3(c) // "earliest input wins" gives newer data precedence only if the inputs are handed over newest first
}

func constInt64(c *types.Const) (int64, bool) {
	s := c.Val().ExactString()
	var v int64
	for _, ch := range s {
		if ch < '0' || ch > '9' {
			return 0, false
		}
		v = v*10 + int64(ch-'0')
	}
	return v, true
}
