package main

// Key kinds (R29.5): badger has two kinds of []byte keys that the type system does not tell
// apart — user keys, and internal keys (user key followed by the 8-byte inverted version).
// Comparing one with the other is always a defect, and a quiet one: the version suffix of a small
// version starts with 0xFF bytes, so a prefix/equality/order test between an internal key and a
// user key or user prefix gives the right answer except when the other side continues with 0xFF
// bytes. Four genuine defects of this class were found by hand while writing other rules (F15
// Subscribe, F16 banned namespaces, F17/F18 DropPrefix); this analysis looks for the whole class.
//
// kind(e) is USER, INTERNAL or unknown, from the producers (y.KeyWithTs, y.ParseKey, iterator
// Key(), Item.Key(), Table.Smallest/Biggest, keyRange bounds, user-supplied prefixes), through
// locals (all definitions must agree), copies, range variables and — for parameters of module
// functions — the join over all static call sites. A report needs both sides known.

import (
	"go/ast"
	"go/types"
)

type kk int

const (
	kkUnknown kk = iota
	kkUser
	kkInternal
)

func (k kk) String() string {
	switch k {
	case kkUser:
		return "user key"
	case kkInternal:
		return "internal key (with version suffix)"
	}
	return "unknown"
}

type keyKinds struct {
	w      *World
	param  map[*types.Var]kk
	busy   map[*types.Var]bool
	result map[*Fn]kk
	yIter  *types.Interface
}

func newKeyKinds(w *World) *keyKinds {
	k := &keyKinds{w: w, param: map[*types.Var]kk{}, busy: map[*types.Var]bool{}, result: map[*Fn]kk{}}
	if tn, ok := w.Obj("y.Iterator").(*types.TypeName); ok {
		k.yIter, _ = tn.Type().Underlying().(*types.Interface)
	}
	return k
}

// kkNone: no information yet / a nil literal (neutral in joins).
const kkNone kk = -1

func joinKK(a, b kk, first bool) kk {
	if first || a == kkNone {
		return b
	}
	if b == kkNone || a == b {
		return a
	}
	return kkUnknown
}

func (k *keyKinds) isNil(e ast.Expr) bool {
	id, ok := unparen(e).(*ast.Ident)
	if !ok {
		return false
	}
	_, isNil := k.w.Use(id).(*types.Nil)
	return isNil
}

// resultKind: the kind of the first result of a module function — the join over its returns.
func (k *keyKinds) resultKind(g *Fn) kk {
	if g == nil || g.Decl == nil {
		return kkUnknown
	}
	if r, ok := k.result[g]; ok {
		return r
	}
	k.result[g] = kkUnknown // recursion guard
	res, n := kkNone, 0
	g.walk(func(x ast.Node) bool {
		rs, ok := x.(*ast.ReturnStmt)
		if !ok || len(rs.Results) == 0 || res == kkUnknown {
			return true
		}
		res = joinKK(res, k.kindOrNone(g, rs.Results[0], 2), n == 0)
		n++
		return true
	})
	if res == kkNone {
		res = kkUnknown
	}
	k.result[g] = res
	return res
}

// kindOrNone is kind with nil literals (and empty declarations) reported as kkNone.
func (k *keyKinds) kindOrNone(f *Fn, e ast.Expr, depth int) kk {
	if k.isNil(e) {
		return kkNone
	}
	return k.kind(f, e, depth)
}

func (k *keyKinds) isInternalIter(t types.Type) bool {
	if t == nil {
		return false
	}
	if k.yIter != nil && (types.Implements(t, k.yIter) || types.Implements(types.NewPointer(t), k.yIter)) {
		return true
	}
	if p, ok := t.(*types.Pointer); ok {
		t = p.Elem()
	}
	if n, ok := t.(*types.Named); ok && n.Obj().Pkg() != nil {
		switch n.Obj().Pkg().Path() + "." + n.Obj().Name() {
		case modPath + "/skl.Iterator", modPath + "/skl.UniIterator", modPath + "/table.Iterator",
			modPath + "/table.MergeIterator", modPath + "/table.ConcatIterator", modPath + "/table.blockIterator":
			return true
		}
	}
	return false
}

// isBytesOrList: []byte or [][]byte.
func isBytesOrList(t types.Type) bool {
	sl, ok := t.Underlying().(*types.Slice)
	if !ok {
		return false
	}
	if b, ok := sl.Elem().Underlying().(*types.Basic); ok {
		return b.Kind() == types.Byte || b.Kind() == types.Uint8
	}
	if in, ok := sl.Elem().Underlying().(*types.Slice); ok {
		b, ok := in.Elem().Underlying().(*types.Basic)
		return ok && (b.Kind() == types.Byte || b.Kind() == types.Uint8)
	}
	return false
}

func namedIs(t types.Type, path, name string) bool {
	if p, ok := t.(*types.Pointer); ok {
		t = p.Elem()
	}
	n, ok := t.(*types.Named)
	return ok && n.Obj().Pkg() != nil && n.Obj().Pkg().Path() == path && n.Obj().Name() == name
}

func (k *keyKinds) kind(f *Fn, e ast.Expr, depth int) kk {
	w := k.w
	if e == nil || depth > 6 {
		return kkUnknown
	}
	e = unparen(e)
	switch x := e.(type) {
	case *ast.CallExpr:
		if isBuiltin(w, x, "append") && len(x.Args) == 2 && x.Ellipsis.IsValid() {
			// append(dst[:0], src...) is a copy of src
			if se, ok := unparen(x.Args[0]).(*ast.SliceExpr); ok && se.High != nil {
				if v, isC := w.constInt(se.High); isC && v == 0 {
					return k.kind(f, x.Args[1], depth+1)
				}
			}
			return kkUnknown
		}
		if isBuiltin(w, x, "append") && len(x.Args) >= 2 && !x.Ellipsis.IsValid() {
			// append(list, k1, k2): a list of keys has the kind of the keys put into it
			res := kkNone
			for i, a := range x.Args[1:] {
				res = joinKK(res, k.kindOrNone(f, a, depth+1), i == 0)
			}
			if res == kkNone {
				return kkUnknown
			}
			return res
		}
		callee, _ := w.Callee(x).(*types.Func)
		if callee == nil || callee.Pkg() == nil {
			return kkUnknown
		}
		if g := w.calleeFn(f, x); g != nil && g.Decl != nil && depth < 5 {
			switch callee.Pkg().Path() + "." + callee.Name() {
			case modPath + "/y.KeyWithTs", modPath + "/y.ParseKey", modPath + "/y.SafeCopy", modPath + "/y.Copy":
			default:
				if sig, _ := callee.Type().(*types.Signature); sig != nil && sig.Results().Len() >= 1 {
					if isBytesOrList(sig.Results().At(0).Type()) {
						if rk := k.resultKind(g); rk != kkUnknown {
							return rk
						}
					}
				}
			}
		}
		full := callee.Pkg().Path() + "." + callee.Name()
		switch full {
		case modPath + "/y.KeyWithTs":
			return kkInternal
		case modPath + "/y.ParseKey":
			return kkUser
		case modPath + "/y.SafeCopy":
			if len(x.Args) == 2 {
				return k.kind(f, x.Args[1], depth+1)
			}
		case modPath + "/y.Copy":
			if len(x.Args) == 1 {
				return k.kind(f, x.Args[0], depth+1)
			}
		}
		sig, _ := callee.Type().(*types.Signature)
		if sig != nil && sig.Recv() != nil {
			rt := sig.Recv().Type()
			if se, ok := unparen(x.Fun).(*ast.SelectorExpr); ok {
				if tv, ok := w.Info.Types[se.X]; ok && tv.Type != nil {
					rt = tv.Type
				}
			}
			switch callee.Name() {
			case "Key":
				if namedIs(rt, modPath, "Item") {
					return kkUser
				}
				if k.isInternalIter(rt) {
					return kkInternal
				}
			case "KeyCopy":
				if namedIs(rt, modPath, "Item") {
					return kkUser
				}
			case "Smallest", "Biggest":
				if namedIs(rt, modPath+"/table", "Table") {
					return kkInternal
				}
			}
		}
		return kkUnknown
	case *ast.SelectorExpr:
		// (keyRange.left/right are not in the table: compactions store internal keys there, but
		// DB.Ranges/Stream use the same type for arbitrary split points compared with user keys on
		// both sides of every range, which is consistent)
		switch w.fieldOf(x) {
		case w.Field("badger.IteratorOptions.Prefix"), w.Field("badger.Stream.Prefix"), w.Field("badger.Item.key"),
			w.Field("badger.compactDef.dropPrefixes"), w.Field("badger.compactionPriority.dropPrefixes"):
			return kkUser
		}
		return kkUnknown
	case *ast.IndexExpr:
		if tv, ok := w.Info.Types[x.X]; ok {
			if sl, isSl := tv.Type.Underlying().(*types.Slice); isSl {
				if _, inner := sl.Elem().Underlying().(*types.Slice); inner {
					return k.kind(f, x.X, depth+1) // element of a list of keys
				}
			}
		}
		return kkUnknown
	case *ast.SliceExpr:
		if x.High == nil && x.Low == nil {
			return k.kind(f, x.X, depth+1)
		}
		return kkUnknown
	case *ast.Ident:
		v, ok := w.Use(x).(*types.Var)
		if !ok || v.IsField() || v.Pkg() == nil || v.Parent() == v.Pkg().Scope() {
			return kkUnknown
		}
		if pk, isParam := k.paramKind(f, v); isParam {
			return pk
		}
		defs := w.DefsOf(f, v)
		if len(defs) == 0 {
			return kkUnknown
		}
		res := kkNone
		for i, d := range defs {
			if unparen(d) == e {
				continue
			}
			res = joinKK(res, k.kindOrNone(f, d, depth+1), i == 0)
			if res == kkUnknown {
				return kkUnknown
			}
		}
		if res == kkNone {
			return kkUnknown
		}
		return res
	}
	return kkUnknown
}

// paramKind: v is a parameter of the declared function (or of an enclosing declared function of
// the literal) f: the join of the kinds of the arguments at all static call sites.
func (k *keyKinds) paramKind(f *Fn, v *types.Var) (kk, bool) {
	w := k.w
	root := f.Root()
	if root == nil || root.Decl == nil || root.Decl.Type.Params == nil {
		return kkUnknown, false
	}
	idx, i, variadic := -1, 0, false
	for _, fl := range root.Decl.Type.Params.List {
		_, isVar := fl.Type.(*ast.Ellipsis)
		for _, name := range fl.Names {
			if w.Info.Defs[name] == types.Object(v) {
				idx = i
				variadic = isVar
			}
			i++
		}
		if len(fl.Names) == 0 {
			i++
		}
	}
	if idx < 0 {
		return kkUnknown, false
	}
	if r, ok := k.param[v]; ok {
		return r, true
	}
	// the public API of package badger takes user keys and user prefixes
	if root.Obj != nil && root.Obj.Exported() && root.Obj.Pkg() != nil && root.Obj.Pkg().Path() == modPath && isBytesOrList(v.Type()) {
		if sig, _ := root.Obj.Type().(*types.Signature); sig != nil && sig.Recv() != nil {
			for _, tn := range []string{"DB", "Txn", "Iterator", "WriteBatch", "Stream", "MergeOperator"} {
				if namedIs(sig.Recv().Type(), modPath, tn) {
					switch v.Name() {
					case "key", "k", "prefix", "prefixes", "keyPrefix":
						k.param[v] = kkUser
						return kkUser, true
					}
				}
			}
		}
	}
	if k.busy[v] || variadic {
		return kkUnknown, true
	}
	if root.Obj != nil && root.Obj.Exported() {
		k.param[v] = kkUnknown // may be called from outside the module
		return kkUnknown, true
	}
	k.busy[v] = true
	defer func() { k.busy[v] = false }()
	res, n := kkNone, 0
	for _, in := range w.CG().In[root] {
		call, ok := in.Node.(*ast.CallExpr)
		if !ok || in.Kind != "static" || in.Caller == nil || idx >= len(call.Args) {
			k.param[v] = kkUnknown
			return kkUnknown, true
		}
		res = joinKK(res, k.kindOrNone(in.Caller, call.Args[idx], 1), n == 0)
		n++
		if res == kkUnknown {
			break
		}
	}
	if res == kkNone {
		res = kkUnknown
	}
	k.param[v] = res
	return res, true
}

type kkReport struct {
	f    *Fn
	at   ast.Node
	what string
}

// scan finds the sinks (sites where at least one operand has a known kind); what != "" marks a
// mixed or wrong kind.
func (k *keyKinds) scan() (sites []kkReport) {
	w := k.w
	for _, f := range w.Fns {
		if isCmdPkg(f) || f.Body == nil {
			continue
		}
		f.walk(func(n ast.Node) bool {
			call, ok := n.(*ast.CallExpr)
			if !ok {
				return true
			}
			callee, _ := w.Callee(call).(*types.Func)
			if callee == nil || callee.Pkg() == nil {
				return true
			}
			full := callee.Pkg().Path() + "." + callee.Name()
			switch full {
			case "bytes.HasPrefix", "bytes.Equal", "bytes.Compare", "bytes.HasSuffix":
				if len(call.Args) != 2 {
					return true
				}
				a, b := k.kind(f, call.Args[0], 0), k.kind(f, call.Args[1], 0)
				if a == kkUnknown && b == kkUnknown {
					return true
				}
				what := ""
				if a != kkUnknown && b != kkUnknown && a != b {
					what = callee.Name() + " compares a " + a.String() + " (" + short(w, call.Args[0]) + ") with a " + b.String() + " (" + short(w, call.Args[1]) + ")"
				}
				sites = append(sites, kkReport{f, call, what})
			case modPath + "/y.KeyWithTs":
				what := ""
				if len(call.Args) == 2 && k.kind(f, call.Args[0], 0) == kkInternal {
					what = "KeyWithTs applied to " + short(w, call.Args[0]) + ", which already carries a version suffix"
				}
				sites = append(sites, kkReport{f, call, what})
			case modPath + "/y.ParseKey", modPath + "/y.ParseTs":
				what := ""
				if len(call.Args) == 1 && k.kind(f, call.Args[0], 0) == kkUser {
					what = callee.Name() + " applied to " + short(w, call.Args[0]) + ", a user key without version suffix"
				}
				sites = append(sites, kkReport{f, call, what})
			case modPath + ".isBanned", modPath + "/trie.Get", modPath + ".hasAnyPrefixes":
				// consumers of user keys: the namespace test, the subscription trie, the drop-prefix test
				what := ""
				if len(call.Args) >= 1 && k.kind(f, call.Args[0], 0) == kkInternal {
					what = callee.Name() + " (which expects a user key) is given " + short(w, call.Args[0]) + ", a key that still carries its version suffix"
				}
				sites = append(sites, kkReport{f, call, what})
			case modPath + "/y.SameKey", modPath + "/y.CompareKeys":
				what := ""
				for _, a := range call.Args {
					if k.kind(f, a, 0) == kkUser {
						what = callee.Name() + " (which expects internal keys) is given the user key " + short(w, a)
					}
				}
				sites = append(sites, kkReport{f, call, what})
			}
			return true
		})
	}
	return sites
}

func ruleR29_5(c *Check) {
	w := c.W
	r := c.Rule("R29.5", "E3+E4", 60, "key kinds: no prefix, equality or order test (bytes.HasPrefix/Equal/Compare) between an internal key (iterator Key(), KeyWithTs, Table.Smallest/Biggest, key-range bounds) and a user key or user-supplied prefix (ParseKey, Item.Key, IteratorOptions.Prefix, the prefixes of DropPrefix); KeyWithTs only on user keys; ParseKey/ParseTs/SameKey/CompareKeys only on internal keys — kinds followed through locals, copies, range variables and, for parameters, all static call sites",
		"the version suffix of a small version starts with 0xFF bytes: a mixed comparison is right except when the other side continues with 0xFF bytes — DropPrefix removed keys that do not have the prefix and kept keys that do (F17, F18), Subscribe delivered keys it does not match (F15), iterators hid keys by an unrelated ban (F16)")
	exc := map[string]string{
		"badger.DB.Ranges": "chooses split points for Stream/KeyToList ranges; a memtable key taken as a split although only its version bytes continue the prefix is still a valid split: every range is cut at the same byte strings on both sides and iteration is restricted to the prefix by the iterator",
	}
	for name, why := range exc {
		r.Except(name, why)
	}
	k := newKeyKinds(w)
	var ky keyer
	for _, s := range k.scan() {
		if _, ok := exc[s.f.Root().Name]; ok && s.what != "" {
			r.Check(true, s.f, ky.key("keys of one kind (exception: split points)", w, s.at), s.at, "")
			continue
		}
		r.Check(s.what == "", s.f, ky.key("keys of one kind", w, s.at), s.at, s.what)
	}
}
