package main

// C34 (oracle and watermarks), C36 (managed mode), C11 (timestamps after re-open).

import (
	"go/ast"
	"go/token"
	"go/types"
)

func init() {
	register("C34", "Decides the structural protocol of the oracle and its watermarks: oracle side R01.1 (read timestamp registered under the lock, wait before return), R03.2 (allocation and Begin under the lock), R03.3 (every begun commit timestamp is done, and only after the write was applied); watermark side (R34.1) the done-until mark is written only by the single processing goroutine's compare-and-swap, whose bookkeeping (pending counts, heap, waiters) is local to that goroutine, started once per Init; (R34.2) a waiter never sleeps on a condition it tested itself: it is handed to the processing goroutine, which either releases it at once (mark already >= index) or registers it; (R34.3) an index is popped only when its pending count is <= 0, the mark only advances, every waiter <= the new mark is released; Begin counts +1 and Done −1. Does NOT explore the interleaving space (a model checker's job, outside this technique family).", propC34)
	register("C36", "Decides that managed mode uses the caller's timestamps verbatim: (R36.1) the managed arm of newCommitTs takes txn.commitTs, allocates nothing and touches no watermark, and commitPrecheck rejects a zero commit timestamp when transaction markers would be written; (R36.2) an entry's explicit version is kept and only version 0 receives the commit timestamp (which also disables transaction framing); (R36.3) NewTransactionAt stores the caller's read timestamp, the discard watermark is the caller's discardTs read under the lock. Does NOT decide reads at arbitrary timestamps (the C01 clauses apply unchanged).", propC36)
	register("C11", "Decides the structural part of 'commits after re-open are above every stored version': (R11.1) Open sets nextTxnTs from MaxVersion() after memtables and tables are loaded, marks that timestamp done on both watermarks and increments it, all before the write loop starts; (R11.2) MaxVersion covers the mutable memtable, every immutable memtable and every table; (R11.3) the 'raise if greater' maintenance of the max version appears on every path that adds a key (memtable Put, WAL replay, table builder) and is carried through the table index; (R11.4) Load raises nextTxnTs above every loaded version; (R11.5) StreamWriter raises its max version for every entry and Flush installs it in the oracle. Does NOT decide which entries a crash leaves behind (C08).", propC11)
}

// ---- C34 ----

func ruleR34_1(c *Check) {
	w := c.W
	r := c.Rule("R34.1", "E3", 5, "y.WaterMark.doneUntil is stored only by the compare-and-swap in process (and SetDoneUntil, which has no caller in the library); pending counts, heap and waiters are local variables of process; process is started by exactly one go statement, in Init; Init is called once per watermark (newOracle)",
		"two writers of the mark (or shared bookkeeping) can move it backwards or past a pending index: a reader starts at a timestamp whose commit is still being applied")
	du := w.Field("y.WaterMark.doneUntil")
	proc := w.F("y.WaterMark.process")
	var k keyer
	for _, o := range allSites(w, "", selPred("doneUntil write", func(w *World, f *Fn, n ast.Node) bool {
		call, ok := n.(*ast.CallExpr)
		if !ok {
			return false
		}
		s, ok := unparen(call.Fun).(*ast.SelectorExpr)
		if !ok || w.fieldOf(s.X) != du {
			return false
		}
		return s.Sel.Name == "Store" || s.Sel.Name == "CompareAndSwap" || s.Sel.Name == "Add" || s.Sel.Name == "Swap"
	})) {
		root := o.SiteFn.Root()
		name := unparen(o.Node.(*ast.CallExpr).Fun).(*ast.SelectorExpr).Sel.Name
		switch {
		case root == proc:
			r.Check(name == "CompareAndSwap", o.SiteFn, k.key("mark advanced by compare-and-swap", w, o.Node), o.Node, "process writes doneUntil with "+name)
		case root.Name == "y.WaterMark.SetDoneUntil":
			callers := w.CG().CallSitesOf(root)
			var lib []string
			for _, cs := range callers {
				if !isCmdPkg(cs.Caller) {
					lib = append(lib, cs.Caller.Name)
				}
			}
			r.Check(len(lib) == 0, o.SiteFn, "SetDoneUntil has no caller in the library", o.Node, "SetDoneUntil is called from "+joinTrail(lib))
		default:
			r.Check(false, o.SiteFn, k.key("doneUntil written outside process", w, o.Node), o.Node, "doneUntil written in "+root.Name)
		}
	}
	// bookkeeping is local: process declares the maps/heap; WaterMark has no such fields
	st := w.Named("y.WaterMark").Underlying().(*types.Struct)
	for i := 0; i < st.NumFields(); i++ {
		switch st.Field(i).Type().Underlying().(type) {
		case *types.Map, *types.Slice:
			r.Check(false, nil, "WaterMark has no shared bookkeeping field", nil, "field "+st.Field(i).Name()+" is a map/slice shared between goroutines")
		}
	}
	locals := 0
	proc.walk(func(n ast.Node) bool {
		if as, ok := n.(*ast.AssignStmt); ok && as.Tok == token.DEFINE && len(as.Rhs) == 1 {
			if mk, ok := unparen(as.Rhs[0]).(*ast.CallExpr); ok {
				if id, ok := unparen(mk.Fun).(*ast.Ident); ok && id.Name == "make" {
					if _, isMap := w.TypeOf(mk).Underlying().(*types.Map); isMap {
						locals++
					}
				}
			}
		}
		return true
	})
	r.Check(locals >= 2, proc, "pending and waiters are locals of process", nil, "process no longer declares its pending/waiters maps locally")
	// go w.process only in Init, once
	n := 0
	for _, cs := range w.CG().CallSitesOf(proc) {
		n++
		r.Check(cs.Async && cs.Caller.Name == "y.WaterMark.Init" && !insideLoop(w, cs.Caller, cs.Node), cs.Caller, k.key("process started once, by Init", w, cs.Node), cs.Node, "process started from "+cs.Caller.Name)
	}
	r.Exists(n == 1, proc, "one start of process", nil, "expected exactly one `go w.process`")
	init := w.F("y.WaterMark.Init")
	for _, cs := range w.CG().CallSitesOf(init) {
		if isCmdPkg(cs.Caller) {
			continue
		}
		r.Check(cs.Caller.Name == "badger.newOracle" && !insideLoop(w, cs.Caller, cs.Node), cs.Caller, k.key("watermark initialised once", w, cs.Node), cs.Node, "WaterMark.Init called from "+cs.Caller.Name)
	}
}

func ruleR34_2(c *Check) {
	w := c.W
	r := c.Rule("R34.2", "E1", 4, "WaitForMark hands its waiter channel to the processing goroutine through markCh before it blocks on it; process, for a waiter mark, closes the channel at once iff doneUntil >= index and otherwise registers it under that index",
		"check-then-sleep: if the waiter tested the mark and registered itself, the mark could pass the index in between and the reader would wait forever")
	f := w.F("y.WaterMark.WaitForMark")
	mch := w.Field("y.WaterMark.markCh")
	waiterFld := w.Field("y.mark.waiter")
	// the channel received from in the select
	var waitCh types.Object
	f.walk(func(n ast.Node) bool {
		if cc, ok := n.(*ast.CommClause); ok && cc.Comm != nil {
			if es, ok := cc.Comm.(*ast.ExprStmt); ok {
				if u, ok := unparen(es.X).(*ast.UnaryExpr); ok && u.Op == token.ARROW {
					if id, ok := unparen(u.X).(*ast.Ident); ok {
						if _, isChan := w.Use(id).Type().Underlying().(*types.Chan); isChan {
							waitCh = w.Use(id)
						}
					}
				}
			}
		}
		return true
	})
	if waitCh == nil {
		panic(anchorError{"waiter channel in WaitForMark"})
	}
	sendWaiter := selPred("markCh <- mark{waiter}", func(w *World, fn *Fn, n ast.Node) bool {
		s, ok := n.(*ast.SendStmt)
		if !ok || chanObj(w, s.Chan) != types.Object(mch) {
			return false
		}
		cl, ok := unparen(s.Value).(*ast.CompositeLit)
		if !ok {
			return false
		}
		for _, el := range cl.Elts {
			if kv, ok := el.(*ast.KeyValueExpr); ok {
				if id, ok := kv.Key.(*ast.Ident); ok && w.Use(id) == types.Object(waiterFld) {
					if v, ok := unparen(kv.Value).(*ast.Ident); ok && w.Use(v) == waitCh {
						return true
					}
				}
			}
		}
		return false
	})
	r.Exists(len(f.Sites(sendWaiter)) == 1, f, "waiter sent to the processing goroutine", nil, "WaitForMark does not send mark{waiter: ch} on markCh")
	r.DomAll(f, "blocking on the waiter channel", selRecv(waitCh), 0, sendWaiter, 0)
	// fast path: only `DoneUntil() >= index` returns without waiting
	for _, e := range f.successExits() {
		rs := e.Node.(*ast.ReturnStmt)
		gs := w.Guards(f, rs)
		inSelect := false
		for p := w.parentOf(rs); p != nil; p = w.parentOf(p) {
			if _, ok := p.(*ast.CommClause); ok {
				inSelect = true
			}
		}
		if inSelect {
			continue
		}
		okv := false
		isMark := func(e ast.Expr) bool { return w.mentions(e, w.Func("y.WaterMark.DoneUntil")) || w.mentions(e, w.Field("y.WaterMark.doneUntil")) }
		isIndex := func(e ast.Expr) bool {
			id, ok := unparen(e).(*ast.Ident)
			if !ok {
				return false
			}
			v, ok := w.Use(id).(*types.Var)
			return ok && isParam(f, v)
		}
		if op, _ := w.guardRel(gs, isMark, isIndex, true); op == token.GEQ {
			okv = true
		}
		r.Check(okv, f, "fast path only when the mark already reached the index", rs, "WaitForMark returns early on a condition other than DoneUntil() >= index")
	}
	// process: waiter branch
	p := w.F("y.WaterMark.process")
	idx := w.Field("y.mark.index")
	du := w.Field("y.WaterMark.doneUntil")
	closes, regs := 0, 0
	// (walkInl: the branch may have been extracted into a helper called only from here; parameters are
	// followed back to the arguments of that call)
	p.walkInl(func(own *Fn, n ast.Node) bool {
		call, ok := n.(*ast.CallExpr)
		if ok {
			if isBuiltin(w, call, "close") && len(call.Args) == 1 && w.fieldFrom(call.Args[0]) == waiterFld {
				closes++
				okv := false
				isMark := func(e ast.Expr) bool { return w.mentions(e, du) || w.mentions(e, w.Func("y.WaterMark.DoneUntil")) }
				if op, _ := w.guardRel(w.Guards(own, call), isMark, w.isField(idx), true); op == token.GEQ {
					okv = true
				}
				r.Check(okv, own, "waiter released at once iff doneUntil >= index", call, "immediate close of a waiter is not under `doneUntil >= mark.index`")
			}
		}
		return true
	})
	// registration: stores into the waiters map in the else branch of the same test
	var waiters *types.Var
	p.walk(func(n ast.Node) bool {
		if as, ok := n.(*ast.AssignStmt); ok && as.Tok == token.DEFINE && len(as.Lhs) == 1 {
			if m, ok := w.TypeOf(as.Rhs[0]).Underlying().(*types.Map); ok {
				if sl, ok := m.Elem().Underlying().(*types.Slice); ok {
					if _, isChan := sl.Elem().Underlying().(*types.Chan); isChan {
						waiters, _ = w.Use(as.Lhs[0].(*ast.Ident)).(*types.Var)
					}
				}
			}
		}
		return true
	})
	if waiters == nil {
		panic(anchorError{"waiters map in WaterMark.process"})
	}
	var waitersDef ast.Expr
	if defs := w.DefsOf(p, waiters); len(defs) == 1 {
		waitersDef = defs[0]
	}
	isWaiters := func(e ast.Expr) bool {
		if id, ok := unparen(e).(*ast.Ident); ok && w.Use(id) == types.Object(waiters) {
			return true
		}
		return waitersDef != nil && w.from(e) == waitersDef
	}
	fromWaiter := func(e ast.Expr) bool {
		found := false
		ast.Inspect(e, func(m ast.Node) bool {
			if x, ok := m.(ast.Expr); ok && w.fieldFrom(x) == waiterFld {
				found = true
			}
			return !found
		})
		return found
	}
	p.walkInl(func(own *Fn, n ast.Node) bool {
		as, ok := n.(*ast.AssignStmt)
		if !ok || len(as.Lhs) != 1 {
			return true
		}
		ix, ok := as.Lhs[0].(*ast.IndexExpr)
		if !ok || !isWaiters(ix.X) {
			return true
		}
		regs++
		okv := w.fieldFrom(ix.Index) == idx && fromWaiter(as.Rhs[0])
		neg := false
		isMark2 := func(e ast.Expr) bool { return w.mentions(e, du) || w.mentions(e, w.Func("y.WaterMark.DoneUntil")) }
		p := own
		if op, _ := w.guardRel(w.Guards(own, as), isMark2, w.isField(idx), false); op == token.LSS {
			neg = true
		}
		r.Check(okv && neg, p, "waiter registered under its index when the mark is below it", as, "registration is not `waiters[mark.index] = …waiter…` in the branch doneUntil < index")
		return true
	})
	r.Exists(closes == 1 && regs >= 1, p, "waiter branch: release or register", nil, "expected one immediate close and at least one registration")
}

func ruleR34_3(c *Check) {
	w := c.W
	r := c.Rule("R34.3", "E5", 6, "processOne: Begin counts +1 and Done −1 on the index's pending count; an index is popped from the heap only when its count is <= 0 (the loop stops at the first index with count > 0); the mark is set to the last popped index by compare-and-swap only when it changed; every waiter with index <= the new mark is closed on both notification paths; Begin sends done:false, Done sends done:true",
		"popping a pending index reports it done while a commit at it is still being applied; an off-by-one in the notification loop strands the reader waiting for exactly the new mark")
	p := w.F("y.WaterMark.process")
	po := p.LitVar("processOne")
	// delta
	var delta *types.Var
	po.walk(func(n ast.Node) bool {
		if as, ok := n.(*ast.AssignStmt); ok && as.Tok == token.DEFINE && len(as.Lhs) == 1 {
			if v, ok := w.constInt(as.Rhs[0]); ok && v == 1 {
				delta, _ = w.Use(as.Lhs[0].(*ast.Ident)).(*types.Var)
			}
		}
		return true
	})
	okDelta := false
	if delta != nil {
		for _, s := range po.Sites(selStoreVar(delta)) {
			as := s.(*ast.AssignStmt)
			if as.Tok != token.ASSIGN {
				continue
			}
			if v, ok := w.constInt(as.Rhs[0]); ok && v == -1 {
				for _, g := range w.Guards(po, as) {
					if id, ok := g.Cond.(*ast.Ident); ok && g.Val {
						if pv, ok := w.Use(id).(*types.Var); ok && isParamOfLit(po, pv) {
							okDelta = true
						}
					}
				}
			}
		}
	}
	r.Check(okDelta, po, "delta is +1 for begin and −1 for done", nil, "processOne no longer computes delta = 1, or −1 when done")
	// pop guard
	pops := 0
	po.walk(func(n ast.Node) bool {
		call, ok := n.(*ast.CallExpr)
		if !ok || w.Callee(call) != types.Object(w.Func("heap.Pop")) {
			return true
		}
		pops++
		okv := false
		for _, g := range w.Guards(po, call) {
			be, isB := g.Cond.(*ast.BinaryExpr)
			if !isB || !g.Implicit {
				continue
			}
			// `if done := pending[min]; done > 0 { break }` => at the pop: count > 0 is false
			if be.Op == token.GTR && !g.Val {
				if v, ok := w.constInt(be.Y); ok && v == 0 {
					okv = true
				}
			}
		}
		r.Check(okv, po, "index popped only when its pending count is <= 0", call, "heap.Pop is not preceded by `count > 0 → break`")
		return true
	})
	r.Exists(pops == 1, po, "pop site", nil, "expected one heap.Pop")
	// CAS guarded by until != doneUntil, new value from the popped minimum
	for _, s := range po.Sites(selPred("CAS", func(w *World, fn *Fn, n ast.Node) bool {
		call, ok := n.(*ast.CallExpr)
		if !ok {
			return false
		}
		sel, ok := unparen(call.Fun).(*ast.SelectorExpr)
		return ok && sel.Sel.Name == "CompareAndSwap" && w.fieldOf(sel.X) == w.Field("y.WaterMark.doneUntil")
	})) {
		call := s.(*ast.CallExpr)
		until, _ := unparen(call.Args[1]).(*ast.Ident)
		okv := false
		if until != nil {
			uv, _ := w.Use(until).(*types.Var)
			// until is assigned from the heap minimum inside the pop loop
			for _, st := range po.Sites(selStoreVar(uv)) {
				if as, ok := st.(*ast.AssignStmt); ok && as.Tok == token.ASSIGN && insideLoop(w, po, as) {
					okv = true
				}
			}
		}
		r.Check(okv, po, "mark advanced to the last popped index", s, "CompareAndSwap target is not the last popped index")
	}
	// notification loops: idx <= until
	var k keyer
	loops := 0
	po.walk(func(n ast.Node) bool {
		switch x := n.(type) {
		case *ast.ForStmt:
			if x.Cond == nil {
				return true
			}
			if be, ok := unparen(x.Cond).(*ast.BinaryExpr); ok && containsCallTo(w, po, x.Body, "notifyAndRemove") {
				loops++
				r.Check(be.Op == token.LEQ, po, k.key("waiters up to and including the new mark are released", w, x.Cond), x.Cond, "loop bound is '"+be.Op.String()+"'")
				// starts at doneUntil+1
				if as, ok := x.Init.(*ast.AssignStmt); ok {
					if b2, ok := unparen(as.Rhs[0]).(*ast.BinaryExpr); ok {
						v, _ := w.constInt(b2.Y)
						r.Check(b2.Op == token.ADD && v == 1, po, "scan starts right after the old mark", as, "start is "+short(w, as.Rhs[0]))
					}
				}
			}
		case *ast.RangeStmt:
			if containsCallTo(w, po, x.Body, "notifyAndRemove") {
				loops++
				okv := false
				ast.Inspect(x.Body, func(m ast.Node) bool {
					if is, ok := m.(*ast.IfStmt); ok {
						if be, ok := unparen(is.Cond).(*ast.BinaryExpr); ok && be.Op == token.LEQ {
							okv = true
						}
					}
					return true
				})
				r.Check(okv, po, k.key("map path releases waiters <= the new mark", w, x.X), x.X, "range path does not test idx <= until")
			}
		}
		return true
	})
	r.Exists(loops == 2, po, "both notification paths", nil, "expected the counting loop and the map-range loop")
	// Begin/Done polarity
	doneFld := w.Field("y.mark.done")
	for _, nm := range []struct {
		fn   string
		want string
	}{{"y.WaterMark.Begin", "false"}, {"y.WaterMark.Done", "true"}, {"y.WaterMark.BeginMany", "false"}, {"y.WaterMark.DoneMany", "true"}} {
		f := w.F(nm.fn)
		okv := false
		f.walk(func(n ast.Node) bool {
			if kv, ok := n.(*ast.KeyValueExpr); ok {
				if id, ok := kv.Key.(*ast.Ident); ok && w.Use(id) == types.Object(doneFld) {
					if tv := w.Info.Types[kv.Value]; tv.Value != nil && tv.Value.String() == nm.want {
						okv = true
					}
				}
			}
			return true
		})
		r.Check(okv, f, "sends done:"+nm.want, nil, nm.fn+" does not send a mark with done:"+nm.want)
	}
	// process hands each mark to processOne with the mark's own index/done
	okCall := false
	p.walk(func(n ast.Node) bool {
		if call, ok := n.(*ast.CallExpr); ok && w.calleeFn(p, call) == po && len(call.Args) == 2 {
			if w.fieldOf(call.Args[1]) == doneFld {
				okCall = true
			}
		}
		return true
	})
	r.Check(okCall, p, "marks processed with their own done flag", nil, "process does not call processOne(index, mark.done)")
}

func isParamOfLit(f *Fn, v *types.Var) bool {
	if f.Lit == nil {
		return isParam(f, v)
	}
	for _, fld := range f.Lit.Type.Params.List {
		for _, id := range fld.Names {
			if f.W.Use(id) == types.Object(v) {
				return true
			}
		}
	}
	return false
}

func containsCallTo(w *World, f *Fn, body ast.Node, litVar string) bool {
	found := false
	ast.Inspect(body, func(n ast.Node) bool {
		if call, ok := n.(*ast.CallExpr); ok {
			if id, ok := unparen(call.Fun).(*ast.Ident); ok && id.Name == litVar {
				found = true
			}
		}
		return true
	})
	return found
}

// selIncrementNextTs: oracle.incrementNextTs(), or the same thing written out in place
// (`nextTxnTs++`, `nextTxnTs += 1`).
func selIncrementNextTs(w *World) Sel {
	next := w.Field("badger.oracle.nextTxnTs")
	call := selCallName(w, "badger.oracle.incrementNextTs")
	return selPred("incrementNextTs", func(w *World, fn *Fn, n ast.Node) bool {
		if call.Match(w, fn, n) {
			return true
		}
		switch x := n.(type) {
		case *ast.IncDecStmt:
			return x.Tok == token.INC && w.fieldOf(x.X) == next
		case *ast.AssignStmt:
			if x.Tok == token.ADD_ASSIGN && len(x.Lhs) == 1 && len(x.Rhs) == 1 && w.fieldOf(x.Lhs[0]) == next {
				v, isC := w.constInt(x.Rhs[0])
				return isC && v == 1
			}
		}
		return false
	})
}

// R34.4: when the oracle is (re)initialised the commit watermark ends exactly one below the next
// timestamp.
func ruleR34_4(c *Check) {
	w := c.W
	r := c.Rule("R34.4", "E4+E1", 3, "outside oracle.doneCommit every txnMark.Done(x) — Open, DB.Load, StreamWriter.Flush (re)initialising the oracle — leaves the watermark at nextTxnTs-1: either x is the value nextTxnTs holds and incrementNextTs follows on every path, or x is nextTxnTs-1 and no increment follows",
		"a watermark already at the next commit's timestamp lets a reader that starts during that commit in at once (readTs == commitTs while the commit is still being applied); one that is too low strands every reader")
	done := w.Func("y.WaterMark.Done")
	tm := w.Field("badger.oracle.txnMark")
	next := w.Field("badger.oracle.nextTxnTs")
	inc := selIncrementNextTs(w)
	var k keyer
	n := 0
	for _, o := range allSites(w, "badger", selCallOn(done, tm)) {
		f := o.SiteFn
		if f.Root().Name == "badger.oracle.doneCommit" {
			continue
		}
		n++
		call := o.Node.(*ast.CallExpr)
		arg := call.Args[0]
		followed := f.Followed(Occ{V: f.G().VertexOf(call), Node: call, Site: call, SiteFn: f}, f.Occs(inc, 0), exitSuccess).OK
		if followed {
			// x is what nextTxnTs holds: the field itself, a local copy of it, or the very value stored into it just before
			okv := w.fieldOf(w.Origin(f, arg)) == next
			if !okv {
				for _, s := range f.Sites(selStore(next)) {
					if as, isAs := s.(*ast.AssignStmt); isAs && len(as.Rhs) == 1 && s.Pos() < call.Pos() {
						if types.ExprString(unparen(as.Rhs[0])) == types.ExprString(unparen(arg)) {
							okv = true
						}
					}
				}
			}
			r.Check(okv, f, k.key("watermark at nextTxnTs, then incremented", w, call), call, "txnMark.Done("+short(w, arg)+") is followed by incrementNextTs but its argument is not the value of nextTxnTs")
		} else {
			a, b, ok := w.linear(f, arg, w.isField(next), 0)
			r.Check(ok && a == 1 && b == -1, f, k.key("watermark at nextTxnTs-1", w, call), call, "txnMark.Done("+short(w, arg)+") with no increment afterwards: the argument must be nextTxnTs-1")
		}
	}
	r.Exists(n >= 3, nil, "oracle (re)initialisation sites", nil, "expected the txnMark.Done calls of Open, DB.Load and StreamWriter.Flush")
}

func propC34(c *Check) {
	ruleR34_4(c)
	ruleR01_1(c)
	ruleR03_2(c)
	ruleR03_3(c)
	ruleR34_1(c)
	ruleR34_2(c)
	ruleR34_3(c)
	ruleR01_4(c)
}

// ---- C36 ----

func ruleR36_1(c *Check) {
	w := c.W
	r := c.Rule("R36.1", "E6", 4, "oracle.newCommitTs, managed arm: the commit timestamp is txn.commitTs; nextTxnTs is not stored and no watermark is touched there; oracle.readTs panics in managed mode; commitPrecheck rejects commitTs == 0 when transaction markers would be written; doneCommit does nothing in managed mode",
		"in managed mode the caller owns the timestamps: allocating or waiting on internal ones makes commits land at other versions than requested or block forever")
	f := w.F("badger.oracle.newCommitTs")
	managed := w.Field("badger.oracle.isManaged")
	cts := w.Field("badger.Txn.commitTs")
	underManaged := func(fn *Fn, n ast.Node) int {
		for _, g := range w.Guards(fn, n) {
			if w.fieldOf(g.Cond) == managed {
				if g.Val {
					return 1
				}
				return 0
			}
		}
		return -1
	}
	// assignments to the result timestamp
	var k keyer
	found := false
	f.walk(func(n ast.Node) bool {
		as, ok := n.(*ast.AssignStmt)
		if !ok || len(as.Lhs) != 1 || len(as.Rhs) != 1 {
			return true
		}
		if w.fieldOf(as.Rhs[0]) == cts {
			found = true
			r.Check(underManaged(f, as) == 1, f, "commit timestamp taken from txn.commitTs in the managed arm", as, "txn.commitTs used outside the managed arm")
		}
		return true
	})
	r.Check(found, f, "managed arm uses the caller's commit timestamp", nil, "newCommitTs never reads txn.commitTs")
	for _, s := range f.Sites(selStore(w.Field("badger.oracle.nextTxnTs"))) {
		r.Check(underManaged(f, s) == 0, f, k.key("allocation only in normal mode", w, s), s, "nextTxnTs modified in the managed arm")
	}
	for _, s := range f.Sites(selOr(selCallName(w, "y.WaterMark.Begin"), selCallName(w, "badger.oracle.doneRead"))) {
		r.Check(underManaged(f, s) == 0, f, k.key("watermarks only in normal mode", w, s), s, "watermark touched in the managed arm")
	}
	dc := w.F("badger.oracle.doneCommit")
	for _, s := range dc.Sites(selCallName(w, "y.WaterMark.Done")) {
		r.Check(underManaged(dc, s) == 0, dc, "doneCommit is a no-op in managed mode", s, "txnMark.Done runs in managed mode")
	}
	rt := w.F("badger.oracle.readTs")
	okp := false
	rt.walk(func(n ast.Node) bool {
		if call, ok := n.(*ast.CallExpr); ok && w.noReturn(call) && underManaged(rt, call) == 1 {
			okp = true
		}
		return true
	})
	r.Check(okp, rt, "oracle.readTs refuses managed mode", nil, "readTs no longer panics when isManaged")
	cp := w.F("badger.Txn.commitPrecheck")
	okz := false
	// an error return taken under managedTxns && commitTs == 0 (whatever the spelling: inline
	// condition, named condition, nested ifs)
	for _, e := range cp.allExits() {
		rs, ok := e.Node.(*ast.ReturnStmt)
		if !ok || len(rs.Results) != 1 {
			continue
		}
		if id, isId := unparen(rs.Results[0]).(*ast.Ident); isId && id.Name == "nil" {
			continue
		}
		gs := w.Guards(cp, rs)
		zero, managed := false, false
		for _, g := range gs {
			if g.Implicit {
				continue
			}
			if eqOf(g, true, w.isField(cts), w.isConst(0)) {
				zero = true
			}
			if w.fieldOf(g.Cond) == w.Field("badger.Options.managedTxns") && g.Val {
				managed = true
			}
		}
		if zero && managed {
			okz = true
		}
	}
	r.Check(okz, cp, "zero commit timestamp rejected when markers would be written", nil, "commitPrecheck no longer rejects commitTs == 0 in managed mode")
}

func ruleR36_2(c *Check) {
	w := c.W
	r := c.Rule("R36.2", "E5", 3, "commitAndSend.setVersion assigns the commit timestamp only to entries whose version is 0 and clears keepTogether for the others; SetEntryAt stores the caller's version in the entry",
		"overwriting an explicit version moves the write to another timestamp; keeping transaction framing for mixed versions makes replay reject the transaction")
	f := w.F("badger.Txn.commitAndSend")
	ver := w.Field("badger.Entry.version")
	pw, dw := w.Field("badger.Txn.pendingWrites"), w.Field("badger.Txn.duplicateWrites")
	// the assignment of the commit timestamp, wherever it is written (a local closure or inline)
	n := 0
	covered := map[*types.Var]bool{}
	var k keyer
	cover := func(own *Fn, at ast.Node) {
		// the range loop over a queue this store runs in: directly, or through calls of the closure it sits in
		mark := func(fn *Fn, nd ast.Node) {
			for p := w.parentOf(nd); p != nil; p = w.parentOf(p) {
				if rs, ok := p.(*ast.RangeStmt); ok {
					if fld := w.fieldOf(rs.X); fld == pw || fld == dw {
						covered[fld] = true
					}
				}
				if _, isLit := p.(*ast.FuncLit); isLit {
					break
				}
			}
		}
		mark(own, at)
		if own != f {
			f.walkDeep(func(g *Fn, x ast.Node) bool {
				if call, ok := x.(*ast.CallExpr); ok && w.calleeFn(g, call) == own {
					mark(g, call)
				}
				return true
			})
		}
	}
	for _, o := range f.SitesDeep(selStore(ver)) {
		n++
		okv := false
		for _, g := range w.Guards(o.SiteFn, o.Site) {
			if eqOf(g, true, w.isField(ver), w.isConst(0)) {
				okv = true
			}
		}
		r.Check(okv, o.SiteFn, k.key("commit timestamp given only to entries without a version", w, o.Site), o.Site, "e.version assigned although the entry has an explicit version")
		cover(o.SiteFn, o.Site)
	}
	r.Exists(n >= 1, f, "version assignment site", nil, "commitAndSend no longer assigns e.version")
	r.Check(covered[pw] && covered[dw], f, "versions set for latest and duplicate writes", nil, "the commit timestamp is not given to the entries of both pendingWrites and duplicateWrites: an earlier version-less write of a key that was later written with an explicit version goes out at version 0")
	// keepTogether cleared for entries with an explicit version
	okk := false
	f.walkDeep(func(own *Fn, x ast.Node) bool {
		if as, ok := x.(*ast.AssignStmt); ok && len(as.Lhs) == 1 && len(as.Rhs) == 1 {
			if id, ok := as.Lhs[0].(*ast.Ident); ok && isBoolLocal(w, id) {
				if tv := w.Info.Types[as.Rhs[0]]; tv.Value != nil && tv.Value.String() == "false" {
					for _, g := range w.Guards(own, as) {
						if eqOf(g, false, w.isField(ver), w.isConst(0)) {
							okk = true
						}
					}
				}
			}
		}
		return true
	})
	r.Check(okk, f, "explicit versions disable transaction framing", nil, "keepTogether is not cleared for entries with an explicit version")
	// SetEntryAt
	se := w.F("badger.WriteBatch.SetEntryAt")
	oks := false
	for _, s := range se.Sites(selStore(ver)) {
		as := s.(*ast.AssignStmt)
		if id, ok := unparen(as.Rhs[0]).(*ast.Ident); ok {
			if v, ok := w.Use(id).(*types.Var); ok && isParam(se, v) {
				oks = true
			}
		}
	}
	r.Check(oks, se, "SetEntryAt stores the caller's version", nil, "SetEntryAt does not assign e.version from its ts parameter")
}

func ruleR36_3(c *Check) {
	w := c.W
	r := c.Rule("R36.3", "E6", 3, "managed-only entry points refuse normal mode (NewTransactionAt, CommitAt, SetDiscardTs, NewWriteBatchAt, NewManagedWriteBatch panic unless managedTxns) and normal-only ones refuse managed mode (Update, GetSequence); SetDiscardTs goes through setDiscardTs under the oracle mutex",
		"mixing caller-chosen and oracle-chosen timestamps in one database breaks monotonicity of versions")
	mt := w.Field("badger.Options.managedTxns")
	guardPanic := func(name string, wantManaged bool) {
		f := w.F(name)
		okv := false
		f.walk(func(n ast.Node) bool {
			call, ok := n.(*ast.CallExpr)
			if !ok || !w.noReturn(call) {
				return true
			}
			for _, g := range w.Guards(f, call) {
				if w.fieldOf(g.Cond) == mt && g.Val != wantManaged {
					okv = true
				}
			}
			return true
		})
		what := "refuses normal mode"
		if !wantManaged {
			what = "refuses managed mode"
		}
		r.Check(okv, f, what, nil, name+" no longer panics in the wrong mode")
	}
	for _, n := range []string{"badger.DB.NewTransactionAt", "badger.Txn.CommitAt", "badger.DB.SetDiscardTs", "badger.DB.NewWriteBatchAt", "badger.DB.NewManagedWriteBatch"} {
		guardPanic(n, true)
	}
	for _, n := range []string{"badger.DB.Update", "badger.DB.GetSequence"} {
		guardPanic(n, false)
	}
	sd := w.F("badger.DB.SetDiscardTs")
	r.Exists(len(sd.Sites(selCallName(w, "badger.oracle.setDiscardTs"))) >= 1, sd, "SetDiscardTs delegates to the oracle", nil, "SetDiscardTs does not call oracle.setDiscardTs")
}

func propC36(c *Check) {
	ruleR36_1(c)
	ruleR36_2(c)
	ruleR36_3(c)
	ruleR13_3(c)
	ruleR01_1(c)
	ruleR01_3(c) // caller-chosen versions are not ordered by age: the newest version is taken over ALL sources
}

// ---- C11 ----

func ruleR11_1(c *Check) {
	w := c.W
	r := c.Rule("R11.1", "E1", 6, "Open: openMemTables and newLevelsController dominate `orc.nextTxnTs = db.MaxVersion()`, which dominates txnMark.Done, readMark.Done and incrementNextTs, which dominate the start of doWrites",
		"if the oracle is initialised before all versions are loaded, or a commit can be allocated before it is initialised, a new commit gets a timestamp at or below a stored version and is shadowed by old data")
	f := w.F("badger.Open")
	next := w.Field("badger.oracle.nextTxnTs")
	// the initialising store (a plain assignment); the increment — oracle.incrementNextTs or the
	// same thing written out (`nextTxnTs++` / `+= 1`) — is the other kind of store
	store := selPred("nextTxnTs = …", func(w *World, fn *Fn, n ast.Node) bool {
		as, ok := n.(*ast.AssignStmt)
		if !ok || as.Tok != token.ASSIGN {
			return false
		}
		for _, l := range as.Lhs {
			if w.fieldOf(l) == next {
				return true
			}
		}
		return false
	})
	sites := f.Sites(store)
	r.Exists(len(sites) == 1, f, "oracle initialised once", nil, "expected one store to nextTxnTs in Open")
	for _, s := range sites {
		as := s.(*ast.AssignStmt)
		r.Check(len(as.Rhs) == 1 && w.isCallTo(as.Rhs[0], w.Func("badger.DB.MaxVersion")), f, "nextTxnTs initialised from MaxVersion()", s, "initialised from "+short(w, as.Rhs[0]))
	}
	r.DomAll(f, "oracle initialised after memtables are replayed", store, 0, selCallName(w, "badger.DB.openMemTables"), 0)
	r.DomAll(f, "oracle initialised after tables are loaded", store, 0, selCallName(w, "badger.newLevelsController"), 0)
	done := w.Func("y.WaterMark.Done")
	tm, rm := w.Field("badger.oracle.txnMark"), w.Field("badger.oracle.readMark")
	r.DomAll(f, "txnMark.Done after initialisation", selCallOn(done, tm), 0, store, 0)
	r.DomAll(f, "readMark.Done after initialisation", selCallOn(done, rm), 0, store, 0)
	inc := selIncrementNextTs(w)
	r.DomAll(f, "increment after marking done", inc, 0, selCallOn(done, tm), 0)
	dw := selCallName(w, "badger.DB.doWrites")
	n := r.DomAll(f, "write loop started after the oracle is ready", dw, 0, inc, 0)
	r.Exists(n == 1, f, "write loop start", nil, "Open no longer starts doWrites")
	// the watermark arguments are the initial timestamp
	for _, s := range f.Sites(selOr(selCallOn(done, tm), selCallOn(done, rm))) {
		// (a local copy of nextTxnTs taken after the initialisation and before the increment counts:
		// R11.1's order clauses above pin the marks between the two)
		arg := s.(*ast.CallExpr).Args[0]
		okArg := w.fieldOf(arg) == next
		if id, isId := unparen(arg).(*ast.Ident); isId && !okArg {
			if v, isVar := w.Use(id).(*types.Var); isVar {
				if defs := w.DefsOf(f, v); len(defs) == 1 && w.fieldOf(defs[0]) == next {
					okArg = true
					// the copy is taken after the initialising store and before the increment
					for _, st := range f.Sites(selStoreVar(v)) {
						r.DomAll(f, "copy of nextTxnTs taken after initialisation", selNode(st), 0, store, 0)
						r.NeverAfterAll(f, "copy of nextTxnTs taken before the increment", inc, 0, selNode(st), 0)
					}
				}
			}
		}
		r.Check(okArg, f, "watermark marked done at the initial timestamp", s, "argument is "+short(w, arg))
	}
}

// everyElement: the statement at `site` runs for every element of the range loop rs: the loop
// body has no break/return/goto and no continue before the site, and the site is under no
// condition inside the loop.
func everyElement(w *World, f *Fn, rs *ast.RangeStmt, site ast.Node) bool {
	ok := true
	ast.Inspect(rs.Body, func(n ast.Node) bool {
		switch x := n.(type) {
		case *ast.FuncLit:
			return false
		case *ast.BranchStmt:
			if x.Tok == token.BREAK || x.Tok == token.GOTO || (x.Tok == token.CONTINUE && x.Pos() < site.Pos()) {
				ok = false
			}
		case *ast.ReturnStmt:
			ok = false
		}
		return true
	})
	if !ok {
		return false
	}
	for _, g := range w.Guards(f, site) {
		if g.At == nil || g.At.Pos() < rs.Body.Pos() || g.At.End() > rs.Body.End() {
			continue // a condition outside the loop
		}
		return false
	}
	return true
}

func ruleR11_2(c *Check) {
	w := c.W
	r := c.Rule("R11.2", "E4", 3, "DB.MaxVersion takes the maximum over db.mt.maxVersion (unless read-only), every element of db.imm, and MaxVersion of every entry of db.Tables()",
		"a source left out can hold the highest version; the next commit after re-open then reuses a timestamp")
	f := w.F("badger.DB.MaxVersion")
	upd := f.LitVar("update")
	mv := w.Field("badger.memTable.maxVersion")
	srcs := map[string]bool{}
	f.walk(func(n ast.Node) bool {
		call, ok := n.(*ast.CallExpr)
		if !ok || w.calleeFn(f, call) != upd || len(call.Args) != 1 {
			return true
		}
		a := call.Args[0]
		switch {
		case w.fieldOf(a) == mv && w.mentions(a, w.Field("badger.DB.mt")):
			srcs["mt"] = true
			ro := HasGuard(w.Guards(f, call), false, func(e ast.Expr) bool { return w.fieldOf(e) == w.Field("badger.Options.ReadOnly") })
			r.Check(ro != nil, f, "mutable memtable consulted unless read-only", call, "db.mt consulted without the ReadOnly test")
		case w.fieldOf(a) == mv:
			for p := w.parentOf(call); p != nil; p = w.parentOf(p) {
				if rs, ok := p.(*ast.RangeStmt); ok && w.fieldOf(rs.X) == w.Field("badger.DB.imm") {
					srcs["imm"] = true
					r.Check(everyElement(w, f, rs, call), f, "every immutable memtable takes part in the maximum", call, "the loop over db.imm is left early or the update is conditional: a memtable holding the highest version can be skipped")
				}
			}
		case w.fieldOf(a) == w.Field("badger.TableInfo.MaxVersion"):
			for p := w.parentOf(call); p != nil; p = w.parentOf(p) {
				if rs, ok := p.(*ast.RangeStmt); ok && (w.isCallTo(rs.X, w.Func("badger.DB.Tables")) || w.isCallTo(w.Origin(f, rs.X), w.Func("badger.DB.Tables"))) {
					srcs["tables"] = true
					r.Check(everyElement(w, f, rs, call), f, "every table of every level takes part in the maximum", call, "the loop over db.Tables() is left early or the update is conditional: versions are not ordered by level (an incremental StreamWriter load or a value-log GC write-back puts old versions above new ones), so a skipped table can hold the highest version")
				}
			}
		}
		return true
	})
	for _, s := range []string{"mt", "imm", "tables"} {
		r.Check(srcs[s], f, "source covered: "+s, nil, "MaxVersion does not consult "+s)
	}
	// update keeps the maximum
	okm := false
	upd.walk(func(n ast.Node) bool {
		// `if a > maxVersion { maxVersion = a }` in any spelling: the store of the candidate is guarded by candidate > current
		as, ok := n.(*ast.AssignStmt)
		if !ok || len(as.Lhs) != 1 || len(as.Rhs) != 1 {
			return true
		}
		cur, ok1 := unparen(as.Lhs[0]).(*ast.Ident)
		cand, ok2 := unparen(as.Rhs[0]).(*ast.Ident)
		if !ok1 || !ok2 {
			return true
		}
		isCur := func(e ast.Expr) bool { id, ok := unparen(e).(*ast.Ident); return ok && w.Use(id) == w.Use(cur) }
		isCand := func(e ast.Expr) bool { id, ok := unparen(e).(*ast.Ident); return ok && w.Use(id) == w.Use(cand) }
		if op, g := w.guardRel(w.Guards(upd, as), isCand, isCur, false); g != nil && (op == token.GTR || op == token.GEQ) {
			okm = true
		}
		return true
	})
	r.Check(okm, upd, "running maximum", nil, "update no longer keeps the larger value")
	// Tables() reports each table's MaxVersion
	tb := w.F("badger.levelsController.getTableInfo")
	r.Check(w.mentions(tb.Body, w.Func("table.Table.MaxVersion")), tb, "table info carries the table's max version", nil, "getTableInfo no longer fills MaxVersion")
}

func ruleR11_3(c *Check) {
	w := c.W
	r := c.Rule("R11.3", "E4", 5, "the statement `if ts := ParseTs(key); ts > max { max = ts }` maintains the max version in memTable.Put (after the skiplist insert, not for the end marker), in the WAL replay function and in Builder.addHelper; the builder's value is stored in the table index and read back by Table.MaxVersion",
		"a path that adds keys without raising the maximum makes MaxVersion() (hence the oracle after re-open) too small")
	parseTs := w.Func("y.ParseTs")
	raise := func(f *Fn, fld *types.Var) (ast.Node, bool) {
		var at ast.Node
		ok := false
		f.walkDeep(func(own *Fn, n ast.Node) bool {
			as, isAs := n.(*ast.AssignStmt)
			if !isAs || len(as.Lhs) != 1 || w.fieldOf(as.Lhs[0]) != fld {
				return true
			}
			at = as
			if op, _ := w.guardRel(w.Guards(own, as), w.isCallOf(parseTs), w.isField(fld), false); op == token.GTR {
				if w.isCallTo(as.Rhs[0], parseTs) {
					ok = true
				}
			}
			return true
		})
		return at, ok
	}
	mv := w.Field("badger.memTable.maxVersion")
	for _, name := range []string{"badger.memTable.Put", "badger.memTable.replayFunction"} {
		f := w.F(name)
		at, ok := raise(f, mv)
		r.Check(ok, f, "raises memTable.maxVersion", at, name+" does not raise maxVersion with the key's timestamp")
	}
	// Put: not for the fin marker — the raise is after the early return for bitFinTxn, and after sl.Put
	put := w.F("badger.memTable.Put")
	r.DomAll(put, "maxVersion raised after the skiplist insert", selStore(mv), 0, selCallName(w, "skl.Skiplist.Put"), 0)
	bmv := w.Field("table.Builder.maxVersion")
	ah := w.F("table.Builder.addHelper")
	at, ok := raise(ah, bmv)
	r.Check(ok, ah, "raises Builder.maxVersion", at, "addHelper does not raise maxVersion with the key's timestamp")
	// stored in the index and read back
	stored := false
	for _, f := range w.Fns {
		if shortPkg(f.Pkg) == "table" && f.Root().Obj != nil && f.Root().Obj.Name() == "buildIndex" {
			if w.mentions(f.Body, bmv) {
				stored = true
			}
		}
	}
	r.Check(stored, ah, "builder's max version written to the table index", nil, "buildIndex no longer stores maxVersion")
	tm := w.F("table.Table.MaxVersion")
	ci := w.Field("table.cheapIndex.MaxVersion")
	filled := false
	for _, f := range w.Fns {
		if shortPkg(f.Pkg) != "table" {
			continue
		}
		f.walk(func(n ast.Node) bool {
			if kv, ok := n.(*ast.KeyValueExpr); ok {
				if id, ok := kv.Key.(*ast.Ident); ok && w.Use(id) == types.Object(ci) && w.isCallTo(kv.Value, w.Func("fb.TableIndex.MaxVersion")) {
					filled = true
				}
			}
			return true
		})
	}
	r.Check(w.mentions(tm.Body, ci) && filled, tm, "Table.MaxVersion reads the value stored in the index", nil, "Table.MaxVersion no longer returns the index's MaxVersion")
}

func ruleR11_4(c *Check) {
	w := c.W
	r := c.Rule("R11.4", "E5", 2, "DB.Load: for every loaded entry, kv.Version >= nextTxnTs implies nextTxnTs = kv.Version+1; the loader is finished before txnMark.Done",
		"after a restore the next commit must be above every restored version")
	f := w.F("badger.DB.Load")
	next := w.Field("badger.oracle.nextTxnTs")
	ver := w.Field("pb.KV.Version")
	n := 0
	f.walkDeep(func(own *Fn, x ast.Node) bool {
		as, ok := x.(*ast.AssignStmt)
		if !ok || len(as.Lhs) != 1 || w.fieldOf(as.Lhs[0]) != next {
			return true
		}
		n++
		be, isB := unparen(as.Rhs[0]).(*ast.BinaryExpr)
		plus1 := false
		if isB && be.Op == token.ADD && w.fieldOf(be.X) == ver {
			v, _ := w.constInt(be.Y)
			plus1 = v == 1
		}
		okg := false
		if op, _ := w.guardRel(w.Guards(own, as), w.isField(ver), w.isField(next), false); op == token.GEQ {
			okg = true
		}
		r.Check(plus1 && okg, own, "nextTxnTs raised above every loaded version", as, "Load does not maintain nextTxnTs = max(nextTxnTs, version+1)")
		// … for EVERY entry: besides that comparison, the loops and error returns, nothing decides
		// whether an entry takes part (a delete marker or an expired entry is a stored version too)
		for _, g := range w.Guards(own, as) {
			if _, ok := w.cmpRoles(g.Cond, g.Val, w.isField(ver), w.isField(next)); ok {
				continue
			}
			if _, isFor := g.At.(*ast.ForStmt); isFor {
				continue
			}
			if g.Implicit && (w.errNonNil(g.Cond, !g.Val) || w.mentions(g.Cond, w.Obj("io.EOF"))) {
				continue
			}
			r.Check(false, own, "every loaded entry takes part in the raise", as, "an entry is left out of the nextTxnTs raise depending on "+short(w, g.Cond)+": the next commit can get a timestamp at or below a stored version")
		}
		return true
	})
	r.Exists(n >= 1, f, "raise site", nil, "Load no longer raises nextTxnTs")
	r.DomAll(f, "txnMark.Done after the loader finished", selCallOn(w.Func("y.WaterMark.Done"), w.Field("badger.oracle.txnMark")), 0, selCallName(w, "badger.KVLoader.Finish"), 0)
}

func ruleR11_5(c *Check) {
	w := c.W
	r := c.Rule("R11.5", "E1", 4, "StreamWriter.Write raises sw.maxVersion for every entry; Flush sets the (fresh) oracle's nextTxnTs to maxVersion, marks it done on both watermarks, then increments",
		"a stream-loaded database must continue above the streamed versions")
	wr := w.F("badger.StreamWriter.Write")
	mv := w.Field("badger.StreamWriter.maxVersion")
	okv := false
	wr.walkDeep(func(own *Fn, n ast.Node) bool {
		as, ok := n.(*ast.AssignStmt)
		if !ok || len(as.Lhs) != 1 || w.fieldOf(as.Lhs[0]) != mv {
			return true
		}
		notMv := func(e ast.Expr) bool { return w.fieldOf(e) != mv }
		if op, _ := w.guardRel(w.Guards(own, as), w.isField(mv), notMv, false); op == token.LSS || op == token.LEQ {
			okv = true
		}
		return true
	})
	r.Check(okv, wr, "max version raised per entry", nil, "Write no longer maintains sw.maxVersion")
	fl := w.F("badger.StreamWriter.Flush")
	next := w.Field("badger.oracle.nextTxnTs")
	st := selStore(next)
	// (the oracle installation may sit in a helper that Flush calls at one place: it is looked at in
	// whichever function holds the store)
	inc := selIncrementNextTs(w)
	done := w.Func("y.WaterMark.Done")
	seenFn := map[*Fn]bool{}
	incs := 0
	for _, o := range fl.SitesInl(st) {
		as, isAs := o.Node.(*ast.AssignStmt)
		if !isAs || as.Tok != token.ASSIGN || len(as.Rhs) != 1 {
			continue // the increment written out
		}
		r.Check(w.fieldOf(w.Origin(o.SiteFn, as.Rhs[0])) == mv, o.SiteFn, "oracle continues from the streamed max version", as, "nextTxnTs set from "+short(w, as.Rhs[0]))
		if g := o.SiteFn; !seenFn[g] {
			seenFn[g] = true
			r.DomAll(g, "txnMark.Done after nextTxnTs", selCallOn(done, w.Field("badger.oracle.txnMark")), 0, selNode(as), 0)
			r.DomAll(g, "increment after Done", inc, 0, selCallOn(done, w.Field("badger.oracle.txnMark")), 0)
			incs += len(g.Sites(inc))
		}
	}
	r.Exists(incs >= 1, fl, "increment present", nil, "Flush no longer increments nextTxnTs")
}

func propC11(c *Check) {
	ruleR11_1(c)
	ruleR11_2(c)
	ruleR11_3(c)
	ruleR11_4(c)
	ruleR11_5(c)
}
