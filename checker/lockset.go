package main

// E2 "lockset": must-held locks at each vertex of a function (forward
// dataflow over the node-level CFG), at lock-object granularity (the struct
// field or variable holding the mutex). "Caller holds the lock" is verified
// through the call graph, not trusted.

import (
	"go/ast"
	"go/types"
	"sort"
	"strings"
)

type lockOp struct {
	Lock    types.Object // field/variable holding the mutex
	Acquire bool
	Read    bool
	Call    *ast.CallExpr
	Defer   bool
}

// lockOpOf recognises x.Lock()/RLock()/Unlock()/RUnlock() on sync.Mutex/RWMutex.
func (w *World) lockOpOf(call *ast.CallExpr) *lockOp {
	sel, ok := unparen(call.Fun).(*ast.SelectorExpr)
	if !ok {
		return nil
	}
	fn, ok := w.Callee(call).(*types.Func)
	if !ok || fn.Pkg() == nil || fn.Pkg().Path() != "sync" {
		return nil
	}
	sig := fn.Type().(*types.Signature)
	if sig.Recv() == nil {
		return nil
	}
	rn := recvName(sig.Recv().Type())
	if rn != "Mutex" && rn != "RWMutex" {
		return nil
	}
	op := &lockOp{Call: call}
	switch fn.Name() {
	case "Lock":
		op.Acquire = true
	case "RLock":
		op.Acquire, op.Read = true, true
	case "Unlock":
	case "RUnlock":
		op.Read = true
	default:
		return nil
	}
	op.Lock = w.lockObject(sel)
	if op.Lock == nil {
		return nil
	}
	return op
}

// lockObject: which field/variable is the mutex in `recv.Lock()`.
func (w *World) lockObject(sel *ast.SelectorExpr) types.Object {
	if s := w.Info.Selections[sel]; s != nil && len(s.Index()) > 1 {
		// promoted through embedded field(s): walk the path
		t := s.Recv()
		var fld *types.Var
		idx := s.Index()
		for _, i := range idx[:len(idx)-1] {
			if p, ok := t.Underlying().(*types.Pointer); ok {
				t = p.Elem()
			}
			st, ok := t.Underlying().(*types.Struct)
			if !ok {
				return nil
			}
			fld = st.Field(i)
			t = fld.Type()
		}
		return fld
	}
	x := unparen(sel.X)
	if u, ok := x.(*ast.UnaryExpr); ok {
		x = unparen(u.X)
	}
	if v := w.fieldOf(x); v != nil {
		return v
	}
	if id, ok := x.(*ast.Ident); ok {
		return w.Use(id)
	}
	return nil
}

type lockFlow struct {
	ops map[int][]*lockOp      // vertex -> ops in evaluation order
	in  []map[types.Object]int // vertex -> must-held set (value: 1 read, 2 write)
	top []bool
}

func (f *Fn) lockFlow() *lockFlow {
	if f.locks != nil {
		return f.locks
	}
	g := f.G()
	w := f.W
	lf := &lockFlow{ops: map[int][]*lockOp{}, in: make([]map[types.Object]int, len(g.V)), top: make([]bool, len(g.V))}
	f.walk(func(n ast.Node) bool {
		c, ok := n.(*ast.CallExpr)
		if !ok {
			return true
		}
		op := w.lockOpOf(c)
		if op == nil {
			// wrapper functions that return with a lock held (compactDef.lockLevels) or release a
			// lock taken by their caller (unlockLevels): treated as acquire/release at the call site
			if cal := w.calleeFn(f, c); cal != nil && cal != f {
				if _, isDefer := w.parentOf(c).(*ast.DeferStmt); isDefer {
					return true
				}
				if _, isGo := w.parentOf(c).(*ast.GoStmt); isGo {
					return true
				}
				acq, rel := cal.lockSummary()
				v := g.VertexOf(c)
				if v >= 0 {
					for l, mode := range acq {
						lf.ops[v] = append(lf.ops[v], &lockOp{Lock: l, Acquire: true, Read: mode == 1, Call: c})
					}
					for _, l := range rel {
						lf.ops[v] = append(lf.ops[v], &lockOp{Lock: l, Acquire: false, Call: c})
					}
				}
			}
			return true
		}
		if _, isDefer := w.parentOf(c).(*ast.DeferStmt); isDefer {
			op.Defer = true
			return true // deferred unlock does not release before the exit
		}
		if _, isGo := w.parentOf(c).(*ast.GoStmt); isGo {
			return true
		}
		v := g.VertexOf(c)
		if v >= 0 {
			lf.ops[v] = append(lf.ops[v], op)
		}
		return true
	})
	for v := range lf.ops {
		ops := lf.ops[v]
		sort.SliceStable(ops, func(i, j int) bool { return ops[i].Call.Pos() < ops[j].Call.Pos() })
	}
	for i := range lf.top {
		lf.top[i] = true
	}
	lf.top[g.Entry] = false
	lf.in[g.Entry] = map[types.Object]int{}
	work := []int{g.Entry}
	inq := map[int]bool{g.Entry: true}
	out := func(v int) map[types.Object]int {
		m := map[types.Object]int{}
		for k, x := range lf.in[v] {
			m[k] = x
		}
		for _, op := range lf.ops[v] {
			if op.Acquire {
				if op.Read {
					if m[op.Lock] < 1 {
						m[op.Lock] = 1
					}
				} else {
					m[op.Lock] = 2
				}
			} else {
				delete(m, op.Lock)
			}
		}
		return m
	}
	for len(work) > 0 {
		v := work[0]
		work = work[1:]
		inq[v] = false
		o := out(v)
		for _, s := range g.V[v].Succ {
			changed := false
			if lf.top[s] {
				lf.top[s] = false
				lf.in[s] = map[types.Object]int{}
				for k, x := range o {
					lf.in[s][k] = x
				}
				changed = true
			} else {
				for k, x := range lf.in[s] {
					y, ok := o[k]
					if !ok {
						delete(lf.in[s], k)
						changed = true
					} else if y < x {
						lf.in[s][k] = y
						changed = true
					}
				}
			}
			if changed && !inq[s] {
				inq[s] = true
				work = append(work, s)
			}
		}
	}
	f.locks = lf
	return lf
}

// HeldAt: locks certainly held (in this function's own body) when node n is evaluated.
func (f *Fn) HeldAt(n ast.Node) map[types.Object]int {
	g := f.G()
	lf := f.lockFlow()
	v := g.VertexOf(n)
	if v < 0 || lf.top[v] {
		return map[types.Object]int{}
	}
	m := map[types.Object]int{}
	for k, x := range lf.in[v] {
		m[k] = x
	}
	for _, op := range lf.ops[v] {
		if op.Call.End() <= n.Pos() || (n.Pos() <= op.Call.Pos() && op.Call.End() <= n.End() && ast.Node(op.Call) != n) {
			if op.Acquire {
				if op.Read && m[op.Lock] < 1 {
					m[op.Lock] = 1
				} else if !op.Read {
					m[op.Lock] = 2
				}
			} else {
				delete(m, op.Lock)
			}
		}
	}
	return m
}

// HeldDeep: lock certainly held at node n of f, either locally or because every
// synchronous call path into f (up to depth callers) holds it at the call site.
// mode 1 = read suffices, 2 = write lock required.
func (f *Fn) HeldDeep(n ast.Node, lock types.Object, mode int, depth int, trail *[]string) bool {
	if f.HeldAt(n)[lock] >= mode {
		return true
	}
	if depth == 0 {
		if trail != nil {
			*trail = append(*trail, "not held in "+f.Name+" at "+f.W.Position(n.Pos()))
		}
		return false
	}
	sites := f.W.CG().CallSitesOf(f)
	if len(sites) == 0 {
		if trail != nil {
			*trail = append(*trail, "not held in "+f.Name+" at "+f.W.Position(n.Pos())+" (no callers)")
		}
		return false
	}
	for _, cs := range sites {
		if cs.Async {
			if trail != nil {
				*trail = append(*trail, "spawned without lock from "+cs.Caller.Name)
			}
			return false
		}
		if !cs.Caller.HeldDeep(cs.Node, lock, mode, depth-1, trail) {
			if trail != nil {
				*trail = append(*trail, "via "+f.Name+" called at "+f.W.Position(cs.Node.Pos()))
			}
			return false
		}
	}
	return true
}

func lockNames(m map[types.Object]int) string {
	var s []string
	for k := range m {
		s = append(s, k.Name())
	}
	sort.Strings(s)
	return strings.Join(s, ",")
}

// lockName gives a stable printable name for a lock object.
func (w *World) lockName(o types.Object) string {
	if v, ok := o.(*types.Var); ok && v.IsField() {
		// find owner struct among repo named types
		for _, n := range w.named {
			if st, ok := n.Underlying().(*types.Struct); ok {
				for i := 0; i < st.NumFields(); i++ {
					if st.Field(i) == v {
						return n.Obj().Name() + "." + v.Name()
					}
				}
			}
		}
	}
	return o.Name()
}

var lockSummaryMemo = map[*Fn][2]interface{}{}

// lockSummary recognises lock wrappers syntactically: a function that acquires lock L at the top
// level of its body and never releases L returns with L held (net acquire); a function that
// releases L at the top level of its body and never acquires L releases its caller's lock.
func (f *Fn) lockSummary() (map[types.Object]int, []types.Object) {
	if m, ok := lockSummaryMemo[f]; ok {
		return m[0].(map[types.Object]int), m[1].([]types.Object)
	}
	w := f.W
	acqTop := map[types.Object]int{}
	acqAny := map[types.Object]bool{}
	relTop := map[types.Object]bool{}
	relAny := map[types.Object]bool{}
	f.walk(func(n ast.Node) bool {
		c, ok := n.(*ast.CallExpr)
		if !ok {
			return true
		}
		op := w.lockOpOf(c)
		if op == nil {
			return true
		}
		top := false
		if es, ok := w.parentOf(c).(*ast.ExprStmt); ok && w.parentOf(es) == ast.Node(f.Body) {
			top = true
		}
		_, isDefer := w.parentOf(c).(*ast.DeferStmt)
		if op.Acquire {
			acqAny[op.Lock] = true
			if top {
				mode := 2
				if op.Read {
					mode = 1
				}
				if acqTop[op.Lock] == 0 || mode < acqTop[op.Lock] {
					acqTop[op.Lock] = mode
				}
			}
		} else {
			relAny[op.Lock] = true
			if top || isDefer {
				relTop[op.Lock] = top
			}
		}
		return true
	})
	acq := map[types.Object]int{}
	for l, mode := range acqTop {
		if !relAny[l] {
			acq[l] = mode
		}
	}
	var rel []types.Object
	for l, top := range relTop {
		if top && !acqAny[l] {
			rel = append(rel, l)
		}
	}
	lockSummaryMemo[f] = [2]interface{}{acq, rel}
	return acq, rel
}
