package main

// Thorough tier: SSA for the whole program and the VTA-refined call graph.
//
// The VTA graph is context-insensitive: a call through a function value (the callback of
// logFile.iterate, z.Buffer.SliceIterate, DB.Update …) resolves to every function that may flow
// there from anywhere. Merging those edges into the graph the rules use would make
// "must not reach" and "caller holds the lock" rules raise alarms on correct code, so the rules
// keep using the syntactic graph (static calls, closures, literals handed on, class-hierarchy
// resolution of interface calls). VTA is used to cross-check that graph (every edge the
// syntactic resolver claims must exist in the VTA graph) and to report, as evidence, how many
// dynamic call sites exist and how many targets VTA finds for them.

import (
	"fmt"
	"go/ast"
	"go/types"
	"os"
	"os/exec"
	"path/filepath"
	"strings"

	"golang.org/x/tools/go/callgraph"
	"golang.org/x/tools/go/callgraph/cha"
	"golang.org/x/tools/go/callgraph/vta"
	"golang.org/x/tools/go/ssa"
	"golang.org/x/tools/go/ssa/ssautil"
)

type vtaInfo struct {
	prog     *ssa.Program
	cg       *callgraph.Graph
	nfuncs   int
	added    int // dynamic edges VTA resolves into repository function bodies
	checked  int // syntactic edges cross-checked against VTA
	missing  []string
	dynSites int
}

func (w *World) buildVTA() error {
	prog, _ := ssautil.AllPackages(w.All, ssa.InstantiateGenerics)
	prog.Build()
	all := ssautil.AllFunctions(prog)
	g := vta.CallGraph(all, cha.CallGraph(prog))
	w.vta = &vtaInfo{prog: prog, cg: g, nfuncs: len(all)}
	return nil
}

// addVTAEdges is kept for the CallGraph constructor's signature; VTA edges are not merged (see above).
func (w *World) addVTAEdges(cg *CallGraph, add func(*CallSite)) {}

// crossCheckCallGraph verifies syntactic static/closure edges against the VTA graph.
func (w *World) crossCheckCallGraph() {
	v := w.vta
	if v == nil || v.checked > 0 {
		return
	}
	declFn := map[*ast.FuncDecl]*Fn{}
	for _, t := range w.Fns {
		if t.Decl != nil {
			declFn[t.Decl] = t
		}
	}
	lookup := func(f *ssa.Function) *Fn {
		if f == nil {
			return nil
		}
		switch s := f.Syntax().(type) {
		case *ast.FuncDecl:
			return declFn[s]
		case *ast.FuncLit:
			return w.ByLit[s]
		}
		return nil
	}
	have := map[[2]*Fn]bool{}
	for fn, node := range v.cg.Nodes {
		caller := lookup(fn)
		if caller == nil {
			continue
		}
		for _, e := range node.Out {
			callee := lookup(e.Callee.Func)
			if callee == nil {
				continue
			}
			have[[2]*Fn{caller, callee}] = true
			if e.Site != nil && e.Site.Common().StaticCallee() == nil && !e.Site.Common().IsInvoke() {
				v.added++
			}
		}
	}
	cg := w.CG()
	v.dynSites = cg.Dyn
	for f, outs := range cg.Out {
		if isGeneric(f) {
			continue
		}
		for _, cs := range outs {
			if cs.Kind != "static" && cs.Kind != "closure" {
				continue
			}
			if isGeneric(cs.Callee) {
				continue
			}
			v.checked++
			if !have[[2]*Fn{f, cs.Callee}] {
				v.missing = append(v.missing, f.Name+" -> "+cs.Callee.Name)
			}
		}
	}
}

// thoroughExtras: deeper, tier-specific work for one property (see DESIGN.md 2.1).
func (c *Check) thoroughExtras() {
	w := c.W
	// (a) call graph cross-check
	w.crossCheckCallGraph()
	r := c.Rule("T.cg", "E3/VTA", 1, "every static and closure call edge used by the rules exists in the VTA-refined SSA call graph of the whole program (cross-check of the syntactic callee resolution)",
		"a resolver that invents or misses callees would silently change what every reachability and who-may-call rule decides")
	miss := w.vta.missing
	// literals never called but created, generic instantiations and dead code are not in the SSA graph: tolerate a small residue
	ok := len(miss)*50 <= w.vta.checked
	msg := ""
	if !ok {
		msg = fmt.Sprintf("%d of %d syntactic edges are absent from the VTA graph, e.g. %s", len(miss), w.vta.checked, strings.Join(miss[:min(5, len(miss))], "; "))
	}
	r.Check(ok, nil, "syntactic call edges confirmed by VTA", nil, msg)
	c.Notes = append(c.Notes, fmt.Sprintf("thorough: SSA functions=%d, syntactic edges cross-checked=%d (absent in VTA: %d), dynamic call sites=%d, VTA-resolved dynamic edges into repo bodies=%d",
		w.vta.nfuncs, w.vta.checked, len(miss), w.vta.dynSites, w.vta.added))
	// (b) premises about ristretto/z that rules rely on (z has syntax only in this tier)
	c.zPremises()
	// (c) the checker's own mutants for this property must fire — on a tree that satisfies the rules.
	// If the tree under test already violates a rule of this property, a mutant applied on top of it
	// is reported under whatever fires first; the self-test would then call the check broken and hide
	// the violation. The verdict on the tree comes first.
	known, _ := loadKnown(c.Root)
	for _, o := range c.Obs {
		if o.OK {
			continue
		}
		isKnown := false
		for _, k := range known {
			if k.Prop == c.Prop && k.Rule == o.Rule && k.Site == o.Fn+"|"+o.Construct {
				isKnown = true
			}
		}
		if !isKnown {
			c.Notes = append(c.Notes, "thorough: mutant self-test skipped, the tree under test violates "+o.Rule)
			return
		}
	}
	c.runMutants()
}

func min(a, b int) int {
	if a < b {
		return a
	}
	return b
}

// zPremises verifies, on ristretto's source, the library facts quoted in rule exceptions.
func (c *Check) zPremises() {
	w := c.W
	if !w.HasF("z.MmapFile.Delete") {
		return
	}
	uses := map[string]bool{"C07": true, "C37": true, "C10": true}
	if !uses[c.Prop] {
		return
	}
	r := c.Rule("T.z", "E6", 2, "library premises quoted by rule exceptions hold in ristretto/z as vendored: MmapFile.Delete and MmapFile.Close return at once when Fd == nil; Delete truncates through the descriptor before it removes the file; OpenMmapFileUsing syncs the directory only for files of size zero",
		"the exceptions of R07.2/R37.1 and the analysis behind R10.5 depend on these facts")
	nilFd := func(name string) bool {
		f := w.F(name)
		ok := false
		f.walk(func(n ast.Node) bool {
			if is, isIf := n.(*ast.IfStmt); isIf {
				if be, isB := unparen(is.Cond).(*ast.BinaryExpr); isB && isNil(be.Y) && w.fieldOf(be.X) != nil && w.fieldOf(be.X).Name() == "Fd" && w.terminates(is.Body.List) {
					// must be the first statement
					if list, i := w.stmtListOf(is); list != nil && i == 0 {
						ok = true
					}
				}
			}
			return true
		})
		return ok
	}
	r.Check(nilFd("z.MmapFile.Delete"), w.F("z.MmapFile.Delete"), "Delete is a no-op without descriptor", nil, "MmapFile.Delete no longer returns first when Fd == nil")
	r.Check(nilFd("z.MmapFile.Close"), w.F("z.MmapFile.Close"), "Close is a no-op without descriptor", nil, "MmapFile.Close no longer returns first when Fd == nil")
	d := w.F("z.MmapFile.Delete")
	r.DomAll(d, "file removed only after truncating through the descriptor", selCall(w.Func("os.Remove")), 0, selCall(w.Func("os.File.Truncate")), 0)
	for _, s := range d.Sites(selCall(w.Func("os.File.Truncate"))) {
		r.Check(w.errIsFatal(d, s.(*ast.CallExpr)), d, "a failing truncate aborts Delete", s, "Delete continues to remove the file after a failed truncate")
	}
}

// runMutants applies this property's mutants (selftest/mutants.json) to a scratch worktree and
// requires each to be detected by its rule. Stale mutants (anchor text gone) are reported, not failed.
func (c *Check) runMutants() {
	script := filepath.Join(c.Root, "tools", "selftest.py")
	if _, err := os.Stat(script); err != nil {
		return
	}
	if os.Getenv("BVERIF_NO_MUTANTS") != "" {
		return
	}
	cmd := exec.Command(script, "--property", c.Prop, "--repo", w0(c.W.RepoDir), "--tag", c.Prop)
	cmd.Env = append(os.Environ(), "BVERIF_NO_MUTANTS=1")
	out, _ := cmd.CombinedOutput()
	lines := strings.Split(strings.TrimSpace(string(out)), "\n")
	det, stale := 0, 0
	var bad []string
	for _, l := range lines {
		switch {
		case strings.Contains(l, " DETECTED "):
			det++
		case strings.Contains(l, " STALE"):
			stale++
		case strings.Contains(l, "MISSED") || strings.Contains(l, "BROKEN") || strings.Contains(l, "detected, but not by") || strings.Contains(l, "NOCOMPILE"):
			bad = append(bad, strings.TrimSpace(l))
		}
	}
	r := c.Rule("T.mut", "selftest", 0, "the checker's own seeded edits for this property (selftest/mutants.json), applied one at a time to a scratch worktree of the current tree, are each reported by the rule they target",
		"a rule that no longer fires on the edit it was written for has silently become vacuous")
	if det+len(bad) == 0 {
		c.Notes = append(c.Notes, fmt.Sprintf("thorough: no applicable mutants (stale: %d)", stale))
		return
	}
	msg := ""
	if len(bad) > 0 {
		msg = "mutants not detected as expected: " + strings.Join(bad, " | ")
	}
	o := r.Check(len(bad) == 0, nil, fmt.Sprintf("%d mutants of this property detected", det), nil, msg)
	_ = o
	c.Notes = append(c.Notes, fmt.Sprintf("thorough: mutants detected=%d stale(skipped)=%d undetected=%d", det, stale, len(bad)))
	if len(bad) > 0 {
		// a checker defect, not a violation of the property: turn it into a broken check
		panic(anchorError{"self-test: " + msg})
	}
}

func w0(s string) string { return s }

func isGeneric(f *Fn) bool {
	r := f.Root()
	if r.Obj == nil {
		return false
	}
	sig, ok := r.Obj.Type().(*types.Signature)
	if !ok {
		return false
	}
	return (sig.TypeParams() != nil && sig.TypeParams().Len() > 0) || (sig.RecvTypeParams() != nil && sig.RecvTypeParams().Len() > 0)
}
