package main

// Thorough tier: SSA for the whole program and the VTA-refined call graph;
// dynamic calls through function values become edges of the E3 graph.

import (
	"go/ast"

	"golang.org/x/tools/go/callgraph"
	"golang.org/x/tools/go/callgraph/cha"
	"golang.org/x/tools/go/callgraph/vta"
	"golang.org/x/tools/go/ssa"
	"golang.org/x/tools/go/ssa/ssautil"
)

type vtaInfo struct {
	prog   *ssa.Program
	cg     *callgraph.Graph
	nfuncs int
	added  int
}

func (w *World) buildVTA() error {
	prog, _ := ssautil.AllPackages(w.All, ssa.InstantiateGenerics)
	prog.Build()
	all := ssautil.AllFunctions(prog)
	g := vta.CallGraph(all, cha.CallGraph(prog))
	w.vta = &vtaInfo{prog: prog, cg: g, nfuncs: len(all)}
	w.cg = nil
	return nil
}


// addVTAEdges adds caller->callee edges for calls that the syntactic graph
// could not resolve (function values, interface calls into non-repo types).
func (w *World) addVTAEdges(cg *CallGraph, add func(*CallSite)) {
	declFn := map[*ast.FuncDecl]*Fn{}
	for _, t := range w.Fns {
		if t.Decl != nil {
			declFn[t.Decl] = t
		}
	}
	lookup := func(f *ssa.Function) *Fn {
		if f == nil {
			return nil
		}
		switch s := f.Syntax().(type) {
		case *ast.FuncDecl:
			return declFn[s]
		case *ast.FuncLit:
			return w.ByLit[s]
		}
		return nil
	}
	have := map[[2]*Fn]bool{}
	for f, outs := range cg.Out {
		for _, cs := range outs {
			have[[2]*Fn{f, cs.Callee}] = true
		}
	}
	for fn, node := range w.vta.cg.Nodes {
		caller := lookup(fn)
		if caller == nil {
			continue
		}
		for _, e := range node.Out {
			callee := lookup(e.Callee.Func)
			if callee == nil || e.Site == nil {
				continue
			}
			if e.Site.Common().StaticCallee() != nil {
				continue
			}
			k := [2]*Fn{caller, callee}
			if have[k] {
				continue
			}
			have[k] = true
			var at ast.Node = caller.Body
			// locate the call expression by position
			pos := e.Site.Pos()
			caller.walk(func(n ast.Node) bool {
				if c, ok := n.(*ast.CallExpr); ok && c.Lparen == pos {
					at = c
					return false
				}
				return true
			})
			_, isGo := e.Site.(*ssa.Go)
			_, isDefer := e.Site.(*ssa.Defer)
			add(&CallSite{Caller: caller, Callee: callee, Node: at, Kind: "vta", Async: isGo, Deferred: isDefer})
			w.vta.added++
		}
	}
}

func (c *Check) thoroughExtras() {}
