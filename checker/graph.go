package main

// E1 "order": a node-level control-flow graph per function body (go/cfg), with
// one primitive — is there a path from S to T that avoids the set M? — from
// which dominance, must-follow and never-after are derived.

import (
	"go/ast"
	"go/token"
	"go/types"
	"sort"

	"golang.org/x/tools/go/cfg"
)

type Vx struct {
	ID   int
	N    ast.Node // nil for synthetic vertices of empty blocks
	Blk  *cfg.Block
	Succ []int
	Pred []int
}

type Graph struct {
	Fn    *Fn
	V     []*Vx
	Entry int
	Exits []int // vertices holding a ReturnStmt (explicit or implicit)
	// classification of exits
	ErrExit map[int]bool // return on an error path (see classifyExits)
}

// noReturn reports calls after which control does not continue.
func (w *World) noReturn(call *ast.CallExpr) bool {
	switch f := unparen(call.Fun).(type) {
	case *ast.Ident:
		if b, ok := w.Use(f).(*types.Builtin); ok && b.Name() == "panic" {
			return true
		}
	}
	obj := w.Callee(call)
	fn, ok := obj.(*types.Func)
	if !ok || fn.Pkg() == nil {
		return false
	}
	full := fn.Pkg().Path() + "." + fn.Name()
	switch full {
	case "os.Exit", "log.Fatal", "log.Fatalf", "log.Fatalln", "log.Panic", "log.Panicf", "runtime.Goexit":
		return true
	case modPath + "/y.AssertTrue", modPath + "/y.AssertTruef":
		if len(call.Args) > 0 {
			if tv, ok := w.Info.Types[call.Args[0]]; ok && tv.Value != nil && tv.Value.String() == "false" {
				return true
			}
		}
	case modPath + "/y.Fatalf":
		return true
	}
	return false
}

func (f *Fn) G() *Graph {
	if f.graph != nil {
		return f.graph
	}
	w := f.W
	c := cfg.New(f.Body, func(call *ast.CallExpr) bool { return !w.noReturn(call) })
	g := &Graph{Fn: f, ErrExit: map[int]bool{}}
	first := map[*cfg.Block]int{}
	last := map[*cfg.Block]int{}
	for _, b := range c.Blocks {
		if !b.Live {
			continue
		}
		if len(b.Nodes) == 0 {
			v := &Vx{ID: len(g.V), Blk: b}
			g.V = append(g.V, v)
			first[b], last[b] = v.ID, v.ID
			continue
		}
		for i, n := range b.Nodes {
			v := &Vx{ID: len(g.V), N: n, Blk: b}
			g.V = append(g.V, v)
			if i == 0 {
				first[b] = v.ID
			} else {
				g.edge(v.ID-1, v.ID)
			}
			last[b] = v.ID
		}
	}
	for _, b := range c.Blocks {
		if !b.Live {
			continue
		}
		for _, s := range b.Succs {
			if s.Live {
				g.edge(last[b], first[s])
			}
		}
	}
	g.Entry = first[c.Blocks[0]]
	for _, v := range g.V {
		if _, ok := v.N.(*ast.ReturnStmt); ok {
			g.Exits = append(g.Exits, v.ID)
		}
	}
	g.classifyExits()
	f.graph = g
	return g
}

func (g *Graph) edge(a, b int) {
	g.V[a].Succ = append(g.V[a].Succ, b)
	g.V[b].Pred = append(g.V[b].Pred, a)
}

// VertexOf maps a syntax node of this function (not inside a nested literal)
// to the CFG vertex that evaluates it; -1 if none (e.g. dead code, branch stmt).
func (g *Graph) VertexOf(n ast.Node) int {
	best, bestLen := -1, token.Pos(1<<40)
	for _, v := range g.V {
		if v.N == nil {
			continue
		}
		if v.N.Pos() <= n.Pos() && n.End() <= v.N.End() {
			if l := v.N.End() - v.N.Pos(); l < bestLen {
				best, bestLen = v.ID, l
			}
		}
	}
	return best
}

// evalBefore approximates evaluation order of two nodes in the same vertex.
func evalBefore(a, b ast.Node) bool {
	if a == b {
		return false
	}
	// a nested in b (an argument or receiver of b): evaluated first
	if b.Pos() <= a.Pos() && a.End() <= b.End() {
		return true
	}
	if a.Pos() <= b.Pos() && b.End() <= a.End() {
		return false
	}
	return a.End() <= b.Pos()
}

// errorType is the predeclared error interface.
var errorType = types.Universe.Lookup("error").Type()

func isErrorType(t types.Type) bool {
	return t != nil && types.Identical(t, errorType)
}

// classifyExits marks returns that leave on an error path. A return is an
// error exit when the value in the function's error result slot is provably
// not the success value: it is not `nil` and either (a) it is a package-level
// error variable or a call to an error constructor, or (b) the return is
// control-dependent on `e != nil` for some error-typed e. Everything else
// (including `return f()` and `return err` outside such a guard) counts as a
// possible success exit, which is the conservative side for must-follow rules.
func (g *Graph) classifyExits() {
	f := g.Fn
	w := f.W
	errIdx := -1
	nres := 0
	if f.Type.Results != nil {
		for _, fld := range f.Type.Results.List {
			k := len(fld.Names)
			if k == 0 {
				k = 1
			}
			for i := 0; i < k; i++ {
				if isErrorType(w.TypeOf(fld.Type)) {
					errIdx = nres
				}
				nres++
			}
		}
	}
	if errIdx < 0 {
		return
	}
	for _, id := range g.Exits {
		ret := g.V[id].N.(*ast.ReturnStmt)
		if len(ret.Results) != nres {
			// naked return or tail call `return f()`: is it under an err!=nil guard?
			if len(ret.Results) == 0 && w.underErrGuard(f, ret) {
				g.ErrExit[id] = true
			}
			continue
		}
		e := unparen(ret.Results[errIdx])
		if id, ok := e.(*ast.Ident); ok && id.Name == "nil" {
			continue
		}
		if w.isErrorValue(e) || w.underErrGuard(f, ret) {
			g.ErrExit[id] = true
		}
	}
}

// isErrorValue: expression is certainly a non-nil error (package-level error
// variable or result of an error constructor / wrapper of a non-nil error).
func (w *World) isErrorValue(e ast.Expr) bool {
	switch x := unparen(e).(type) {
	case *ast.Ident:
		if v, ok := w.Use(x).(*types.Var); ok && v.Parent() == v.Pkg().Scope() {
			return true
		}
	case *ast.SelectorExpr:
		if v, ok := w.Use(x.Sel).(*types.Var); ok && !v.IsField() && v.Pkg() != nil && v.Parent() == v.Pkg().Scope() {
			return true
		}
	case *ast.CallExpr:
		if fn, ok := w.Callee(x).(*types.Func); ok && fn.Pkg() != nil {
			switch fn.Pkg().Path() + "." + fn.Name() {
			case "errors.New", "fmt.Errorf", "github.com/pkg/errors.New", "github.com/pkg/errors.Errorf":
				return true
			case modPath + "/y.Wrap", modPath + "/y.Wrapf", "github.com/pkg/errors.Wrap", "github.com/pkg/errors.Wrapf":
				// wrappers return nil for nil: only an error value if the wrapped one is
				if len(x.Args) > 0 {
					return w.isErrorValue(x.Args[0])
				}
			case modPath + ".errFile", modPath + ".exceedsSize":
				return true
			}
		}
	}
	return false
}

// underErrGuard: node is control-dependent on a test `e != nil` (then-branch)
// or `e == nil` (else-branch) with e of type error, or on a switch case of that form.
func (w *World) underErrGuard(f *Fn, n ast.Node) bool {
	for _, gd := range w.Guards(f, n) {
		if gd.Implicit {
			continue
		}
		if w.errNonNil(gd.Cond, gd.Val) {
			return true
		}
	}
	return false
}

// errNonNil: does `cond == val` imply some error-typed expression is non-nil?
func (w *World) errNonNil(cond ast.Expr, val bool) bool {
	cond = unparen(cond)
	switch x := cond.(type) {
	case *ast.BinaryExpr:
		switch x.Op {
		case token.NEQ, token.EQL:
			var other ast.Expr
			if id, ok := unparen(x.Y).(*ast.Ident); ok && id.Name == "nil" {
				other = x.X
			} else if id, ok := unparen(x.X).(*ast.Ident); ok && id.Name == "nil" {
				other = x.Y
			}
			if other != nil && isErrorType(w.TypeOf(other)) {
				return (x.Op == token.NEQ) == val
			}
			// err == ErrFoo (then-branch) also implies non-nil
			if x.Op == token.EQL && val && isErrorType(w.TypeOf(x.X)) && (w.isErrorValue(x.X) || w.isErrorValue(x.Y)) {
				return true
			}
		case token.LAND:
			if val {
				return w.errNonNil(x.X, true) || w.errNonNil(x.Y, true)
			}
		case token.LOR:
			if !val {
				return w.errNonNil(x.X, false) || w.errNonNil(x.Y, false)
			}
		}
	case *ast.UnaryExpr:
		if x.Op == token.NOT {
			return w.errNonNil(x.X, !val)
		}
	}
	return false
}

// ---- path queries ----

// pathAvoiding finds a path (list of vertex ids) from any start to any vertex
// satisfying goal, never entering a vertex in avoid. Starts themselves are not
// tested against goal unless inclusive is set. nil if none.
func (g *Graph) pathAvoiding(starts []int, goal func(int) bool, avoid map[int]bool, inclusive bool) []int {
	return g.pathAvoidingE(starts, goal, avoid, inclusive, nil)
}

// pathAvoidingE additionally never takes an edge in noEdge (excused branches).
func (g *Graph) pathAvoidingE(starts []int, goal func(int) bool, avoid map[int]bool, inclusive bool, noEdge map[[2]int]bool) []int {
	prev := make([]int, len(g.V))
	for i := range prev {
		prev[i] = -2
	}
	var q []int
	push := func(v, from int) {
		if prev[v] != -2 || avoid[v] {
			return
		}
		prev[v] = from
		q = append(q, v)
	}
	build := func(v int) []int {
		var p []int
		for v >= 0 {
			p = append(p, v)
			v = prev[v]
		}
		for i, j := 0, len(p)-1; i < j; i, j = i+1, j-1 {
			p[i], p[j] = p[j], p[i]
		}
		return p
	}
	if inclusive {
		for _, s := range starts {
			push(s, -1)
		}
	} else {
		// expand starts without testing them; a start may be re-entered later via a loop
		seenStart := map[int]bool{}
		for _, s := range starts {
			if seenStart[s] {
				continue
			}
			seenStart[s] = true
			for _, t := range g.V[s].Succ {
				if noEdge[[2]int{s, t}] {
					continue
				}
				if prev[t] == -2 && !avoid[t] {
					prev[t] = -1
					q = append(q, t)
				}
			}
		}
	}
	for len(q) > 0 {
		v := q[0]
		q = q[1:]
		if goal(v) {
			return build(v)
		}
		for _, t := range g.V[v].Succ {
			if noEdge[[2]int{v, t}] {
				continue
			}
			push(t, v)
		}
	}
	return nil
}

// Excuse names a branch outcome that a must-pass rule tolerates: paths on which
// Cond evaluates to Val need not pass the required site (e.g. read-only mode,
// a non-update transaction).
type Excuse struct {
	Cond func(e ast.Expr) bool
	Val  bool
}

// excusedEdges maps excuses to CFG edges: the successor edge of an if-condition
// vertex taken when the (possibly negated) condition has the excused value.
func (g *Graph) excusedEdges(ex []Excuse) map[[2]int]bool {
	if len(ex) == 0 {
		return nil
	}
	out := map[[2]int]bool{}
	for _, v := range g.V {
		e, ok := v.N.(ast.Expr)
		if !ok || len(v.Succ) != 2 {
			continue
		}
		neg := false
		x := unparen(e)
		for {
			u, ok := x.(*ast.UnaryExpr)
			if !ok || u.Op != token.NOT {
				break
			}
			neg = !neg
			x = unparen(u.X)
		}
		for _, c := range ex {
			if !c.Cond(x) {
				continue
			}
			val := c.Val
			if neg {
				val = !val
			}
			// Succ[0] is the branch taken when the whole condition is true
			if val {
				out[[2]int{v.ID, v.Succ[0]}] = true
			} else {
				out[[2]int{v.ID, v.Succ[1]}] = true
			}
		}
	}
	return out
}

func (g *Graph) describePath(p []int) []string {
	w := g.Fn.W
	var out []string
	lastLine := -1
	for _, id := range p {
		v := g.V[id]
		if v.N == nil {
			continue
		}
		pos := w.Fset.Position(v.N.Pos())
		if pos.Line == lastLine {
			continue
		}
		lastLine = pos.Line
		s := w.exprStr(v.N)
		if len(s) > 70 {
			s = s[:70] + "…"
		}
		out = append(out, w.Position(v.N.Pos())+" "+s)
	}
	if len(out) > 14 {
		out = append(append(append([]string{}, out[:6]...), "…"), out[len(out)-7:]...)
	}
	return out
}

func setOf(ids []int) map[int]bool {
	m := map[int]bool{}
	for _, i := range ids {
		m[i] = true
	}
	return m
}

func sortedKeys(m map[int]bool) []int {
	var out []int
	for k := range m {
		out = append(out, k)
	}
	sort.Ints(out)
	return out
}
