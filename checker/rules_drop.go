package main

// C29 (DropAll / DropPrefix).

import (
	"go/ast"
	"go/token"
	"go/types"
)

func init() {
	register("C29", "Decides the structural protocol of DropAll/DropPrefix: (R29.1) everything a drop pauses is resumed on every path: a successful prepareToDrop returns a closure that restarts the memtable flusher and unblocks writes, and each caller runs it on all exits (DropAll via the returned function, DropPrefix via defer, StreamWriter via sw.done); stopCompactions is paired with startCompactions; (R29.2) order: writes are blocked, then the queued requests are applied, then flushing stops; dropAll releases memtables, then drops the tree (MANIFEST first, R08.1), then the value log; DropPrefix flushes every memtable before releasing it and then drops prefixes from the last level up to L0; (R29.3) writes are refused (not queued) while blocked and the block is taken by compare-and-swap. Does NOT decide exact key sets, atomicity against concurrent writers as a history property, or crash points inside a drop beyond R08.", propC29)
}

// funcLitOf: the function literal an expression denotes — written in place, or bound to a
// local that has this literal as its only definition.
func (w *World) funcLitOf(f *Fn, e ast.Expr) *ast.FuncLit {
	e = unparen(e)
	if lit, ok := e.(*ast.FuncLit); ok {
		return lit
	}
	if id, ok := e.(*ast.Ident); ok {
		if v, ok := w.Use(id).(*types.Var); ok && !v.IsField() {
			if defs := w.DefsOf(f, v); len(defs) == 1 {
				if lit, ok := unparen(defs[0]).(*ast.FuncLit); ok {
					return lit
				}
			}
		}
	}
	return nil
}

func ruleR29_1(c *Check) {
	w := c.W
	r := c.Rule("R29.1", "E1", 10, "pairing: prepareToDrop's success result is a closure that calls startMemoryFlush and unblockWrite; dropAll returns, on every path after a successful prepareToDrop, a closure that calls startCompactions and that closure; DropAll runs the returned function whenever it is non-nil; DropPrefix defers it and defers startCompactions after stopCompactions; StreamWriter stores it in sw.done and runs it in Flush (defer) and Cancel",
		"a path that forgets to resume leaves the database refusing writes (ErrBlockedWrites) or never flushing/compacting again after a drop")
	pd := w.F("badger.DB.prepareToDrop")
	// success return: closure calling startMemoryFlush and unblockWrite
	var k keyer
	for _, e := range pd.successExits() {
		rs := e.Node.(*ast.ReturnStmt)
		lit := w.funcLitOf(pd, rs.Results[0])
		if lit == nil {
			r.Check(false, pd, k.key("resume closure returned", w, rs), rs, "success return does not return a function literal")
			continue
		}
		lf := w.ByLit[lit]
		ok1 := len(lf.Sites(selCallName(w, "badger.DB.startMemoryFlush"))) == 1
		ok2 := len(lf.Sites(selCallName(w, "badger.DB.unblockWrite"))) == 1
		r.Check(ok1 && ok2, pd, k.key("resume closure restarts flushing and unblocks writes", w, rs), rs, "the returned closure does not call both startMemoryFlush and unblockWrite")
		if ok1 && ok2 {
			r.DomAll(lf, "writes unblocked after the flusher is back", selCallName(w, "badger.DB.unblockWrite"), 0, selCallName(w, "badger.DB.startMemoryFlush"), 0)
		}
	}
	// what was paused in prepareToDrop on the success path
	r.ExitsNeed(pd, "stopMemoryFlush", selCallName(w, "badger.DB.stopMemoryFlush"), 0, exitSuccess)
	// dropAll
	da := w.F("badger.DB.dropAll")
	resume := da.LitVar("resume")
	okr := len(resume.Sites(selCallName(w, "badger.DB.startCompactions"))) == 1
	// resume calls f()
	var fvar *types.Var
	for _, s := range da.Sites(selCallName(w, "badger.DB.prepareToDrop")) {
		if as, ok := w.parentOf(s).(*ast.AssignStmt); ok {
			fvar, _ = w.Use(as.Lhs[0].(*ast.Ident)).(*types.Var)
		}
	}
	callsF := false
	resume.walk(func(n ast.Node) bool {
		if call, ok := n.(*ast.CallExpr); ok {
			if id, ok := unparen(call.Fun).(*ast.Ident); ok && fvar != nil && w.Use(id) == types.Object(fvar) {
				callsF = true
			}
		}
		return true
	})
	r.Check(okr && callsF, da, "dropAll's resume restarts compactions and runs prepareToDrop's closure", nil, "resume does not call startCompactions and f()")
	stop := selCallName(w, "badger.DB.stopCompactions")
	for _, e := range da.allExits() {
		rs := e.Node.(*ast.ReturnStmt)
		if len(rs.Results) != 2 {
			continue
		}
		id, _ := unparen(rs.Results[0]).(*ast.Ident)
		afterStop := da.Dominated(e, da.Occs(stop, 0)).OK
		if afterStop {
			r.Check(w.funcLitOf(da, rs.Results[0]) == resume.Lit, da, k.key("after stopCompactions every exit hands back resume", w, rs), rs, "returns "+short(w, rs.Results[0])+" instead of resume")
		} else {
			r.Check(id != nil && fvar != nil && w.Use(id) == types.Object(fvar), da, k.key("before stopCompactions the exit hands back prepareToDrop's closure", w, rs), rs, "returns "+short(w, rs.Results[0]))
		}
	}
	// DropAll runs what dropAll returned
	d := w.F("badger.DB.DropAll")
	for _, s := range d.Sites(selCallName(w, "badger.DB.dropAll")) {
		as, ok := w.parentOf(s).(*ast.AssignStmt)
		if !ok {
			r.Check(false, d, "dropAll's closure captured", s, "result not assigned")
			continue
		}
		fv := w.Use(as.Lhs[0].(*ast.Ident))
		run := selPred("f()", func(w *World, fn *Fn, n ast.Node) bool {
			call, ok := n.(*ast.CallExpr)
			if !ok {
				return false
			}
			id, ok := unparen(call.Fun).(*ast.Ident)
			return ok && w.Use(id) == fv
		})
		r.FollowAll(d, "DropAll runs the resume function", selNode(s), 0, run, 0, exitAll, Excuse{Cond: func(e ast.Expr) bool {
			be, ok := e.(*ast.BinaryExpr)
			if !ok || be.Op != token.NEQ || !isNil(be.Y) {
				return false
			}
			id, ok := unparen(be.X).(*ast.Ident)
			return ok && w.Use(id) == fv
		}, Val: false})
	}
	// DropPrefix
	dp := w.F("badger.DB.DropPrefix")
	for _, s := range dp.Sites(selCallName(w, "badger.DB.prepareToDrop")) {
		as, _ := w.parentOf(s).(*ast.AssignStmt)
		if as == nil {
			continue
		}
		fv := w.Use(as.Lhs[0].(*ast.Ident))
		run := selPred("defer f()", func(w *World, fn *Fn, n ast.Node) bool {
			call, ok := n.(*ast.CallExpr)
			if !ok {
				return false
			}
			id, ok := unparen(call.Fun).(*ast.Ident)
			return ok && w.Use(id) == fv
		})
		r.FollowAll(dp, "DropPrefix resumes on every exit after a successful prepare", selNode(s), 0, run, 0, exitAll, excuseErrOf(w, s.(*ast.CallExpr)))
	}
	r.FollowAll(dp, "compactions restarted after DropPrefix stopped them", stop, 0, selCallName(w, "badger.DB.startCompactions"), 0, exitAll)
	// StreamWriter
	doneFld := w.Field("badger.StreamWriter.done")
	for _, name := range []string{"badger.StreamWriter.Prepare", "badger.StreamWriter.PrepareIncremental"} {
		f := w.F(name)
		r.ExitsNeed(f, "sw.done set", selStore(doneFld), 0, exitAll, Excuse{Cond: func(e ast.Expr) bool { return false }})
	}
	callDone := selPred("sw.done()", func(w *World, fn *Fn, n ast.Node) bool {
		call, ok := n.(*ast.CallExpr)
		return ok && w.fieldOf(call.Fun) == doneFld
	})
	fl := w.F("badger.StreamWriter.Flush")
	r.ExitsNeed(fl, "sw.done()", callDone, 0, exitAll)
	cn := w.F("badger.StreamWriter.Cancel")
	r.ExitsNeed(cn, "sw.done()", callDone, 0, exitAll, Excuse{Cond: func(e ast.Expr) bool {
		be, ok := e.(*ast.BinaryExpr)
		return ok && be.Op == token.NEQ && w.fieldOf(be.X) == doneFld && isNil(be.Y)
	}, Val: false})
	// PrepareIncremental pairs stop/start inside its closure
	pi := w.F("badger.StreamWriter.PrepareIncremental")
	okp := false
	for _, l := range pi.Lits {
		if len(l.Sites(selCallName(w, "badger.DB.startCompactions"))) == 1 {
			okp = true
		}
	}
	r.Check(okp, pi, "PrepareIncremental's done restarts compactions", nil, "no closure calling startCompactions")
	// blockWrite / unblockWrite: only prepareToDrop blocks; its closure unblocks
	for _, cs := range w.CG().CallSitesOf(w.F("badger.DB.blockWrite")) {
		r.Check(cs.Caller.Name == "badger.DB.prepareToDrop", cs.Caller, "blockWrite only from prepareToDrop", cs.Node, "blockWrite called from "+cs.Caller.Name)
	}
}

func ruleR29_2(c *Check) {
	w := c.W
	r := c.Rule("R29.2", "E1", 8, "order: prepareToDrop: blockWrite → apply the queued requests (writeRequests) → stopMemoryFlush; dropAll: memtables released → lc.dropTree → vlog.dropAll → caches cleared; DropPrefix: every non-empty memtable is flushed (handleMemTableFlush) before it is released, then compactions stop, then lc.dropPrefixes, which walks levels from the last one to L0",
		"a write accepted before the block but applied after the drop survives the drop; deleting value-log files while a table can still reference them, or dropping L0 before deeper levels, exposes stale data")
	pd := w.F("badger.DB.prepareToDrop")
	bw := selCallName(w, "badger.DB.blockWrite")
	wr := selCallName(w, "badger.DB.writeRequests")
	sf := selCallName(w, "badger.DB.stopMemoryFlush")
	r.DomAll(pd, "queued requests applied after writes are blocked", wr, 0, bw, 0)
	r.DomAll(pd, "flushing stopped after queued requests were applied", sf, 0, wr, 0)
	// the drain loop receives from writeCh until empty
	wc := w.Field("badger.DB.writeCh")
	r.Exists(len(pd.Sites(selRecv(wc))) >= 1, pd, "queued requests drained from writeCh", nil, "prepareToDrop no longer drains writeCh")
	da := w.F("badger.DB.dropAll")
	decr := selCallName(w, "badger.memTable.DecrRef")
	dt := selCallName(w, "badger.levelsController.dropTree")
	vd := selCallName(w, "badger.valueLog.dropAll")
	r.DomAll(da, "tree dropped after memtables are released", dt, 0, decr, 0)
	r.DomAll(da, "value log dropped after the tree", vd, 0, dt, 0)
	r.DomAll(da, "compactions stopped before the tree is dropped", dt, 0, selCallName(w, "badger.DB.stopCompactions"), 0)
	for _, s := range da.Sites(vd) {
		r.Check(w.errNilGuard(da, s, w.Func("badger.levelsController.dropTree")), da, "value log dropped only if the tree drop succeeded", s, "vlog.dropAll reachable after a failed dropTree")
	}
	r.ExitsNeed(da, "new memtable", selCallName(w, "badger.DB.newMemTable"), 0, exitSuccess)
	dp := w.F("badger.DB.DropPrefix")
	dpx := selCallName(w, "badger.levelsController.dropPrefixes")
	hf := selCallName(w, "badger.DB.handleMemTableFlush")
	n := r.DomAll(dp, "prefixes dropped from the levels after the memtable loop", dpx, 0, selStore(w.Field("badger.DB.imm")), 0)
	r.Exists(n >= 1, dp, "dropPrefixes call", nil, "DropPrefix no longer calls lc.dropPrefixes")
	r.DomAll(dp, "compactions stopped before prefixes are dropped", dpx, 0, selCallName(w, "badger.DB.stopCompactions"), 0)
	// … but only after the memtables were flushed: a flush into a level 0 that is at its stall limit
	// waits for a compaction, which never comes once the compactors are stopped
	r.NeverAfterAll(dp, "no memtable flush after compactions were stopped", selCallName(w, "badger.DB.stopCompactions"), 0, hf, 1)
	// memtable loop: ranges over db.imm after appending db.mt
	okLoop := false
	dp.walkInl(func(own *Fn, x ast.Node) bool {
		if rs, ok := x.(*ast.RangeStmt); ok && w.fieldOf(rs.X) == w.Field("badger.DB.imm") {
			if containsSel(w, own, rs.Body, hf) {
				okLoop = true
			}
		}
		return true
	})
	r.Check(okLoop, dp, "every memtable (mutable included) is flushed", nil, "DropPrefix no longer flushes all of db.imm (with db.mt appended)")
	mtAppended := false
	for _, s := range dp.Sites(selStore(w.Field("badger.DB.imm"))) {
		if w.mentions(s, w.Field("badger.DB.mt")) {
			mtAppended = true
		}
	}
	r.Check(mtAppended, dp, "mutable memtable joins the list to flush", nil, "db.mt is not appended to db.imm before flushing")
	// dropPrefixes: level loop counts down
	lp := w.F("badger.levelsController.dropPrefixes")
	okDown := false
	lp.walk(func(x ast.Node) bool {
		if fs, ok := x.(*ast.ForStmt); ok {
			if inc, ok := fs.Post.(*ast.IncDecStmt); ok && inc.Tok == token.DEC && fs.Init != nil && w.mentions(fs.Init, w.Field("badger.levelsController.levels")) {
				okDown = true
			}
		}
		return true
	})
	r.Check(okDown, lp, "levels visited from the last to L0", nil, "dropPrefixes no longer iterates levels in descending order")
	// no level is skipped: a `continue` of the level loop is allowed only at the end of the L0 arm and when the
	// level has no table containing a prefix (decided by looking at the level's tables, not at its number)
	var levelLoop *ast.ForStmt
	lp.walk(func(x ast.Node) bool {
		if fs, ok := x.(*ast.ForStmt); ok && levelLoop == nil && fs.Init != nil && w.mentions(fs.Init, w.Field("badger.levelsController.levels")) {
			levelLoop = fs
		}
		return true
	})
	if levelLoop != nil {
		var kk keyer
		ast.Inspect(levelLoop.Body, func(x ast.Node) bool {
			switch y := x.(type) {
			case *ast.FuncLit:
				return false
			case *ast.BranchStmt:
				if y.Tok != token.CONTINUE && y.Tok != token.BREAK {
					return true
				}
				// belongs to the level loop?
				for p := w.parentOf(y); p != nil && p != ast.Node(levelLoop); p = w.parentOf(p) {
					switch p.(type) {
					case *ast.ForStmt, *ast.RangeStmt:
						return true
					case *ast.SwitchStmt, *ast.SelectStmt:
						if y.Tok == token.BREAK {
							return true
						}
					}
				}
				okv := false
				why := "level loop left by `" + y.Tok.String() + "`"
				if y.Tok == token.CONTINUE {
					for _, g := range w.Guards(lp, y) {
						if g.Implicit || !g.Val {
							continue
						}
						be, isB := g.Cond.(*ast.BinaryExpr)
						if !isB || be.Op != token.EQL {
							continue
						}
						if v, isC := w.constInt(be.Y); isC && v == 0 {
							// l.level == 0 (the L0 arm) or len(tableGroups) == 0
							if w.fieldOf(be.X) == w.Field("badger.levelHandler.level") {
								okv = true
							}
							if call, isCall := unparen(be.X).(*ast.CallExpr); isCall {
								if id, isID := unparen(call.Fun).(*ast.Ident); isID && id.Name == "len" {
									okv = true
								}
							}
						}
					}
					why = "a level can be skipped for a reason other than 'it is L0 (handled above)' or 'no table of the level contains a prefix'"
				}
				r.Check(okv, lp, kk.key("no level is skipped", w, y), y, why)
			}
			return true
		})
	}
	// the compactions it runs carry the prefixes
	dpf := w.Field("badger.compactDef.dropPrefixes")
	cpf := w.Field("badger.compactionPriority.dropPrefixes")
	carries := 0
	lp.walk(func(x ast.Node) bool {
		if kv, ok := x.(*ast.KeyValueExpr); ok {
			if id, ok := kv.Key.(*ast.Ident); ok && (w.Use(id) == types.Object(dpf) || w.Use(id) == types.Object(cpf)) {
				carries++
			}
		}
		return true
	})
	r.Check(carries >= 2, lp, "L0 and deeper-level compactions carry the prefixes", nil, "a compaction started by dropPrefixes does not set dropPrefixes")
}

func containsSel(w *World, f *Fn, body ast.Node, sel Sel) bool {
	found := false
	ast.Inspect(body, func(n ast.Node) bool {
		if n != nil && sel.Match(w, f, n) {
			found = true
		}
		return true
	})
	return found
}

func ruleR29_3(c *Check) {
	w := c.W
	r := c.Rule("R29.3", "E1", 2, "blockWrite takes the block with CompareAndSwap(0,1) and fails with ErrBlockedWrites otherwise, then waits for the write loop to finish; unblockWrite starts a new write loop before clearing the flag",
		"two concurrent drops must not both believe they own the pause; clearing the flag before the write loop runs lets a write be queued with nobody to apply it")
	bw := w.F("badger.DB.blockWrite")
	flag := w.Field("badger.DB.blockWrites")
	cas := selPred("CAS(blockWrites)", func(w *World, fn *Fn, n ast.Node) bool {
		call, ok := n.(*ast.CallExpr)
		if !ok {
			return false
		}
		s, ok := unparen(call.Fun).(*ast.SelectorExpr)
		return ok && s.Sel.Name == "CompareAndSwap" && w.fieldOf(s.X) == flag
	})
	r.Exists(len(bw.Sites(cas)) >= 1, bw, "block taken by compare-and-swap", nil, "blockWrite no longer uses CompareAndSwap on blockWrites")
	r.ExitsNeed(bw, "wait for the write loop", selPred("writes.SignalAndWait", func(w *World, fn *Fn, n ast.Node) bool {
		call, ok := n.(*ast.CallExpr)
		if !ok {
			return false
		}
		s, ok := unparen(call.Fun).(*ast.SelectorExpr)
		return ok && s.Sel.Name == "SignalAndWait" && w.mentions(s.X, w.Field("badger.closers.writes"))
	}), 0, exitSuccess)
	ub := w.F("badger.DB.unblockWrite")
	clear := selPred("blockWrites.Store(0)", func(w *World, fn *Fn, n ast.Node) bool {
		call, ok := n.(*ast.CallExpr)
		if !ok {
			return false
		}
		s, ok := unparen(call.Fun).(*ast.SelectorExpr)
		return ok && s.Sel.Name == "Store" && w.fieldOf(s.X) == flag
	})
	spawn := selPred("go db.doWrites", func(w *World, fn *Fn, n ast.Node) bool {
		g, ok := n.(*ast.GoStmt)
		return ok && w.Callee(g.Call) == types.Object(w.Func("badger.DB.doWrites"))
	})
	r.DomAll(ub, "flag cleared after the write loop was started", clear, 0, spawn, 0)
}

func ruleR29_4(c *Check) {
	w := c.W
	r := c.Rule("R29.4", "E1", 3, "when the table-id space is restarted (levelsController.nextFileID stored back to 1, as dropAll does) every success exit of that function afterwards passes Clear() of the block cache and of the index cache — both are keyed by table id — and the value-threshold reset, whatever the storage mode",
		"a table flushed after the drop reuses the id of a dropped table: a cache entry of the dropped table that survived is served for the new one (wrong blocks, or — for encrypted tables — a stale index that crashes or hides keys); in-memory mode is no exception, its tables go through the same caches")
	nf := w.Field("badger.levelsController.nextFileID")
	bc, ic, th := w.Field("badger.DB.blockCache"), w.Field("badger.DB.indexCache"), w.Field("badger.DB.threshold")
	clearOf := func(fld *types.Var) Sel {
		return selPred("Clear("+fld.Name()+")", func(w *World, f *Fn, n ast.Node) bool {
			call, ok := n.(*ast.CallExpr)
			if !ok || !isCallNamed(w, call, "Clear") {
				return false
			}
			rc := recvOf(call)
			return rc != nil && w.fieldOf(rc) == fld
		})
	}
	n := 0
	for _, o := range allSites(w, "badger", selPred("nextFileID.Store(const)", func(w *World, f *Fn, nd ast.Node) bool {
		fld, m, _, call := atomicOp(w, nd)
		if fld != nf || m != "Store" || len(call.Args) != 1 {
			return false
		}
		_, isC := w.constInt(call.Args[0])
		return isC
	})) {
		n++
		f := o.SiteFn
		for _, fld := range []*types.Var{bc, ic, th} {
			// Clear either follows the restart on every success path, or dominates it (cleared just before)
			res := f.Followed(Occ{V: f.G().VertexOf(o.Node), Node: o.Node}, f.Occs(clearOf(fld), 0), exitSuccess)
			if !res.OK {
				res2 := f.Dominated(Occ{V: f.G().VertexOf(o.Node), Node: o.Node}, f.Occs(clearOf(fld), 0))
				// a Clear before the restart only helps if nothing can return successfully in between without it: require it to dominate every success exit too
				if res2.OK {
					res = res2
				}
			}
			r.Order(res, f, "id space restarted ⇒ "+fld.Name()+" cleared on every success path", o.Node, "after nextFileID is reset a success return is reachable without "+fld.Name()+".Clear()")
		}
	}
	r.Exists(n >= 1, w.F("badger.DB.dropAll"), "id-space restart site", nil, "no constant store to levelsController.nextFileID (dropAll's restart)")
}

// R29.6: a table is dropped whole only if ONE dropped prefix covers both of its ends.
func ruleR29_6(c *Check) {
	w := c.W
	r := c.Rule("R29.6", "E6", 1, "compactBuildTables.keepTable drops a table without reading it only when its smallest and its biggest user key both start with the same dropped prefix (the two HasPrefix tests use the same prefix variable of one iteration over dropPrefixes): then, and only then, every key in between has that prefix too",
		"with several prefixes a table whose ends match two different prefixes also holds the keys between them: dropping it whole deletes keys that start with none of the prefixes")
	f := w.F("badger.levelsController.compactBuildTables")
	// the closure (whatever it is called) that ranges over the dropped prefixes; the function itself
	// if that loop was written in place
	dpF := w.Field("badger.compactDef.dropPrefixes")
	kt := f
	var find func(g *Fn)
	find = func(g *Fn) {
		for _, l := range g.Lits {
			hit := false
			l.walk(func(x ast.Node) bool {
				if rs, ok := x.(*ast.RangeStmt); ok && w.fieldOf(rs.X) == dpF {
					hit = true
				}
				return true
			})
			if hit {
				kt = l
				return
			}
			find(l)
		}
	}
	find(f)
	hp := w.Obj("bytes.HasPrefix")
	n := 0
	var k keyer
	kt.walk(func(x ast.Node) bool {
		rs, ok := x.(*ast.ReturnStmt)
		if !ok || len(rs.Results) != 1 {
			return true
		}
		if tv := w.Info.Types[rs.Results[0]]; tv.Value == nil || tv.Value.String() != "false" {
			return true
		}
		n++
		var small, big types.Object
		for _, g := range w.Guards(kt, rs) {
			call, isCall := g.Cond.(*ast.CallExpr)
			if !isCall || !g.Val || w.Callee(call) != hp || len(call.Args) != 2 {
				continue
			}
			pid, isId := unparen(call.Args[1]).(*ast.Ident)
			if !isId {
				continue
			}
			inner := unparen(w.Origin(kt, call.Args[0]))
			if pk, isPK := inner.(*ast.CallExpr); isPK && w.Callee(pk) == types.Object(w.Func("y.ParseKey")) && len(pk.Args) == 1 {
				inner = unparen(w.Origin(kt, pk.Args[0]))
			}
			if mc, isM := inner.(*ast.CallExpr); isM && w.Callee(mc) != nil {
				switch w.Callee(mc).Name() {
				case "Smallest":
					small = w.Use(pid)
				case "Biggest":
					big = w.Use(pid)
				}
			}
		}
		okv := small != nil && big != nil && small == big
		// the shared prefix is the variable of a loop over the dropped prefixes
		if okv {
			inRange := false
			for p := w.parentOf(rs); p != nil; p = w.parentOf(p) {
				if rg, isR := p.(*ast.RangeStmt); isR {
					if vid, isId := rg.Value.(*ast.Ident); isId && w.Info.Defs[vid] == small {
						inRange = true
					}
				}
			}
			okv = inRange
		}
		r.Check(okv, kt, k.key("whole-table drop: both ends under the same prefix", w, rs), rs, "the table is dropped whole without its smallest and biggest key being tested against the same prefix")
		return true
	})
	r.Exists(n >= 1, kt, "whole-table drop site", nil, "keepTable never returns false")
}

func propC29(c *Check) {
	ruleR29_6(c)
	ruleR03_3(c) // a commit refused during the drop gives its timestamp back: the database keeps accepting transactions afterwards
	ruleR29_5(c)
	ruleR29_4(c)
	ruleR29_1(c)
	ruleR29_2(c)
	ruleR29_3(c)
	ruleR03_7(c)
	ruleR08_1(c)
	ruleR08_4(c)
}
